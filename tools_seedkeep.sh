#!/bin/bash
# usage: tools_seedkeep.sh <PROP> <srcdir with patch.diff demo.py meta.json> <seed-id>
# verifies: demo passes on HEAD, fails with the patch; then stores under /verif/seeded/<seed-id>/
PROP=$1; SRC=$2; ID=$3
WT=$(mktemp -d /tmp/seedwt.XXXXXX); rmdir $WT
git -C /repo worktree add -q --detach $WT HEAD || exit 2
cd $WT
timeout 300 /venv/bin/python $SRC/demo.py $WT >/tmp/seedkeep.$$.a 2>&1; rc0=$?
git apply $SRC/patch.diff || { echo "patch does not apply"; cd /; git -C /repo worktree remove --force $WT; exit 2; }
/venv/bin/python -c "import sys; sys.path.insert(0,'$WT'); import compileall; sys.exit(0 if compileall.compile_dir('$WT/frontend', quiet=1) and compileall.compile_dir('$WT/toolkit', quiet=1) and compileall.compile_dir('$WT/schemes', quiet=1) and compileall.compile_dir('$WT/data_persistence', quiet=1) else 1)"; rcc=$?
timeout 300 /venv/bin/python $SRC/demo.py $WT >/tmp/seedkeep.$$.b 2>&1; rc1=$?
echo "$ID: demo on HEAD exit=$rc0, compile=$rcc, demo with patch exit=$rc1 ($(tail -1 /tmp/seedkeep.$$.b | cut -c1-150))"
cd /; git -C /repo worktree remove --force $WT
if [ $rc0 -eq 0 ] && [ $rc1 -ne 0 ] && [ $rcc -eq 0 ]; then
  mkdir -p /verif/seeded/$ID && cp $SRC/patch.diff $SRC/demo.py $SRC/meta.json /verif/seeded/$ID/ && echo "kept $ID"
else echo "NOT KEPT $ID"; fi
rm -f /tmp/seedkeep.$$.*
