#!/bin/bash
declare -A CH
CH[r1]="C14 C04 C01 C05"; CH[r2]="C16 C01 C06"; CH[r3]="C15 C01"; CH[r4]="C17 C01 C02"; CH[r5]="C19"; CH[r6]="C20"
CH[r7]="C01 C02 C05 C06 C07 C03 C04 C08"; CH[r8]="C03 C08 C01 C07"; CH[r9]="C12 C10 C09 C13"; CH[r10]="C10 C12 C13 C09"
CH[r11]="C11 C09 C13"; CH[r12]="C01 C02 C05 C06 C04"; CH[r13]="C09 C10"; CH[r14]="C18 C15 C01"
# batch 2
CH[r15]="C01 C02 C05 C06 C07 C04"; CH[r16]="C01 C02 C05 C06 C07 C04"; CH[r17]="C01 C02 C05 C06 C07 C04"; CH[r18]="C01 C02 C03 C08"
CH[r19]="C01 C06 C03 C07"; CH[r20]="C08 C03 C01"; CH[r21]="C16 C08 C01"; CH[r22]="C15 C01"; CH[r23]="C14 C01 C04"; CH[r24]="C20"
CH[r25]="C19"; CH[r26]="C10 C12 C13 C09"; CH[r27]="C11 C09 C13"; CH[r28]="C11 C09"
# batch 3
CH[r29]="C01 C02 C05 C06 C07 C04 C08"; CH[r30]="C01 C02 C05 C06 C04"; CH[r31]="C01 C02 C05 C06 C04"; CH[r32]="C03 C01 C07"
CH[r33]="C08 C01 C03"; CH[r34]="C14 C04 C01"; CH[r35]="C17 C01 C03"; CH[r36]="C19"; CH[r37]="C20"; CH[r38]="C12 C10 C09 C13"
CH[r39]="C10 C12 C13 C09"; CH[r40]="C13 C10 C12 C09"; CH[r41]="C11 C09 C13"; CH[r42]="C09 C11"
# batch 4
CH[r43]="C09 C11"; CH[r44]="C09"; CH[r45]="C12 C10 C09 C13"; CH[r46]="C10 C12 C13 C09"; CH[r47]="C11 C09 C13"; CH[r48]="C11 C09 C13"
CH[r49]="C01 C02 C05 C06 C04 C07"; CH[r50]="C01 C02 C03 C07 C08"; CH[r51]="C01 C02 C05 C06 C04"; CH[r52]="C01 C02 C05 C06 C04 C07"
CH[r53]="C16 C01 C08"; CH[r54]="C15 C14 C04 C01"; CH[r55]="C18 C17 C15 C01"; CH[r56]="C19 C20"
LIST="$@"; [ -z "$LIST" ] && LIST=$(seq -f 'r%g' 1 56)
for r in $LIST; do
  WT=/tmp/negwt.$r; git -C /repo worktree add -q --detach $WT HEAD
  (cd $WT && git apply /verif/refactors/$r/patch.diff) || { echo "$r PATCH DOES NOT APPLY"; git -C /repo worktree remove --force $WT; continue; }
  for c in ${CH[$r]}; do
    cd /verif
    SSEPY_REPO=$WT ./check $c --tier quick > /tmp/neg.$r.$c.log 2>&1; rc=$?
    echo "$r $c exit=$rc $(grep -cE '^VIOLATION' /tmp/neg.$r.$c.log) violations, $(grep -cE '^DRIFT|FIDELITY' /tmp/neg.$r.$c.log) drift lines; $(grep -E 'MACHINERY' /tmp/neg.$r.$c.log | head -1 | cut -c1-150)"
  done
  git -C /repo worktree remove --force $WT
done
echo ALLDONE
