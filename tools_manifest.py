#!/usr/bin/env python3
"""Regenerates MANIFEST.json from the table below (kept as code so it is always valid)."""
import json, os
HERE = os.path.dirname(os.path.abspath(__file__))
CHECKS = {
 "C10": dict(level="model_checking",
   text="TLC enumerates every request history of the 3-state reference machine (ServerSM) up to depth 4/5 over the 9-symbol alphabet of the property and checks ForwardOnly/WriteOnce on it; every history (plus random longer ones) is replayed through the real connection handler on a fake websocket and every recorded trace (replies + projected durable state after every event + restart probe) is validated by TLC against Trace_ServerSM.",
   ref="5/C10", note="fake websocket stands in for the websockets legacy protocol (refusal = 1011 closure, verified against a loopback socket); cleanup delay gated; AES/HMAC trusted",
   technique="TLA+ reference state machine, TLC-enumerated histories replayed into the handler, TLC trace validation"),
 "C12": dict(level="model_checking",
   text="Layer B (ServerImpl.tla: one action per await-to-await segment of create_service / the receive loop / the cleanup task, lock, turn queue, durable record) is model-checked exhaustively for 2x2 and 3x1 connections x requests against Serialised, NoRollback, WriteOnce, AckDurable, SnapFresh and (under fairness) EventuallyServed; the pre-fix model ServerImplOld must violate each clause (sensitivity). TLC-generated schedules of external events for up to 3 connections (exhaustive at small bounds, -simulate with explicit loop iterations) are executed on the real ServicesManager over a fake websocket; every reply, server closure and external event is logged in true order with the projected durable record and validated by TLC against Trace_Overlap (Layer A), ending with a restart + probe connection.",
   ref="5/C12", note="stock asyncio loop with harness-injected iterations; fake websocket; cleanup delay is a gate; Layer B assumes asyncio ordering fact (A1) stated in the spec",
   technique="TLA+ implementation-shaped model checked by TLC; TLC-generated schedules replayed on the real stack; TLC trace validation against Layer A"),
 "C13": dict(level="model_checking",
   text="Layer B (Persist.tla, PersistClient.tla: each persisting handler as its sequence of file-system operations, the loaders, a kill between any two operations with the three outcomes of a file open for writing, a retrying operator) is model-checked for Usable, MetaNeverTorn, ReportedDurable and, under fairness, Reaches(done); the pre-fix variant must violate Usable. The FS-operation log recorded from each real handler must equal the model's program (else DRIFT). Every crash point (component, handler, operation k, before/after, resolution) is then executed on the real client and server with file-system interposition, the component restarted on the same directory, the workflow continued, and the run validated by TLC against Trace_CrashRecovery (Layer A over ClientSM: step happened fully or not at all, handshake succeeds and reports that state, retried steps accepted, final searches correct).",
   ref="5/C13", note="process death emulated in-process (BaseException at the operation, later mutations refused, open files left empty/half/full); buffered writers reach the disk at close; loopback websocket; PiBas default configuration",
   technique="TLA+ crash model checked by TLC; exhaustive crash-point enumeration on the real handlers; TLC trace validation"),
 "C11": dict(level="model_checking",
   text="TLC enumerates every history of the client reference machine (ClientSM: five flags, key version, server state; prerequisite relation of frontend/README.md) over 7 operations (incl. create with an uninstantiable configuration) up to depth 4/5 and checks KeyWriteOnce, FlagsMonotone, Prereq, Searchable; every history plus perturbed workflows is replayed with the real client Service (fresh object per operation, closed as commands.py does) against the real server on a loopback websocket; after every operation the persisted flags, key-file version, service directories, file digests and server state are projected and TLC validates the trace against Trace_ClientSM (refused operations must leave every persisted byte unchanged).",
   ref="5/C11", note="PiBas default configuration; in-process client+server over loopback websocket; server cleanup delay shortened",
   technique="TLA+ reference state machine, TLC-enumerated histories replayed into the real client, TLC trace validation"),
 "C09": dict(level="model_checking",
   text="TLC enumerates (MC_Workflow over ClientSM) all 432 placements of client re-creation and server restart in the gaps of the documented workflow and checks the model never gets stuck and answers every search correctly; placements (a seeded sample per scheme in quick, all in thorough) are executed for each of the nine schemes with the real client Service and the real server over a loopback websocket; the delivered result of every search (present and absent keywords) is compared with the database and the whole run (outcomes, persisted flags, server state) is validated by TLC against Trace_ClientSM.",
   ref="5/C09", note="in-process client+server over loopback websocket; capacity parameters of SSE-1/SSE-2 fitted to the database; CLI processes not exercised in quick",
   technique="TLA+ workflow model, TLC-enumerated placements replayed end to end, TLC trace validation"),
 "C18": dict(level="model_checking",
   text="TLC checks 45 algebraic laws of the list-of-bits model BitVec.tla against integer arithmetic over every bit string of length <= 8 (pairs: second operand <= 5 quick / <= 8 thorough) and emits that domain. The driver then calls every public operation of toolkit.bits.Bitset and the halving helpers on exactly that domain, exhaustively (all values, all pairs, all indices, shift and cut amounts, all slices for small lengths), on the boundary values 0, 2^k-1, 2^k, 2^k+1 for k <= 300 and on random values up to length 300. Each of the 2.7e5 (quick) / 2.5e6 (thorough) calls is one trace record judged independently by TLC against the model (Trace_BitVec), refusals included.",
   ref="5/C18", note="trusted: harness conversions int<->bit list; results observed through len(x)/int(x). Lengths 9..300 are sampled (boundary + random), not exhaustive. Out of domain: negative ints, non-Bitset operands, out-of-range indices.",
   technique="TLA+ functional reference model; TLC-checked model laws on the exhaustive small domain; TLC trace validation of recorded calls of the real Bitset"),
 "C17": dict(level="model_checking",
   text="TLC proves the round-trip laws of Codec.tla on a small exhaustive domain (ParseBySize/ParseByCount(Partition(ids)) = ids, block count ceil(n/cap), equal block lengths and zero padding, split/join, int<->bytes, xor involution, hex and UTF-8 well-formedness; sizes 1..3, capacities 1..4, n <= 4/6, identifiers over {0,1} bytes not all zero) and exhibits the two excluded cases as counterexamples. The driver calls the real toolkit.database_utils / bytes_utils / list_utils functions over the property's ranges (sizes 1..40, capacities 1..70, n 0..300, ints to 512 bits, JSON database conversion and hex/int/raw/utf8 outputs, plus all small cases); each of the 4.2e4 (quick) / 2.7e5 (thorough) calls and real-code round trips is judged independently by TLC against Codec.tla (Trace_Codec).",
   ref="5/C17", note="trusted: harness conversions (bytes<->lists, int<->bit lists, str<->code points), json.load. The large ranges are sampled; only the small domain is exhaustive. utf8 output judged relationally.",
   technique="TLA+ functional reference model; TLC-checked round-trip laws with exhibited exclusions; TLC trace validation of recorded calls and real-code round trips"),
 "C15": dict(level="model_checking",
   text="TLC model-checks spec/prim/Feistel.tla (the unbalanced bit Feistel network and the 3-round byte Feistel as the code wires them, round function/PRF abstract) over every round function for n <= 4 (2 rounds) and n <= 3 (4 rounds), drawn round functions for n <= 8/10 at 10 rounds, every PRF graph of the byte Feistel over a tiny alphabet and every single round, checking complete/length/one-to-one/onto/inverse on the computed tables; instances that must fail (odd rounds on odd n, n = 1) are required to fail. The real BitwiseFFX, BitwiseFPEPRP, LubyRackoffPRP and HmacLubyRackoffPRP are driven with single calls at widths 2..2100, complete tables for n = 2..9/12, right- and wrong-length keys/messages, and sampled message sets for 2..64-byte messages (all 65536 2-byte messages in thorough). Each recorded call or table is judged by TLC against Trace_Feistel: Layer A is the property; Layer B re-runs the network with the round function read from the recorded round()/PRF/hmac calls and is reported as drift.",
   ref="5/C15", note="hmac/hashlib trusted (round function and PRF abstract, graphs read from the recording via attribute proxies); widths above 12 and 4..64-byte messages sampled; wiring changes that keep the map a length-preserving bijection show as DRIFT; pseudo-randomness itself is not checked",
   technique="TLA+ Feistel model with abstract round function model-checked by TLC over all/drawn round functions; TLC trace validation of recorded calls and complete tables of the real ciphers"),
 "C01": dict(level="model_checking",
   text="Layer B (Layouts.tla: the nine index layouts as functions of the length profile and numeric configuration, literal ceilings/logarithms/case splits) is explored by TLC through MC_Profiles for every scheme x grid configuration over all length profiles up to the bounds (one per multiset): NoRaiseOnValid, ShapeFunctionOfPi, UniformTables. Every valid profile TLC reaches (plus a shuffled keyword order, plus random larger profiles with default configurations) is instantiated as a concrete valid database and run through the real KeyGen/EDBSetup/TokenGen/Search for every keyword; each case is one record judged by TLC against SSEFunctional (Trace_SSE): setup must not raise, each result must be the posting list in order (as a set for DP17). The projected index shape must equal Layouts!Shape (DRIFT otherwise).",
   ref="5/C01", note="ideal cryptography in the layout model; SSE-1 capacity read as N < param_s; SSE-2 param_n fitted; bounds: <=3-5 keywords, N <= 8..20 per scheme, tiny block parameters so that every case boundary is inside the bounds",
   technique="TLA+ layout model explored by TLC over all small length profiles; every explored case replayed on the real scheme; TLC trace validation"),
 "C02": dict(level="model_checking",
   text="Same engine and cases as C01, searching keywords that are NOT in the database: random ones and ones adversarially close to a stored keyword (prefix, suffix, extension by \\x01 and by \\x00, one-bit flip, doubled), for every scheme x grid configuration x length profile explored by TLC in MC_Profiles. Each case is judged by TLC against SSEFunctional (Trace_SSE): no exception and an empty result (CorrectAbsent / SearchNoRaise:absent).",
   ref="5/C02", note="as C01; absent keywords respect the scheme's keyword-length limit and have no leading NUL",
   technique="TLA+ layout model explored by TLC; explored cases replayed with absent keywords; TLC trace validation"),
 "C14": dict(level="model_checking",
   text="TLC proves on MC_SKE (up to 254k states) that literal PKCS7 Unpad inverts Pad for every message length 0..80 over all padding-relevant tails, that Pad's image is exactly ValidPad, the length formula, and the iv-prefix/offset framing over an abstract invertible core. Scripts on the real AESxCBC (every key length x every |m| 0..80 x PKCS7-relevant contents, longer messages, repeated encryptions, wrong-key decryptions, every declared-length violation, non-permitted constructor arguments) are recorded with their Cipher core calls and os.urandom draws. Every trace is validated by TLC against Trace_SKE: ct = iv . CBC[k,iv,Pad(m)] with iv a fresh in-call random draw, |ct| formula, Decrypt(Encrypt) = id, wrong key in Raised or Msg minus {m}, contract breaks => ValueError, IVs pairwise distinct over the run.",
   ref="5/C14", note="AES and CBC inside `cryptography` trusted (abstract core read from recorded calls, cross-checked against a direct AES-CBC call); randomness observed at os.urandom as seen from the aes module; IV freshness and wrong-key behaviour observed on the sampled calls, not proved; decrypt structure / invalid padding => ValueError reported as drift only",
   technique="TLA+ reference construction with abstract core, TLC model checking of the padding/framing theorems, module-attribute recorders, TLC trace validation of every call"),
 "C16": dict(level="model_checking",
   text="TLC checks on MC_PHash (toy core, all four digest sizes, output lengths on both sides of every digest-size multiple) that the RFC 5246 P_hash assembly and the counter-mode hash assembly are defined on exactly the calls of the construction, undefined if any one is missing, yield exactly n bytes, and are prefix-consistent, and that the counter encoding is 1-based minimal big-endian. Every real HmacPRF / hash-wrapper call (4 digests + 2 XOFs, key lengths 0..80, messages 0..200, outputs 1..200 each covered, boundary grids, declared-length violations, near-collision sets) is recorded with its hmac.new/hashlib.new core objects and validated by TLC against Trace_PHash: output = Take(assembly of the recorded core values, n), core = standard-library value on the recorded input, |out| = n, deterministic across instances, pairwise distinct over sampled sets, contract breaks => ValueError.",
   ref="5/C16", note="HMAC / SHA / MD5 / SHAKE of the standard library trusted (abstract core, each recorded value compared with a direct stdlib call); the documented hash expansion is taken from toolkit/hash.py; distinctness observed on sampled sets; the exact core-call set is Layer B drift only",
   technique="TLA+ reference construction over an abstract HMAC/hash graph read from the trace, TLC model checking of construction theorems, module-attribute recorders, TLC trace validation of every call"),
 "C05": dict(level="model_checking",
   text="TLC (MC_Profiles over Layouts.tla) checks on the layout model, for every scheme x grid configuration and all length profiles up to the bounds, that equal public size parameter pi_S implies equal shape (ShapeFunctionOfPi) and that every keyed table has one key length and one value length (UniformTables), and lists the profiles with their pi_S. The harness groups them into equivalence classes, builds every member with the real EDBSetup (fresh key, fresh contents), projects each index to per-container entry counts and (length, count) pairs, adds random larger classes per scheme, and TLC judges every class against Trace_Shape: SamePi (pi_S recomputed in TLA+), ShapeEqual, UniformPadding.",
   ref="5/C05", note="shape projection walks the EDB object's containers (as serialized by pickle); integers counted as one width; classes beyond the model bounds are sampled",
   technique="TLA+ layout/shape model checked by TLC; TLC-enumerated equivalence classes built on the real schemes; relational TLC trace validation"),
}
ALL = ["C%02d" % i for i in range(1, 21)]
def main():
    checks = []
    for pid in ALL:
        if pid not in CHECKS: continue
        c = CHECKS[pid]
        checks.append({
            "property_id": pid,
            "quick_cmd": "./check %s --tier quick" % pid,
            "thorough_cmd": "./check %s --tier thorough" % pid,
            "evidence_file": "evidence/%s.json" % pid,
            "replay_cmd_template": "./check %s --replay {path}" % pid,
            "engine": "tlc",
            "level_claimed": {"category": c["level"], "text": c["text"], "design_ref": c["ref"]},
            "level_note": c["note"],
            "technique": c["technique"],
        })
    m = {
        "version": 1,
        "setup_cmd": "./setup.sh",
        "hooks": {
            "guard": "SSEPY_VERIF",
            "enable": "no source hooks: observation is by public API, module-attribute proxies, fake websocket and file-system interposition (DESIGN.md section 8)",
            "baseline_off_cmd": "cd /repo && /venv/bin/python -m pytest -ra -q -p no:cacheprovider --timeout=900 --continue-on-collection-errors",
            "source_commits": [],
            "add_only": True,
        },
        "engines": [{"name": "tlc", "path": "check", "serves_properties": [c["property_id"] for c in checks],
                     "kind_free_text": "TLA+ specifications under spec/, TLC model checking + TLC trace validation of executions of /repo driven by harness/*.py"}],
        "checks": checks,
        "not_applicable": [{"property_id": p, "reason": "check not built yet (work in progress; see DESIGN.md section 10)"} for p in ALL if p not in CHECKS],
        "notes": "See DESIGN.md. known_findings.json lists open findings and fixed defects.",
    }
    with open(os.path.join(HERE, "MANIFEST.json"), "w") as fh:
        json.dump(m, fh, indent=1)
main()
