---------------------------- MODULE Trace_Config ----------------------------
(***************************************************************************)
(* Validation of recorded pipeline runs for C08: one record per            *)
(* (configuration, database) - the abstract configuration as the grid      *)
(* encodes it, the length profile, the facts about the concrete database   *)
(* (identifier length, longest keyword, distinct files), the stage the     *)
(* real code stopped at ("config" | "scheme" | "keygen" | "setup" |        *)
(* "token" | "search" | "ok") and, for every search that was run, its      *)
(* outcome and the positions of the returned identifiers in the posting    *)
(* list of the searched keyword.  Every record is judged independently.    *)
(*                                                                         *)
(*   Layer A (ConfigGrid, REJECT):                                         *)
(*     MissingFieldBuilt  a required field is deleted and SSEConfig built  *)
(*     WrongAnswer:*      the database is valid for the configuration and  *)
(*                        some search returned something else than the     *)
(*                        posting list (absent keyword: the empty list)    *)
(*     Harness            the record is not a run of the pipeline          *)
(*   Layer B (DRIFT, accepted): the observed stopping stage is not in      *)
(*     ConfigGrid!StageSet for this point.                                 *)
(* The clause of an accepted record reports what TLC judged:               *)
(*   "out=<Raised|AllCorrect|WrongAnswer>;valid=<B>;exact=<B>[;DRIFT ..]"  *)
(*   valid: Layer A applied (in the grid's domain, database valid);        *)
(*   exact: Layer B predicts this point (a proper subset of the stages).   *)
(***************************************************************************)
EXTENDS ConfigGrid
Traces == JsonDeserialize(IOEnv.TRACE_FILE)
VARIABLES tid, verdict, clause
tvars == <<tid, verdict, clause>>
R == Traces[tid].ev[1]

Early == {"config", "scheme", "keygen", "setup"}
Raised(x) == x.out = "raised"
WellFormed ==
    /\ R.scheme \in SchemeNames
    /\ R.stage \in Early \cup {"token", "search", "ok"}
    /\ Len(R.p) >= 1 /\ \A i \in 1..Len(R.p) : R.p[i] >= 1
    /\ \A i \in 1..Len(R.searches) : R.searches[i].kw \in 0..Len(R.p) /\ R.searches[i].out \in {"result", "raised"}
    /\ (R.stage \in Early => R.searches = <<>>)
    /\ (R.stage = "ok" => R.searches # <<>> /\ \A i \in 1..Len(R.searches) : ~Raised(R.searches[i]))
    /\ (R.stage \in {"token", "search"} => \E i \in 1..Len(R.searches) : Raised(R.searches[i]))

FirstWrong == CHOOSE i \in 1..Len(R.searches) :
                  SearchWrong(R.scheme, R.p, R.searches[i]) /\ \A j \in 1..(i - 1) : ~SearchWrong(R.scheme, R.p, R.searches[j])
Why ==
    IF ~WellFormed THEN "Harness"
    ELSE IF ~MissingFieldRefused(R.scheme, R.cfg, R.stage) THEN "MissingFieldBuilt"
    ELSE IF ~RefusedOrCorrect(R.scheme, R.cfg, R.p, R.d, R.stage, R.searches)
         THEN (IF R.searches[FirstWrong].kw > 0 THEN "WrongAnswer:present" ELSE "WrongAnswer:absent")
    ELSE "ok"

Observed == IF WrongAnswer(R.scheme, R.p, R.searches) THEN "wrong" ELSE R.stage
Predicted == StageSet(R.scheme, R.cfg, R.p, R.d)
Report ==
    "out=" \o OutcomeA(R.scheme, R.p, R.stage, R.searches) \o ";valid=" \o ToString(InDomain(R.scheme, R.cfg) /\ DbValid(R.scheme, R.cfg, R.p, R.d))
    \o ";exact=" \o ToString(Predicted # AnyStage)
    \o (IF Observed \in Predicted THEN "" ELSE ";DRIFT observed " \o Observed \o " predicted " \o ToString(Predicted))

TraceInit == tid \in 1..Len(Traces) /\ verdict = "run" /\ clause = ""
Judge == /\ verdict = "run"
         /\ verdict' = (IF Why = "ok" THEN "ACCEPT" ELSE "REJECT")
         /\ clause' = (IF Why # "ok" THEN Why ELSE Report)
         /\ UNCHANGED tid
TraceSpec == TraceInit /\ [][Judge]_tvars
Done == verdict # "run" => PrintT(<<"V", Traces[tid].tid, verdict, 1, clause>>)
=============================================================================
