--------------------------- MODULE MC_Boundaries ---------------------------
(***************************************************************************)
(* Spec-driven boundary finder for C01 / C02 / C05: beyond the exhaustive  *)
(* small instance of MC_Profiles, the layouts have thresholds that only    *)
(* larger databases reach (pointer width at 256 array slots, ANSS16 length *)
(* field at t = 8, level count at powers of two, Pi2Lev case limits at the *)
(* default block size, DP17 level set changes).  TLC evaluates Layouts     *)
(* over the one- and two-keyword profiles <<n>>, <<n,1>>, <<n,n>> for      *)
(* n <= MaxN and emits those at which the SIGNATURE of the predicted index *)
(* (tables with their entry lengths and the predicted outcome) differs     *)
(* from that of the next n: the profiles on either side of every           *)
(* threshold.  The harness replays exactly those on the real schemes.      *)
(***************************************************************************)
EXTENDS SSEFunctional, TLC
CONSTANTS Scheme, Cfg, MaxN

Lens(q) == {q[i][1] : i \in 1..Len(q)}
Sig(p) == IF Outcome(Scheme, p, Cfg) # "built" \/ ~Valid(Scheme, p, Cfg) THEN <<"refused">>
          ELSE LET sh == Shape(Scheme, p, Cfg) IN
               <<"built", CounterBytes(MaxCounter(Scheme, p, Cfg)), {<<sh[i].name, Lens(sh[i].k), IF sh[i].k = <<>> /\ Scheme = "DP17.Pi" THEN {} ELSE Lens(sh[i].v)>> : i \in 1..Len(sh)}>>
Forms(n) == {<<n>>, <<n, 1>>, <<n, n>>}
Next1(p) == [i \in 1..Len(p) |-> IF p[i] = 1 /\ i > 1 THEN 1 ELSE p[i] + 1]

VARIABLE p
Init == p \in UNION {Forms(n) : n \in 1..MaxN}
Next == UNCHANGED p
Spec == Init /\ [][Next]_p
IsBoundary == Sig(p) # Sig(Next1(p))
Ok(q) == Valid(Scheme, q, Cfg) /\ Outcome(Scheme, q, Cfg) = "built"
Emit == IsBoundary => PrintT(<<"H", p, Next1(p), Ok(p), Ok(Next1(p))>>)
=============================================================================
