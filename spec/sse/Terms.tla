------------------------------- MODULE Terms -------------------------------
(***************************************************************************)
(* Property C04: the stored index and the search tokens never expose a     *)
(* keyword or an identifier, and the encryption of index entries is        *)
(* randomized.                                                             *)
(*                                                                         *)
(* LAYER A (first part).  Stored items and tokens are TERMS over           *)
(*     Plain(kind, i)   a keyword ("kw") or identifier ("id") in the clear *)
(*     Const(s)         a public constant (counter, tag, position, zeros)  *)
(*     Key(n)           a component of the master key                      *)
(*     Rand(i)          the i-th fresh random string of the run            *)
(*     PRF(k, m)  PRP(k, m)  H(m)  E(k, m, nonce)                          *)
(*     Xor(a, b)  Cat(<<t1, ..., tn>>)  Part(i, t)  (i-th slice of t)      *)
(* Visible(t) is the set of subterms of t that are not under a PRF, PRP,   *)
(* H or E.  An index is a sequence of entries [tab, lvl, k, v, ct]; `ct`   *)
(* says that the value is a ciphertext-bearing entry (a ciphertext, a      *)
(* concatenation of ciphertexts, or padding indistinguishable from one).   *)
(*     NoPlainLeaf        no Plain(keyword) / Plain(identifier) is visible *)
(*                        in the index or in a token (SSE-2 stores         *)
(*                        identifiers in the clear by construction)        *)
(*     EntriesDistinct    the ciphertext-bearing items of one index are    *)
(*                        pairwise distinct                                *)
(*     TwoSetupsDisjoint  the ciphertext-bearing items of two indexes of   *)
(*                        the same (key, database) are disjoint            *)
(* The same three statements over byte-level observations of a real run    *)
(* are in Trace_Leak.tla.                                                  *)
(*                                                                         *)
(* LAYER B (second part).  For each of the nine schemes the term-level     *)
(* index its _Enc builds, keyword by keyword, and its token: labels are    *)
(* PRF / PRP / H terms of the keyword under (derived) keys, ciphertexts    *)
(* are E(key term, payload, nonce) where every call of Encrypt takes the   *)
(* next nonce of the run (the calls whose result is only used for its      *)
(* length included), padding and dummy keywords / identifiers are Rand.    *)
(* Array positions and bucket choices are not modelled (C01 / C06 do       *)
(* that); counts are (block, level and padding arithmetic as in Layouts).  *)
(***************************************************************************)
EXTENDS SSEFunctional, TLC

(* ------------------------------ terms ------------------------------ *)
Plain(kind, i) == <<"Plain", kind, i>>
Const(s) == <<"Const", s>>
Key(n) == <<"Key", n>>
Rand(i) == <<"Rand", i>>
PRF(k, m) == <<"PRF", k, m>>
PRP(k, m) == <<"PRP", k, m>>
H(m) == <<"H", m>>
E(k, m, n) == <<"E", k, m, n>>
Xor(a, b) == <<"Xor", a, b>>
Cat(q) == <<"Cat", q>>
Part(i, t) == <<"Part", i, t>>
NoneT == Const("none")          \* an unused array slot (Python None)
Slot == Const("slot")           \* the (implicit) position of an array element: not a stored byte string
Op(t) == t[1]

SeqToSet(q) == {q[i] : i \in 1..Len(q)}
RECURSIVE Flat(_)
Flat(qq) == IF qq = <<>> THEN <<>> ELSE Head(qq) \o Flat(Tail(qq))
NoDup(q) == \A i, j \in 1..Len(q) : i < j => q[i] # q[j]

RECURSIVE Visible(_)
Visible(t) ==
    {t} \cup (CASE Op(t) = "Xor" -> Visible(t[2]) \cup Visible(t[3])
                [] Op(t) = "Cat" -> UNION {Visible(t[2][i]) : i \in 1..Len(t[2])}
                [] Op(t) = "Part" -> Visible(t[3])
                [] OTHER -> {})

(* the nonces of all E subterms of t, hidden ones included, with repetitions *)
RECURSIVE Nonces(_)
Nonces(t) ==
    CASE Op(t) = "E" -> <<t[4]>> \o Nonces(t[2]) \o Nonces(t[3])
      [] Op(t) \in {"PRF", "PRP", "Xor"} -> Nonces(t[2]) \o Nonces(t[3])
      [] Op(t) = "H" -> Nonces(t[2])
      [] Op(t) = "Part" -> Nonces(t[3])
      [] Op(t) = "Cat" -> Flat([i \in 1..Len(t[2]) |-> Nonces(t[2][i])])
      [] OTHER -> <<>>

(* ------------------------------ Layer A ------------------------------ *)
Ent(tab, lvl, k, v, ct) == [tab |-> tab, lvl |-> lvl, k |-> k, v |-> v, ct |-> ct]
StoredTerms(edb) == {edb[i].k : i \in 1..Len(edb)} \cup {edb[i].v : i \in 1..Len(edb)}
PlainVisible(S) == UNION {{x \in Visible(t) : Op(x) = "Plain"} : t \in S}
(* the only exemption the property makes *)
LeakAllowed(scheme, what) == scheme = "CGKO06.SSE2" /\ what = "id"
NoPlainLeaf(scheme, edb, toks) == \A x \in PlainVisible(StoredTerms(edb) \cup toks) : LeakAllowed(scheme, x[2])

Pieces(v) == IF Op(v) = "Cat" THEN v[2] ELSE <<v>>
CtItems(edb) == Flat([i \in 1..Len(edb) |-> IF edb[i].ct THEN Pieces(edb[i].v) ELSE <<>>])
EntriesDistinct(edb) == NoDup(CtItems(edb))
TwoSetupsDisjoint(e1, e2) == SeqToSet(CtItems(e1)) \cap SeqToSet(CtItems(e2)) = {}
NoncesFresh(e1, e2) == NoDup(Flat([i \in 1..Len(e1) |-> Nonces(e1[i].k) \o Nonces(e1[i].v)])
                             \o Flat([i \in 1..Len(e2) |-> Nonces(e2[i].k) \o Nonces(e2[i].v)]))

(* ------------------------------ Layer B: origin classes ------------------------------ *)
(* the class of a stored term = what a primitive recorder sees as the origin of the stored byte string *)
RECURSIVE Class(_)
Class(t) ==
    CASE Op(t) = "PRF" -> "prf" [] Op(t) = "PRP" -> "prp" [] Op(t) = "E" -> "enc" [] Op(t) = "H" -> "hash"
      [] Op(t) = "Rand" -> "rand" [] Op(t) = "Plain" -> "plain" [] Op(t) = "Key" -> "key"
      [] Op(t) = "Const" -> (IF t = NoneT THEN "none" ELSE IF t = Slot THEN "slot" ELSE "const")
      [] Op(t) = "Part" -> "prfpart" [] Op(t) = "Xor" -> "xor"
      [] Op(t) = "Cat" -> (IF Len(t[2]) = 1 THEN Class(t[2][1]) ELSE "cat")

(* keyed: the byte string is a function of secret key material or fresh randomness at every visible position *)
RECURSIVE Keyed(_)
KeyOK(k) == Op(k) \in {"Key", "Rand"} \/ (Op(k) \in {"PRF", "Part"} /\ Keyed(k))
Keyed(t) ==
    CASE Op(t) \in {"PRF", "PRP", "E"} -> KeyOK(t[2])
      [] Op(t) = "H" -> \E x \in Visible(t[2]) : Op(x) \in {"PRF", "PRP"} /\ Keyed(x)
      [] Op(t) = "Rand" -> TRUE
      [] Op(t) = "Part" -> Keyed(t[3])
      [] Op(t) = "Xor" -> Keyed(t[2]) \/ Keyed(t[3])
      [] Op(t) = "Cat" -> \A i \in 1..Len(t[2]) : Keyed(t[2][i])
      [] OTHER -> FALSE

ClassesOf(edb) == UNION {(IF edb[i].k = Slot THEN {} ELSE {<<edb[i].tab, "k", Class(edb[i].k)>>})
                         \cup {<<edb[i].tab, "v", Class(edb[i].v)>>} : i \in 1..Len(edb)}
TokClassesOf(toks) == {<<"token", "v", Class(t)>> : t \in toks}

(* what the code of the unchanged tree produces, per container (attribute name of the index object) and role *)
AllowedClass(s) ==
    CASE s \in {"CJJ14.PiBas", "CJJ14.PiPack"} -> {<<"D", "k", "prf">>, <<"D", "v", "enc">>, <<"token", "v", "prf">>}
      [] s \in {"CJJ14.PiPtr", "CJJ14.Pi2Lev"} ->
            {<<"D", "k", "prf">>, <<"D", "v", "enc">>, <<"A", "v", "enc">>, <<"A", "v", "none">>, <<"token", "v", "prf">>}
      [] s = "CGKO06.SSE1" ->
            {<<"A", "v", "enc">>, <<"A", "v", "rand">>, <<"T", "k", "prp">>, <<"T", "k", "rand">>, <<"T", "v", "xor">>, <<"T", "v", "rand">>,
             <<"token", "v", "prp">>, <<"token", "v", "prf">>}
      [] s = "CGKO06.SSE2" -> {<<"I", "k", "prp">>, <<"I", "v", "plain">>, <<"token", "v", "prp">>}
      [] s = "CT14.Pi" ->
            {<<"HT_list", "k", "prf">>, <<"HT_list", "k", "rand">>, <<"HT_list", "v", "enc">>, <<"HT_list", "v", "cat">>, <<"HT_list", "v", "rand">>,
             <<"token", "v", "prfpart">>}
      [] s = "ANSS16.Scheme3" ->
            {<<"HT_S", "k", "prfpart">>, <<"HT_S", "k", "rand">>, <<"HT_S", "v", "enc">>, <<"HT_S", "v", "rand">>,
             <<"HT_L_list", "k", "prfpart">>, <<"HT_L_list", "k", "rand">>, <<"HT_L_list", "v", "enc">>, <<"HT_L_list", "v", "cat">>,
             <<"HT_L_list", "v", "rand">>, <<"token", "v", "prfpart">>}
      [] s = "DP17.Pi" ->
            {<<"HT", "k", "hash">>, <<"HT", "k", "rand">>, <<"HT", "v", "xor">>, <<"HT", "v", "rand">>,
             <<"HT", "v", "hash">>,      \* level 0, bucket 0: [i || x] is all zero and the stored value is the mask H(vtag || count) itself
             <<"A_dict", "k", "const">>, <<"A_dict", "v", "cat">>, <<"token", "v", "prf">>}

(* ------------------------------ Layer B: the nine term-level constructions ------------------------------ *)
(* running state of one setup: entries so far, nonces / random strings used in the whole run, SSE-1's node      *)
(* counter, DP17's chunks waiting for the final encryption loop                                                  *)
St0 == [ents |-> <<>>, nc |-> 0, rc |-> 0, ctr |-> 1, pend |-> <<>>]
NStr(i) == Const(ToString(i))
CountTab(ents, tab, lvl) == Cardinality({i \in 1..Len(ents) : ents[i].tab = tab /\ ents[i].lvl = lvl})
(* n fresh (Rand, Rand) padding entries of a keyed table *)
PadPairs(st, tab, lvl, n, ct) ==
    [st EXCEPT !.ents = @ \o [i \in 1..n |-> Ent(tab, lvl, Rand(st.rc + 2 * i - 1), Rand(st.rc + 2 * i), ct)], !.rc = @ + 2 * n]

(* a keyword item x = [w |-> term, ids |-> sequence of terms] *)
CJJKeys(w) == [k1 |-> PRF(Key("K"), Cat(<<Const("1"), w>>)), k2 |-> PRF(Key("K"), Cat(<<Const("2"), w>>))]
(* block number j (1-based) of at most B items, zero-padded when short *)
Block(items, B, j) ==
    LET lo == (j - 1) * B + 1
        hi == Min(j * B, Len(items))
    IN SubSeq(items, lo, hi) \o (IF hi - lo + 1 < B THEN <<Const("0pad")>> ELSE <<>>)
Ptrs(n) == [i \in 1..n |-> Const("pos")]

PiBasKw(st, x) ==
    LET ks == CJJKeys(x.w)
        n == Len(x.ids)
    IN [st EXCEPT !.ents = @ \o [j \in 1..n |-> Ent("D", 0, PRF(ks.k1, NStr(j - 1)), E(ks.k2, x.ids[j], st.nc + j), TRUE)],
                  !.nc = @ + n]

PiPackKw(st, x, c) ==
    LET ks == CJJKeys(x.w)
        nb == CeilDiv(Len(x.ids), c.B)
    IN [st EXCEPT !.ents = @ \o [j \in 1..nb |-> Ent("D", 0, PRF(ks.k1, NStr(j - 1)), E(ks.k2, Cat(Block(x.ids, c.B, j)), st.nc + j), TRUE)],
                  !.nc = @ + nb]

PiPtrKw(st, x, c) ==
    LET ks == CJJKeys(x.w)
        nb == CeilDiv(Len(x.ids), c.B)
        np == CeilDiv(nb, c.b)
    IN [st EXCEPT !.ents = @ \o [j \in 1..nb |-> Ent("A", 0, Slot, E(ks.k2, Cat(Block(x.ids, c.B, j)), st.nc + j), TRUE)]
                              \o [j \in 1..np |-> Ent("D", 0, PRF(ks.k1, NStr(j - 1)), E(ks.k2, Cat(Block(Ptrs(nb), c.b, j)), st.nc + nb + j), TRUE)],
                  !.nc = @ + nb + np]

Pi2LevKw(st, x, c) ==
    LET ks == CJJKeys(x.w)
        n == Len(x.ids)
        nb == CeilDiv(n, c.B)
        n2 == CeilDiv(nb, c.Bp)
        lab == PRF(ks.k1, Const("0"))
        idBlocks == [j \in 1..nb |-> Ent("A", 0, Slot, E(ks.k2, Cat(<<Const("lvl-id")>> \o Block(x.ids, c.B, j)), st.nc + j), TRUE)]
    IN IF P2Small(n, c)
       THEN [st EXCEPT !.ents = @ \o <<Ent("D", 0, lab, E(ks.k2, Cat(<<Const("lvl-id")>> \o Block(x.ids, c.b, 1)), st.nc + 1), TRUE)>>,
                       !.nc = @ + 1]
       ELSE IF P2Medium(n, c)
       THEN [st EXCEPT !.ents = @ \o idBlocks
                                   \o <<Ent("D", 0, lab, E(ks.k2, Cat(<<Const("lvl-ptr")>> \o Block(Ptrs(nb), c.b, 1)), st.nc + nb + 1), TRUE)>>,
                       !.nc = @ + nb + 1]
       ELSE [st EXCEPT !.ents = @ \o idBlocks
                                   \o [j \in 1..n2 |-> Ent("A", 0, Slot, E(ks.k2, Cat(<<Const("lvl-ptr")>> \o Block(Ptrs(nb), c.Bp, j)), st.nc + nb + j), TRUE)]
                                   \o <<Ent("D", 0, lab, E(ks.k2, Cat(<<Const("lvl-ptr")>> \o Block(Ptrs(n2), c.b, 1)), st.nc + nb + n2 + 1), TRUE)>>,
                       !.nc = @ + nb + n2 + 1]

(* SSE-1: node j of the list is encrypted under the key stored in node j-1 (K_i0 is in the look-up table), all node keys are fresh *)
SSE1Kw(st, x) ==
    LET n == Len(x.ids)
        Kn(j) == Rand(st.rc + 1 + j)                        \* K_{i,0} .. K_{i,n-1}
        Addr(a) == PRP(Key("K1"), NStr(a))
        Node(j) == IF j < n THEN Cat(<<x.ids[j], Kn(j), Addr(st.ctr + j)>>) ELSE Cat(<<x.ids[j], Const("0"), Const("0")>>)
    IN [st EXCEPT !.ents = @ \o [j \in 1..n |-> Ent("A", 0, Slot, E(Kn(j - 1), Node(j), st.nc + j), TRUE)]
                              \o <<Ent("T", 0, PRP(Key("K3"), x.w), Xor(Cat(<<Addr(st.ctr), Kn(0)>>), PRF(Key("K2"), x.w)), FALSE)>>,
                  !.nc = @ + n, !.rc = @ + n, !.ctr = @ + n]
SSE1Pad(st, c) ==
    LET used == st.ctr - 1
        nA == Max(0, c.s - used)
        s1 == [st EXCEPT !.nc = @ + 1,                      \* one Encrypt call to learn the length of an entry
                         !.ents = @ \o [i \in 1..nA |-> Ent("A", 0, Slot, Rand(st.rc + i), TRUE)], !.rc = @ + nA]
    IN PadPairs(s1, "T", 0, Max(0, c.dsize - CountTab(st.ents, "T", 0)), FALSE)

(* SSE-2 stores the identifier itself under a PRP label of (keyword, position).  The code's second loop (extra entries *)
(* for identifiers that occur in more than param_max lists) never runs: param_max is derived from the maximal file     *)
(* size (1 MiB -> several hundred thousand) and exceeds every list count here.                                         *)
SSE2Kw(st, x) ==
    [st EXCEPT !.ents = @ \o [j \in 1..Len(x.ids) |-> Ent("I", 0, PRP(Key("K1"), Cat(<<x.w, NStr(j)>>)), x.ids[j], FALSE)]]

(* CT14: binary decomposition of the list length, largest chunk first; chunk 2^j goes to level j *)
RECURSIVE CTChunks(_, _)
CTChunks(n, j) == IF j < 0 THEN <<>> ELSE IF Pow2(j) <= n THEN <<j>> \o CTChunks(n - Pow2(j), j - 1) ELSE CTChunks(n, j - 1)
RECURSIVE CTEnts(_, _, _, _, _)
CTEnts(levels, off, ids, ks, nc) ==
    IF levels = <<>> THEN <<>>
    ELSE LET j == Head(levels)
         IN <<Ent("HT_list", j, PRF(ks.k0, NStr(j)), Cat([i \in 1..Pow2(j) |-> E(ks.k1, ids[off + i], nc + off + i)]), TRUE)>>
            \o CTEnts(Tail(levels), off + Pow2(j), ids, ks, nc)
CT14Kw(st, x) ==
    LET n == Len(x.ids)
        f == PRF(Key("K"), x.w)
        ks == [k0 |-> Part(1, f), k1 |-> Part(2, f)]
    IN [st EXCEPT !.ents = @ \o CTEnts(CTChunks(n, FloorLog2(n)), 0, x.ids, ks, st.nc), !.nc = @ + n]
RECURSIVE CT14PadFrom(_, _, _)
CT14PadFrom(st, i, t) ==
    IF i > t THEN st
    ELSE CT14PadFrom(PadPairs([st EXCEPT !.nc = @ + 1], "HT_list", i, Max(0, Pow2(t - i) - CountTab(st.ents, "HT_list", i)), TRUE), i + 1, t)

(* ANSS16: one PRF call per keyword, cut into two labels and two keys; the list is padded to 2^p with random identifiers *)
ANSSKw(st, x) ==
    LET n == Len(x.ids)
        pw == CeilLog2(n)
        f == PRF(Key("K"), x.w)
        all == x.ids \o [i \in 1..(Pow2(pw) - n) |-> Rand(st.rc + i)]
    IN [st EXCEPT !.ents = @ \o <<Ent("HT_L_list", pw, Part(1, f), Cat([i \in 1..Pow2(pw) |-> E(Part(2, f), all[i], st.nc + i)]), TRUE),
                                  Ent("HT_S", 0, Part(3, f), E(Part(4, f), Const("n"), st.nc + Pow2(pw) + 1), TRUE)>>,
                  !.nc = @ + Pow2(pw) + 1, !.rc = @ + (Pow2(pw) - n)]
RECURSIVE ANSSPadFrom(_, _, _)
ANSSPadFrom(st, i, t) ==
    IF i > t THEN st
    ELSE ANSSPadFrom(PadPairs([st EXCEPT !.nc = @ + 1], "HT_L_list", i, Max(0, ANSSCap(t, i) - CountTab(st.ents, "HT_L_list", i)), TRUE), i + 1, t)
ANSSPad(st, t) ==
    LET s1 == ANSSPadFrom(st, 0, t)
    IN PadPairs([s1 EXCEPT !.nc = @ + 1], "HT_S", 0, Max(0, Pow2(t) - CountTab(s1.ents, "HT_S", 0)), TRUE)

(* DP17: level of a list = the smallest stored level with L * 2^level >= n; one hash-table entry per chunk; the     *)
(* identifiers are encrypted in the final loop over the buckets (here: one bucket per chunk, filled with random      *)
(* strings, plus one bucket of random strings only per level)                                                        *)
DPLevelOf(n, levels, c) ==
    LET ok == {i \in levels : c.L * Pow2(i) >= n}
    IN IF ok = {} THEN CHOOSE i \in levels : \A j \in levels : j <= i ELSE CHOOSE i \in ok : \A j \in ok : i <= j
DP17Kw(st, x, p, c) ==
    LET n == Len(x.ids)
        lv == DPLevelOf(n, DPLevels(p, c), c)
        nch == CeilDiv(n, Pow2(lv))
        tag == PRF(Key("k1"), x.w)
        vtag == PRF(Key("k2"), x.w)
    IN [st EXCEPT !.ents = @ \o [q \in 1..nch |-> Ent("HT", 0, H(Cat(<<tag, NStr(q)>>)), Xor(Const("level|bucket"), H(Cat(<<vtag, NStr(q)>>))), FALSE)],
                  !.pend = @ \o [q \in 1..nch |-> [lvl |-> lv, key |-> PRF(Key("k3"), x.w),
                                                   ids |-> SubSeq(x.ids, (q - 1) * Pow2(lv) + 1, Min(q * Pow2(lv), n))]]]
RECURSIVE DP17Buckets(_)
DP17Buckets(st) ==
    IF st.pend = <<>> THEN st
    ELSE LET b == Head(st.pend)
             m == Len(b.ids)
             fill == Pow2(b.lvl + 1) - m
         IN DP17Buckets([st EXCEPT !.pend = Tail(@), !.nc = @ + m, !.rc = @ + fill,
                                   !.ents = @ \o <<Ent("A_dict", b.lvl, Const("level"),
                                                       Cat([i \in 1..m |-> E(b.key, Cat(<<b.ids[i], Const("0")>>), st.nc + i)]
                                                           \o [i \in 1..fill |-> Rand(st.rc + i)]), TRUE)>>])
RECURSIVE DP17Empty(_, _)
DP17Empty(st, lvq) ==
    IF lvq = <<>> THEN st
    ELSE LET lv == Head(lvq)
         IN DP17Empty([st EXCEPT !.rc = @ + Pow2(lv + 1),
                                 !.ents = @ \o <<Ent("A_dict", lv, Const("level"), Cat([i \in 1..Pow2(lv + 1) |-> Rand(st.rc + i)]), TRUE)>>], Tail(lvq))
DP17Pad(st, p, c) ==
    LET s1 == PadPairs(st, "HT", 0, Max(0, N(p) - CountTab(st.ents, "HT", 0)), FALSE)
    IN DP17Empty(DP17Buckets(s1), SetToSortedSeq(DPLevels(p, c)))

(* ------------------------------ dispatch ------------------------------ *)
HasDummies(s) == s \in {"CT14.Pi", "ANSS16.Scheme3"}
EncKw(s, st, x, p, c) ==
    CASE s = "CJJ14.PiBas" -> PiBasKw(st, x)
      [] s = "CJJ14.PiPack" -> PiPackKw(st, x, c)
      [] s = "CJJ14.PiPtr" -> PiPtrKw(st, x, c)
      [] s = "CJJ14.Pi2Lev" -> Pi2LevKw(st, x, c)
      [] s = "CGKO06.SSE1" -> SSE1Kw(st, x)
      [] s = "CGKO06.SSE2" -> SSE2Kw(st, x)
      [] s = "CT14.Pi" -> CT14Kw(st, x)
      [] s = "ANSS16.Scheme3" -> ANSSKw(st, x)
      [] s = "DP17.Pi" -> DP17Kw(st, x, p, c)
PadAll(s, st, p, c) ==
    CASE s \in {"CJJ14.PiPtr", "CJJ14.Pi2Lev"} -> [st EXCEPT !.ents = <<Ent("A", 0, Slot, NoneT, FALSE)>> \o @]     \* slot 0 is never used
      [] s = "CGKO06.SSE1" -> SSE1Pad(st, c)
      [] s = "CT14.Pi" -> CT14PadFrom(st, 0, T(p))
      [] s = "ANSS16.Scheme3" -> ANSSPad(st, T(p))
      [] s = "DP17.Pi" -> DP17Pad(st, p, c)
      [] OTHER -> st
(* the fields of the token of keyword term w *)
Tok(s, w, c) ==
    CASE s \in {"CJJ14.PiBas", "CJJ14.PiPack", "CJJ14.PiPtr", "CJJ14.Pi2Lev"} -> <<CJJKeys(w).k1, CJJKeys(w).k2>>
      [] s = "CGKO06.SSE1" -> <<PRP(Key("K3"), w), PRF(Key("K2"), w)>>
      [] s = "CGKO06.SSE2" -> [i \in 1..c.n |-> PRP(Key("K1"), Cat(<<w, NStr(i)>>))]
      [] s = "CT14.Pi" -> <<Part(1, PRF(Key("K"), w)), Part(2, PRF(Key("K"), w))>>
      [] s = "ANSS16.Scheme3" -> [i \in 1..4 |-> Part(i, PRF(Key("K"), w))]
      [] s = "DP17.Pi" -> <<PRF(Key("k1"), w), PRF(Key("k2"), w), PRF(Key("k3"), w)>>
=============================================================================
