------------------------------ MODULE MC_Order ------------------------------
(***************************************************************************)
(* Bounded instance for C06 (i).  Cases is a sequence of                   *)
(* [s |-> scheme, c |-> numeric configuration, ps |-> profiles] (profiles  *)
(* of the bounded MC_Profiles instance with 2..4 keywords).  For every     *)
(* profile TLC enumerates ALL permutations of the keyword order, three     *)
(* keys (label functions) and the dummy-keyword splits of the padded       *)
(* schemes, builds every label table both ways as the code does and checks *)
(*   LabelOrder   label sequences sorted and equal.                        *)
(* With the sort removed or done on the value instead of the label the     *)
(* same invariant must fail somewhere (tag "T").  Every (case, profile,    *)
(* permutation) is emitted (tag "H") and replayed into the real EDBSetup.  *)
(***************************************************************************)
EXTENDS Order, TLC
CONSTANT Cases

VARIABLES ci, pi, phase, sg, k, dm, sorter
vars == <<ci, pi, phase, sg, k, dm, sorter>>
S == Cases[ci].s
C == Cases[ci].c
P == Cases[ci].ps[pi]

Perms(n) == {f \in [1..n -> 1..n] : \A i, j \in 1..n : i # j => f[i] # f[j]}
RevPerm(n) == [i \in 1..n |-> n + 1 - i]
FirstDummy(s, p) == IF ~Padded(s) \/ Pow2(T(p)) = N(p) THEN <<>> ELSE <<Pow2(T(p)) - N(p)>>
DummyChoices(s, p) ==
    {FirstDummy(s, p)} \cup (IF Padded(s) /\ Pow2(T(p)) - N(p) >= 2 THEN {<<1, Pow2(T(p)) - N(p) - 1>>} ELSE {})

Init == /\ ci \in 1..Len(Cases) /\ pi \in 1..Len(Cases[ci].ps)
        /\ phase = 0 /\ sg = <<>> /\ k = 1 /\ dm = <<>> /\ sorter = "bylabel"
Next == /\ phase = 0 /\ phase' = 1
        /\ sg' \in Perms(Len(P)) /\ k' \in Keys /\ dm' \in DummyChoices(S, P)
        /\ sorter' \in (IF k' = 2 /\ sg' = RevPerm(Len(P)) /\ dm' = FirstDummy(S, P) THEN {"bylabel", "none", "byvalue"} ELSE {"bylabel"})
        /\ UNCHANGED <<ci, pi>>
Spec == Init /\ [][Next]_vars

Holds == LabelOrderModel(sorter, S, C, k, P, sg, dm)
LabelOrder == phase = 1 /\ sorter = "bylabel" => Holds
Teeth == phase = 1 /\ sorter # "bylabel" /\ ~Holds => PrintT(<<"T", sorter, S>>)
Emit == phase = 1 /\ sorter = "bylabel" /\ k = 1 /\ dm = FirstDummy(S, P) => PrintT(<<"H", ci, pi, sg>>)
=============================================================================
