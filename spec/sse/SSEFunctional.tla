--------------------------- MODULE SSEFunctional ---------------------------
(***************************************************************************)
(* Layer A for C01, C02 (and the correctness half of C03, C07, C08):       *)
(* what KeyGen / EDBSetup / TokenGen / Search must do, stated over         *)
(* abstract databases.  A database is its length profile p (one posting    *)
(* list length per keyword); identifier j of keyword i is the pair (i,j),  *)
(* so a search result is described by the POSITIONS of the returned        *)
(* identifiers in the posting list of the searched keyword (0 = an         *)
(* identifier that is not in that list).                                   *)
(***************************************************************************)
EXTENDS Integers, Sequences, FiniteSets, Layouts

SetResult == {"DP17.Pi"}        \* result type is a set

(* validity of a database for a configuration, as the property text states it *)
Valid(s, p, c) ==
    /\ Len(p) >= 1 /\ \A i \in 1..Len(p) : p[i] >= 1
    /\ (s = "CGKO06.SSE1" => N(p) < c.s /\ Len(p) <= c.dsize)                       \* array / dictionary capacity
    /\ (s = "CJJ14.Pi2Lev" => /\ \A i \in 1..Len(p) : p[i] < c.B * c.Bp * c.bp     \* two-level limit
                              /\ FitsWidth(Pi2LevALen(p, c), c.idxw))

Iota(n) == [j \in 1..n |-> j]
Range(f) == {f[x] : x \in DOMAIN f}

(* C01: the result for a stored keyword is exactly its posting list, in order (as a set for DP17) *)
CorrectPresent(s, n, pos) ==
    IF s \in SetResult THEN Len(pos) = n /\ Range(pos) = 1..n
    ELSE pos = Iota(n)
(* C02: the result for an absent keyword is empty *)
CorrectAbsent(pos) == pos = <<>>
=============================================================================
