----------------------------- MODULE Trace_Wire -----------------------------
(***************************************************************************)
(* Trace validation for C03: every recorded pipeline execution on the real *)
(* scheme objects must be a behaviour of Wire (Layer A) in which no state  *)
(* breaks NoRaise / RoundTrip / Correct.  One trace = one pipeline; its    *)
(* events are the steps in the order they were executed:                   *)
(*   [op "Setup", scheme, p, hasc, c, kc, out]   c: numeric configuration  *)
(*                        SSEFunctional / Layouts, kc: the length          *)
(*                        parameters of KeyTokenLayout                     *)
(*   [op "New", side, out, samecfg]        samecfg: json.loads(text) = cfg *)
(*   [op "Ser", obj, out, lay]             lay: <<slot, width>> of the     *)
(*                        fields of the object that was serialized         *)
(*   [op "De", obj, out, eq, feq, beq, lay]  eq: x2 == x and x == x2 with  *)
(*                        the objects' __eq__; feq: same class and equal   *)
(*                        slots; beq: x2.serialize() = the bytes that were *)
(*                        read; lay: the fields of the object that was     *)
(*                        built                                            *)
(*   [op "TokenGen", kw, out]   [op "Search", out, pos]                    *)
(*   [op "Finish", out, pos]                                               *)
(*   [op "Foreign", obj, out]   (Layer B only) the deserializer was given  *)
(*                        an index whose header is damaged / a key or      *)
(*                        token with one byte appended                     *)
(* A step that raised is the last event of its trace.                      *)
(*                                                                         *)
(* Verdict: REJECT with the name of the broken Layer A clause              *)
(* (NoRaise:<step>, RoundTrip:<obj>, Correct:server|client), with          *)
(* ValidDomain / Malformed:<op> / Incomplete when the harness submitted    *)
(* something that is not a pipeline over a valid database; ACCEPT          *)
(* otherwise, with clause OutOfScope when the configuration is one the     *)
(* layout model says the scheme refuses (and it did), or DRIFT:<what> when *)
(* an observation differs from KeyTokenLayout (Layer B; not a violation).  *)
(***************************************************************************)
EXTENDS Wire, KeyTokenLayout, Json, IOUtils

Traces == JsonDeserialize(IOEnv.TRACE_FILE)

VARIABLES tid, l, verdict, clause, drift
tvars == <<scheme, p, w, pc, rep, same, inst, raised, pos, tid, l, verdict, clause, drift>>

Tr == Traces[tid].ev
Ev == Tr[l]
E1 == Tr[1]
KC == E1.kc

(* "an equal object": equal by the objects' own __eq__ in both directions and in every public field; that the copy also    *)
(* re-serializes to the very same bytes is more than the property states (Layer B, see DriftOf)                          *)
DeOut(e) == IF e.out = "raised" THEN "raised" ELSE IF e.eq /\ e.feq THEN "same" ELSE "differs"

Act ==
    CASE Ev.op = "Setup"    -> Setup(Ev.out)
      [] Ev.op = "New"      -> NewInstance(Ev.side, Ev.out)
      [] Ev.op = "Ser"      -> Ser(Ev.obj, Ev.out)
      [] Ev.op = "De"       -> De(Ev.obj, DeOut(Ev))
      [] Ev.op = "TokenGen" -> TokenGen(Ev.kw, Ev.out)
      [] Ev.op = "Search"   -> Search(Ev.out, Ev.pos)
      [] Ev.op = "Finish"   -> Finish(Ev.out, Ev.pos)
      [] Ev.op = "Foreign"  -> pc = "ready" /\ UNCHANGED wvars
      [] OTHER -> FALSE

(* the readers refuse an index without its header and a concatenated key / token of another length; pickle.loads ignores trailing bytes *)
ForeignRefused(o) == IF o = "edb" THEN TRUE ELSE Codec(scheme, o, KC, "fixed").kind = "concat"
(* Layer B: the observation of event e against the layout model of the tree after the fix: commits *)
DriftOf(e) ==
    CASE e.op = "Setup" -> IF (e.out = "built") # Works(scheme, KC) THEN "Works" ELSE ""
      [] e.op = "Ser" /\ e.out = "ok" ->
            IF ToSetQ(e.lay) # ToSetQ(Codec(scheme, e.obj, KC, "fixed").w) THEN "writer:" \o e.obj ELSE ""
      [] e.op = "De" /\ e.out = "ok" ->
            IF ToSetQ(e.lay) # ToSetQ(Codec(scheme, e.obj, KC, "fixed").r) THEN "reader:" \o e.obj
            ELSE IF ~e.beq THEN "reserialize:" \o e.obj ELSE ""
      [] e.op = "Foreign" -> IF (e.out = "raised") # ForeignRefused(e.obj) THEN "foreign:" \o e.obj ELSE ""
      [] e.op = "New" /\ e.out = "ok" -> IF ~e.samecfg THEN "json:" \o e.side ELSE ""
      [] OTHER -> ""

Running == verdict = "run"
OutOfScope == raised = "Setup" /\ ~Works(scheme, KC)
InDomain == IF E1.hasc THEN Valid(scheme, p, E1.c) ELSE TRUE     \* hasc = FALSE: the configuration constructor raised, there is no c
Complete == pc = "done" \/ Tr[Len(Tr)].op = "Foreign"

Step == /\ Running /\ l <= Len(Tr) /\ InDomain /\ Broken = "" /\ Act
        /\ l' = l + 1
        /\ drift' = IF drift = "" THEN DriftOf(Ev) ELSE drift
        /\ UNCHANGED <<tid, verdict, clause>>
Accept == /\ Running /\ InDomain
          /\ OutOfScope \/ (l = Len(Tr) + 1 /\ Broken = "" /\ Complete)
          /\ verdict' = "ACCEPT"
          /\ clause' = IF OutOfScope THEN "OutOfScope" ELSE IF drift # "" THEN "DRIFT:" \o drift ELSE ""
          /\ UNCHANGED <<scheme, p, w, pc, rep, same, inst, raised, pos, tid, l, drift>>
Reject == /\ Running
          /\ ~InDomain \/ (~OutOfScope /\ (Broken # "" \/ (l = Len(Tr) + 1 /\ ~Complete) \/ (l <= Len(Tr) /\ ~ENABLED Act)))
          /\ verdict' = "REJECT"
          /\ clause' = IF ~InDomain THEN "ValidDomain"
                       ELSE IF Broken # "" THEN Broken
                       ELSE IF l = Len(Tr) + 1 THEN "Incomplete"
                       ELSE "Malformed:" \o Ev.op
          /\ UNCHANGED <<scheme, p, w, pc, rep, same, inst, raised, pos, tid, l, drift>>

TraceInit == /\ tid \in 1..Len(Traces)
             /\ scheme = Traces[tid].ev[1].scheme /\ p = Traces[tid].ev[1].p
             /\ WInit /\ l = 1 /\ verdict = "run" /\ clause = "" /\ drift = ""
TraceNext == Step \/ Accept \/ Reject
TraceSpec == TraceInit /\ [][TraceNext]_tvars

Done == verdict # "run" => PrintT(<<"V", Traces[tid].tid, verdict, l, clause>>)
=============================================================================
