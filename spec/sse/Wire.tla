-------------------------------- MODULE Wire --------------------------------
(***************************************************************************)
(* Layer A for C03: the client / server split of an SSE scheme, stated     *)
(* over SSEFunctional.  Four objects travel: key, token (tok), encrypted   *)
(* database (edb), result (res).  Each is absent, Live (a scheme object)   *)
(* or Bytes (its serialized form).  The steps of a pipeline are            *)
(*   Setup                KeyGen + EDBSetup by the client's instance       *)
(*   Ser(o), De(o)        serialize / deserialize one object               *)
(*   NewInstance(side)    that side drops its scheme instance and builds a *)
(*                        new one from the JSON text of the configuration  *)
(*                        (cfg' = JSON(cfg))                               *)
(*   TokenGen(w)          by the client, from its Live key                 *)
(*   Search               by the server, from its Live edb and token       *)
(*   Finish               the client reads the identifiers of its Live     *)
(*                        result                                           *)
(* and may come in any order the representations allow.  Every step        *)
(* carries the OUTCOME the implementation showed (this is what a trace     *)
(* binds, and what the layout model of Layer B computes); the property is  *)
(* the three invariants                                                    *)
(*   NoRaise     no step of a pipeline over a valid database raises        *)
(*   RoundTrip   De(Ser(x)) = x : every Live object equals the object that *)
(*               was created                                               *)
(*   Correct     the result the server computes and the result the client  *)
(*               finally holds are the posting list of the keyword (empty  *)
(*               for an absent keyword), whichever objects crossed the     *)
(*               wire and whichever side was re-instantiated from JSON     *)
(* A database is its length profile p (SSEFunctional); the searched        *)
(* keyword is w (index into p, 0 = a keyword that is not stored); a result *)
(* is the sequence of positions of the returned identifiers in the posting *)
(* list of w (0 = foreign identifier).                                     *)
(***************************************************************************)
EXTENDS SSEFunctional

Objs == {"key", "tok", "edb", "res"}
Sides == {"client", "server"}

VARIABLES scheme,   \* the scheme name                      (fixed in a behaviour)
          p,        \* the length profile of the database   (fixed in a behaviour)
          w,        \* the searched keyword, -1 before TokenGen
          pc,       \* "init", "ready", "done", "failed"
          rep,      \* [Objs -> {"none", "live", "bytes"}]
          same,     \* [Objs -> BOOLEAN]: the content is that of the object that was created
          inst,     \* [Sides -> {"orig", "json"}]: the configuration the side's scheme instance was built from
          raised,   \* "" or the label of the step that raised
          pos       \* the last result read (Search / Finish)
wvars == <<scheme, p, w, pc, rep, same, inst, raised, pos>>

WInit == /\ w = -1 /\ pc = "init" /\ raised = "" /\ pos = <<>>
         /\ rep = [o \in Objs |-> "none"]
         /\ same = [o \in Objs |-> TRUE]
         /\ inst = [sd \in Sides |-> "orig"]

Fail(label) == raised' = label /\ pc' = "failed"

Setup(out) ==
    /\ pc = "init"
    /\ IF out = "built"
       THEN /\ rep' = [rep EXCEPT !["key"] = "live", !["edb"] = "live"]
            /\ pc' = "ready" /\ UNCHANGED raised
       ELSE Fail("Setup") /\ UNCHANGED rep
    /\ UNCHANGED <<scheme, p, w, same, inst, pos>>

NewInstance(sd, out) ==
    /\ pc = "ready"
    /\ IF out = "ok" THEN inst' = [inst EXCEPT ![sd] = "json"] /\ UNCHANGED <<raised, pc>>
       ELSE Fail("New:" \o sd) /\ UNCHANGED inst
    /\ UNCHANGED <<scheme, p, w, rep, same, pos>>

Ser(o, out) ==
    /\ pc = "ready" /\ rep[o] = "live"
    /\ IF out = "ok" THEN rep' = [rep EXCEPT ![o] = "bytes"] /\ UNCHANGED <<raised, pc>>
       ELSE Fail("Ser:" \o o) /\ UNCHANGED rep
    /\ UNCHANGED <<scheme, p, w, same, inst, pos>>

(* out: "same" (an object equal to the serialized one), "differs", "raised" *)
De(o, out) ==
    /\ pc = "ready" /\ rep[o] = "bytes"
    /\ IF out = "raised" THEN Fail("De:" \o o) /\ UNCHANGED <<rep, same>>
       ELSE /\ rep' = [rep EXCEPT ![o] = "live"]
            /\ same' = [same EXCEPT ![o] = same[o] /\ out = "same"]
            /\ UNCHANGED <<raised, pc>>
    /\ UNCHANGED <<scheme, p, w, inst, pos>>

(* a token made from a key equal to the generated one matches the index *)
TokenGen(kw, out) ==
    /\ pc = "ready" /\ rep["key"] = "live" /\ rep["tok"] = "none" /\ kw \in 0..Len(p)
    /\ IF out = "ok" THEN /\ rep' = [rep EXCEPT !["tok"] = "live"]
                          /\ same' = [same EXCEPT !["tok"] = same["key"]]
                          /\ w' = kw /\ UNCHANGED <<raised, pc>>
       ELSE Fail("TokenGen") /\ UNCHANGED <<rep, same, w>>
    /\ UNCHANGED <<scheme, p, inst, pos>>

Search(out, ps) ==
    /\ pc = "ready" /\ rep["tok"] = "live" /\ rep["edb"] = "live" /\ rep["res"] = "none"
    /\ IF out = "ok" THEN rep' = [rep EXCEPT !["res"] = "live"] /\ pos' = ps /\ UNCHANGED <<raised, pc>>
       ELSE Fail("Search") /\ UNCHANGED <<rep, pos>>
    /\ UNCHANGED <<scheme, p, w, same, inst>>

Finish(out, ps) ==
    /\ pc = "ready" /\ rep["res"] = "live"
    /\ IF out = "ok" THEN pc' = "done" /\ pos' = ps /\ UNCHANGED raised
       ELSE Fail("Finish") /\ UNCHANGED pos
    /\ UNCHANGED <<scheme, p, w, rep, same, inst>>

(* ------------------------------------------------------------------ the property *)
Expected == IF w > 0 THEN Iota(p[w]) ELSE <<>>
PosOK(ps) == IF w > 0 THEN CorrectPresent(scheme, p[w], ps) ELSE CorrectAbsent(ps)

NoRaise == raised = ""
RoundTripOf(o) == rep[o] = "live" => same[o]
RoundTrip == \A o \in Objs : RoundTripOf(o)
Correct == (rep["res"] # "none" \/ pc = "done") => PosOK(pos)
WireOK == NoRaise /\ RoundTrip /\ Correct
(* the name of the first clause the state violates, "" if none *)
Broken ==
    IF ~NoRaise THEN "NoRaise:" \o raised
    ELSE IF ~RoundTrip THEN "RoundTrip:" \o (CHOOSE o \in Objs : ~RoundTripOf(o))
    ELSE IF ~Correct THEN (IF pc = "done" THEN "Correct:client" ELSE "Correct:server")
    ELSE ""
=============================================================================
