------------------------------- MODULE MC_Wire -------------------------------
(***************************************************************************)
(* Bounded instance for C03: Layer B (KeyTokenLayout) driven through       *)
(* Layer A (Wire).                                                         *)
(*                                                                         *)
(* Init enumerates every scheme and every numeric configuration of its     *)
(* length parameters over Widths (parameters the scheme does not have are  *)
(* 0; the SSE-1 address width ranges over 1..3).  LayoutAgrees is the      *)
(* writer = reader statement on that whole grid.                           *)
(*                                                                         *)
(* For every configuration the scheme works with, and every pipeline       *)
(*   ck, ct, ce, cr  does the key / token / edb / result cross the wire    *)
(*   ri              who re-instantiates the scheme from the JSON text     *)
(*   kw              1 = a stored keyword, 0 = an absent one               *)
(* (2^4 x 4 x 2 = 128), the pipeline is executed step by step; the outcome *)
(* of every De step is what the layout model computes for the              *)
(* configuration the deserializing side holds, Search and Finish return    *)
(* the posting list iff what they are given equals what was created.  TLC  *)
(* checks the three Layer A invariants in every state and emits every      *)
(* finished pipeline as a history (the step labels) for the scheme's       *)
(* designated configuration; the harness executes exactly these histories  *)
(* on the real objects.                                                    *)
(*                                                                         *)
(* With Pipelines = FALSE only the grid is enumerated and every            *)
(* configuration with writer # reader is printed (<<"M", ...>>) instead of *)
(* being an invariant violation: used with Tree = "shipped".               *)
(***************************************************************************)
EXTENDS Wire, KeyTokenLayout

CONSTANTS Widths,      \* the set of lengths every length parameter ranges over
          Tree,        \* "fixed" / "shipped" (KeyTokenLayout)
          Pipelines    \* BOOLEAN

VARIABLES kc,          \* the numeric configuration
          pl,          \* the pipeline being executed
          hist         \* the labels of the steps executed
mcvars == <<scheme, p, w, pc, rep, same, inst, raised, pos, kc, pl, hist>>

Z == [lam |-> 0, k |-> 0, kp |-> 0, l |-> 0, lp |-> 0, fout |-> 0, asz |-> 0]
Grid(s) ==
    CASE s \in CJJ            -> {[Z EXCEPT !.lam = a, !.fout = b] : a \in Widths, b \in Widths}
      [] s = "CGKO06.SSE1"    -> {[Z EXCEPT !.k = a, !.l = b, !.asz = z] : a \in Widths, b \in Widths, z \in 1..3}
      [] s = "CGKO06.SSE2"    -> {[Z EXCEPT !.k = a, !.l = b] : a \in Widths, b \in Widths}
      [] s = "CT14.Pi"        -> {[Z EXCEPT !.k = a, !.kp = b, !.l = d] : a \in Widths, b \in Widths, d \in Widths}
      [] s = "ANSS16.Scheme3" -> {[Z EXCEPT !.lam = a, !.k = b, !.kp = d, !.l = e, !.lp = f] :
                                     a \in Widths, b \in Widths, d \in Widths, e \in Widths, f \in Widths}
      [] s = "DP17.Pi"        -> {[Z EXCEPT !.lam = a] : a \in Widths}
(* the configuration whose pipelines are emitted: every length 16 (16 must be in Widths), address width 1 *)
IsEmitCfg(k) == /\ \A f \in {"lam", "k", "kp", "l", "lp", "fout"} : k[f] \in {0, 16}
                /\ k.asz \in {0, 1}

PipelineSet == [ck : BOOLEAN, ct : BOOLEAN, ce : BOOLEAN, cr : BOOLEAN, ri : {"none", "client", "server", "both"}, kw : {0, 1}]
NoPipeline == [ck |-> FALSE, ct |-> FALSE, ce |-> FALSE, cr |-> FALSE, ri |-> "off", kw |-> 0]

Opt(cond, label) == IF cond THEN <<label>> ELSE <<>>
(* the canonical order of the steps of pipeline x *)
Steps(x) ==
    <<"Setup">>
    \o Opt(x.ck, "Ser:key")
    \o Opt(x.ri \in {"client", "both"}, "New:client")
    \o Opt(x.ck, "De:key")
    \o <<IF x.kw = 1 THEN "TokenGen:1" ELSE "TokenGen:0">>
    \o Opt(x.ct, "Ser:tok") \o Opt(x.ce, "Ser:edb")
    \o Opt(x.ri \in {"server", "both"}, "New:server")
    \o Opt(x.ct, "De:tok") \o Opt(x.ce, "De:edb")
    \o <<"Search">>
    \o Opt(x.cr, "Ser:res") \o Opt(x.cr, "De:res")
    \o <<"Finish">>

(* cfg' = JSON(cfg): the JSON round trip keeps every integer parameter *)
JSONCfg(k) == k
CfgOf(sd) == IF inst[sd] = "json" THEN JSONCfg(kc) ELSE kc
(* the side that deserializes each object *)
Reader(o) == IF o \in {"key", "res"} THEN "client" ELSE "server"
(* Layer B: what deserialize(serialize(x)) gives with the reader's configuration *)
LDe(o) == RoundTrip3(Codec(scheme, o, CfgOf(Reader(o)), Tree))

Exec(label) ==
    CASE label = "Setup"      -> Setup("built")
      [] label = "Ser:key"    -> Ser("key", "ok")
      [] label = "Ser:tok"    -> Ser("tok", "ok")
      [] label = "Ser:edb"    -> Ser("edb", "ok")
      [] label = "Ser:res"    -> Ser("res", "ok")
      [] label = "De:key"     -> De("key", LDe("key"))
      [] label = "De:tok"     -> De("tok", LDe("tok"))
      [] label = "De:edb"     -> De("edb", LDe("edb"))
      [] label = "De:res"     -> De("res", LDe("res"))
      [] label = "New:client" -> NewInstance("client", "ok")
      [] label = "New:server" -> NewInstance("server", "ok")
      [] label = "TokenGen:1" -> TokenGen(1, "ok")
      [] label = "TokenGen:0" -> TokenGen(0, "ok")
      [] label = "Search"     -> Search("ok", IF same["tok"] /\ same["edb"] THEN Expected ELSE <<0>>)
      [] label = "Finish"     -> Finish("ok", IF same["res"] THEN pos ELSE <<0>>)

MCInit == /\ WInit /\ hist = <<>> /\ p = <<2, 1>>
          /\ scheme \in WireSchemes
          /\ kc \in Grid(scheme)
          /\ IF Pipelines /\ Works(scheme, kc) THEN pl \in PipelineSet ELSE pl = NoPipeline
MCNext == /\ pl.ri # "off" /\ Len(hist) < Len(Steps(pl))
          /\ Exec(Steps(pl)[Len(hist) + 1])
          /\ hist' = Append(hist, Steps(pl)[Len(hist) + 1])
          /\ UNCHANGED <<kc, pl>>
MCSpec == MCInit /\ [][MCNext]_mcvars

(* ------------------------------------------------------------------ checked *)
LayoutAgrees == Pipelines => (WriterEqReader(scheme, kc, Tree) /\ SameWidths(scheme, kc, Tree))
Mismatch == (~Pipelines /\ hist = <<>> /\ ~WriterEqReader(scheme, kc, Tree)) =>
                PrintT(<<"M", scheme, kc,
                         [o \in WireObjs |-> IF Works(scheme, kc) THEN RoundTrip3(Codec(scheme, o, kc, Tree)) ELSE "n/a"]>>)
(* the grid itself, with the model's prediction of where the code refuses each point (replayed on the real code in the thorough tier) *)
GridPoint == (~Pipelines /\ hist = <<>>) => PrintT(<<"G", scheme, kc, Refuses(scheme, kc)>>)
(* Layer A, in every state of every pipeline *)
InvNoRaise == NoRaise
InvRoundTrip == RoundTrip
InvCorrect == Correct
(* every pipeline runs to its end *)
Completes == (pl.ri # "off" /\ Len(hist) = Len(Steps(pl))) => pc = "done"
Emit == (pc = "done" /\ IsEmitCfg(kc)) => PrintT(<<"H", scheme, hist>>)
=============================================================================
