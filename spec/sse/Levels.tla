------------------------------- MODULE Levels -------------------------------
(***************************************************************************)
(* Layer B for C01 / C05: the level structure of CT14.Pi and               *)
(* ANSS16.Scheme3 over length profiles, INCLUDING the random dummy         *)
(* keywords the setup adds until N is a power of two (a nondeterministic   *)
(* choice here, so TLC covers every choice the random generator can make). *)
(* `levels[i]` records, for level i-1, how many real entries it receives   *)
(* and the capacity it is padded to.                                       *)
(*   Fixed = TRUE : the code after the fix: commits (CT14: levels 0..t;    *)
(*                  ANSS16: length field of t+1 bits, capacity             *)
(*                  2^min(t, t-i+1)).                                      *)
(*   Fixed = FALSE: the code at 0676006 (regression: NoRaiseOnValid and,   *)
(*                  for ANSS16, LevelFits must be violated).               *)
(***************************************************************************)
EXTENDS Integers, Sequences, FiniteSets, TLC
CONSTANTS MaxKw, MaxN, Scheme, Fixed     \* Scheme \in {"CT14", "ANSS16"}
Pow2(k) == 2 ^ k
CeilLog2(n) == CHOOSE t \in 0..12 : Pow2(t) >= n /\ (t = 0 \/ Pow2(t - 1) < n)
FloorLog2(n) == CHOOSE t \in 0..12 : Pow2(t) <= n /\ Pow2(t + 1) > n
CeilDiv(a, b) == (a + b - 1) \div b
Min(a, b) == IF a < b THEN a ELSE b
RECURSIVE Sum(_)
Sum(s) == IF s = <<>> THEN 0 ELSE Head(s) + Sum(Tail(s))
(* non-increasing sequences of positive lengths: one representative per multiset *)
Profiles == UNION { { p \in [1..k -> 1..MaxN] : (\A i \in 1..(k - 1) : p[i] >= p[i + 1]) /\ Sum(p) <= MaxN } : k \in 1..MaxKw }

VARIABLES prof,      \* real keywords' list lengths
          dummies,   \* lengths of the dummy keywords added so far (non-increasing: their order is irrelevant)
          phase, outcome, levels
vars == <<prof, dummies, phase, outcome, levels>>
All == prof \o dummies
N0 == Sum(prof)
T == CeilLog2(N0)
N == Sum(All)

Init == /\ prof \in Profiles /\ dummies = <<>> /\ phase = "pad" /\ outcome = "none" /\ levels = <<>>

(* while N < 2**t: add a dummy keyword with randint(1, 2**t - N) postings *)
Pad == /\ phase = "pad" /\ N < Pow2(T)
       /\ \E n \in 1..(Pow2(T) - N) :
            /\ (IF dummies = <<>> THEN TRUE ELSE n <= dummies[Len(dummies)])
            /\ dummies' = Append(dummies, n)
       /\ UNCHANGED <<prof, phase, outcome, levels>>

(* CT14: binary decomposition of every list; the chunk of size 2^j goes to level j *)
CT14Chunks(n) == { j \in 0..FloorLog2(n) : (n \div Pow2(j)) % 2 = 1 }
CT14Count(j) == Cardinality({ i \in 1..Len(All) : j \in CT14Chunks(All[i]) })
CT14NLevels == IF Fixed THEN T + 1 ELSE T
CT14Build ==
  IF \E i \in 1..Len(All) : \E j \in CT14Chunks(All[i]) : j >= CT14NLevels
  THEN outcome' = "IndexError" /\ levels' = <<>>
  ELSE /\ outcome' = "built"
       /\ levels' = [i \in 1..CT14NLevels |-> [real |-> CT14Count(i - 1), cap |-> Pow2(T - (i - 1))]]

(* ANSS16: class p = ceil(log2 n); lists T_0..T_t; the length is stored in a fixed number of bytes *)
Fits(n, bytes) == IF bytes = 0 THEN n = 0 ELSE IF bytes >= 3 THEN TRUE ELSE n < 256 ^ bytes
SizeLen == IF Fixed THEN CeilDiv(T + 1, 8) ELSE CeilDiv(T, 8)
Cap(i) == IF Fixed THEN Pow2(Min(T, T - i + 1)) ELSE Pow2(T - i)
AClass(n) == CeilLog2(n)
ACount(p) == Cardinality({ i \in 1..Len(All) : AClass(All[i]) = p })
ANSSBuild ==
  IF \E i \in 1..Len(All) : ~Fits(All[i], SizeLen)
  THEN outcome' = "OverflowError" /\ levels' = <<>>
  ELSE /\ outcome' = "built"
       /\ levels' = [i \in 1..(T + 1) |-> [real |-> ACount(i - 1), cap |-> Cap(i - 1)]]

Build == /\ phase = "pad" /\ N = Pow2(T)
         /\ phase' = "done"
         /\ IF Scheme = "CT14" THEN CT14Build ELSE ANSSBuild
         /\ UNCHANGED <<prof, dummies>>
Next == Pad \/ Build
Spec == Init /\ [][Next]_vars

(* C01 at model level: a valid database is never refused *)
NoRaiseOnValid == outcome \in {"none", "built"}
(* C05 at model level: the filler count 2^cap - real is never negative, so every level has exactly `cap` entries *)
LevelFits == (phase = "done" /\ outcome = "built") => \A i \in 1..Len(levels) : levels[i].real <= levels[i].cap
(* every posting is stored exactly once *)
AllStored == (phase = "done" /\ outcome = "built" /\ Scheme = "CT14") =>
                Sum([i \in 1..Len(levels) |-> levels[i].real * Pow2(i - 1)]) = N
=============================================================================
