--------------------------- MODULE KeyTokenLayout ---------------------------
(***************************************************************************)
(* Layer B for C03: the wire format of key, token, encrypted database and  *)
(* result of the nine schemes, transcribed from schemes/*/*/structures.py  *)
(* (serialize / deserialize), config.py (which primitive is built with     *)
(* which length) and construction.py (which lengths KeyGen / TokenGen put  *)
(* into the fields).  WRITER and READER are transcribed SEPARATELY:        *)
(*   writer  = the fields in the order serialize() emits them, each with   *)
(*             the width the producing code gives it (os.urandom(n), PRF   *)
(*             output length, slice of a PRF output);                      *)
(*   reader  = the total length deserialize() insists on and the slices it *)
(*             cuts at fixed offsets, in constructor-argument order.       *)
(* A configuration is the record k of the length parameters (bytes):       *)
(*   lam = param_lambda, k = param_k, kp = param_k_prime, l = param_l,     *)
(*   lp = param_l_prime, fout = prf_f_output_length,                       *)
(*   asz = param_log2_s_bytes (SSE-1 address width);                       *)
(* a parameter a scheme does not have is 0.                                *)
(*                                                                         *)
(* The byte strings are symbolic: byte i of field f is <<f, i>>, so that   *)
(* "the parser returns the object that was written" is decided by          *)
(* executing writer and reader, not by comparing two hand-written tuples.  *)
(* Pickled objects are sequences of members (one atom per member).         *)
(*                                                                         *)
(* Tree = "fixed" is the tree after the fix: commits and is what the       *)
(* check uses.  Tree = "shipped" keeps the one place where the snapshot    *)
(* differed (ANSS16 PiKey.deserialize compared the length with param_k):   *)
(* TLC finds writer # reader there for param_lambda # param_k; the harness *)
(* replays those configurations on the real code (see harness/c03.py).     *)
(***************************************************************************)
EXTENDS Integers, Sequences, FiniteSets, TLC

CJJ == {"CJJ14.PiBas", "CJJ14.PiPack", "CJJ14.PiPtr", "CJJ14.Pi2Lev"}
WireSchemes == CJJ \cup {"CGKO06.SSE1", "CGKO06.SSE2", "CT14.Pi", "ANSS16.Scheme3", "DP17.Pi"}
WireObjs == {"key", "tok", "edb", "res"}

(* toolkit.symmetric_encryption.AESxCBC(key_length=...) refuses other lengths in its constructor, *)
(* and Encrypt / Decrypt refuse a key whose length is not key_length; HmacPRF(key_length=n) refuses *)
(* a key of another length when it is called.                                                       *)
AESLen(x) == x \in {16, 24, 32}

(* Where the code refuses a configuration: "config" = the SSEConfig / SSEScheme constructor raises, *)
(* "setup" = KeyGen .. Search raise on every database, "none" = the scheme works.                   *)
Refuses(s, k) ==
    CASE s \in CJJ            -> IF ~AESLen(k.lam) THEN "config"            \* ske(key_length = param_lambda)
                                 ELSE IF k.fout # k.lam THEN "setup"         \* K1, K2 = prf_f(...) are used as PRF / AES keys of param_lambda bytes
                                 ELSE "none"
      [] s = "CGKO06.SSE1"    -> IF ~AESLen(k.k) THEN "config" ELSE "none"   \* ske1, ske2(key_length = param_k)
      [] s = "CGKO06.SSE2"    -> IF ~AESLen(k.k) THEN "config" ELSE "none"
      [] s = "CT14.Pi"        -> IF ~AESLen(k.kp) THEN "config" ELSE "none"  \* ske(key_length = param_k_prime); param_k only keys PRFs
      [] s = "ANSS16.Scheme3" -> IF ~AESLen(k.k) THEN "config"               \* ske(key_length = param_k)
                                 ELSE IF k.kp # k.k THEN "setup"             \* K_i' (param_k_prime bytes) is used as a key of that ske
                                 ELSE "none"
      [] s = "DP17.Pi"        -> IF ~AESLen(k.lam) THEN "config" ELSE "none" \* rnd(key_length = param_lambda)
Works(s, k) == Refuses(s, k) = "none"

(* ------------------------------------------------------------------ codecs *)
(* kind "concat": serialize() is the concatenation of the fields, deserialize() checks len(xbytes) = total     *)
(*                and slices;  kind "pickle": serialize() pickles the members (w), deserialize() unpacks as    *)
(*                many members as r lists and passes them to the constructor in that order.                    *)
(* w, r: sequences of <<slot name, width>> (width of a pickled member that is not a byte string: -1).          *)
(* hw, hr: the header constant written in front / compared by the reader ("" = none).                          *)
Cd(kind, w, total, r, hw, hr) == [kind |-> kind, w |-> w, total |-> total, r |-> r, hw |-> hw, hr |-> hr]
Concat(w, total, r) == Cd("concat", w, total, r, "", "")
Pickle(w, r) == Cd("pickle", w, Len(r), r, "", "")
HPickle(h, w, r) == Cd("pickle", w, Len(r), r, h, h)      \* writer and reader name the same module constant

(* [xbytes[i: i + n] for i in range(0, len(xbytes), n)] unpacked into the constructor, which has one parameter per key slot *)
ChunkCuts(names, total, n) ==
    LET cnt == (total + n - 1) \div n
    IN IF cnt # Len(names) THEN <<>>           \* TypeError: wrong number of constructor arguments
       ELSE [i \in 1..cnt |-> <<names[i], IF i * n <= total THEN n ELSE total - (i - 1) * n>>]

KeyCodec(s, k, tree) ==
    CASE s \in CJJ ->
            (* KeyGen: K = os.urandom(param_lambda); deserialize: len(xbytes) != config.param_lambda -> raise; cls(xbytes) *)
            Concat(<< <<"K", k.lam>> >>, k.lam, << <<"K", k.lam>> >>)
      [] s = "CGKO06.SSE1" ->
            (* KeyGen: 4 x os.urandom(param_k); deserialize: len != 4 * param_k -> raise; chunks of param_k *)
            Concat(<< <<"K1", k.k>>, <<"K2", k.k>>, <<"K3", k.k>>, <<"K4", k.k>> >>, 4 * k.k,
                   ChunkCuts(<<"K1", "K2", "K3", "K4">>, 4 * k.k, k.k))
      [] s = "CGKO06.SSE2" ->
            Concat(<< <<"K1", k.k>>, <<"K2", k.k>> >>, 2 * k.k, ChunkCuts(<<"K1", "K2">>, 2 * k.k, k.k))
      [] s = "CT14.Pi" ->
            (* KeyGen: os.urandom(param_k); deserialize: len != config.param_k *)
            Concat(<< <<"K", k.k>> >>, k.k, << <<"K", k.k>> >>)
      [] s = "ANSS16.Scheme3" ->
            (* KeyGen: os.urandom(param_lambda).  deserialize, snapshot: len != config.param_k -> raise (message says *)
            (* param_lambda); after the fix: len != config.param_lambda.                                              *)
            LET t == IF tree = "shipped" THEN k.k ELSE k.lam
            IN Concat(<< <<"K", k.lam>> >>, t, << <<"K", t>> >>)
      [] s = "DP17.Pi" ->
            (* KeyGen: 3 x os.urandom(param_lambda); deserialize: len != 3 * param_lambda; split [param_lambda] * 3 *)
            Concat(<< <<"k1", k.lam>>, <<"k2", k.lam>>, <<"k3", k.lam>> >>, 3 * k.lam,
                   << <<"k1", k.lam>>, <<"k2", k.lam>>, <<"k3", k.lam>> >>)

TokCodec(s, k, tree) ==
    CASE s \in CJJ ->
            (* TokenGen: K1, K2 = prf_f(K, 1||w), prf_f(K, 2||w): prf_f_output_length bytes each.                 *)
            (* deserialize: len != 2 * param_lambda -> raise; K1 = xbytes[:param_lambda], K2 = xbytes[param_lambda:] *)
            Concat(<< <<"K1", k.fout>>, <<"K2", k.fout>> >>, 2 * k.lam, << <<"K1", k.lam>>, <<"K2", 2 * k.lam - k.lam>> >>)
      [] s = "CGKO06.SSE1" ->
            (* TokenGen: gamma = bytes(prp_pi(K3, Bitset(w, param_l_bits))): param_l bytes; eta = prf_f(K2, w):    *)
            (* output_length = param_k + param_log2_s_bytes.  deserialize: len != l + k + log2_s_bytes; cut at l.   *)
            Concat(<< <<"gamma", k.l>>, <<"eta", k.k + k.asz>> >>, k.l + k.k + k.asz,
                   << <<"gamma", k.l>>, <<"eta", (k.l + k.k + k.asz) - k.l>> >>)
      [] s = "CGKO06.SSE2" ->
            (* TokenGen: list of param_n integers; pickle.dumps(self.t) / pickle.loads *)
            Pickle(<< <<"t", -1>> >>, << <<"t", -1>> >>)
      [] s = "CT14.Pi" ->
            (* TokenGen: K0 || K1 = prf_f(K, w) (output_length = k + k'), cut at param_k.                            *)
            (* deserialize: len != param_k + param_k_prime; K0 = xbytes[:param_k], K1 = xbytes[param_k:]             *)
            Concat(<< <<"K0", k.k>>, <<"K1", (k.k + k.kp) - k.k>> >>, k.k + k.kp,
                   << <<"K0", k.k>>, <<"K1", (k.k + k.kp) - k.k>> >>)
      [] s = "ANSS16.Scheme3" ->
            (* TokenGen: split(prf(K, w), [l, k, l', k']) -> li, Ki, li_prime, Ki_prime; serialize in that order.      *)
            (* deserialize: len != k + k' + l + l'; split(xbytes, [l, k, l', k']) -> cls(li, Ki, li_prime, Ki_prime)   *)
            Concat(<< <<"li", k.l>>, <<"Ki", k.k>>, <<"li_prime", k.lp>>, <<"Ki_prime", k.kp>> >>, k.k + k.kp + k.l + k.lp,
                   << <<"li", k.l>>, <<"Ki", k.k>>, <<"li_prime", k.lp>>, <<"Ki_prime", k.kp>> >>)
      [] s = "DP17.Pi" ->
            (* TokenGen: tag, vtag, etag = prf_f(k1 / k2 / k3, w), output_length = param_lambda; pickled 3-tuple *)
            Pickle(<< <<"tag", k.lam>>, <<"vtag", k.lam>>, <<"etag", k.lam>> >>,
                   << <<"tag", k.lam>>, <<"vtag", k.lam>>, <<"etag", k.lam>> >>)

(* HEADER + pickle.dumps(members); deserialize: header compared, members unpacked, cls(members...) *)
EdbCodec(s, k, tree) ==
    CASE s \in {"CJJ14.PiBas", "CJJ14.PiPack"} -> HPickle(s, << <<"D", -1>> >>, << <<"D", -1>> >>)
      [] s \in {"CJJ14.PiPtr", "CJJ14.Pi2Lev"} -> HPickle(s, << <<"D", -1>>, <<"A", -1>> >>, << <<"D", -1>>, <<"A", -1>> >>)
      [] s = "CGKO06.SSE1"    -> HPickle(s, << <<"A", -1>>, <<"T", -1>> >>, << <<"A", -1>>, <<"T", -1>> >>)
      [] s = "CGKO06.SSE2"    -> HPickle(s, << <<"I", -1>> >>, << <<"I", -1>> >>)
      [] s = "CT14.Pi"        -> HPickle(s, << <<"HT_list", -1>> >>, << <<"HT_list", -1>> >>)
      [] s = "ANSS16.Scheme3" -> HPickle(s, << <<"HT_S", -1>>, <<"HT_L_list", -1>> >>, << <<"HT_S", -1>>, <<"HT_L_list", -1>> >>)
      [] s = "DP17.Pi"        -> HPickle(s, << <<"HT", -1>>, <<"A_dict", -1>> >>, << <<"HT", -1>>, <<"A_dict", -1>> >>)
ResCodec(s, k, tree) == Pickle(<< <<"result", -1>> >>, << <<"result", -1>> >>)

Codec(s, o, k, tree) ==
    CASE o = "key" -> KeyCodec(s, k, tree)
      [] o = "tok" -> TokCodec(s, k, tree)
      [] o = "edb" -> EdbCodec(s, k, tree)
      [] o = "res" -> ResCodec(s, k, tree)

(* ------------------------------------------------------------------ symbolic execution *)
RECURSIVE SumW(_)
SumW(fs) == IF fs = <<>> THEN 0 ELSE Head(fs)[2] + SumW(Tail(fs))
RECURSIVE Cat(_)
Cat(ss) == IF ss = <<>> THEN <<>> ELSE Head(ss) \o Cat(Tail(ss))
Field(f) == [i \in 1..f[2] |-> <<f[1], i>>]          \* the bytes of field f = <<slot, width>>
Atom(f) == <<f[1], 0>>                               \* a pickled member
ToSetQ(q) == {q[i] : i \in 1..Len(q)}

(* what serialize() emits for the object whose slots hold the writer's fields *)
SerOf(cd) == IF cd.kind = "concat" THEN Cat([j \in 1..Len(cd.w) |-> Field(cd.w[j])])
             ELSE [j \in 1..Len(cd.w) |-> Atom(cd.w[j])]
(* the object as a set of <<slot, content>> *)
ObjOf(cd) == IF cd.kind = "concat" THEN {<<cd.w[j][1], Field(cd.w[j])>> : j \in 1..Len(cd.w)}
             ELSE {<<cd.w[j][1], Atom(cd.w[j])>> : j \in 1..Len(cd.w)}
(* Python slice b[off : off + n] (clipped at the end, never an error) *)
Slice(b, off, n) == LET lo == IF off < Len(b) THEN off ELSE Len(b)
                        hi == IF off + n < Len(b) THEN off + n ELSE Len(b)
                    IN SubSeq(b, lo + 1, hi)
Offset(r, j) == SumW(SubSeq(r, 1, j - 1))
(* what deserialize() makes of the string b: it raises, or builds the object obj (a set of <<slot, content>>) *)
Raise == [raise |-> TRUE, obj |-> {}]
Built(x) == [raise |-> FALSE, obj |-> x]
DeOf(cd, b) ==
    IF cd.hw # cd.hr THEN Raise                                        \* "Parse header error."
    ELSE IF Len(b) # cd.total THEN Raise                               \* length check / unpacking error
    ELSE IF cd.r = <<>> THEN Raise                                     \* wrong number of constructor arguments
    ELSE IF cd.kind = "concat" THEN Built({<<cd.r[j][1], Slice(b, Offset(cd.r, j), cd.r[j][2])>> : j \in 1..Len(cd.r)})
    ELSE Built({<<cd.r[j][1], b[j]>> : j \in 1..Len(cd.r)})
(* the outcome of deserialize(serialize(x)) *)
RoundTrip3(cd) == LET d == DeOf(cd, SerOf(cd))
                  IN IF d.raise THEN "raised" ELSE IF d.obj = ObjOf(cd) THEN "same" ELSE "differs"

(* writer = reader, for every object of every configuration the scheme works with *)
WriterEqReader(s, k, tree) == Works(s, k) => \A o \in WireObjs : RoundTrip3(Codec(s, o, k, tree)) = "same"
(* the same statement on the transcribed tuples: equal field lists, and the accepted length is the written length *)
SameWidths(s, k, tree) ==
    Works(s, k) => \A o \in WireObjs : LET cd == Codec(s, o, k, tree)
                                       IN cd.w = cd.r /\ cd.hw = cd.hr /\ (cd.kind = "concat" => SumW(cd.w) = cd.total)
=============================================================================
