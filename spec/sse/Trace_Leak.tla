----------------------------- MODULE Trace_Leak -----------------------------
(***************************************************************************)
(* Property C04 on recorded runs of the real schemes.  One record per      *)
(* case: a valid database (profile R.p, shared identifiers or not) was     *)
(* encrypted TWICE under one key by the real EDBSetup, tokens of every     *)
(* stored keyword and of some absent keywords were generated, and the      *)
(* harness recorded                                                        *)
(*   hits     every occurrence of a stored keyword / identifier as a byte  *)
(*            substring of EDB.serialize() (wh = "edb1" / "edb2") or of a  *)
(*            Token.serialize() (wh = "token")                             *)
(*   ct1, ct2 the ciphertext-bearing items of the two indexes (bytes;      *)
(*            blocks that concatenate ciphertexts cut at the ciphertext    *)
(*            length)                                                      *)
(*   leaves   (Layer B) for the byte strings of the index and the tokens   *)
(*            the origin class found by the primitive recorders            *)
(*   ivs      (Layer B) the IVs of all recorded Encrypt calls              *)
(*                                                                         *)
(* LAYER A (the property, Terms.tla read at byte level):                   *)
(*   ValidDomain        the case is inside the quantifier of the property: *)
(*                      valid database, keywords >= 6 bytes, identifiers   *)
(*                      >= 8 bytes, chance of an accidental occurrence     *)
(*                      below 2^-40 (R.neglog2 = floor(-log2(bound)))      *)
(*   Observable         both setups built an index (anything else is C01)  *)
(*   NonVacuous         something was looked at                            *)
(*   NoPlainLeaf:<what>:<where>   a keyword / identifier is visible        *)
(*   EntriesDistinct    ciphertext-bearing items of one index are distinct *)
(*   TwoSetupsDisjoint  no ciphertext-bearing item occurs in both indexes  *)
(* LAYER B (drift only): B:Origin (an origin class Terms!AllowedClass does *)
(* not list: unknown, unkeyed, plain, ...), B:NoncesFresh, B:QueryInToken, *)
(* B:CtLen.                                                                *)
(***************************************************************************)
EXTENDS Terms, Json, IOUtils
CONSTANT Layer
Traces == JsonDeserialize(IOEnv.TRACE_FILE)
VARIABLES tid, verdict, clause
tvars == <<tid, verdict, clause>>
R == Traces[tid].ev[1]

Distinct(q) == Cardinality(SeqToSet(q)) = Len(q)
BadHits == {i \in 1..Len(R.hits) : ~LeakAllowed(R.scheme, R.hits[i].what)}
FirstBadHit == R.hits[CHOOSE i \in BadHits : \A j \in BadHits : i <= j]

InDomain ==
    /\ Valid(R.scheme, R.p, R.c)
    /\ \A i \in 1..Len(R.kwlens) : R.kwlens[i] >= 6
    /\ R.idlen >= 8
(* the chance bound depends on the sizes of what was built: known only for an observable case *)
BoundOK == R.neglog2 > 40
NonVacuous ==
    /\ R.nkw = Len(R.p) /\ R.nkw > 0 /\ R.nid > 0 /\ R.ntok >= R.nkw
    /\ (R.scheme # "CGKO06.SSE2" => Len(R.ct1) > 0 /\ Len(R.ct2) > 0)

WhyA ==
    IF ~InDomain THEN "ValidDomain"
    ELSE IF R.setup1 # "built" \/ R.setup2 # "built" THEN "Observable"
    ELSE IF ~BoundOK THEN "ValidDomain"
    ELSE IF ~NonVacuous THEN "NonVacuous"
    ELSE IF BadHits # {} THEN "NoPlainLeaf:" \o FirstBadHit.what \o ":" \o FirstBadHit.wh
    ELSE IF ~Distinct(R.ct1) \/ ~Distinct(R.ct2) THEN "EntriesDistinct"
    ELSE IF SeqToSet(R.ct1) \cap SeqToSet(R.ct2) # {} THEN "TwoSetupsDisjoint"
    ELSE "ok"

(* the length at which blocks of concatenated ciphertexts are cut (AES-CBC framing, property C14) *)
CtLenModel == CASE R.scheme \in {"CT14.Pi", "ANSS16.Scheme3"} -> EncLen(R.c.id)
                [] R.scheme = "DP17.Pi" -> R.c.clen
                [] OTHER -> 0
BadLeaves == {i \in 1..Len(R.leaves) : <<R.leaves[i].tab, R.leaves[i].role, R.leaves[i].cls>> \notin AllowedClass(R.scheme)}
WhyB ==
    IF BadLeaves # {} THEN LET x == R.leaves[CHOOSE i \in BadLeaves : \A j \in BadLeaves : i <= j]
                           IN "B:Origin:" \o x.tab \o ":" \o x.role \o ":" \o x.cls
    ELSE IF ~Distinct(R.ivs) THEN "B:NoncesFresh"
    ELSE IF R.qhits > 0 THEN "B:QueryInToken"
    ELSE IF R.ctlen # CtLenModel THEN "B:CtLen"
    ELSE "ok"
Why == IF WhyA # "ok" THEN WhyA ELSE IF Layer = "B" THEN WhyB ELSE "ok"

TraceInit == tid \in 1..Len(Traces) /\ verdict = "run" /\ clause = ""
Judge == /\ verdict = "run"
         /\ verdict' = (IF Why = "ok" THEN "ACCEPT" ELSE "REJECT")
         /\ clause' = (IF Why = "ok" THEN "" ELSE Why)
         /\ UNCHANGED tid
TraceSpec == TraceInit /\ [][Judge]_tvars
Done == verdict # "run" => PrintT(<<"V", Traces[tid].tid, verdict, 1, clause>>)
=============================================================================
