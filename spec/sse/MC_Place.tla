------------------------------ MODULE MC_Place ------------------------------
(***************************************************************************)
(* C06 (ii), model level: the placement of array-resident blocks as a      *)
(* sequence of uniform choices, explored exhaustively for small instances. *)
(*   kind "perm"  PiPtr / Pi2Lev: m blocks into the m usable slots of A    *)
(*                (`random.sample` of the free positions, then pop())      *)
(*   kind "inj"   SSE-1: N nodes at psi_K(1), ..., psi_K(N), psi an ideal  *)
(*                permutation of s addresses chosen by the fresh key       *)
(*   kind "dp"    DP17: every chunk into a bucket of its level chosen      *)
(*                uniformly among those with at least 2^i free slots       *)
(* wgt is the product of the sizes of the choice sets along the path, so   *)
(* 1/wgt is the probability of that placement.  Invariant                  *)
(*   BoundHolds  every complete placement has wgt >= SatProd(factors) for  *)
(*               the closed-form factors of Order.tla (with equality for   *)
(*               perm / inj, where all placements are equally likely)      *)
(* so two independent setups place identically with probability at most    *)
(* 1/SatProd(factors).  Complete placements are printed (tag "P") and      *)
(* counted by the harness.  Candidates (the database families the driver   *)
(* proposes for the real runs) are judged by FamilyOK (EmitFamily, tag     *)
(* "F", with the factors, from which the evidence states the bound).       *)
(***************************************************************************)
EXTENDS Order, TLC
CONSTANTS Instances, Candidates     \* sequences of [s, c, p]

VARIABLES ii, todo, used, rem, wgt, placed, cand
vars == <<ii, todo, used, rem, wgt, placed, cand>>
I == Instances[ii]
Kind == CASE I.s \in {"CJJ14.PiPtr", "CJJ14.Pi2Lev"} -> "perm" [] I.s = "CGKO06.SSE1" -> "inj" [] OTHER -> "dp"
Slots == IF Kind = "perm" THEN 1..ArrayBlocks(I.s, I.p, I.c) ELSE 0..(I.c.s - 1)
Items == IF Kind = "dp" THEN DPItems(I.p, I.p, I.c, 1) ELSE [j \in 1..ArrayBlocks(I.s, I.p, I.c) |-> [lev |-> 0, size |-> 1]]

Init == /\ ii \in 1..Len(Instances)
        /\ todo = 1 /\ used = {} /\ wgt = 1 /\ placed = <<>> /\ cand = 0
        /\ rem = IF Instances[ii].s = "DP17.Pi"
                 THEN [i \in DPLv(Instances[ii].p, Instances[ii].c) |-> DPBucketSizes(i, N(Instances[ii].p))]
                 ELSE <<>>
Eligible == IF Kind = "dp"
            THEN LET it == Items[todo] IN {b \in 1..Len(rem[it.lev]) : rem[it.lev][b] >= Pow2(it.lev)}
            ELSE Slots \ used
Place == /\ cand = 0 /\ todo <= Len(Items)
         /\ \E x \in Eligible :
               /\ placed' = Append(placed, x)
               /\ wgt' = SatMul(wgt, Cardinality(Eligible))
               /\ IF Kind = "dp"
                  THEN LET it == Items[todo] IN rem' = [rem EXCEPT ![it.lev][x] = @ - it.size] /\ UNCHANGED used
                  ELSE used' = used \cup {x} /\ UNCHANGED rem
         /\ todo' = todo + 1 /\ UNCHANGED <<ii, cand>>
(* the candidate families are judged in successor states of the first initial state (evaluated by TLC's worker threads) *)
JudgeCandidate == /\ cand = 0 /\ ii = 1 /\ todo = 1
                  /\ cand' \in 1..Len(Candidates) /\ UNCHANGED <<ii, todo, used, rem, wgt, placed>>
Spec == Init /\ [][Place \/ JudgeCandidate]_vars

Complete == cand = 0 /\ todo = Len(Items) + 1
Bound == SatProd(MovesFactors(I.s, I.p, I.c))
BoundHolds == Complete => (wgt >= Bound /\ (Kind # "dp" => wgt = Bound))
ChoiceNeverEmpty == cand = 0 /\ todo <= Len(Items) => Eligible # {}
InstanceValid == MovesValid(I.s, I.p, I.c)
EmitPlacement == Complete => PrintT(<<"P", ii, wgt, Bound>>)

EmitFamily ==
    cand > 0 =>
        LET x == Candidates[cand] IN
        PrintT(<<"F", cand, FamilyOK(x.s, x.p, x.c), IF MovesValid(x.s, x.p, x.c) THEN MovesBlocks(x.s, x.p, x.c) ELSE 0,
                 IF MovesValid(x.s, x.p, x.c) THEN MovesFactors(x.s, x.p, x.c) ELSE <<>>,
                 IF x.s = "DP17.Pi" /\ MovesValid(x.s, x.p, x.c) THEN DPInBucketFactors(x.p, x.c) ELSE <<>> >>)
=============================================================================
