----------------------------- MODULE Trace_Shape -----------------------------
(***************************************************************************)
(* Layer A for C05 as a trace specification.  One record per equivalence   *)
(* class: several valid databases of one scheme and configuration that the *)
(* harness believes share the public size parameter pi_S, each with the    *)
(* projected shape of the index the real EDBSetup built for it.            *)
(*   SamePi          the members really share pi_S (PiS from Layouts.tla)  *)
(*   ShapeEqual      all members have the same shape (per container: entry *)
(*                   count and multiset of key / value byte lengths)       *)
(*   UniformPadding  in every keyed table all keys have one length and all *)
(*                   values have one length                                *)
(***************************************************************************)
EXTENDS SSEFunctional, TLC, Json, IOUtils
Traces == JsonDeserialize(IOEnv.TRACE_FILE)
VARIABLES tid, verdict, clause
tvars == <<tid, verdict, clause>>
R == Traces[tid].ev[1]
M == R.members
ToSet(q) == {q[i] : i \in 1..Len(q)}

AllValid == \A i \in 1..Len(M) : Valid(R.scheme, M[i].p, R.c)
SamePi == \A i \in 1..Len(M) : PiS(R.scheme, M[i].p, R.c) = PiS(R.scheme, M[1].p, R.c)
AllBuilt == \A i \in 1..Len(M) : M[i].setup = "built"
ShapeEqual == \A i \in 1..Len(M) : ToSet(M[i].shape) = ToSet(M[1].shape) /\ Len(M[i].shape) = Len(M[1].shape)
UniformPadding == \A i \in 1..Len(M) : \A j \in 1..Len(M[i].shape) :
                      LET t == M[i].shape[j] IN t.k # <<>> => (Len(t.k) = 1 /\ Len(t.v) = 1)
Why == IF ~AllValid THEN "ValidDomain" ELSE IF ~SamePi THEN "SamePi" ELSE IF ~AllBuilt THEN "NoRaiseOnValid"
       ELSE IF ~ShapeEqual THEN "ShapeEqual" ELSE IF ~UniformPadding THEN "UniformPadding" ELSE "ok"

TraceInit == tid \in 1..Len(Traces) /\ verdict = "run" /\ clause = ""
Judge == /\ verdict = "run" /\ verdict' = (IF Why = "ok" THEN "ACCEPT" ELSE "REJECT")
         /\ clause' = (IF Why = "ok" THEN "" ELSE Why) /\ UNCHANGED tid
TraceSpec == TraceInit /\ [][Judge]_tvars
Done == verdict # "run" => PrintT(<<"V", Traces[tid].tid, verdict, 1, clause>>)
=============================================================================
