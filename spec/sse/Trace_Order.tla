----------------------------- MODULE Trace_Order -----------------------------
(***************************************************************************)
(* Layer A for C06 as a trace specification; every record is one case,     *)
(* judged independently.                                                   *)
(*  kind "labels": scheme, c, p, sigma, tables = for every label-addressed *)
(*    table of the index [name, a, b, bpos] (see Order!LabelOrderWhy): a   *)
(*    from EDBSetup(K, DB), b from EDBSetup(K, sigma(DB)); both indexes are *)
(*    read back from EDB.serialize() (header + pickle).                    *)
(*    Clauses: NoRaiseOnValid, LabelOrder:sorted, LabelOrder:equal.        *)
(*    Drift (Layer B): table sizes differ from the model's.                *)
(*  kind "moves": scheme, c, p, two setups of the same database; run1/run2 *)
(*    = per keyword the ordered slots Search read from the list-typed      *)
(*    members of the index; inb1/inb2 (DP17) = occupants of the buckets    *)
(*    read.  Clauses: Family (the case must be one with >= 12 array blocks *)
(*    and >= 1e8 equally likely placements, else the harness is wrong),    *)
(*    NoRaiseOnValid, Moves, Moves:inbucket.  Drift: number of slots read  *)
(*    differs from the model's number of blocks.                           *)
(***************************************************************************)
EXTENDS Order, TLC, Json, IOUtils
Traces == JsonDeserialize(IOEnv.TRACE_FILE)
VARIABLES tid, verdict, clause
tvars == <<tid, verdict, clause>>
R == Traces[tid].ev[1]

IsPerm(sg, n) == Len(sg) = n /\ {sg[i] : i \in 1..n} = 1..n
LabelsWhy ==
    IF ~(Valid(R.scheme, R.p, R.c) /\ IsPerm(R.sigma, Len(R.p))) THEN "ValidDomain"
    ELSE IF R.setup # "built" THEN "NoRaiseOnValid"
    ELSE LabelOrderWhy(R.tables)
LabelsDrift ==
    \/ Len(R.tables) # NTables(R.scheme, R.p)
    \/ \E t \in 1..Len(R.tables) :
          Len(R.tables[t].a) # (IF Padded(R.scheme) THEN TableCap(R.scheme, R.p, t) ELSE TableSize(R.scheme, R.c, R.p, <<>>, t))
MovesWhyR ==
    IF ~FamilyOK(R.scheme, R.p, R.c) THEN "Family"
    ELSE IF R.setup # "built" THEN "NoRaiseOnValid"
    ELSE IF MovesWhy(R.scheme, R.run1, R.run2, R.inb1, R.inb2) # "ok" THEN MovesWhy(R.scheme, R.run1, R.run2, R.inb1, R.inb2)
    ELSE IF MovesKwFixed(R.scheme, R.p, R.c, R.run1, R.run2) THEN "Moves:keywords-fixed"
    ELSE "ok"
MovesDrift == ~R.partial /\ (FlatLen(R.run1) # MovesBlocks(R.scheme, R.p, R.c) \/ FlatLen(R.run2) # MovesBlocks(R.scheme, R.p, R.c))

Why == IF R.kind = "labels" THEN LabelsWhy ELSE IF R.kind = "moves" THEN MovesWhyR ELSE "unknown-kind"
Drift == IF R.kind = "labels" THEN LabelsDrift ELSE MovesDrift

TraceInit == tid \in 1..Len(Traces) /\ verdict = "run" /\ clause = ""
Judge == /\ verdict = "run"
         /\ verdict' = (IF Why = "ok" THEN "ACCEPT" ELSE "REJECT")
         /\ clause' = (IF Why # "ok" THEN Why ELSE IF Drift THEN "DRIFT" ELSE "")
         /\ UNCHANGED tid
TraceSpec == TraceInit /\ [][Judge]_tvars
Done == verdict # "run" => PrintT(<<"V", Traces[tid].tid, verdict, 1, clause>>)
=============================================================================
