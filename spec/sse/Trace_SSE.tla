------------------------------ MODULE Trace_SSE ------------------------------
(***************************************************************************)
(* Validation of recorded scheme runs (one record per (scheme,             *)
(* configuration, database) case) against SSEFunctional (Layer A) and      *)
(* Layouts (Layer B).  Every case is judged independently.                 *)
(*   Layer A clauses: ValidDomain (the harness only submits valid cases),  *)
(*     NoRaiseOnValid, SearchNoRaise, CorrectPresent, CorrectAbsent.       *)
(*   Layer B (drift, not a violation): the projected shape of the index    *)
(*     equals Layouts!Shape.                                               *)
(***************************************************************************)
EXTENDS SSEFunctional, TLC, Json, IOUtils
Traces == JsonDeserialize(IOEnv.TRACE_FILE)
VARIABLES tid, verdict, clause
tvars == <<tid, verdict, clause>>
R == Traces[tid].ev[1]

ToSet(q) == {q[i] : i \in 1..Len(q)}
SearchOK(x) ==
    /\ x.out = "result"
    /\ IF x.kw > 0 THEN CorrectPresent(R.scheme, R.p[x.kw], x.pos) ELSE CorrectAbsent(x.pos)
FirstBad == CHOOSE i \in 1..Len(R.searches) : ~SearchOK(R.searches[i]) /\ \A j \in 1..(i - 1) : SearchOK(R.searches[j])
Why ==
    IF ~Valid(R.scheme, R.p, R.c) THEN "ValidDomain"
    ELSE IF R.setup # "built" THEN "NoRaiseOnValid"
    ELSE IF \E i \in 1..Len(R.searches) : ~SearchOK(R.searches[i])
         THEN LET x == R.searches[FirstBad] IN
              IF x.out # "result" THEN (IF x.kw > 0 THEN "SearchNoRaise:present" ELSE "SearchNoRaise:absent")
              ELSE IF x.kw > 0 THEN "CorrectPresent" ELSE "CorrectAbsent"
    ELSE "ok"
Drift == Why = "ok" /\ R.shape # <<>> /\ Outcome(R.scheme, R.p, R.c) = "built"
         /\ (ToSet(R.shape) # ToSet(Shape(R.scheme, R.p, R.c)) \/ Len(R.shape) # Len(Shape(R.scheme, R.p, R.c)))

TraceInit == tid \in 1..Len(Traces) /\ verdict = "run" /\ clause = ""
Judge == /\ verdict = "run"
         /\ verdict' = (IF Why = "ok" THEN "ACCEPT" ELSE "REJECT")
         /\ clause' = (IF Why # "ok" THEN Why ELSE IF Drift THEN "DRIFT" ELSE "")
         /\ UNCHANGED tid
TraceSpec == TraceInit /\ [][Judge]_tvars
Done == verdict # "run" => PrintT(<<"V", Traces[tid].tid, verdict, 1, clause>>)
=============================================================================
