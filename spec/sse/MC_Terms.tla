----------------------------- MODULE MC_Terms -----------------------------
(***************************************************************************)
(* Bounded instance of the term-level constructions of Terms.tla (Layer B) *)
(* checked against the C04 invariants (Layer A), for every scheme and      *)
(* numeric configuration in Cfgs at once.                                  *)
(*                                                                         *)
(* A behaviour: choose (scheme, configuration), a valid length profile     *)
(* (one representative per multiset, <= MaxKw keywords, <= MaxN postings)  *)
(* and whether identifier j of EVERY keyword is the same identifier        *)
(* (sh = TRUE: one identifier occurs under every keyword); then            *)
(*   Dummy(len)*  CT14 / ANSS16 only: dummy keywords until N = 2^t, every  *)
(*                split the code's random.randint can produce              *)
(*   EncKeyword*  one step of the _Enc loop per (real or dummy) keyword    *)
(*   Pad          the padding / filling loops (and DP17's encryption loop) *)
(*   NextSetup    a SECOND setup of the same database under the same key:  *)
(*                nonce and randomness counters continue                   *)
(*   Tokens       the tokens of every stored keyword and of an absent one  *)
(* The invariants hold in every state, i.e. also on every partial index.   *)
(* Variant # "code" perturbs what the invariants look at, to show that     *)
(* each of them can fail (model-level sensitivity, run by the harness).    *)
(***************************************************************************)
EXTENDS Terms
CONSTANTS Cfgs,        \* function: <<scheme, configuration number>> -> numeric configuration record
          MaxKw, MaxN, Variant

VARIABLES sc, p, sh, phase, setup, total, queue, st, edb1, toks
vars == <<sc, p, sh, phase, setup, total, queue, st, edb1, toks>>
S == sc[1]
C == Cfgs[sc]

NonInc(q) == \A i \in 1..(Len(q) - 1) : q[i] >= q[i + 1]
Profiles == UNION { { q \in [1..k -> 1..MaxN] : NonInc(q) /\ SumSeq(q) <= MaxN } : k \in 1..MaxKw }
(* keyword i is Plain("kw", i); its j-th identifier is identifier j of the pool (sh) or an identifier of its own *)
Items(q, shared) == [i \in 1..Len(q) |-> [w |-> Plain("kw", i),
                                           ids |-> [j \in 1..q[i] |-> Plain("id", IF shared THEN j ELSE 100 * i + j)]]]

Init == /\ sc \in DOMAIN Cfgs
        /\ p \in {q \in Profiles : Valid(sc[1], q, Cfgs[sc]) /\ Outcome(sc[1], q, Cfgs[sc]) = "built"}
        /\ sh \in BOOLEAN
        /\ phase = "dummy" /\ setup = 1 /\ total = N(p) /\ queue = Items(p, sh)
        /\ st = St0 /\ edb1 = <<>> /\ toks = {}

Dummy(len) ==
    /\ phase = "dummy" /\ HasDummies(S) /\ total < Pow2(T(p)) /\ len \in 1..(Pow2(T(p)) - total)
    /\ queue' = Append(queue, [w |-> Rand(st.rc + 1), ids |-> [j \in 1..len |-> Rand(st.rc + 1 + j)]])
    /\ st' = [st EXCEPT !.rc = @ + 1 + len]
    /\ total' = total + len
    /\ UNCHANGED <<sc, p, sh, phase, setup, edb1, toks>>
StartEnc ==
    /\ phase = "dummy" /\ (HasDummies(S) => total = Pow2(T(p)))
    /\ phase' = "enc"
    /\ UNCHANGED <<sc, p, sh, setup, total, queue, st, edb1, toks>>
EncKeyword ==
    /\ phase = "enc" /\ queue # <<>>
    /\ st' = EncKw(S, st, Head(queue), p, C)
    /\ queue' = Tail(queue)
    /\ UNCHANGED <<sc, p, sh, phase, setup, total, edb1, toks>>
Pad ==
    /\ phase = "enc" /\ queue = <<>>
    /\ st' = PadAll(S, st, p, C)
    /\ phase' = "built"
    /\ UNCHANGED <<sc, p, sh, setup, total, queue, edb1, toks>>
NextSetup ==
    /\ phase = "built" /\ setup = 1
    /\ edb1' = st.ents
    /\ st' = [St0 EXCEPT !.nc = st.nc, !.rc = st.rc]
    /\ setup' = 2 /\ phase' = "dummy" /\ total' = N(p) /\ queue' = Items(p, sh)
    /\ UNCHANGED <<sc, p, sh, toks>>
Tokens ==
    /\ phase = "built" /\ setup = 2
    /\ toks' = UNION {SeqToSet(Tok(S, Plain("kw", i), C)) : i \in 0..Len(p)}      \* keyword 0 is not stored
    /\ phase' = "done"
    /\ UNCHANGED <<sc, p, sh, setup, total, queue, st, edb1>>
Next == (\E len \in 1..MaxN : Dummy(len)) \/ StartEnc \/ EncKeyword \/ Pad \/ NextSetup \/ Tokens
Spec == Init /\ [][Next]_vars

(* ---- what the invariants look at: the model as it is, or a perturbed view (sensitivity variants) ---- *)
RECURSIVE ZeroNonce(_)
ZeroNonce(t) == CASE Op(t) = "E" -> E(t[2], t[3], 0)
                  [] Op(t) = "Cat" -> Cat([i \in 1..Len(t[2]) |-> ZeroNonce(t[2][i])])
                  [] OTHER -> t
RECURSIVE ZeroRand(_)
ZeroRand(t) == CASE Op(t) = "Rand" -> Const("0")
                 [] Op(t) = "Cat" -> Cat([i \in 1..Len(t[2]) |-> ZeroRand(t[2][i])])
                 [] OTHER -> t
ViewEnt(e) ==
    CASE Variant = "const_nonce" -> [e EXCEPT !.v = ZeroNonce(@)]
      [] Variant = "zero_padding" -> [e EXCEPT !.v = ZeroRand(@)]
      [] Variant = "debug_field" -> [e EXCEPT !.v = IF Op(@) = "E" THEN Cat(<<@, @[3]>>) ELSE @]        \* payload appended in clear
      [] Variant = "bare_hash_label" -> [e EXCEPT !.k = IF Op(@) \in {"PRF", "PRP", "H", "Part"} THEN H(Plain("kw", 1)) ELSE @]
      [] OTHER -> e
View(edb) == [i \in 1..Len(edb) |-> ViewEnt(edb[i])]
ViewToks == IF Variant = "keyword_in_token" /\ toks # {} THEN toks \cup {Cat(<<Plain("kw", 1), Const("x")>>)} ELSE toks
E1 == View(edb1)
E2 == View(st.ents)

(* ---- Layer A invariants ---- *)
NoPlainLeafInv == NoPlainLeaf(S, E1, ViewToks) /\ NoPlainLeaf(S, E2, ViewToks)
EntriesDistinctInv == EntriesDistinct(E1) /\ EntriesDistinct(E2)
TwoSetupsDisjointInv == setup = 2 => TwoSetupsDisjoint(E1, E2)
(* ---- Layer B invariants ---- *)
NoncesFreshInv == NoncesFresh(E1, E2)
ClassesAllowedInv == (ClassesOf(E1) \cup ClassesOf(E2) \cup TokClassesOf(ViewToks)) \subseteq AllowedClass(S)
Public(t) == t \in {NoneT, Slot, Const("level")} \/ (Op(t) = "Plain" /\ LeakAllowed(S, t[2]))
AllKeyedInv == \A t \in StoredTerms(E1) \cup StoredTerms(E2) \cup ViewToks : Public(t) \/ Keyed(t)
(* every ciphertext-bearing table of a scheme that encrypts is really filled *)
TypeOK == /\ phase \in {"dummy", "enc", "built", "done"} /\ setup \in {1, 2}
          /\ (phase = "done" /\ S # "CGKO06.SSE2" => CtItems(edb1) # <<>> /\ CtItems(st.ents) # <<>>)
          /\ (phase = "done" => Len(edb1) > 0 /\ Len(st.ents) > 0 /\ toks # {})

Emit == phase = "done" =>
            PrintT(<<"H", S, sc[2], p, sh, ClassesOf(edb1) \cup ClassesOf(st.ents) \cup TokClassesOf(toks),
                     Len(CtItems(edb1)), Len(CtItems(st.ents)), st.nc>>)
=============================================================================
