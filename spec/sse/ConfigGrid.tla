----------------------------- MODULE ConfigGrid -----------------------------
(***************************************************************************)
(* C08 - a configuration is refused loudly or yields a correct scheme.     *)
(*                                                                         *)
(* A configuration is a record over the scheme's configuration keys.       *)
(* Numeric fields hold integers; two reserved integers stand for what a    *)
(* user can also write:  X = the non-integer "x",  DEL = the key is not in *)
(* the dictionary.  Primitive-name fields hold the string the user wrote   *)
(* (DELS = key absent).  DP17's level ratio is a pair <<num, den>>.        *)
(* A database is its length profile p plus three facts about the concrete  *)
(* instance the harness built: d = [idlen, kwmax, files].                  *)
(*                                                                         *)
(* LAYER A (the property):                                                 *)
(*   the outcome of SSEConfig / SSEScheme / KeyGen / EDBSetup / (TokenGen, *)
(*   Search)* for (cfg, db) is Raised(stage), AllCorrect or WrongAnswer;   *)
(*   WrongAnswer is forbidden for a database that is valid for cfg, and a  *)
(*   configuration with a required field deleted must be Raised("config"). *)
(*                                                                         *)
(* LAYER B (the code as written, drift only): the grid of the property     *)
(*   text and, per grid point, the set of stages at which the code can     *)
(*   stop - a transcription of the scattered checks of the nine config.py, *)
(*   construction.py and the primitive wrappers (AES key sizes, PRF key    *)
(*   length equality along each chain, Pi2Lev index-width equality and     *)
(*   A_len <= 2^(8w), SSE-1 array addressing, SSE-2 counter width,         *)
(*   check_param_exist treating -1 as missing, Python's str/int            *)
(*   arithmetic for the non-integer "x", LENGTH_NOT_GIVEN = 0, ...).       *)
(*                                                                         *)
(* Environment tables (no floats, no hashlib in TLA+): the harness writes  *)
(* a JSON file named by the environment variable C08_ENV with              *)
(*   hash  : [[name, avail, dsz]]  avail = name.lower() is in hashlib's    *)
(*           algorithms_available, dsz = digest size of hashlib.new(name)  *)
(*           (-1: hashlib.new(name) raises)                                *)
(*   ratio : [[num, den, stab]]    stab[l+1] = max(1, ceil(l * num/den))   *)
(*           as Python floats compute it, l = 0..30                        *)
(***************************************************************************)
EXTENDS SSEFunctional, Json, IOUtils

X == -77
FLT == -78          \* another non-integer a user can write: the float 1.5
DEL == -88
DELS == "<deleted>"
Env == JsonDeserialize(IOEnv.C08_ENV)

SchemeNames == {"CGKO06.SSE1", "CGKO06.SSE2", "CJJ14.PiBas", "CJJ14.PiPack", "CJJ14.PiPtr", "CJJ14.Pi2Lev",
                "CT14.Pi", "ANSS16.Scheme3", "DP17.Pi"}
RATIO == "param_actual_storage_level_ratio"

NameFields(s) ==
    CASE s \in {"CJJ14.PiBas", "CJJ14.PiPack", "CJJ14.PiPtr", "CJJ14.Pi2Lev"} -> {"prf_f", "ske"}
      [] s = "CGKO06.SSE1"    -> {"prf_f", "prp_pi", "prp_psi", "ske1", "ske2"}
      [] s = "CGKO06.SSE2"    -> {"prp_pi", "ske"}
      [] s = "CT14.Pi"        -> {"prf_f", "prf_f_prime", "ske"}
      [] s = "ANSS16.Scheme3" -> {"prf", "ske"}
      [] s = "DP17.Pi"        -> {"rnd", "prf_f", "hash_h"}

IsNum(v) == v # X /\ v # FLT /\ v # DEL
Deleted(s, cfg, f) ==
    IF f \in NameFields(s) THEN cfg[f] = DELS
    ELSE IF f = RATIO THEN cfg[f][1] = DEL
    ELSE cfg[f] = DEL

(* ======================================================================= *)
(* LAYER A                                                                 *)
(* ======================================================================= *)
(* the parameters each scheme needs (every key its config.py / construction.py reads) *)
Required(s) ==
    CASE s = "CJJ14.PiBas"    -> {"param_lambda", "prf_f_output_length", "prf_f", "ske"}
      [] s = "CJJ14.PiPack"   -> {"param_lambda", "param_B", "param_identifier_size", "prf_f_output_length", "prf_f", "ske"}
      [] s = "CJJ14.PiPtr"    -> {"param_lambda", "param_B", "param_b", "param_identifier_size", "prf_f_output_length", "prf_f", "ske"}
      [] s = "CJJ14.Pi2Lev"   -> {"param_lambda", "param_B", "param_b", "param_B_prime", "param_b_prime", "param_identifier_size",
                                  "prf_f_output_length", "prf_f", "ske"}
      [] s = "CGKO06.SSE1"    -> {"param_k", "param_l", "param_s", "param_dictionary_size", "param_identifier_size",
                                  "prf_f", "prp_pi", "prp_psi", "ske1", "ske2"}
      [] s = "CGKO06.SSE2"    -> {"param_k", "param_l", "param_n", "param_max_file_size", "prp_pi", "ske"}
      [] s = "CT14.Pi"        -> {"param_k", "param_k_prime", "param_l", "param_identifier_size", "prf_f", "prf_f_prime", "ske"}
      [] s = "ANSS16.Scheme3" -> {"param_lambda", "param_k", "param_k_prime", "param_l", "param_l_prime", "param_identifier_size",
                                  "prf", "ske"}
      [] s = "DP17.Pi"        -> {"param_lambda", RATIO, "param_L", "param_identifier_size", "rnd", "prf_f", "hash_h"}
LacksRequired(s, cfg) == \E f \in Required(s) : Deleted(s, cfg, f)

HasIdField(s) == s # "CJJ14.PiBas"
HasKwLimit(s) == s \in {"CGKO06.SSE1", "CGKO06.SSE2"}

(* the database the harness built is valid for the configuration (property text: identifiers of exactly the    *)
(* configured size, keywords within the configured maximum, SSE-1's array and dictionary size and SSE-2's      *)
(* number of files respected).  Duplicate-free lists, non-zero identifiers, no leading NUL hold by construction. *)
IdOK(s, cfg, d) == HasIdField(s) => (IsNum(cfg.param_identifier_size) /\ cfg.param_identifier_size >= 1
                                     /\ d.idlen = cfg.param_identifier_size)
KwOK(s, cfg, d) == HasKwLimit(s) => (IsNum(cfg.param_l) /\ cfg.param_l >= 1 /\ d.kwmax <= cfg.param_l)
DbValid(s, cfg, p, d) ==
    /\ Len(p) >= 1 /\ \A i \in 1..Len(p) : p[i] >= 1
    /\ IdOK(s, cfg, d) /\ KwOK(s, cfg, d)
    /\ (s = "CGKO06.SSE1" => /\ IsNum(cfg.param_s) /\ N(p) < cfg.param_s
                             /\ IsNum(cfg.param_dictionary_size) /\ Len(p) <= cfg.param_dictionary_size)
    /\ (s = "CGKO06.SSE2" => IsNum(cfg.param_n) /\ d.files <= cfg.param_n)

(* Negative block counts / capacities are configurations "a user can write" and "out-of-range values for every numeric   *)
(* field" belong to the grid: they are inside the property (round 5; earlier they were read as outside, and PiPack /    *)
(* PiPtr built an index with B = -2 whose every search came back empty - repaired by the fix recorded as D17).  A       *)
(* negative identifier size, array size or file count leaves no database that is valid for the configuration, so such  *)
(* points are judged by MissingFieldRefused only.                                                                        *)
CapNames == {"param_B", "param_b", "param_B_prime", "param_b_prime", "param_s", "param_dictionary_size", "param_n",
             "param_max_file_size", "param_identifier_size", "param_L"}
InDomain(s, cfg) == TRUE

SearchWrong(s, p, x) ==
    /\ x.out = "result"
    /\ ~(IF x.kw > 0 THEN CorrectPresent(s, p[x.kw], x.pos) ELSE CorrectAbsent(x.pos))
WrongAnswer(s, p, searches) == \E i \in 1..Len(searches) : SearchWrong(s, p, searches[i])
OutcomeA(s, p, stage, searches) ==
    IF WrongAnswer(s, p, searches) THEN "WrongAnswer" ELSE IF stage = "ok" THEN "AllCorrect" ELSE "Raised"

(* the two clauses of the property *)
RefusedOrCorrect(s, cfg, p, d, stage, searches) ==
    (InDomain(s, cfg) /\ DbValid(s, cfg, p, d)) => OutcomeA(s, p, stage, searches) # "WrongAnswer"
MissingFieldRefused(s, cfg, stage) == LacksRequired(s, cfg) => stage = "config"

(* ======================================================================= *)
(* LAYER B - the grid                                                      *)
(* ======================================================================= *)
LenVals == {8, 16, 20, 24, 32, 48, 0, -1, X}                      \* in range, plus invalid 0, -1, "x"
BlkVals == {0, 1, 2, 3, 4, 8, 64}
NegVals == {-2, -8}                                                \* out of range below zero (other than the "missing" marker -1)
IdVals  == BlkVals \cup {-1, X}
LocVals == {1, 2, 3, 0, X}
RatioVals == {<<0, 1>>, <<1, 5>>, <<1, 2>>, <<4, 5>>, <<1, 1>>}
(* registries: lookup is by name.lower(); the grid lists each registered name in lower / canonical / upper case *)
PRFAccepted == {"hmacprf", "hmac-prf", "hmac_prf", "HmacPRF", "HMAC-PRF", "Hmac_PRF"}
SKEAccepted == {"aes-cbc", "aes_cbc", "aescbc", "AES-CBC", "AES_CBC", "AesCbc"}
PRPBitwise  == {"bitwise_fpe_prp", "bitwise-fpe-prp", "bitwisefpeprp", "BitwiseFPEPRP", "BITWISE-FPE-PRP"}
(* registered, but their constructors take message_length / key_length: the schemes' keyword arguments are refused *)
PRPBytewise == {"lubyrackoffprp", "luby-rackoff-prp", "luby_rackoff_prp", "LubyRackoffPRP",
                "hmaclubyrackoffprp", "hmac-luby-rackoff-prp", "hmac_luby_rackoff_prp", "HmacLubyRackoffPRP"}
Unknown == "no-such-primitive"
PRFNames == PRFAccepted \cup {Unknown}
SKENames == SKEAccepted \cup {Unknown}
PRPNames == PRPBitwise \cup PRPBytewise \cup {Unknown}
HashNames == {Env.hash[i][1] : i \in 1..Len(Env.hash)} \cup {Unknown}

HashRow(name) == CHOOSE i \in 1..Len(Env.hash) : Env.hash[i][1] = name
HashKnown(name) == \E i \in 1..Len(Env.hash) : Env.hash[i][1] = name
HashBad(name) == ~HashKnown(name) \/ ~Env.hash[HashRow(name)][2] \/ Env.hash[HashRow(name)][3] = -1
HashLen(name) == Env.hash[HashRow(name)][3]
RatioRow(r) == CHOOSE i \in 1..Len(Env.ratio) : Env.ratio[i][1] = r[1] /\ Env.ratio[i][2] = r[2]
STab(r) == Env.ratio[RatioRow(r)][3]

(* the default configurations; SSE-1's array and dictionary (2^16 each by default) and SSE-2's param_n (-1 = "scan *)
(* the database first") are sized for the small databases of this check                                           *)
Base(s) ==
    CASE s = "CJJ14.PiBas"    -> [param_lambda |-> 32, prf_f_output_length |-> 32, prf_f |-> "HmacPRF", ske |-> "AES-CBC"]
      [] s = "CJJ14.PiPack"   -> [param_lambda |-> 32, param_B |-> 64, param_identifier_size |-> 8, prf_f_output_length |-> 32,
                                  prf_f |-> "HmacPRF", ske |-> "AES-CBC"]
      [] s = "CJJ14.PiPtr"    -> [param_lambda |-> 32, param_B |-> 64, param_b |-> 64, param_identifier_size |-> 8,
                                  prf_f_output_length |-> 32, prf_f |-> "HmacPRF", ske |-> "AES-CBC"]
      [] s = "CJJ14.Pi2Lev"   -> [param_lambda |-> 32, param_B |-> 64, param_b |-> 64, param_B_prime |-> 64, param_b_prime |-> 64,
                                  param_identifier_size |-> 8, prf_f_output_length |-> 32, prf_f |-> "HmacPRF", ske |-> "AES-CBC"]
      [] s = "CGKO06.SSE1"    -> [param_k |-> 24, param_l |-> 32, param_s |-> 64, param_dictionary_size |-> 16,
                                  param_identifier_size |-> 8, prf_f |-> "HmacPRF", prp_pi |-> "BitwiseFPEPRP",
                                  prp_psi |-> "BitwiseFPEPRP", ske1 |-> "AES-CBC", ske2 |-> "AES-CBC"]
      [] s = "CGKO06.SSE2"    -> [param_k |-> 24, param_l |-> 32, param_n |-> 8, param_dictionary_size |-> 16,
                                  param_identifier_size |-> 8, param_max_file_size |-> 1048576,
                                  prp_pi |-> "BitwiseFPEPRP", ske |-> "AES-CBC"]
      [] s = "CT14.Pi"        -> [param_k |-> 32, param_k_prime |-> 32, param_l |-> 32, param_identifier_size |-> 4,
                                  prf_f |-> "HmacPRF", prf_f_prime |-> "HmacPRF", ske |-> "AES-CBC"]
      [] s = "ANSS16.Scheme3" -> [param_lambda |-> 32, param_k |-> 32, param_k_prime |-> 32, param_l |-> 32, param_l_prime |-> 32,
                                  param_identifier_size |-> 4, prf |-> "HmacPRF", ske |-> "AES-CBC"]
      [] s = "DP17.Pi"        -> [param_lambda |-> 32, param_actual_storage_level_ratio |-> <<1, 5>>, param_L |-> 1,
                                  param_identifier_size |-> 8, rnd |-> "AES-CBC", prf_f |-> "HmacPRF", hash_h |-> "SHA1"]

LenFields(s) ==
    CASE s \in {"CJJ14.PiBas", "CJJ14.PiPack", "CJJ14.PiPtr", "CJJ14.Pi2Lev"} -> {"param_lambda", "prf_f_output_length"}
      [] s \in {"CGKO06.SSE1", "CGKO06.SSE2"} -> {"param_k", "param_l"}
      [] s = "CT14.Pi"        -> {"param_k", "param_k_prime", "param_l"}
      [] s = "ANSS16.Scheme3" -> {"param_lambda", "param_k", "param_k_prime", "param_l", "param_l_prime"}
      [] s = "DP17.Pi"        -> {"param_lambda"}
(* the values the grid gives to one field (deletion is added by the generator) *)
NumericField(s, f) == f \in LenFields(s) \cup {"param_identifier_size", "param_B", "param_b", "param_B_prime", "param_b_prime",
                                               "param_dictionary_size", "param_s", "param_n", "param_max_file_size", "param_L"}
FieldVals0(s, f) ==
    IF f \in LenFields(s) THEN LenVals
    ELSE IF f = "param_identifier_size" THEN IdVals
    ELSE IF f \in {"param_B", "param_b", "param_B_prime", "param_b_prime", "param_dictionary_size"} THEN BlkVals \cup NegVals \cup {-1, X}
    ELSE IF f = "param_s" THEN BlkVals \cup {5, 6, 7, 12, 16, 32, 48, -1, X}      \* incl. non-powers of two
    ELSE IF f = "param_n" THEN BlkVals \cup {5, 6, 7, 9, -1, X}
    ELSE IF f = "param_max_file_size" THEN BlkVals \cup {1048576, -1, X}
    ELSE IF f = "param_L" THEN LocVals \cup NegVals \cup {-1}
    ELSE IF f = RATIO THEN RatioVals
    ELSE IF f \in {"prf_f", "prf_f_prime", "prf"} THEN PRFNames
    ELSE IF f \in {"ske", "ske1", "ske2", "rnd"} THEN SKENames
    ELSE IF f \in {"prp_pi", "prp_psi"} THEN PRPNames
    ELSE IF f = "hash_h" THEN HashNames
    ELSE {}
FieldVals(s, f) == (IF NumericField(s, f) THEN {FLT} ELSE {}) \cup FieldVals0(s, f)
DelVal(s, f) == IF f \in NameFields(s) THEN DELS ELSE IF f = RATIO THEN <<DEL, 1>> ELSE DEL

(* ======================================================================= *)
(* LAYER B - where the code as written refuses                             *)
(* ======================================================================= *)
(* The proposed fix C08-zero-length-labels (CT14 param_k, ANSS16 param_l / param_l_prime must be positive) is in   *)
(* the model.  FALSE describes the tree without it: setup completes, every keyword gets the same label, and a      *)
(* search decrypts a foreign ciphertext - PKCS7 unpadding fails with probability 255/256, else garbage comes back. *)
ZeroLenRefused == TRUE
(* fix D17: PiPack param_B, PiPtr param_B / param_b must be positive integers (FALSE describes the tree without it) *)
PosBlockRefused == TRUE
NotPosInt(v) == v = X \/ (IsNum(v) /\ v < 1)

Missing(v) == v = DEL \/ v = -1                     \* check_param_exist: config_dict.get(field, -1) == -1
AESKey(v) == v \in {16, 24, 32}
PRFOK(name) == name \in PRFAccepted
SKEOK(name) == name \in SKEAccepted
PRPOK(name) == name \in PRPBitwise                  \* DELS: get(name, "") -> unsupported PRP type
EffOut(v) == IF v = 0 THEN 20 ELSE v                \* HmacPRF: output_length == LENGTH_NOT_GIVEN -> sha1 digest size

CJJCommonRaises(cfg) ==
    \/ Missing(cfg.param_lambda) \/ Missing(cfg.prf_f_output_length)
    \/ ~PRFOK(cfg.prf_f) \/ ~SKEOK(cfg.ske) \/ ~AESKey(cfg.param_lambda)
(* "x" * 3 is a str, str // int and int // str are TypeErrors, // 0 is a ZeroDivisionError *)
Pi2LevIdxW(cfg) == (cfg.param_B * cfg.param_identifier_size) \div cfg.param_B_prime
Pi2LevCfgRaises(cfg) ==
    LET vs == {cfg.param_B, cfg.param_b, cfg.param_B_prime, cfg.param_b_prime, cfg.param_identifier_size} IN
    IF (\E v \in vs : Missing(v)) \/ X \in vs \/ cfg.param_B_prime = 0 \/ cfg.param_b_prime = 0 THEN TRUE
    ELSE (cfg.param_b * cfg.param_identifier_size) \div cfg.param_b_prime # Pi2LevIdxW(cfg)     \* the index-width equality

RECURSIVE PMax(_, _, _, _)
PMax(size, cur, doc, res) ==            \* determine_param_max: keywords of 1, 2, ... bytes that fit a document
    LET step == (256 ^ cur) * cur IN
    IF doc + step > size THEN res + (size - doc) \div cur ELSE PMax(size, cur + 1, doc + step, res + 256 ^ cur)
ParamMax(mfs) == PMax(mfs, 1, 0, 0)
SSE2Bits(cfg) == CeilLog2(cfg.param_n + ParamMax(cfg.param_max_file_size))     \* param_log2_n_plus_max

ConfigRaises(s, cfg) ==
    CASE s = "CJJ14.PiBas"  -> CJJCommonRaises(cfg)
      [] s = "CJJ14.PiPack" -> CJJCommonRaises(cfg) \/ Missing(cfg.param_B) \/ Missing(cfg.param_identifier_size)
                               \/ (PosBlockRefused /\ NotPosInt(cfg.param_B))
      [] s = "CJJ14.PiPtr"  -> CJJCommonRaises(cfg) \/ Missing(cfg.param_B) \/ Missing(cfg.param_b) \/ Missing(cfg.param_identifier_size)
                               \/ (PosBlockRefused /\ (NotPosInt(cfg.param_B) \/ NotPosInt(cfg.param_b)))
      [] s = "CJJ14.Pi2Lev" -> CJJCommonRaises(cfg) \/ Pi2LevCfgRaises(cfg)
      [] s = "CGKO06.SSE1"  ->
            \/ \E f \in {"param_k", "param_l", "param_s", "param_dictionary_size", "param_identifier_size"} : Missing(cfg[f])
            \/ cfg.param_s \in {0, X}                                   \* math.log2: domain error / TypeError
            \/ ~PRPOK(cfg.prp_pi) \/ ~PRPOK(cfg.prp_psi) \/ ~PRFOK(cfg.prf_f)
            \/ ~AESKey(cfg.param_k)                                     \* "x": "x" + int in the PRF output length
            \/ ~SKEOK(cfg.ske1) \/ ~SKEOK(cfg.ske2)
      [] s = "CGKO06.SSE2"  ->
            \/ \E f \in {"param_k", "param_l", "param_n", "param_max_file_size"} : Missing(cfg[f])
            \/ cfg.param_max_file_size = X \/ cfg.param_n \in {0, X}
            \/ cfg.param_l = X                                          \* "xxxxxxxx" + int
            \/ ~PRPOK(cfg.prp_pi) \/ ~SKEOK(cfg.ske) \/ ~AESKey(cfg.param_k)
      [] s = "CT14.Pi"      ->
            \/ \E f \in {"param_k", "param_k_prime", "param_l", "param_identifier_size"} : Missing(cfg[f])
            \/ cfg.param_k = X \/ ~AESKey(cfg.param_k_prime)            \* "x" + int; "x" + "x" passes, then AES refuses "x"
            \/ (ZeroLenRefused /\ cfg.param_k < 1)
            \/ ~PRFOK(cfg.prf_f) \/ ~PRFOK(cfg.prf_f_prime) \/ ~SKEOK(cfg.ske)
      [] s = "ANSS16.Scheme3" ->
            \/ \E f \in {"param_lambda", "param_k", "param_k_prime", "param_l", "param_l_prime", "param_identifier_size"} : Missing(cfg[f])
            \/ X \in {cfg.param_k, cfg.param_k_prime, cfg.param_l, cfg.param_l_prime}       \* mixed str + int; all "x": AES refuses
            \/ (ZeroLenRefused /\ (cfg.param_l < 1 \/ cfg.param_l_prime < 1))
            \/ ~PRFOK(cfg.prf) \/ ~SKEOK(cfg.ske) \/ ~AESKey(cfg.param_k)
      [] s = "DP17.Pi"      ->
            \/ \E f \in {"param_lambda", "param_L", "param_identifier_size"} : Missing(cfg[f])
            \/ cfg[RATIO][1] = DEL
            \/ ~SKEOK(cfg.rnd) \/ ~AESKey(cfg.param_lambda) \/ ~PRFOK(cfg.prf_f) \/ HashBad(cfg.hash_h)
            \/ cfg.param_identifier_size = X                            \* b"\x00" * ("x" + 32)

(* what the stage model needs to know about the database: identifier and keyword sizes as configured, and SSE-1's  *)
(* capacities (beyond them the outcome depends on where the PRP sends the overflowing counter)                     *)
Predictable(s, cfg, p, d) ==
    /\ IdOK(s, cfg, d) /\ KwOK(s, cfg, d)
    /\ (s = "CGKO06.SSE1" => /\ IsNum(cfg.param_s) /\ N(p) < cfg.param_s
                             /\ IsNum(cfg.param_dictionary_size) /\ Len(p) <= cfg.param_dictionary_size)

MaxOf(p) == CHOOSE m \in {p[i] : i \in 1..Len(p)} : \A i \in 1..Len(p) : p[i] <= m
FoutBad(cfg) == cfg.prf_f_output_length = X \/ EffOut(cfg.prf_f_output_length) # cfg.param_lambda   \* key of the next PRF / SKE call
Pi2LevC(cfg) == [B |-> cfg.param_B, b |-> cfg.param_b, Bp |-> cfg.param_B_prime, bp |-> cfg.param_b_prime, idxw |-> Pi2LevIdxW(cfg)]
(* DP17: the level the code stores a list of n entries at: the smallest listed level i with L * 2^i >= n *)
DPNonNeg(p, c) == {i \in DPLevels(p, c) : i >= 0}      \* (a negative level is listed for some ratios; no list is stored there)
DPLevelOf(n, p, c) == CHOOSE i \in DPNonNeg(p, c) : c.L * Pow2(i) >= n /\ \A j \in DPNonNeg(p, c) : (c.L * Pow2(j) >= n => i <= j)

AnyStage == {"config", "scheme", "keygen", "setup", "token", "search", "ok", "wrong"}
(* after a configuration that builds *)
AfterConfig(s, cfg, p) ==
    CASE s = "CJJ14.PiBas"  -> IF FoutBad(cfg) THEN {"setup"} ELSE {"ok"}
      [] s = "CJJ14.PiPack" -> IF FoutBad(cfg) \/ cfg.param_B \in {0, X} THEN {"setup"}                      \* range() step 0 / "x"
                               ELSE IF cfg.param_B < 0 THEN {"wrong"} ELSE {"ok"}                           \* (only without fix D17)
      [] s = "CJJ14.PiPtr"  -> IF FoutBad(cfg) \/ cfg.param_B \in {0, X} \/ cfg.param_b \in {0, X} THEN {"setup"}
                               ELSE IF cfg.param_B < 0 \/ cfg.param_b < 0 THEN {"wrong"} ELSE {"ok"}        \* (only without fix D17)
      [] s = "CJJ14.Pi2Lev" ->
            IF cfg.param_B = 0 THEN {"setup"}                           \* every list is longer than b' * 0: ceil(n / (B * B'))
            ELSE IF Pi2LevOutcome(p, Pi2LevC(cfg)) = "raised" THEN {"setup"}                                \* index width, "too large"
            ELSE IF FoutBad(cfg) THEN {"setup"} ELSE {"ok"}
      [] s = "CGKO06.SSE1"  ->
            (* the PRP maps the node counter into 0 .. 2^log2(s) - 1: beyond the array when s is not a power of two; *)
            (* the 1-bit Feistel (s = 2) is not length-preserving                                                    *)
            IF cfg.param_s >= 4 /\ Pow2(CeilLog2(cfg.param_s)) = cfg.param_s THEN {"ok"} ELSE {"setup", "ok"}
      [] s = "CGKO06.SSE2"  ->
            (* the counter j of a posting / of a token entry is written on param_log2_n_plus_max bits *)
            IF MaxOf(p) >= Pow2(SSE2Bits(cfg)) THEN {"setup"}
            ELSE IF cfg.param_n >= Pow2(SSE2Bits(cfg)) THEN {"token"}
            ELSE IF MaxOf(p) > cfg.param_n THEN {"wrong"}               \* over capacity: the token has param_n entries
            ELSE {"ok"}
      [] s = "CT14.Pi"      ->
            IF cfg.param_l = X THEN {"setup"}
            ELSE IF cfg.param_k < 1 THEN {"search", "ok", "wrong"}      \* only without the proposed fix
            ELSE {"ok"}
      [] s = "ANSS16.Scheme3" ->
            IF cfg.param_lambda = X THEN {"keygen"}                     \* os.urandom("x")
            ELSE IF cfg.param_k_prime # cfg.param_k THEN {"setup"}      \* K'_i is used as a key of the one SKE instance
            ELSE IF cfg.param_l < 1 \/ cfg.param_l_prime < 1 THEN {"search", "ok", "wrong"}     \* only without the proposed fix
            ELSE {"ok"}
      [] s = "DP17.Pi"      ->
            IF cfg.param_L \in {0, X} \/ cfg.param_L < 0 THEN {"setup"}  \* no level is large enough / "x" > 1
            ELSE IF \E i \in DPLevels(p, [stab |-> STab(cfg[RATIO]), L |-> cfg.param_L]) : i < -1
                 THEN {"setup"}                                         \* a listed level below -1: 2 ** (i + 1) is a float, range() refuses it
            ELSE IF HashLen(cfg.hash_h) = 0                             \* shake_*: [i || x] has to fit 0 bytes
                 THEN LET c == [stab |-> STab(cfg[RATIO]), L |-> cfg.param_L] IN
                      IF \A i \in 1..Len(p) : DPLevelOf(p[i], p, c) = 0 THEN {"setup", "ok"} ELSE {"setup"}
            ELSE {"ok"}

HasFlt(s, cfg) == \E f \in DOMAIN cfg : f \notin NameFields(s) /\ f # RATIO /\ cfg[f] = FLT
StageSet(s, cfg, p, d) ==
    IF HasFlt(s, cfg) THEN AnyStage                 \* where a float is refused (or whether it works) is not modelled
    ELSE IF ConfigRaises(s, cfg) THEN {"config"}
    ELSE IF ~Predictable(s, cfg, p, d) THEN AnyStage
    ELSE AfterConfig(s, cfg, p)

(* what the harness does when it instantiates a profile: identifier and keyword sizes as configured when that is possible *)
IdLenFor(s, cfg) == IF HasIdField(s) /\ IsNum(cfg.param_identifier_size) /\ cfg.param_identifier_size >= 1
                    THEN cfg.param_identifier_size ELSE 8
KwMaxFor(s, cfg) == IF HasKwLimit(s) /\ IsNum(cfg.param_l) /\ cfg.param_l >= 1 THEN Min(cfg.param_l, 10) ELSE 10
DFor(s, cfg, p) == [idlen |-> IdLenFor(s, cfg), kwmax |-> KwMaxFor(s, cfg), files |-> N(p)]
=============================================================================
