---------------------------- MODULE Trace_History ----------------------------
(***************************************************************************)
(* Trace validation for C07: one trace per (scheme, configuration,         *)
(* database, search sequence).  Events, in order:                          *)
(*   case       scheme, numeric configuration c, profile p, n[w] (length   *)
(*              of the posting list of each keyword symbol, 0 = absent),   *)
(*              pre = digests of the deep copies of the configuration      *)
(*              dictionary and of DEFAULT_CONFIG taken before the          *)
(*              constructor ran                                            *)
(*   construct  post = digests of the live dictionaries afterwards         *)
(*   provide    digests of the deep copy of the database and of            *)
(*              K.serialize(), taken before EDBSetup                       *)
(*   setup      out, post = digests of the live inputs afterwards, edb =   *)
(*              digest of EDB.serialize(), single[w] = answer of one lone  *)
(*              search on a private copy of the index                      *)
(*   search     w, digests of EDB.serialize() and Token.serialize() before *)
(*              and after, digests of the live inputs afterwards, out, pos *)
(* A trace is accepted iff History allows every event.                     *)
(***************************************************************************)
EXTENDS History, TLC, Json, IOUtils
Traces == JsonDeserialize(IOEnv.TRACE_FILE)
VARIABLES tid, l, verdict, clause
tvars == <<inp, edb, ans, tid, l, verdict, clause>>
Tr == Traces[tid].ev
Ev == Tr[l]
Hd == Tr[1]
SetupEv == Tr[4]

Why ==
    CASE Ev.e = "construct" -> IF Ev.out # "ok" THEN "Construct:raised" ELSE ConstructWhy(Ev.post)
      [] Ev.e = "provide"   -> "ok"
      [] Ev.e = "setup"     -> IF ~Valid(Hd.scheme, Hd.p, Hd.c) THEN "ValidDomain" ELSE SetupWhy(Ev.out, Ev.post)
      [] Ev.e = "search"    -> SearchWhy(Hd.scheme, Ev.w, Hd.n[Ev.w], SetupEv.single[Ev.w], Ev.o)
      [] OTHER -> "unknown-event"
Act ==
    CASE Ev.e = "construct" -> Ev.out = "ok" /\ Construct(Ev.post)
      [] Ev.e = "provide"   -> Provide(Ev.db, Ev.key)
      [] Ev.e = "setup"     -> Valid(Hd.scheme, Hd.p, Hd.c) /\ Setup(Ev.out, Ev.post, Ev.edb)
      [] Ev.e = "search"    -> Search(Hd.scheme, Ev.w, Hd.n[Ev.w], SetupEv.single[Ev.w], Ev.o)
      [] OTHER -> FALSE

Running == verdict = "run" /\ l <= Len(Tr)
Step == Running /\ Act /\ l' = l + 1 /\ UNCHANGED <<tid, verdict, clause>>
Finish == /\ verdict = "run" /\ l = Len(Tr) + 1
          /\ verdict' = "ACCEPT" /\ UNCHANGED <<inp, edb, ans, tid, l, clause>>
Reject == /\ Running /\ Why # "ok"
          /\ verdict' = "REJECT" /\ clause' = Why
          /\ UNCHANGED <<inp, edb, ans, tid, l>>

TraceInit == /\ tid \in 1..Len(Traces) /\ l = 2 /\ verdict = "run" /\ clause = ""
             /\ HInit([db |-> "-", key |-> "-", cfg |-> Traces[tid].ev[1].pre.cfg, defcfg |-> Traces[tid].ev[1].pre.defcfg], "-")
TraceNext == Step \/ Finish \/ Reject
TraceSpec == TraceInit /\ [][TraceNext]_tvars
Done == verdict # "run" => PrintT(<<"V", Traces[tid].tid, verdict, l, clause>>)
=============================================================================
