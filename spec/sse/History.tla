------------------------------ MODULE History ------------------------------
(***************************************************************************)
(* Layer A for C07: setup and search leave their inputs intact; searches   *)
(* against one index repeat in any order.                                  *)
(*                                                                         *)
(* Abstract state: the VALUES of the caller's objects                      *)
(*   inp.cfg     the configuration dictionary handed to the constructor    *)
(*   inp.defcfg  the module's shared DEFAULT_CONFIG object                 *)
(*   inp.db      the database            inp.key   the key (serialized)    *)
(*   edb         the encrypted database (serialized)                       *)
(*   ans[w]      the answer the index has given for keyword symbol w       *)
(* Values are opaque (digests in traces, model values in MC_History); the  *)
(* only operation on them is equality.  Every operation of the scheme is   *)
(* an action whose parameters are what was OBSERVED after the call:        *)
(*   Construct / Setup :  db' = db, cfg' = cfg, key' = key                 *)
(*   Search            :  edb' = edb, token' = token, inputs unchanged,    *)
(*                        result(w) correct, equal to the single-search    *)
(*                        answer and to the answer at every earlier        *)
(*                        occurrence of w.                                 *)
(* The ...Why operators name the first failed conjunct ("ok" if none).     *)
(***************************************************************************)
EXTENDS SSEFunctional

Symbols == {"p1", "p2", "ab", "near"}      \* two stored keywords, an unrelated absent one, a proper prefix of a stored one
Unseen == [seen |-> FALSE, pos |-> <<>>]

VARIABLES inp, edb, ans
hvars == <<inp, edb, ans>>

HInit(i0, e0) == inp = i0 /\ edb = e0 /\ ans = [w \in Symbols |-> Unseen]

(* the caller supplies a database and a key (environment step: any values) *)
Provide(d, k) == inp' = [inp EXCEPT !.db = d, !.key = k] /\ UNCHANGED <<edb, ans>>

(* SSEScheme(cfg) and KeyGen(): the configuration dictionaries afterwards are `post` *)
ConstructWhy(post) ==
    IF post.cfg # inp.cfg THEN "Construct:cfg"
    ELSE IF post.defcfg # inp.defcfg THEN "Construct:defcfg"
    ELSE "ok"
Construct(post) == ConstructWhy(post) = "ok" /\ UNCHANGED hvars

(* EDBSetup(key, db): outcome, the inputs afterwards, the index that was built *)
SetupWhy(out, post) ==
    IF out # "built" THEN "Setup:raised"
    ELSE IF post.db # inp.db THEN "Setup:db"
    ELSE IF post.cfg # inp.cfg THEN "Setup:cfg"
    ELSE IF post.defcfg # inp.defcfg THEN "Setup:defcfg"
    ELSE IF post.key # inp.key THEN "Setup:key"
    ELSE "ok"
Setup(out, post, e) == SetupWhy(out, post) = "ok" /\ edb' = e /\ UNCHANGED <<inp, ans>>

(* TokenGen(key, w); Search(edb, token).  s: scheme, n: length of the posting list of w (0: not stored),        *)
(* single: the answer of a lone search for w on a private copy of the freshly built index,                      *)
(* o: [edbPre, edbPost, tokPre, tokPost, inp, out, pos]                                                         *)
Correct(s, n, pos) == IF n > 0 THEN CorrectPresent(s, n, pos) ELSE CorrectAbsent(pos)
SearchWhy(s, w, n, single, o) ==
    IF o.out # "result" THEN "Search:raised"
    ELSE IF o.edbPre # edb THEN "Search:edb-before"          \* something between two searches changed the index
    ELSE IF o.edbPost # edb THEN "Search:edb"                \* edb' = edb
    ELSE IF o.tokPost # o.tokPre THEN "Search:token"         \* token' = token
    ELSE IF o.inp # inp THEN "Search:inputs"
    ELSE IF ans[w].seen /\ ans[w].pos # o.pos THEN "Search:repeat"     \* result(w) is a function of w alone
    ELSE IF o.pos # single THEN "Search:single"
    ELSE IF ~Correct(s, n, o.pos) THEN "Search:correct"
    ELSE "ok"
Search(s, w, n, single, o) ==
    /\ SearchWhy(s, w, n, single, o) = "ok"
    /\ ans' = [ans EXCEPT ![w] = [seen |-> TRUE, pos |-> o.pos]]
    /\ UNCHANGED <<inp, edb>>
=============================================================================
