------------------------------ MODULE Layouts ------------------------------
(***************************************************************************)
(* Layer B for C01 / C05 (and the shape oracle used for drift in C06):     *)
(* the index layout each of the nine schemes builds, as a function of the  *)
(* length profile of the database (one list length per keyword) and the    *)
(* numeric configuration, with ideal cryptography.  All integer arithmetic *)
(* is the code's (ceilings, logarithms, case splits with their strict and  *)
(* non-strict bounds), after the fix: commits for CT14 (t+1 levels),       *)
(* ANSS16 (length field of t+1 bits, level capacity 2^min(t,t-i+1),        *)
(* size-table padding as long as a ciphertext) and DP17 (at least one      *)
(* level).                                                                 *)
(*                                                                         *)
(* Outcome(s, p, c) says whether EDBSetup builds or raises; Shape(s, p, c) *)
(* is the sequence of tables [name, n, k, v]: entry count, and the         *)
(* (length, count) pairs of keys and of values (arrays: k = <<>>;          *)
(* a None slot has length -1, an integer key -2).                          *)
(***************************************************************************)
EXTENDS Integers, Sequences, FiniteSets, TLC

CeilDiv(a, b) == (a + b - 1) \div b
Pow2(k) == 2 ^ k
CeilLog2(n) == CHOOSE t \in 0..30 : Pow2(t) >= n /\ (t = 0 \/ Pow2(t - 1) < n)      \* n >= 1
FloorLog2(n) == CHOOSE t \in 0..30 : Pow2(t) <= n /\ Pow2(t + 1) > n                 \* n >= 1
Min(a, b) == IF a < b THEN a ELSE b
Max(a, b) == IF a > b THEN a ELSE b
RECURSIVE SumSeq(_)
SumSeq(s) == IF s = <<>> THEN 0 ELSE Head(s) + SumSeq(Tail(s))
Map(f(_), s) == [i \in 1..Len(s) |-> f(s[i])]
Count(P(_), s) == Cardinality({i \in 1..Len(s) : P(s[i])})
(* bytes needed for an index into an array of alen slots: ceil(log2(alen) / 8) *)
IndexWidth(alen) == CHOOSE w \in 0..3 : 256 ^ w >= alen /\ (w = 0 \/ 256 ^ (w - 1) < alen)      \* alen < 2^24 here
(* alen <= 256^w, without computing powers beyond TLC's 32-bit integers *)
FitsWidth(alen, w) == IF w >= 4 THEN TRUE ELSE alen <= 256 ^ w
(* AES-CBC ciphertext of an m-byte message: 16-byte IV + PKCS7-padded body (property C14) *)
EncLen(m) == 16 + 16 * (m \div 16 + 1)

Uniform(len, n) == IF n = 0 THEN <<>> ELSE << <<len, n>> >>
Table(name, n, klen, vlen) == [name |-> name, n |-> n, k |-> Uniform(klen, n), v |-> Uniform(vlen, n)]
Array(name, n, elen) == [name |-> name, n |-> n, k |-> <<>>, v |-> Uniform(elen, n)]
(* an array whose slot 0 is never used (None) and whose other n-1 slots hold elen-byte ciphertexts *)
Array1(name, n, elen) == [name |-> name, n |-> n, k |-> <<>>,
                          v |-> IF n = 1 THEN << <<-1, 1>> >> ELSE << <<-1, 1>>, <<elen, n - 1>> >>]

N(p) == SumSeq(p)

(* ------------------------------ CJJ14 ------------------------------ *)
PiBasShape(p, c) == << Table("D", N(p), c.fout, EncLen(c.id)) >>

Blocks(p, B) == SumSeq(Map(LAMBDA n : CeilDiv(n, B), p))
PiPackShape(p, c) == << Table("D", Blocks(p, c.B), c.fout, EncLen(c.B * c.id)) >>

PiPtrALen(p, c) == Blocks(p, c.B) + 1
PiPtrShape(p, c) ==
    LET alen == PiPtrALen(p, c)
        iw == IndexWidth(alen)
        ptrBlocks == SumSeq(Map(LAMBDA n : CeilDiv(CeilDiv(n, c.B), c.b), p))
    IN << Array1("A", alen, EncLen(c.B * c.id)), Table("D", ptrBlocks, c.fout, EncLen(c.b * iw)) >>

(* Pi2Lev: small (n <= b), medium (b < n <= B*b'), large (B*b' < n < B*B'*b'), else "DB(w) is too large" *)
P2Small(n, c) == n <= c.b
P2Medium(n, c) == c.b < n /\ n <= c.B * c.bp
P2Large(n, c) == ~P2Small(n, c) /\ ~P2Medium(n, c) /\ c.B * c.bp < n /\ n < c.B * c.Bp * c.bp
Pi2LevALen(p, c) == 1 + SumSeq(Map(LAMBDA n : (IF n > c.b THEN CeilDiv(n, c.B) ELSE 0)
                                              + (IF n > c.bp * c.B THEN CeilDiv(n, c.B * c.Bp) ELSE 0), p))
Pi2LevOutcome(p, c) ==
    IF ~FitsWidth(Pi2LevALen(p, c), c.idxw) THEN "raised"
    ELSE IF \E i \in 1..Len(p) : ~(P2Small(p[i], c) \/ P2Medium(p[i], c) \/ P2Large(p[i], c)) THEN "raised"
    ELSE "built"
Pi2LevShape(p, c) ==
    << Array1("A", Pi2LevALen(p, c), EncLen(1 + c.B * c.id)), Table("D", Len(p), c.fout, EncLen(1 + c.b * c.id)) >>

(* ------------------------------ CGKO06 ------------------------------ *)
(* SSE-1: the node counter must fit the array address width; one look-up entry per keyword *)
SSE1Outcome(p, c) == IF N(p) < Pow2(c.log2s) /\ Pow2(c.log2s) = c.s /\ Len(p) <= c.dsize THEN "built" ELSE "raised"
SSE1Shape(p, c) == << Array("A", c.s, EncLen(c.id + c.k + c.log2sb)), Table("T", c.dsize, c.l, c.k + c.log2sb) >>
(* SSE-2 stores one (integer label -> identifier in the clear) entry per posting *)
SSE2Shape(p, c) == << [name |-> "I", n |-> N(p), k |-> Uniform(-2, N(p)), v |-> Uniform(c.id, N(p))] >>

(* ------------------------------ CT14 / ANSS16 ------------------------------ *)
T(p) == CeilLog2(N(p))
CT14Shape(p, c) ==
    [i \in 1..(T(p) + 1) |-> Table("HT" \o ToString(i - 1), Pow2(T(p) - (i - 1)), c.l, Pow2(i - 1) * EncLen(c.id))]
ANSSCap(t, i) == Pow2(Min(t, t - i + 1))
ANSSShape(p, c) ==
    << Table("HT_S", Pow2(T(p)), c.lp, EncLen(CeilDiv(T(p) + 1, 8))) >> \o
    [i \in 1..(T(p) + 1) |-> Table("HT" \o ToString(i - 1), ANSSCap(T(p), i - 1), c.l, Pow2(i - 1) * EncLen(c.id))]

(* ------------------------------ DP17 ------------------------------ *)
(* c.stab[l+1] = max(1, ceil(l * ratio)) as Python floats compute it (supplied by the harness); c.L locality *)
DPLevels(p, c) ==
    LET l == CeilLog2(N(p))
        s == c.stab[l + 1]
        pp == CeilDiv(l, s)
    IN { l - i * pp : i \in 0..(s - 1) } \cup (IF c.L > 1 THEN {0} ELSE {})
DPOutcome(p, c) == IF \A i \in DPLevels(p, c) : i >= 0 THEN "built" ELSE "undetermined"
RECURSIVE SetToSortedSeq(_)
SetToSortedSeq(S) == IF S = {} THEN <<>> ELSE LET m == CHOOSE x \in S : \A y \in S : x <= y
                                            IN <<m>> \o SetToSortedSeq(S \ {m})
DPBucketTable(i, n, c) ==
    LET size == 2 * n + Pow2(i + 1)
        bs == Pow2(i + 1)
        full == size \div bs
        rest == size % bs
    IN [name |-> "A" \o ToString(i), n |-> full + (IF rest > 0 THEN 1 ELSE 0), k |-> <<>>,
        v |-> IF rest = 0 THEN << <<bs * c.clen, full>> >>
              ELSE IF rest < bs THEN << <<rest * c.clen, 1>>, <<bs * c.clen, full>> >>
              ELSE << <<bs * c.clen, full>>, <<rest * c.clen, 1>> >>]
(* Deviation kept as the code has it: with L > 1 the level list gets an extra 0 appended; for N = 1 (l = 0) level 0 *)
(* is then listed twice and its two buckets are padded twice (3 and 4 entries instead of 2 and 2).                  *)
DPDupZero(p, c) == c.L > 1 /\ CeilLog2(N(p)) = 0
DP17Shape(p, c) ==
    LET lv == SetToSortedSeq(DPLevels(p, c))
    IN (IF DPDupZero(p, c)
        THEN << [name |-> "A0", n |-> 2, k |-> <<>>, v |-> << <<3 * c.clen, 1>>, <<4 * c.clen, 1>> >>] >>
        ELSE [j \in 1..Len(lv) |-> DPBucketTable(lv[j], N(p), c)])
       \o << Table("HT", N(p), c.hlen, c.hlen) >>

(* ------------------------------ label counters ------------------------------ *)
(* The CJJ14 schemes derive the label of the c-th entry of a keyword from int_to_bytes(c), a MINIMAL-length big-endian  *)
(* string: the PRF input grows by a byte when a keyword's counter passes 256 and 65536.  MaxCounter is the largest      *)
(* counter a profile uses (entries for PiBas, blocks for PiPack, pointer blocks for PiPtr); CounterBytes its length.    *)
CounterBytes(x) == IF x = 0 THEN 0 ELSE IF x < 256 THEN 1 ELSE IF x < 65536 THEN 2 ELSE 3
LongestList(q) == IF q = <<>> THEN 0 ELSE LET m == CHOOSE i \in 1..Len(q) : \A j \in 1..Len(q) : q[i] >= q[j] IN q[m]
MaxCounter(s, p, c) ==
    CASE s = "CJJ14.PiBas"  -> LongestList(p) - 1
      [] s = "CJJ14.PiPack" -> CeilDiv(LongestList(p), c.B) - 1
      [] s = "CJJ14.PiPtr"  -> CeilDiv(CeilDiv(LongestList(p), c.B), c.b) - 1
      [] OTHER -> 0

(* ------------------------------ dispatch ------------------------------ *)
Outcome(s, p, c) ==
    CASE s = "CJJ14.Pi2Lev" -> Pi2LevOutcome(p, c)
      [] s = "CGKO06.SSE1"  -> SSE1Outcome(p, c)
      [] s = "DP17.Pi"      -> DPOutcome(p, c)
      [] OTHER -> "built"
Shape(s, p, c) ==
    CASE s = "CJJ14.PiBas"    -> PiBasShape(p, c)
      [] s = "CJJ14.PiPack"   -> PiPackShape(p, c)
      [] s = "CJJ14.PiPtr"    -> PiPtrShape(p, c)
      [] s = "CJJ14.Pi2Lev"   -> Pi2LevShape(p, c)
      [] s = "CGKO06.SSE1"    -> SSE1Shape(p, c)
      [] s = "CGKO06.SSE2"    -> SSE2Shape(p, c)
      [] s = "CT14.Pi"        -> CT14Shape(p, c)
      [] s = "ANSS16.Scheme3" -> ANSSShape(p, c)
      [] s = "DP17.Pi"        -> DP17Shape(p, c)

(* The public size parameter pi_S of property C05 *)
PiS(s, p, c) ==
    CASE s = "CGKO06.SSE1"    -> <<0>>
      [] s \in {"CGKO06.SSE2", "CJJ14.PiBas", "DP17.Pi"} -> <<N(p)>>
      [] s = "CJJ14.PiPack"   -> <<Blocks(p, c.B)>>
      [] s = "CJJ14.PiPtr"    -> <<Blocks(p, c.B), SumSeq(Map(LAMBDA n : CeilDiv(CeilDiv(n, c.B), c.b), p))>>
      [] s = "CJJ14.Pi2Lev"   -> <<Len(p), Pi2LevALen(p, c)>>
      [] s \in {"CT14.Pi", "ANSS16.Scheme3"} -> <<T(p)>>
=============================================================================
