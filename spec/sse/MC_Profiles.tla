---------------------------- MODULE MC_Profiles ----------------------------
(***************************************************************************)
(* Bounded exploration of Layouts / SSEFunctional for ONE scheme and ONE   *)
(* numeric configuration: every length profile (one representative per    *)
(* multiset: non-increasing sequences) with at most MaxKw keywords and at  *)
(* most MaxN postings.  TLC checks, over the whole instance,               *)
(*   NoRaiseOnValid      a valid database is never refused by the layout   *)
(*   ShapeFunctionOfPi   equal public size parameter => equal shape (C05)  *)
(*   UniformTables       one key length and one value length per table     *)
(* and emits every profile with its validity, pi_S and predicted outcome,  *)
(* which the harness replays into the real scheme.                         *)
(***************************************************************************)
EXTENDS SSEFunctional, TLC
CONSTANTS Scheme, Cfg, MaxKw, MaxN

NonInc(q) == \A i \in 1..(Len(q) - 1) : q[i] >= q[i + 1]
Profiles == UNION { { q \in [1..k -> 1..MaxN] : NonInc(q) /\ SumSeq(q) <= MaxN } : k \in 1..MaxKw }
ValidProfiles == { q \in Profiles : Valid(Scheme, q, Cfg) /\ Outcome(Scheme, q, Cfg) = "built" }

VARIABLE p
Init == p \in Profiles
Next == UNCHANGED p
Spec == Init /\ [][Next]_p

NoRaiseOnValid == Valid(Scheme, p, Cfg) => Outcome(Scheme, p, Cfg) \in {"built", "undetermined"}
ShapeFunctionOfPi ==
    p \in ValidProfiles =>
        \A q \in ValidProfiles : PiS(Scheme, q, Cfg) = PiS(Scheme, p, Cfg) => Shape(Scheme, q, Cfg) = Shape(Scheme, p, Cfg)
(* padded tables: every table that has keys has one key length and one value length *)
UniformTables ==
    p \in ValidProfiles =>
        LET sh == Shape(Scheme, p, Cfg) IN
        \A i \in 1..Len(sh) : (sh[i].k # <<>> => Len(sh[i].k) = 1 /\ Len(sh[i].v) = 1)
Emit == PrintT(<<"H", p, Valid(Scheme, p, Cfg), Outcome(Scheme, p, Cfg), PiS(Scheme, p, Cfg)>>)
=============================================================================
