------------------------------ MODULE DPPlace ------------------------------
(***************************************************************************)
(* Layer B for C01 (DP17.Pi): the placement of chunks into buckets.        *)
(* For every keyword the setup picks the level i (smallest stored level    *)
(* with L * 2^i >= |D(w)|), splits the list into chunks of 2^i and puts    *)
(* each chunk into a bucket of array A_i chosen UNIFORMLY AT RANDOM among  *)
(* those with at least 2^i free slots.  Here the choice is nondeterminism, *)
(* so TLC covers every sequence of choices: `random.choice` never sees an  *)
(* empty list (ChoiceNeverEmpty), every keyword has at most L chunks       *)
(* (LocalityBound: Search only looks at chunks 1..L) and no bucket         *)
(* overflows.  Stab[l+1] = number of stored levels for l = ceil(log2 N)    *)
(* (max(1, ceil(l * ratio)) as Python floats compute it).                  *)
(***************************************************************************)
EXTENDS Integers, Sequences, FiniteSets, TLC
CONSTANTS MaxKw, MaxN, L, Stab
Pow2(k) == 2 ^ k
CeilLog2(n) == CHOOSE t \in 0..12 : Pow2(t) >= n /\ (t = 0 \/ Pow2(t - 1) < n)
CeilDiv(a, b) == (a + b - 1) \div b
Min(a, b) == IF a < b THEN a ELSE b
RECURSIVE Sum(_)
Sum(s) == IF s = <<>> THEN 0 ELSE Head(s) + Sum(Tail(s))
Profiles == UNION { { p \in [1..k -> 1..MaxN] : Sum(p) <= MaxN } : k \in 1..MaxKw }      \* order matters for placement

LevelsOf(n) == LET l == CeilLog2(n)
                   s == Stab[l + 1]
                   pp == CeilDiv(l, s)
               IN { l - i * pp : i \in 0..(s - 1) } \cup (IF L > 1 THEN {0} ELSE {})
(* _find_adjacent_i: the smallest stored level i with L * 2^i >= n *)
LevelFor(n, lv) == CHOOSE i \in lv : L * Pow2(i) >= n /\ \A j \in lv : (L * Pow2(j) >= n) => i <= j
(* _divide_to_buckets(2N + 2^(i+1), 2^(i+1)) : free slots per bucket *)
Buckets(i, n) == LET size == 2 * n + Pow2(i + 1)
                     bs == Pow2(i + 1)
                 IN [b \in 1..CeilDiv(size, bs) |-> Min(bs, size - (b - 1) * bs)]

VARIABLES prof, kw, left, nchunks, rem, ok
vars == <<prof, kw, left, nchunks, rem, ok>>
NN == Sum(prof)
LV == LevelsOf(NN)

Init == /\ prof \in Profiles
        /\ kw = 1 /\ left = prof[1] /\ nchunks = 0
        /\ rem = [i \in LevelsOf(Sum(prof)) |-> Buckets(i, Sum(prof))]
        /\ ok = TRUE

(* place the next chunk of the current keyword *)
Place ==
  /\ ok /\ kw <= Len(prof) /\ left > 0
  /\ LET i == LevelFor(prof[kw], LV)
         csize == Min(left, Pow2(i))
         elig == { b \in DOMAIN rem[i] : rem[i][b] >= Pow2(i) }        \* buckets with room for a FULL chunk, as the code asks
     IN IF elig = {} THEN ok' = FALSE /\ UNCHANGED <<prof, kw, left, nchunks, rem>>
        ELSE \E b \in elig :
               /\ rem' = [rem EXCEPT ![i][b] = @ - csize]
               /\ left' = left - csize /\ nchunks' = nchunks + 1
               /\ UNCHANGED <<prof, kw, ok>>
NextKw == /\ ok /\ kw <= Len(prof) /\ left = 0
          /\ kw' = kw + 1 /\ nchunks' = 0
          /\ left' = IF kw + 1 <= Len(prof) THEN prof[kw + 1] ELSE 0
          /\ UNCHANGED <<prof, rem, ok>>
Next == Place \/ NextKw
Spec == Init /\ [][Next]_vars

LevelsNonNegative == \A i \in LV : i >= 0
ChoiceNeverEmpty == ok
LocalityBound == nchunks <= L
NoOverflow == \A i \in DOMAIN rem : \A b \in DOMAIN rem[i] : rem[i][b] >= 0
=============================================================================
