----------------------------- MODULE MC_History -----------------------------
(***************************************************************************)
(* Bounded instance for C07.  A model index is the set of keywords it      *)
(* stores plus a set of cached keywords; a model search answers from the   *)
(* index.  TLC enumerates EVERY sequence of at most D searches over the    *)
(* four keyword symbols (with repetition) as a history and checks          *)
(*   LayerA       the pure implementation (search leaves the index alone)  *)
(*                satisfies History!Search at every step                   *)
(*   Consequence  whenever History accepted every step, each keyword got   *)
(*                the same answer at every occurrence, and that answer is  *)
(*                the single-search answer on the index as built           *)
(* The other variants are implementations History must reject (a search    *)
(* that consumes the entry, one that caches into the index, one that       *)
(* scribbles on its token, one that pops the caller's list, one that keeps *)
(* state outside the index and answers a repeated keyword differently):    *)
(* every one of them has to reach a state with why # "ok" (tag "T").       *)
(* Histories of the pure variant are emitted (tag "H") and replayed into   *)
(* the nine real schemes.                                                  *)
(***************************************************************************)
EXTENDS History, TLC
CONSTANTS D, DNeg

Variants == {"pure", "consume", "cache", "tokmut", "popdb", "hidden"}
NLen == [p1 |-> 2, p2 |-> 1, ab |-> 0, near |-> 0]
Scheme0 == "CJJ14.PiBas"
Edb0 == [present |-> {"p1", "p2"}, cached |-> {}]
Inp0 == [db |-> "db0", cfg |-> "cfg0", defcfg |-> "def0", key |-> "key0"]
Answer(m, w) == IF w \in m.present THEN Iota(NLen[w]) ELSE <<>>

VARIABLES variant, hist, res, why, hid
mcvars == <<inp, edb, ans, variant, hist, res, why, hid>>

After(m, w) ==
    CASE variant = "consume" -> [m EXCEPT !.present = @ \ {w}]
      [] variant = "cache"   -> [m EXCEPT !.cached = @ \cup {w}]
      [] OTHER -> m
Obs(w) == [edbPre |-> edb, edbPost |-> After(edb, w),
           tokPre |-> w, tokPost |-> IF variant = "tokmut" THEN "used" ELSE w,
           inp |-> IF variant = "popdb" /\ w = "p1" THEN [inp EXCEPT !.db = "db0-popped"] ELSE inp,
           out |-> "result", pos |-> IF variant = "hidden" /\ w \in hid THEN <<>> ELSE Answer(edb, w)]

MCInit == /\ HInit(Inp0, Edb0) /\ variant \in Variants /\ hist = <<>> /\ res = <<>> /\ why = "ok" /\ hid = {}
MCNext == /\ why = "ok"
          /\ Len(hist) < (IF variant = "pure" THEN D ELSE DNeg)
          /\ \E w \in Symbols :
                /\ why' = SearchWhy(Scheme0, w, NLen[w], Answer(Edb0, w), Obs(w))
                /\ edb' = Obs(w).edbPost
                /\ inp' = Obs(w).inp
                /\ ans' = [ans EXCEPT ![w] = IF ans[w].seen THEN @ ELSE [seen |-> TRUE, pos |-> Obs(w).pos]]
                /\ hist' = Append(hist, w) /\ res' = Append(res, Obs(w).pos)
                /\ hid' = hid \cup {w}       \* state outside the index (scheme object, module global): used by "hidden"
                /\ UNCHANGED variant
MCSpec == MCInit /\ [][MCNext]_mcvars

LayerA == variant = "pure" => why = "ok"
Repeats == \A i, j \in 1..Len(hist) : hist[i] = hist[j] => res[i] = res[j]
SingleAnswer == \A i \in 1..Len(hist) : res[i] = Answer(Edb0, hist[i])
Consequence == why = "ok" => Repeats /\ SingleAnswer
Emit == variant = "pure" /\ Len(hist) >= 1 => PrintT(<<"H", hist>>)
Teeth == why # "ok" => PrintT(<<"T", variant, why, hist>>)
=============================================================================
