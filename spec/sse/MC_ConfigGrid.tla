--------------------------- MODULE MC_ConfigGrid ---------------------------
(***************************************************************************)
(* Generator and bounded instance for C08, one scheme per run.             *)
(* The grid: every single-field variation of the default configuration     *)
(* (every grid value of the field, and its deletion), every pair of values *)
(* for every pair of length fields, and per scheme the product of the      *)
(* fields that constrain each other (block sizes and identifier size,      *)
(* capacities, chained key / label lengths, primitive spellings).          *)
(* Full = FALSE thins the products out (quick tier), never the single      *)
(* variations and the length pairs.                                        *)
(*                                                                         *)
(* For every grid point TLC evaluates the model's prediction on a few      *)
(* candidate databases (boundary profiles computed from the point) and     *)
(* checks                                                                  *)
(*   NoWrongPredicted  no valid database has WrongAnswer among the         *)
(*                     outcomes the code as written can produce            *)
(*   RequiredRefused   a point that lacks a required field is refused at   *)
(*                     stage "config"                                      *)
(* and prints the point with its candidates (Emit); the harness runs them. *)
(***************************************************************************)
EXTENDS ConfigGrid
CONSTANTS Scheme, Full

B0 == Base(Scheme)
Fields == DOMAIN B0
Singles == UNION { { [B0 EXCEPT ![f] = v] : v \in FieldVals(Scheme, f) \cup {DelVal(Scheme, f)} } : f \in Fields }
LenPairs == UNION { { [B0 EXCEPT ![fg[1]] = v, ![fg[2]] = u] : v \in LenVals, u \in LenVals }
                    : fg \in { x \in LenFields(Scheme) \X LenFields(Scheme) : x[1] # x[2] } }

QL == IF Full THEN LenVals ELSE {16, 20, 32, 0, X}
QB == IF Full THEN BlkVals ELSE {0, 1, 2, 3, 64}
QI == IF Full THEN IdVals ELSE {1, 8, 0, X}
Extra ==
    CASE Scheme = "CJJ14.PiBas" ->
            { [B0 EXCEPT !.param_lambda = a, !.prf_f_output_length = b, !.prf_f = n, !.ske = m]
              : a \in QL, b \in QL, n \in PRFNames, m \in SKENames }
      [] Scheme = "CJJ14.PiPack" ->
            { [B0 EXCEPT !.param_lambda = a, !.prf_f_output_length = b, !.param_B = c, !.param_identifier_size = i]
              : a \in QL, b \in QL, c \in QB \cup {X}, i \in QI }
      [] Scheme = "CJJ14.PiPtr" ->
            { [B0 EXCEPT !.param_lambda = ab[1], !.prf_f_output_length = ab[2], !.param_B = c, !.param_b = e, !.param_identifier_size = i]
              : ab \in {<<32, 32>>, <<16, 16>>, <<32, 16>>, <<24, 0>>, <<16, 32>>}, c \in QB \cup {X}, e \in QB \cup {X}, i \in QI }
      [] Scheme = "CJJ14.Pi2Lev" ->
            { [B0 EXCEPT !.param_B = c, !.param_b = e, !.param_B_prime = cp, !.param_b_prime = ep, !.param_identifier_size = i]
              : c \in QB, e \in QB, cp \in QB, ep \in QB, i \in (IF Full THEN {1, 2, 3, 8} ELSE {1, 8}) }
      [] Scheme = "CGKO06.SSE1" ->
            { [B0 EXCEPT !.param_k = a, !.param_l = b, !.param_s = c] : a \in QL, b \in QL, c \in {0, 1, 2, 3, 4, 5, 8, 12, 16, 64} }
            \cup { [B0 EXCEPT !.param_s = c, !.param_dictionary_size = e, !.param_identifier_size = i]
                   : c \in FieldVals(Scheme, "param_s"), e \in BlkVals, i \in {1, 8, 0, X} }
            \cup { [B0 EXCEPT !.prp_pi = n, !.prp_psi = m] : n \in PRPNames, m \in PRPNames }
      [] Scheme = "CGKO06.SSE2" ->
            { [B0 EXCEPT !.param_k = a, !.param_l = b, !.param_n = c, !.param_max_file_size = e]
              : a \in QL, b \in QL, c \in BlkVals, e \in {0, 1, 64, 1048576} }
            \cup { [B0 EXCEPT !.param_n = c, !.param_max_file_size = e]
                   : c \in FieldVals(Scheme, "param_n"), e \in FieldVals(Scheme, "param_max_file_size") }
      [] Scheme = "CT14.Pi" ->
            { [B0 EXCEPT !.param_k = a, !.param_k_prime = b, !.param_l = c, !.param_identifier_size = i]
              : a \in LenVals, b \in LenVals, c \in LenVals, i \in (IF Full THEN {1, 4, 64} ELSE {4}) }
      [] Scheme = "ANSS16.Scheme3" ->
            { [B0 EXCEPT !.param_k = a, !.param_k_prime = b, !.param_l = c, !.param_l_prime = e]
              : a \in QL \cup {24}, b \in QL \cup {24}, c \in QL \cup {8}, e \in QL \cup {8} }
            \cup { [B0 EXCEPT !.param_lambda = a, !.param_k = b, !.param_k_prime = c] : a \in LenVals, b \in QL, c \in QL }
      [] Scheme = "DP17.Pi" ->
            { [B0 EXCEPT !.param_lambda = a, ![RATIO] = r, !.param_L = c, !.hash_h = h]
              : a \in (IF Full THEN {32, 16, 20, 0, X} ELSE {32, 20}), r \in RatioVals,
                c \in (IF Full THEN LocVals ELSE {1, 2, 0}), h \in HashNames }
Grid == Singles \cup LenPairs \cup Extra

(* ----------------------------------------------------------------------- *)
(* candidate databases of a grid point: boundary profiles first            *)
(* ----------------------------------------------------------------------- *)
Opt(c, x) == IF c THEN <<x>> ELSE <<>>
In(v, lo, hi) == IsNum(v) /\ lo <= v /\ v <= hi
Generic == << <<3, 1, 2>>, <<1>>, <<4, 4, 2, 1, 1>>, <<9, 6, 1, 1, 1>> >>
Cands(s, cfg) ==
    CASE s = "CJJ14.PiPack" ->
            (IF In(cfg.param_B, 1, 16) THEN << <<cfg.param_B + 1, cfg.param_B, 1>>, <<2 * cfg.param_B + 1, 2>> >> ELSE <<>>) \o Generic
      [] s = "CJJ14.PiPtr" ->
            (IF In(cfg.param_B, 1, 16) /\ In(cfg.param_b, 1, 16) /\ cfg.param_B * cfg.param_b <= 24
             THEN << <<cfg.param_B + 1, cfg.param_B, 1>>, <<cfg.param_B * cfg.param_b + 1, 2>> >> ELSE <<>>) \o Generic
      [] s = "CJJ14.Pi2Lev" ->
            (IF In(cfg.param_B, 0, 64) /\ In(cfg.param_b, 0, 64) /\ In(cfg.param_B_prime, 0, 64) /\ In(cfg.param_b_prime, 0, 64)
             THEN LET med == cfg.param_B * cfg.param_b_prime
                      lim == med * cfg.param_B_prime
                  IN Opt(In(cfg.param_b, 1, 16), <<cfg.param_b, cfg.param_b + 1>>)           \* small | medium
                     \o Opt(In(med, 1, 40), <<med, 1>>)                                        \* last medium
                     \o Opt(In(med, 0, 39), <<med + 1>>)                                       \* first large (or too large)
                     \o Opt(In(lim, 2, 41), <<lim - 1, 2>>)                                    \* last large
                     \o Opt(In(lim, 1, 40), <<lim>>)                                           \* too large
             ELSE <<>>) \o Generic
      [] s = "CGKO06.SSE1" ->
            Opt(In(cfg.param_s, 2, 65), <<cfg.param_s - 1>>) \o Opt(In(cfg.param_s, 3, 65), <<cfg.param_s - 2, 1>>)   \* array full
            \o << <<3, 1, 2>>, <<1>>, <<2, 1>>, <<9, 6, 1, 1, 1>> >>
      [] s = "CGKO06.SSE2" ->
            Opt(In(cfg.param_n, 1, 40), <<cfg.param_n>>) \o Opt(In(cfg.param_n, 2, 40), <<cfg.param_n - 1, 1>>)       \* files = param_n
            \o << <<3, 1, 2>>, <<1>>, <<2, 2>>, <<9, 6, 1, 1, 1>> >>
      (* every list length from 1 to 12 and a few around the next powers of two: whichever levels the ratio and the     *)
      (* locality select, some list falls into every window between two of them                                          *)
      [] s = "DP17.Pi" -> << <<1, 2, 3, 4, 5, 6, 7, 8, 9, 10, 11, 12>>, <<24, 17, 9, 3>> >> \o Generic
      [] OTHER -> Generic
(* positive control (outside the property's domain): SSE-2 with more files than param_n, one list longer than param_n *)
Controls(s, cfg) == IF s = "CGKO06.SSE2" /\ In(cfg.param_n, 1, 40) THEN << <<cfg.param_n + 1, 1>> >> ELSE <<>>

WF(p) == Len(p) >= 1 /\ \A i \in 1..Len(p) : p[i] >= 1
Describe(s, cfg, ps) ==
    LET ok == SelectSeq(ps, WF) IN
    [i \in 1..Len(ok) |-> <<ok[i], DbValid(s, cfg, ok[i], DFor(s, cfg, ok[i])), StageSet(s, cfg, ok[i], DFor(s, cfg, ok[i]))>>]

VARIABLE pt
Init == pt \in Grid
Next == UNCHANGED pt
Spec == Init /\ [][Next]_pt

NoWrongPredicted ==
    \A i \in 1..Len(Cands(Scheme, pt)) :
        LET p == Cands(Scheme, pt)[i] IN
        (WF(p) /\ InDomain(Scheme, pt) /\ ~HasFlt(Scheme, pt) /\ DbValid(Scheme, pt, p, DFor(Scheme, pt, p)))
            => "wrong" \notin StageSet(Scheme, pt, p, DFor(Scheme, pt, p))
RequiredRefused == LacksRequired(Scheme, pt) => ConfigRaises(Scheme, pt)
Emit == PrintT(<<"H", pt, Describe(Scheme, pt, Cands(Scheme, pt)), Describe(Scheme, pt, Controls(Scheme, pt)),
                 IdLenFor(Scheme, pt), KwMaxFor(Scheme, pt)>>)
=============================================================================
