------------------------------- MODULE Order -------------------------------
(***************************************************************************)
(* C06 — the index layout does not encode the order in which the database  *)
(* was supplied.                                                           *)
(*                                                                         *)
(* Layer A (used by Trace_Order on what the real code produced):           *)
(*   LabelOrder  every table's label sequence is sorted, and building the  *)
(*               same database in a permuted keyword order (same key)      *)
(*               gives the same label sequence;                            *)
(*   Moves       two setups of one database read different slot sequences  *)
(*               (same key where placement is random, fresh key where it   *)
(*               is key-derived); for DP17 the entries inside a bucket are *)
(*               not in the order they were appended.                      *)
(* Layer B (explored by MC_Order / MC_Place):                              *)
(*   the label-addressed tables of CJJ14.{PiBas,PiPack,PiPtr,Pi2Lev},      *)
(*   CT14.Pi, ANSS16.Scheme3 as built by the code: entries created keyword *)
(*   by keyword in the supplied order, labels a function of (key, keyword, *)
(*   counter), dummy keywords and padding labels from the (replayed)       *)
(*   random stream, then SortByLabel;                                      *)
(*   the placement of array-resident blocks as a sequence of uniform       *)
(*   choices among the eligible slots, and closed-form lower bounds for    *)
(*   the number of equally likely placements, from which the false-alarm   *)
(*   probability of Moves is bounded.                                      *)
(***************************************************************************)
EXTENDS SSEFunctional

(* ------------------------------------------------------------------ byte-string labels (Layer A) *)
(* lexicographic order on Seq(0..255): Python's bytes comparison, which `sort(key=label)` uses *)
LexLeq(a, b) ==
    LET n == Min(Len(a), Len(b))
        D == {i \in 1..n : a[i] # b[i]}
    IN IF D = {} THEN Len(a) <= Len(b)
       ELSE LET i == CHOOSE x \in D : \A y \in D : x <= y IN a[i] < b[i]
SortedLabels(t) == \A i \in 1..(Len(t) - 1) : LexLeq(t[i], t[i + 1])

(* tables: sequence of [name, a, b, bpos]; a = label sequence of the table in EDBSetup(K, DB), b = the same table in           *)
(* EDBSetup(K, sigma(DB)) (both unpickled from the serialized index), bpos[i] = position in a of b[i] (0 = not a label of a).   *)
(* Labels of one table are distinct (dictionary keys).  When the two indexes hold the same labels, bpos = <<1, ..., n>> says    *)
(* that the two label sequences are equal.  Labels that only one of the two indexes holds are the random padding labels of    *)
(* that run (they differ between ANY two runs, whatever the order of the keywords, when the harness does not control the      *)
(* source of randomness the construction draws them from): the property then speaks of the labels both indexes hold -- they    *)
(* come in the same relative order -- and of each sequence being sorted as a whole.                                            *)
Common(bpos) == SelectSeq(bpos, LAMBDA x : x # 0)
Increasing(s) == \A i \in 1..(Len(s) - 1) : s[i] < s[i + 1]
SameLabels(t) == Len(t.bpos) = Len(t.a) /\ Len(Common(t.bpos)) = Len(t.bpos)
LabelOrderWhy(tables) ==
    IF \E i \in 1..Len(tables) : ~SortedLabels(tables[i].a) \/ ~SortedLabels(tables[i].b) THEN "LabelOrder:sorted"
    ELSE IF \E i \in 1..Len(tables) : IF SameLabels(tables[i]) THEN tables[i].bpos # Iota(Len(tables[i].a))
                                                                 ELSE ~Increasing(Common(tables[i].bpos))
         THEN "LabelOrder:equal"
    ELSE "ok"

(* ------------------------------------------------------------------ saturating arithmetic (TLC integers are 32-bit) *)
Cap == 1000000000
Need == 100000000                     \* 1e8 equally likely placements: collision probability of two setups <= 1e-8
SatMul(a, b) == IF a <= 0 \/ b <= 0 THEN 0
                ELSE IF a >= Cap \/ b >= Cap THEN Cap
                ELSE IF a > Cap \div b THEN Cap ELSE a * b
RECURSIVE SatProdFrom(_, _)
SatProdFrom(f, i) == IF i > Len(f) THEN 1 ELSE SatMul(f[i], SatProdFrom(f, i + 1))     \* by index: no nested Tail thunks
SatProd(f) == SatProdFrom(f, 1)
RECURSIVE SumFrom(_, _)
SumFrom(f, i) == IF i > Len(f) THEN 0 ELSE f[i] + SumFrom(f, i + 1)
SumAll(f) == SumFrom(f, 1)
Pos(x) == IF x < 1 THEN 1 ELSE x
(* n * (n-1) * ... * (n-k+1) as its factors *)
FallingFactors(n, k) == [j \in 1..k |-> Pos(n - j + 1)]
RECURSIVE Repeat(_, _)
Repeat(f, k) == IF k <= 0 THEN <<>> ELSE f \o Repeat(f, k - 1)

(* ------------------------------------------------------------------ placement model (Layer B) and its bounds *)
(* PiPtr / Pi2Lev: A has A_len - 1 usable slots and exactly as many blocks; `random.sample(range(1, A_len), A_len - 1)` then  *)
(* pop(): the k-th block goes to a uniformly chosen unused slot.  m! equally likely placements.                               *)
ArrayBlocks(s, p, c) ==
    CASE s = "CJJ14.PiPtr"  -> PiPtrALen(p, c) - 1
      [] s = "CJJ14.Pi2Lev" -> Pi2LevALen(p, c) - 1
      [] s = "CGKO06.SSE1"  -> N(p)
      [] OTHER -> 0
(* SSE-1: node number ctr lives at psi_K1(ctr); with a fresh key and an ideal PRP on c.s points the addresses of the N nodes *)
(* are a uniform injective map: s!/(s-N)! equally likely.                                                                     *)

(* DP17 *)
DPLv(p, c) == DPLevels(p, c)
DPLevelFor(n, p, c) == CHOOSE i \in DPLv(p, c) : c.L * Pow2(i) >= n /\ \A j \in DPLv(p, c) : (c.L * Pow2(j) >= n) => i <= j
DPHasLevel(n, p, c) == \E i \in DPLv(p, c) : c.L * Pow2(i) >= n
DPChunks(n, i) == CeilDiv(n, Pow2(i))
(* chunk sizes of a list of n identifiers at level i, in the order they are placed *)
DPChunkSizes(n, i) == [k \in 1..DPChunks(n, i) |-> Min(Pow2(i), n - (k - 1) * Pow2(i))]
(* the chunks of the whole database in placement order: [lev, size] *)
RECURSIVE DPItems(_, _, _, _)
DPItems(q, p, c, from) ==
    IF from > Len(q) THEN <<>>
    ELSE LET i == DPLevelFor(q[from], p, c) IN
         [k \in 1..DPChunks(q[from], i) |-> [lev |-> i, size |-> DPChunkSizes(q[from], i)[k]]] \o DPItems(q, p, c, from + 1)
DPBucketSizes(i, nn) == LET size == 2 * nn + Pow2(i + 1)
                            bs == Pow2(i + 1)
                        IN [b \in 1..CeilDiv(size, bs) |-> Min(bs, size - (b - 1) * bs)]
(* lower bound for the number of buckets chunk number k of level i can choose from: a full bucket (2^(i+1) slots) stays      *)
(* eligible (>= 2^i free) until more than 2^i slots are taken, i.e. until it holds at least 2^i \div cmax + 1 chunks          *)
DPFactorsLevel(i, items, nn) ==
    LET mine == SelectSeq(items, LAMBDA it : it.lev = i)
        cmax == IF mine = <<>> THEN 1 ELSE CHOOSE x \in {mine[k].size : k \in 1..Len(mine)} : \A k \in 1..Len(mine) : mine[k].size <= x
        q == Pow2(i) \div cmax + 1
        full == nn \div Pow2(i) + 1
    IN [k \in 1..Len(mine) |-> Pos(full - (k - 1) \div q)]
RECURSIVE ConcatFrom(_, _)
ConcatFrom(ss, i) == IF i > Len(ss) THEN <<>> ELSE ss[i] \o ConcatFrom(ss, i + 1)
ConcatAll(ss) == ConcatFrom(ss, 1)
DPFactors(p, c) ==
    LET items == DPItems(p, p, c, 1)
        lv == SetToSortedSeq(DPLv(p, c))
    IN ConcatAll([j \in 1..Len(lv) |-> DPFactorsLevel(lv[j], items, N(p))])
(* in-bucket shuffle: a bucket of bs slots holding k real entries has bs!/(bs-k)! equally likely arrangements; whatever the   *)
(* bucket assignment, the product over buckets is at least (bs!)^(E \div bs) * bs!/(bs - E % bs)! (log-concavity), E = real   *)
(* entries of the level.  Exactly one arrangement is the order in which the entries were appended.                            *)
DPInBucketFactors(p, c) ==
    LET items == DPItems(p, p, c, 1)
        lv == SetToSortedSeq(DPLv(p, c))
        E(i) == SumAll([k \in 1..Len(items) |-> IF items[k].lev = i THEN items[k].size ELSE 0])
        bs(i) == Pow2(i + 1)
    IN ConcatAll([j \in 1..Len(lv) |->
            Repeat(FallingFactors(bs(lv[j]), bs(lv[j])), E(lv[j]) \div bs(lv[j])) \o FallingFactors(bs(lv[j]), E(lv[j]) % bs(lv[j]))])

(* the factors whose product is the number of equally likely placements (a lower bound for DP17) *)
MovesFactors(s, p, c) ==
    CASE s \in {"CJJ14.PiPtr", "CJJ14.Pi2Lev"} -> FallingFactors(ArrayBlocks(s, p, c), ArrayBlocks(s, p, c))
      [] s = "CGKO06.SSE1" -> FallingFactors(c.s, N(p))
      [] s = "DP17.Pi" -> DPFactors(p, c)
      [] OTHER -> <<>>
MovesBlocks(s, p, c) == IF s = "DP17.Pi" THEN Len(DPItems(p, p, c, 1)) ELSE ArrayBlocks(s, p, c)
MovesValid(s, p, c) ==
    /\ Valid(s, p, c) /\ Outcome(s, p, c) = "built"
    /\ (s = "DP17.Pi" => \A i \in 1..Len(p) : DPHasLevel(p[i], p, c))
(* a database family usable for clause Moves: >= 12 array-resident blocks and >= 1e8 equally likely placements *)
FamilyOK(s, p, c) ==
    /\ MovesValid(s, p, c)
    /\ MovesBlocks(s, p, c) >= 12
    /\ SatProd(MovesFactors(s, p, c)) >= Need
    /\ (s = "DP17.Pi" => SatProd(DPInBucketFactors(p, c)) >= Need)

(* ------------------------------------------------------------------ Moves (Layer A) *)
(* run1, run2: per keyword (in database order) the ordered sequence of slots Search read from the list-typed members of the   *)
(* index (a slot is <<index>> or <<level, bucket>>); inb1, inb2 (DP17): per bucket that was read, the occupant of every        *)
(* position, <<keyword number, identifier number>> or <<0, 0>> for padding.                                                    *)
PairLeq(x, y) == x[1] < y[1] \/ (x[1] = y[1] /\ x[2] <= y[2])
(* the bucket looks exactly as it does before the shuffle: real entries first, in the order they were appended *)
AppendOrder(b) ==
    /\ \A i \in 1..(Len(b) - 1) : (b[i][1] = 0 => b[i + 1][1] = 0)
    /\ \A i \in 1..(Len(b) - 1) : (b[i + 1][1] # 0 => PairLeq(b[i], b[i + 1]))
AllAppendOrder(inb) == \A i \in 1..Len(inb) : AppendOrder(inb[i].occ)
(* the positions INSIDE a bucket are array positions too: in a bucket of n slots holding r real entries (0 < r < n) the real  *)
(* entries sit at C(n, r) equally likely position sets, one of which is "the first r".  C(n, r) >= n, and >= n(n-1)/2 for     *)
(* 2 <= r <= n - 2.  When the partially filled buckets that were read make "real entries first in every one of them" a        *)
(* coincidence of probability <= 1/Need and it is nevertheless what the index shows, the in-bucket positions are not chosen   *)
(* at random.  (With fewer / fuller buckets the clause says nothing.)                                                            *)
Reals(b) == Cardinality({i \in 1..Len(b) : b[i][1] # 0})
RealsLead(b) == \A i \in 1..(Len(b) - 1) : (b[i][1] = 0 => b[i + 1][1] = 0)
PartialIdx(inb) == SetToSortedSeq({i \in 1..Len(inb) : Reals(inb[i].occ) > 0 /\ Reals(inb[i].occ) < Len(inb[i].occ)})
LeadFactor(b) == LET n == Len(b) r == Reals(b) IN IF r = 1 \/ r = n - 1 THEN n ELSE (n * (n - 1)) \div 2
LeadGuard(inb) == LET P == PartialIdx(inb) IN SatProd([j \in 1..Len(P) |-> LeadFactor(inb[P[j]].occ)]) >= Need
AllRealsLead(inb) == LET P == PartialIdx(inb) IN LeadGuard(inb) /\ \A j \in 1..Len(P) : RealsLead(inb[P[j]].occ)
(* Per keyword: the sequence of slots a search reads is a function of where setup put that keyword's first block, and that   *)
(* position is uniform over at least Alt alternatives (array cells for PiPtr / Pi2Lev, array slots under a fresh key for      *)
(* SSE-1, the eligible buckets of the list's level for DP17 - the last, smallest, factor of DPFactorsLevel).  For a fixed set  *)
(* of m observed keywords with Alt >= a the chance that ALL of them read the same slots in two independent setups is at most  *)
(* a^-m; over all subsets of the n observed keywords it is at most 2^n * a^-m.  When that is below 2^-27 < 1/Need and the      *)
(* index nevertheless shows it, those keywords are not placed at random (e.g. a placement that turns deterministic for one    *)
(* level or above a size threshold while the rest still moves).                                                                 *)
DPMinEligible(i, p, c) ==
    LET f == DPFactorsLevel(i, DPItems(p, p, c, 1), N(p)) IN IF f = <<>> THEN 0 ELSE f[Len(f)]
KwAlt(s, p, c, slots) ==
    IF slots = <<>> THEN 0
    ELSE IF s = "DP17.Pi" THEN (IF Len(slots[1]) = 2 THEN DPMinEligible(slots[1][1], p, c) ELSE 0)
    ELSE IF s = "CGKO06.SSE1" THEN c.s
    ELSE ArrayBlocks(s, p, c)
KwFixedSet(s, p, c, run1, run2) ==
    {i \in 1..Len(run1) : i <= Len(run2) /\ run1[i] # <<>> /\ run1[i] = run2[i] /\ KwAlt(s, p, c, run1[i]) >= 16}
MovesKwFixed(s, p, c, run1, run2) ==
    LET S == KwFixedSet(s, p, c, run1, run2) IN
    IF S = {} THEN FALSE
    ELSE LET a == CHOOSE x \in {KwAlt(s, p, c, run1[i]) : i \in S} : \A i \in S : x <= KwAlt(s, p, c, run1[i])
         IN Cardinality(S) * FloorLog2(a) >= Len(run1) + 27
MovesWhy(s, run1, run2, inb1, inb2) ==
    IF run1 = run2 THEN "Moves"
    ELSE IF s = "DP17.Pi" /\ (AllAppendOrder(inb1) \/ AllAppendOrder(inb2)) THEN "Moves:inbucket"
    ELSE IF s = "DP17.Pi" /\ (AllRealsLead(inb1) \/ AllRealsLead(inb2)) THEN "Moves:inbucket:realsfirst"
    ELSE "ok"
FlatLen(r) == SumAll([i \in 1..Len(r) |-> Len(r[i])])

(* ------------------------------------------------------------------ label tables (Layer B) *)
LabP == 4099
KeyA == <<1, 1234, 3571>>
KeyB == <<0, 77, 2900>>
Keys == 1..3
(* label of (keyword w, counter cc) under key k: injective in (w, cc) for w * 64 + cc < LabP.  Key 1 orders labels as input. *)
Lab(k, w, cc) == (KeyA[k] * (w * 64 + cc) + KeyB[k]) % LabP
Bit(n, j) == (n \div Pow2(j)) % 2 = 1
Rev(s) == [i \in 1..Len(s) |-> s[Len(s) + 1 - i]]
(* entries [t, lab] keyword w with n identifiers contributes, in the order the code creates them *)
KwEntries(s, c, k, w, n) ==
    CASE s = "CJJ14.PiBas"  -> [i \in 1..n |-> [t |-> 1, lab |-> Lab(k, w, i - 1)]]
      [] s = "CJJ14.PiPack" -> [i \in 1..CeilDiv(n, c.B) |-> [t |-> 1, lab |-> Lab(k, w, i - 1)]]
      [] s = "CJJ14.PiPtr"  -> [i \in 1..CeilDiv(CeilDiv(n, c.B), c.b) |-> [t |-> 1, lab |-> Lab(k, w, i - 1)]]
      [] s = "CJJ14.Pi2Lev" -> << [t |-> 1, lab |-> Lab(k, w, 0)] >>
      [] s = "CT14.Pi"      -> LET js == Rev(SetToSortedSeq({j \in 0..FloorLog2(n) : Bit(n, j)}))
                               IN [i \in 1..Len(js) |-> [t |-> js[i] + 1, lab |-> Lab(k, w, js[i])]]
      [] s = "ANSS16.Scheme3" -> << [t |-> 2 + CeilLog2(n), lab |-> Lab(k, w, 0)], [t |-> 1, lab |-> Lab(k, w, 1)] >>
Padded(s) == s \in {"CT14.Pi", "ANSS16.Scheme3"}
NTables(s, p) == CASE s = "CT14.Pi" -> T(p) + 1 [] s = "ANSS16.Scheme3" -> T(p) + 2 [] OTHER -> 1
TableCap(s, p, t) ==
    CASE s = "CT14.Pi" -> Pow2(T(p) - (t - 1))
      [] s = "ANSS16.Scheme3" -> IF t = 1 THEN Pow2(T(p)) ELSE ANSSCap(T(p), t - 2)
      [] OTHER -> 0
(* db: sequence of [w, n] (keyword identity, list length) in the order supplied; dm: lengths of the dummy keywords the random  *)
(* stream yields (identities 40, 41, ...: the stream is the same in both runs); padding labels are those of pseudo-keywords    *)
(* 50 + t.  Entries get a creation stamp val (the ciphertext: fresh randomness, no relation to the label).                     *)
RawEntries(s, c, k, db, dm) ==
    LET real == ConcatAll([i \in 1..Len(db) |-> KwEntries(s, c, k, db[i].w, db[i].n)])
        dummy == IF Padded(s) THEN ConcatAll([i \in 1..Len(dm) |-> KwEntries(s, c, k, 39 + i, dm[i])]) ELSE <<>>
    IN real \o dummy
Stamp(i) == (977 * i + 13) % 1009
TableRaw(s, c, k, p, db, dm, t) ==
    LET raw == RawEntries(s, c, k, db, dm)
        own == SelectSeq([i \in 1..Len(raw) |-> [t |-> raw[i].t, lab |-> raw[i].lab, val |-> Stamp(i)]], LAMBDA e : e.t = t)
        npad == IF Padded(s) THEN TableCap(s, p, t) - Len(own) ELSE 0
    IN own \o [i \in 1..(IF npad > 0 THEN npad ELSE 0) |-> [t |-> t, lab |-> Lab(k, 50 + t, i), val |-> Stamp(500 + i)]]
(* insertion sort of records on their integer field `key` (stable: Python's sort is) *)
RECURSIVE InsertByKey(_, _)
InsertByKey(e, s) == IF s = <<>> THEN <<e>>
                     ELSE IF e.key <= Head(s).key THEN <<e>> \o s
                     ELSE <<Head(s)>> \o InsertByKey(e, Tail(s))
RECURSIVE SortByKey(_)
SortByKey(s) == IF s = <<>> THEN <<>> ELSE InsertByKey(s[1], SortByKey(Tail(s)))
SortByLabel(s) == SortByKey([i \in 1..Len(s) |-> [key |-> s[i].lab, lab |-> s[i].lab, val |-> s[i].val]])
SortByValue(s) == SortByKey([i \in 1..Len(s) |-> [key |-> s[i].val, lab |-> s[i].lab, val |-> s[i].val]])
(* sorter: "bylabel" is the code; "none" and "byvalue" are the edits the property is about *)
BuildTable(sorter, s, c, k, p, db, dm, t) ==
    LET raw == TableRaw(s, c, k, p, db, dm, t) IN
    CASE sorter = "bylabel" -> SortByLabel(raw)
      [] sorter = "byvalue" -> SortByValue(raw)
      [] OTHER -> raw
Labels(tab) == [i \in 1..Len(tab) |-> tab[i].lab]
SortedInts(q) == \A i \in 1..(Len(q) - 1) : q[i] <= q[i + 1]
(* the model-level invariant: for the database p (keyword i has identity i) and the permutation sg of its keyword order *)
LabelOrderModel(sorter, s, c, k, p, sg, dm) ==
    LET db0 == [i \in 1..Len(p) |-> [w |-> i, n |-> p[i]]]
        db1 == [i \in 1..Len(p) |-> db0[sg[i]]]
    IN \A t \in 1..NTables(s, p) :
          LET a == Labels(BuildTable(sorter, s, c, k, p, db0, dm, t))
              b == Labels(BuildTable(sorter, s, c, k, p, db1, dm, t))
          IN SortedInts(a) /\ a = b
(* number of entries the model puts into table t (for drift against the real tables) *)
TableSize(s, c, p, dm, t) == Len(TableRaw(s, c, 1, p, [i \in 1..Len(p) |-> [w |-> i, n |-> p[i]]], dm, t))
=============================================================================
