------------------------- MODULE ClientSM_proofs -------------------------
(* TLAPS: the clauses of C11's reference machine hold in EVERY behaviour of ClientSM (no bound on the number of    *)
(* operations; TLC explores the machine exhaustively, Apalache discharges the same inductive invariant).          *)
EXTENDS ClientSM, TLAPS

TypeInv == /\ exists \in BOOLEAN /\ cc \in BOOLEAN /\ cu \in BOOLEAN /\ kc \in BOOLEAN /\ de \in BOOLEAN /\ du \in BOOLEAN
           /\ keyVer \in 0..1 /\ edbVer \in 0..1 /\ st \in 0..2
IndInv == /\ TypeInv /\ Prereq /\ Searchable
          /\ (cc <=> exists)
          /\ (kc <=> keyVer = 1)
          /\ (de => edbVer = keyVer) /\ (~de => edbVer = 0)

LEMMA InitInv == CInit => IndInv
  BY DEF CInit, IndInv, TypeInv, Prereq, Searchable

LEMMA StepInv == IndInv /\ [CNext]_cvars => IndInv'
  BY DEF IndInv, TypeInv, Prereq, Searchable, CNext, cvars, Create, GenKey, Encrypt, UpConfig, UpIndex, Search

THEOREM Safety == CSpec => []IndInv
  <1>1. CInit => IndInv  BY InitInv
  <1>2. IndInv /\ [CNext]_cvars => IndInv'  BY StepInv
  <1>. QED  BY <1>1, <1>2, PTL DEF CSpec

THEOREM C11Prereq == CSpec => [](Prereq /\ Searchable)
  <1>1. IndInv => Prereq /\ Searchable  BY DEF IndInv
  <1>. QED  BY <1>1, Safety, PTL

LEMMA StepKey == IndInv /\ [CNext]_cvars => (keyVer # 0 => keyVer' = keyVer)
  BY DEF IndInv, TypeInv, Prereq, Searchable, CNext, cvars, Create, GenKey, Encrypt, UpConfig, UpIndex, Search

LEMMA StepFlags == IndInv /\ [CNext]_cvars => ((cc => cc') /\ (cu => cu') /\ (kc => kc') /\ (de => de') /\ (du => du'))
  BY DEF IndInv, TypeInv, Prereq, Searchable, CNext, cvars, Create, GenKey, Encrypt, UpConfig, UpIndex, Search

THEOREM C11KeyWriteOnce == CSpec => KeyWriteOnce
  <1>1. IndInv /\ [CNext]_cvars => [keyVer # 0 => keyVer' = keyVer]_cvars  BY StepKey
  <1>. QED  BY <1>1, Safety, PTL DEF CSpec, KeyWriteOnce

THEOREM C11FlagsMonotone == CSpec => FlagsMonotone
  <1>1. IndInv /\ [CNext]_cvars => [(cc => cc') /\ (cu => cu') /\ (kc => kc') /\ (de => de') /\ (du => du')]_cvars  BY StepFlags
  <1>. QED  BY <1>1, Safety, PTL DEF CSpec, FlagsMonotone
=============================================================================
