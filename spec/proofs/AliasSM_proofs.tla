------------------------- MODULE AliasSM_proofs -------------------------
(* TLAPS: the alias registry's reference machine is a write-once map, for arbitrary sets of names and sids. *)
EXTENDS AliasSM, TLAPS

ASSUME NoneIsNoSid == "none" \notin Sids

TypeOK == reg \in [Names -> Sids \cup {"none"}]

LEMMA InitType == Init => TypeOK
  BY DEF Init, TypeOK

LEMMA StepType == TypeOK /\ [Next]_reg => TypeOK'
  BY DEF TypeOK, Next, Record, Get, Restart

THEOREM Typed == Spec => []TypeOK
  <1>. QED  BY InitType, StepType, PTL DEF Spec

LEMMA StepOnce == TypeOK /\ [Next]_reg => (\A n \in Names : reg[n] # "none" => reg'[n] = reg[n])
  BY DEF TypeOK, Next, Record, Get, Restart

THEOREM AliasWriteOnce == Spec => WriteOnce
  <1>1. TypeOK /\ [Next]_reg => [\A n \in Names : reg[n] # "none" => reg'[n] = reg[n]]_reg  BY StepOnce
  <1>. QED  BY <1>1, Typed, PTL DEF Spec, WriteOnce
=============================================================================
