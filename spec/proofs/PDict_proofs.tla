------------------------- MODULE PDict_proofs -------------------------
(* TLAPS: the life-cycle clauses of C20's reference model hold in every behaviour of PDict, for ARBITRARY finite or  *)
(* infinite sets of keys and values (TLC checks them for 2 x 2).                                                    *)
EXTENDS PDict, TLAPS

ASSUME ValsPositive == \A v \in Vals : v \in Int /\ v > 0

LEMMA EmptyIsMap == Empty \in Maps
  BY DEF Empty, Maps, Absent

LEMMA InitType == PInit => TypeOK
  BY EmptyIsMap DEF PInit, TypeOK, opened, Handle

LEMMA StepType == TypeOK /\ [PNext]_pvars => TypeOK'
  <1> SUFFICES ASSUME TypeOK, [PNext]_pvars PROVE TypeOK'  OBVIOUS
  <1> USE EmptyIsMap DEF TypeOK, opened, Handle, pvars
  <1>1. CASE UNCHANGED pvars  BY <1>1
  <1>2. ASSUME NEW k \in Keys, NEW v \in Vals \cup {NB}, NEW o \in Outcomes, Set(k, v, o) PROVE TypeOK'
        BY <1>2, ValsPositive DEF Set, SetOuts, Refusals, Outcomes, Maps, NB, Absent
  <1>3. ASSUME NEW k \in Keys, NEW o \in Outcomes, Get(k, o, GetRes(k, o)) PROVE TypeOK'  BY <1>3 DEF Get
  <1>4. ASSUME NEW k \in Keys, NEW o \in Outcomes, Del(k, o) PROVE TypeOK'  BY <1>4 DEF Del, Maps, KeyOuts, Absent
  <1>5. ASSUME NEW k \in Keys, NEW o \in Outcomes, In(k, o, InRes(k, o)) PROVE TypeOK'  BY <1>5 DEF In
  <1>6. ASSUME NEW o \in Outcomes, LenOp(o, LenRes(o)) PROVE TypeOK'  BY <1>6 DEF LenOp
  <1>7. ASSUME NEW o \in Outcomes, NEW r, Iter(o, r) PROVE TypeOK'  BY <1>7 DEF Iter
  <1>8. ASSUME NEW k \in Keys, NEW df \in {Absent, Dflt}, NEW o \in Outcomes, GetDefault(k, df, o, GetDefRes(k, df, o)) PROVE TypeOK'
        BY <1>8 DEF GetDefault
  <1>9. ASSUME NEW o \in Outcomes, Clear(o) PROVE TypeOK'  BY <1>9 DEF Clear, OpenOuts
  <1>10. ASSUME NEW o \in Outcomes, Sync(o) PROVE TypeOK'  BY <1>10 DEF Sync, OpenOuts
  <1>11. ASSUME NEW o \in Outcomes, Close(o) PROVE TypeOK'  BY <1>11 DEF Close
  <1>12. ASSUME NEW o \in Outcomes, Create(o) PROVE TypeOK'  BY <1>12 DEF Create, CreateOuts
  <1>13. ASSUME NEW m \in Maps, NEW o \in Outcomes, FromDict(m, o) PROVE TypeOK'  BY <1>13 DEF FromDict, CreateOuts
  <1>14. ASSUME NEW k \in Keys, NEW v \in Vals \cup {Absent}, MutSrc(k, v) PROVE TypeOK'  BY <1>14 DEF MutSrc, Maps
  <1>15. ASSUME NEW o \in Outcomes, Open(o) PROVE TypeOK'  BY <1>15 DEF Open, OpenFileOuts, foreign
  <1>16. ASSUME NEW kind \in {0, 1}, Occupy(kind) PROVE TypeOK'  BY <1>16 DEF Occupy
  <1>. QED  BY <1>1, <1>2, <1>3, <1>4, <1>5, <1>6, <1>7, <1>8, <1>9, <1>10, <1>11, <1>12, <1>13, <1>14, <1>15, <1>16
            DEF PNext, Reopen, OpenMissing, CreateExisting, CreateFresh

THEOREM Typed == PSpec => []TypeOK
  <1>. QED  BY InitType, StepType, PTL DEF PSpec

(* a dictionary that was built from the caller's dict is stored *)
LinkedStored == linked => exists
LEMMA StepLinked == TypeOK /\ LinkedStored /\ [PNext]_pvars => LinkedStored'
  BY DEF LinkedStored, PNext, Set, Get, Del, In, LenOp, Iter, GetDefault, Clear, Sync, Close, Create, FromDict, MutSrc, Open, Occupy, Reopen, OpenMissing, CreateExisting, CreateFresh, SetOuts, Refusals, Outcomes, KeyOuts, OpenOuts, CloseOuts, CreateOuts, OpenFileOuts, foreign, opened, Handle, pvars, TypeOK, Maps, Absent, NB, Empty
THEOREM Linked == PSpec => [](TypeOK /\ LinkedStored)
  <1>1. PInit => LinkedStored  BY DEF PInit, LinkedStored
  <1>. QED  BY <1>1, InitType, StepType, StepLinked, PTL DEF PSpec

(* ---- the action clauses, each from TypeOK and one step ---- *)
LEMMA StepClosedInert == TypeOK /\ [PNext]_pvars => ((st = "closed" /\ st' = "closed") => (d' = d /\ onDisk' = onDisk /\ exists' = exists))
  BY DEF PNext, Set, Get, Del, In, LenOp, Iter, GetDefault, Clear, Sync, Close, Create, FromDict, MutSrc, Open, Occupy, Reopen, OpenMissing, CreateExisting, CreateFresh, SetOuts, Refusals, Outcomes, KeyOuts, OpenOuts, CloseOuts, CreateOuts, OpenFileOuts, foreign, opened, Handle, pvars, TypeOK, Maps, Absent, NB, Empty
LEMMA StepClosePersists == TypeOK /\ [PNext]_pvars => ((st = "open" /\ st' = "closed") => onDisk' = d)
  BY DEF PNext, Set, Get, Del, In, LenOp, Iter, GetDefault, Clear, Sync, Close, Create, FromDict, MutSrc, Open, Occupy, Reopen, OpenMissing, CreateExisting, CreateFresh, SetOuts, Refusals, Outcomes, KeyOuts, OpenOuts, CloseOuts, CreateOuts, OpenFileOuts, foreign, opened, Handle, pvars, TypeOK, Maps, Absent, NB, Empty
LEMMA StepOpenLoads == TypeOK /\ [PNext]_pvars => ((st # "open" /\ st' = "open" /\ exists) => d' = onDisk)
  BY DEF PNext, Set, Get, Del, In, LenOp, Iter, GetDefault, Clear, Sync, Close, Create, FromDict, MutSrc, Open, Occupy, Reopen, OpenMissing, CreateExisting, CreateFresh, SetOuts, Refusals, Outcomes, KeyOuts, OpenOuts, CloseOuts, CreateOuts, OpenFileOuts, foreign, opened, Handle, pvars, TypeOK, Maps, Absent, NB, Empty
LEMMA StepSrcIndependent == TypeOK /\ LinkedStored /\ [PNext]_pvars => (src' # src /\ linked => UNCHANGED <<d, st, onDisk, exists>>)
  BY DEF LinkedStored, PNext, Set, Get, Del, In, LenOp, Iter, GetDefault, Clear, Sync, Close, Create, FromDict, MutSrc, Open, Occupy, Reopen, OpenMissing, CreateExisting, CreateFresh, SetOuts, Refusals, Outcomes, KeyOuts, OpenOuts, CloseOuts, CreateOuts, OpenFileOuts, foreign, opened, Handle, pvars, TypeOK, Maps, Absent, NB, Empty
LEMMA StepExistsMonotone == TypeOK /\ [PNext]_pvars => (exists => exists')
  BY DEF PNext, Set, Get, Del, In, LenOp, Iter, GetDefault, Clear, Sync, Close, Create, FromDict, MutSrc, Open, Occupy, Reopen, OpenMissing, CreateExisting, CreateFresh, SetOuts, Refusals, Outcomes, KeyOuts, OpenOuts, CloseOuts, CreateOuts, OpenFileOuts, foreign, opened, Handle, pvars, TypeOK, Maps, Absent, NB, Empty

THEOREM C20ClosedInert == PSpec => ClosedInert
  <1>1. TypeOK /\ [PNext]_pvars => [(st = "closed" /\ st' = "closed") => (d' = d /\ onDisk' = onDisk /\ exists' = exists)]_pvars  BY StepClosedInert
  <1>. QED  BY <1>1, Typed, PTL DEF PSpec, ClosedInert
THEOREM C20ClosePersists == PSpec => ClosePersists
  <1>1. TypeOK /\ [PNext]_pvars => [(st = "open" /\ st' = "closed") => onDisk' = d]_pvars  BY StepClosePersists
  <1>. QED  BY <1>1, Typed, PTL DEF PSpec, ClosePersists
THEOREM C20OpenLoads == PSpec => OpenLoads
  <1>1. TypeOK /\ [PNext]_pvars => [(st # "open" /\ st' = "open" /\ exists) => d' = onDisk]_pvars  BY StepOpenLoads
  <1>. QED  BY <1>1, Typed, PTL DEF PSpec, OpenLoads
THEOREM C20SrcIndependent == PSpec => SrcIndependent
  <1>1. TypeOK /\ LinkedStored /\ [PNext]_pvars => [src' # src /\ linked => UNCHANGED <<d, st, onDisk, exists>>]_pvars  BY StepSrcIndependent
  <1>. QED  BY <1>1, Linked, PTL DEF PSpec, SrcIndependent
THEOREM C20ExistsMonotone == PSpec => ExistsMonotone
  <1>1. TypeOK /\ [PNext]_pvars => [exists => exists']_pvars  BY StepExistsMonotone
  <1>. QED  BY <1>1, Typed, PTL DEF PSpec, ExistsMonotone
=============================================================================
