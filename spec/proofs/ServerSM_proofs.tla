------------------------- MODULE ServerSM_proofs -------------------------
(* TLAPS: the clauses of C10's reference machine for ARBITRARY sets of configurations and indexes (TLC and Apalache *)
(* check them for two of each).                                                                                   *)
EXTENDS ServerSM, TLAPS

ASSUME NonZero == 0 \notin Cfgs /\ 0 \notin Idxs

Inv == TypeOK /\ Consistent

LEMMA InitInv == SMInit => Inv
  BY NonZero DEF SMInit, Inv, TypeOK, Consistent

LEMMA StepInv == Inv /\ [SMNext]_svars => Inv'
  BY NonZero DEF Inv, TypeOK, Consistent, SMNext, svars, Connect, Config, Upload, Search, Foreign, Unknown, Malformed, Close, Outcomes

THEOREM Safety == SMSpec => []Inv
  <1>1. SMInit => Inv  BY InitInv
  <1>2. Inv /\ [SMNext]_svars => Inv'  BY StepInv
  <1>. QED  BY <1>1, <1>2, PTL DEF SMSpec

LEMMA StepForward == Inv /\ [SMNext]_svars => (st' >= st /\ st' <= st + 1) \/ UNCHANGED svars
  BY NonZero DEF Inv, TypeOK, Consistent, SMNext, svars, Connect, Config, Upload, Search, Foreign, Unknown, Malformed, Close, Outcomes

LEMMA StepCfg == Inv /\ [SMNext]_svars => (cfg # 0 => cfg' = cfg)
  BY NonZero DEF Inv, TypeOK, Consistent, SMNext, svars, Connect, Config, Upload, Search, Foreign, Unknown, Malformed, Close, Outcomes

LEMMA StepIdx == Inv /\ [SMNext]_svars => (idx # 0 => idx' = idx)
  BY NonZero DEF Inv, TypeOK, Consistent, SMNext, svars, Connect, Config, Upload, Search, Foreign, Unknown, Malformed, Close, Outcomes

THEOREM C10ForwardOnly == SMSpec => ForwardOnly
  <1>1. Inv /\ [SMNext]_svars => [st' >= st /\ st' <= st + 1]_svars  BY StepForward
  <1>. QED  BY <1>1, Safety, PTL DEF SMSpec, ForwardOnly

THEOREM C10CfgWriteOnce == SMSpec => CfgWriteOnce
  <1>1. Inv /\ [SMNext]_svars => [cfg # 0 => cfg' = cfg]_svars  BY StepCfg
  <1>. QED  BY <1>1, Safety, PTL DEF SMSpec, CfgWriteOnce

THEOREM C10IdxWriteOnce == SMSpec => IdxWriteOnce
  <1>1. Inv /\ [SMNext]_svars => [idx # 0 => idx' = idx]_svars  BY StepIdx
  <1>. QED  BY <1>1, Safety, PTL DEF SMSpec, IdxWriteOnce
=============================================================================
