------------------------- MODULE ClientImpl_proofs -------------------------
(* TLAPS: the safety clauses of ClientImpl (the client object as commands.py uses it, with lost upload echoes) hold in *)
(* every behaviour, for ANY bound on the number of lost echoes and with or without persist-on-refusal.                *)
EXTENDS ClientImpl, TLAPS

ASSUME ConstOK == MaxLost \in Nat /\ PersistSynced \in BOOLEAN

TypeOK == /\ disk \in Flag /\ created \in BOOLEAN /\ keyVer \in 0..1 /\ edbVer \in 0..1
          /\ edbLocal \in BOOLEAN /\ st \in 0..2 /\ lost \in Nat
Inv == /\ TypeOK
       /\ DiskNotAhead /\ LagOnlyAfterLoss /\ Searchable
       /\ (disk.cc <=> created)
       /\ (disk.kc <=> keyVer = 1)
       /\ (disk.kc => disk.cc) /\ (disk.de => disk.kc) /\ (disk.cu => disk.cc)
       /\ (disk.de => edbVer = keyVer) /\ (~disk.de => edbVer = 0)
       /\ (edbLocal => disk.de)
       /\ (st >= 1 => disk.cc)
       /\ (st = 2 => disk.de /\ disk.kc)
       /\ (st < 2 /\ disk.de => edbLocal)

LEMMA InitInv == Init => Inv
  BY ConstOK DEF Init, Inv, TypeOK, NoFlags, Flag, DiskNotAhead, LagOnlyAfterLoss, Lag, Searchable

LEMMA StepInv == Inv /\ [Next]_ivars => Inv'
  <1> SUFFICES ASSUME Inv, [Next]_ivars PROVE Inv'  OBVIOUS
  <1> USE ConstOK DEF Inv, TypeOK, Flag, DiskNotAhead, LagOnlyAfterLoss, Lag, Searchable, Synced
  <1>1. CASE UNCHANGED ivars  BY <1>1 DEF ivars
  <1>2. ASSUME NEW o \in {"ok", "refused"}, Create(o) PROVE Inv'  BY <1>2 DEF Create, ivars
  <1>3. ASSUME NEW o \in {"ok", "refused"}, GenKey(o) PROVE Inv'  BY <1>3 DEF GenKey, ivars
  <1>4. ASSUME NEW o \in {"ok", "refused"}, Encrypt(o) PROVE Inv'  BY <1>4 DEF Encrypt, ivars
  <1>5. ASSUME NEW o \in {"ok", "refused", "noecho"}, NEW e \in BOOLEAN, UpConfig(o, e) PROVE Inv'  BY <1>5 DEF UpConfig, ivars
  <1>6. ASSUME NEW o \in {"ok", "refused", "noecho"}, NEW e \in BOOLEAN, UpIndex(o, e) PROVE Inv'  BY <1>6 DEF UpIndex, ivars
  <1>7. ASSUME NEW o \in {"ok", "refused"}, NEW c \in BOOLEAN, Search(o, c) PROVE Inv'  BY <1>7 DEF Search, ivars
  <1>. QED  BY <1>1, <1>2, <1>3, <1>4, <1>5, <1>6, <1>7 DEF Next

THEOREM Safety == Spec => [](DiskNotAhead /\ LagOnlyAfterLoss /\ Searchable)
  <1>1. Inv => DiskNotAhead /\ LagOnlyAfterLoss /\ Searchable  BY DEF Inv
  <1>. QED  BY <1>1, InitInv, StepInv, PTL DEF Spec

(* ---- refinement: under the mapping "cu, du are what the server says, the other flags are the persisted ones" every step of    *)
(* ---- ClientImpl is a step of the reference machine ClientSM or leaves its variables unchanged                              *)
LEMMA InitRef == Init => SM!CInit
  BY DEF Init, SM!CInit, NoFlags

LEMMA StepRef == Inv /\ [Next]_ivars => [SM!CNext]_(SM!cvars)
  <1> SUFFICES ASSUME Inv, [Next]_ivars PROVE SM!CNext \/ UNCHANGED SM!cvars  OBVIOUS
  <1> USE ConstOK DEF Inv, TypeOK, Flag, DiskNotAhead, LagOnlyAfterLoss, Lag, Searchable, Synced, SM!cvars
  <1>1. CASE UNCHANGED ivars  BY <1>1 DEF ivars
  <1>2. ASSUME NEW o \in {"ok", "refused"}, Create(o) PROVE SM!CNext \/ UNCHANGED SM!cvars
        <2>1. SM!Create(TRUE, o) \/ UNCHANGED SM!cvars  BY <1>2 DEF Create, SM!Create, ivars
        <2>. QED  BY <2>1 DEF SM!CNext
  <1>3. ASSUME NEW o \in {"ok", "refused"}, GenKey(o) PROVE SM!CNext \/ UNCHANGED SM!cvars
        <2>1. SM!GenKey(o) \/ UNCHANGED SM!cvars  BY <1>3 DEF GenKey, SM!GenKey, ivars
        <2>. QED  BY <2>1 DEF SM!CNext
  <1>4. ASSUME NEW o \in {"ok", "refused"}, Encrypt(o) PROVE SM!CNext \/ UNCHANGED SM!cvars
        <2>1. SM!Encrypt(o) \/ UNCHANGED SM!cvars  BY <1>4 DEF Encrypt, SM!Encrypt, ivars
        <2>. QED  BY <2>1 DEF SM!CNext
  <1>5. ASSUME NEW o \in {"ok", "refused", "noecho"}, NEW e \in BOOLEAN, UpConfig(o, e) PROVE SM!CNext \/ UNCHANGED SM!cvars
        <2>1. SM!UpConfig("ok") \/ UNCHANGED SM!cvars  BY <1>5 DEF UpConfig, SM!UpConfig, ivars
        <2>. QED  BY <2>1 DEF SM!CNext
  <1>6. ASSUME NEW o \in {"ok", "refused", "noecho"}, NEW e \in BOOLEAN, UpIndex(o, e) PROVE SM!CNext \/ UNCHANGED SM!cvars
        <2>1. SM!UpIndex("ok") \/ UNCHANGED SM!cvars  BY <1>6 DEF UpIndex, SM!UpIndex, ivars
        <2>. QED  BY <2>1 DEF SM!CNext
  <1>7. ASSUME NEW o \in {"ok", "refused"}, NEW c \in BOOLEAN, Search(o, c) PROVE SM!CNext \/ UNCHANGED SM!cvars
        BY <1>7 DEF Search, ivars
  <1>. QED  BY <1>1, <1>2, <1>3, <1>4, <1>5, <1>6, <1>7 DEF Next

THEOREM Refinement == Spec => SM!CSpec
  <1>. QED  BY InitInv, StepInv, InitRef, StepRef, PTL DEF Spec, SM!CSpec
=============================================================================
