------------------------------- MODULE Bytes -------------------------------
(***************************************************************************)
(* Byte strings as Seq(0..255).  Nothing here ever builds an integer       *)
(* >= 2^31: counters and lengths that go into byte strings are handled as  *)
(* base-256 digit lists (TLC integers are 32-bit).                         *)
(***************************************************************************)
EXTENDS Naturals, Sequences

Byte == 0..255

IsBytes(s) == /\ DOMAIN s = 1..Len(s)
              /\ \A i \in 1..Len(s) : s[i] \in Byte

Min2(a, b) == IF a <= b THEN a ELSE b

(* first n bytes (all of s when n >= Len(s)) -- Python s[:n] for n >= 0 *)
Take(s, n) == SubSeq(s, 1, Min2(n, Len(s)))
(* everything after the first n bytes -- Python s[n:] for n >= 0 *)
Drop(s, n) == SubSeq(s, Min2(n, Len(s)) + 1, Len(s))
(* last n bytes *)
TakeLast(s, n) == SubSeq(s, Len(s) - Min2(n, Len(s)) + 1, Len(s))

Concat(s, t) == s \o t

Rep(b, n) == [i \in 1..n |-> b]

RECURSIVE Flatten(_)
Flatten(ss) == IF Len(ss) = 0 THEN <<>> ELSE Head(ss) \o Flatten(Tail(ss))

(* bitwise xor of two bytes, by binary digits *)
RECURSIVE XorBits(_, _, _)
XorBits(a, b, n) ==
    IF n = 0 THEN 0
    ELSE (IF (a % 2) = (b % 2) THEN 0 ELSE 1) + 2 * XorBits(a \div 2, b \div 2, n - 1)
XorByte(a, b) == XorBits(a, b, 8)
(* xor of equally long strings *)
Xor(s, t) == [i \in 1..Len(s) |-> XorByte(s[i], t[i])]

(* left-pad with zero bytes to n bytes (unchanged when already that long) *)
LeftPad(s, n) == IF Len(s) >= n THEN s ELSE Rep(0, n - Len(s)) \o s

(* minimal big-endian encoding of a natural number c < 2^31: 0 -> <<>>, 1 -> <<1>>, 256 -> <<1,0>> *)
RECURSIVE BEMin(_)
BEMin(c) == IF c = 0 THEN <<>> ELSE BEMin(c \div 256) \o <<c % 256>>

(* fixed-width big-endian encoding (c < 256^n) *)
BEFixed(c, n) == LeftPad(BEMin(c), n)

(* value of a short big-endian string (at most 3 bytes, so < 2^24) *)
RECURSIVE BEValue(_)
BEValue(s) == IF Len(s) = 0 THEN 0 ELSE 256 * BEValue(SubSeq(s, 1, Len(s) - 1)) + s[Len(s)]

(* a counter kept as a big-endian digit list: increment without ever forming the integer *)
RECURSIVE BEIncr(_)
BEIncr(s) ==
    IF Len(s) = 0 THEN <<1>>
    ELSE IF s[Len(s)] < 255 THEN SubSeq(s, 1, Len(s) - 1) \o <<s[Len(s)] + 1>>
    ELSE BEIncr(SubSeq(s, 1, Len(s) - 1)) \o <<0>>

CeilDiv(a, b) == (a + b - 1) \div b
=============================================================================
