------------------------------- MODULE PHash -------------------------------
(***************************************************************************)
(* Layer A for C16: the HMAC-based PRF and the variable-length hash.       *)
(*                                                                         *)
(* PRF -- TLS P_hash, RFC 5246 section 5 (what toolkit/prf/hmac_prf.py     *)
(* documents):                                                             *)
(*     A(0) = seed,  A(i) = HMAC_hash(secret, A(i-1))                      *)
(*     P_hash(secret, seed) = HMAC_hash(secret, A(1) + seed) +             *)
(*                            HMAC_hash(secret, A(2) + seed) + ...         *)
(*     output = first n bytes, with as many blocks as needed               *)
(* with secret = key, seed = message.                                      *)
(*                                                                         *)
(* Hash -- what toolkit/hash.py documents ("extended output length using   *)
(* counter mode"): H(m + ctr(1)) + H(m + ctr(2)) + ... truncated to n,     *)
(* the counter starts at 1 and is appended as its minimal big-endian byte  *)
(* string (int_to_bytes(c)); for shake_128 / shake_256 the native          *)
(* extendable output XOF(m, n).                                            *)
(*                                                                         *)
(* HMAC, H and XOF are ABSTRACT.  Their graph is the list of core calls    *)
(* recorded during the judged call (`core`).  `ref` is the value the       *)
(* standard library gives for the recorded input, computed independently   *)
(* by the harness, so that "the abstract core is HMAC / the hash" is a     *)
(* clause as well (standard conformance).                                  *)
(***************************************************************************)
EXTENDS Bytes, Integers, FiniteSets

Unlimited == -1      \* LENGTH_UNLIMITED
NotGiven  == 0       \* LENGTH_NOT_GIVEN: the output length defaults to the digest size

DigestSize(name) ==
    CASE name = "md5" -> 16 [] name = "sha1" -> 20 [] name = "sha256" -> 32 [] name = "sha512" -> 64
      [] OTHER -> 0
FixedDigests == {"md5", "sha1", "sha256", "sha512"}
Xofs         == {"shake_128", "shake_256"}

OutLen(declOut, name) == IF declOut = NotGiven THEN DigestSize(name) ELSE declOut

(* ---- abstract core: lookup in a recorded graph -------------------------- *)
(* NOTE for maintainers: no RECURSIVE operator on this path.  TLC does not cache the (lazily evaluated)      *)
(* arguments of RECURSIVE operators, which makes a chained construction exponential; recursive FUNCTION       *)
(* definitions forced into tuples (<<>> \o f) are evaluated once per index.                                   *)
Bad == << -1 >>        \* "no such value in the graph" (not a byte string)

(* HMAC graph entries: [dig, k, inp, res, ref, used]; `used` = its digest was actually taken         *)
HIdx(G, dig, k, x)  == {i \in 1..Len(G) : G[i].used /\ G[i].dig = dig /\ G[i].k = k /\ G[i].inp = x}
HMACg(G, dig, k, x) == IF x = Bad \/ HIdx(G, dig, k, x) = {} THEN Bad
                       ELSE G[CHOOSE i \in HIdx(G, dig, k, x) : TRUE].res

(* concatenation of blocks of equal length h *)
FlattenEq(ss, h) == [j \in 1..(Len(ss) * h) |-> ss[(j - 1) \div h + 1][((j - 1) % h) + 1]]

(* P_hash(k, m) truncated to n bytes, assembled from the graph G.                                    *)
(*   ok    every core value the construction needs is in the graph                                   *)
(*   out   the n output bytes                                                                        *)
(*   need  the core inputs the construction uses:  A(0..B-1)  and  A(i)+m, i = 1..B                  *)
(*   look  A(B), the input of the call that would compute A(B+1)                                     *)
PHashOver(G, dig, k, m, n) ==
    LET h  == DigestSize(dig)
        B  == CeilDiv(n, h)
        A[i \in 0..B] == IF i = 0 THEN m ELSE HMACg(G, dig, k, A[i - 1])
        As  == <<>> \o [i \in 1..B |-> A[i]]                                           \* A(1) .. A(B)
        Ins == <<>> \o [i \in 1..B |-> IF As[i] = Bad THEN Bad ELSE As[i] \o m]        \* A(i) + seed
        Bl  == <<>> \o [i \in 1..B |-> HMACg(G, dig, k, Ins[i])]                       \* HMAC(k, A(i) + seed)
        ok  == \A i \in 1..B : Bl[i] # Bad
    IN  [ok   |-> ok,
         out  |-> IF ok THEN Take(FlattenEq(Bl, h), n) ELSE <<>>,
         why  |-> IF ok THEN ""
                  ELSE IF \E i \in 1..B : As[i] = Bad THEN "missing-core-call-A(i)=HMAC(k,A(i-1))"
                  ELSE "missing-core-call-HMAC(k,A(i)+m)",
         need |-> {m} \cup {As[i] : i \in 1..(B - 1)} \cup {Ins[i] : i \in 1..B},
         look |-> IF B = 0 THEN m ELSE As[B]]

(* hash graph entries: [name, inp, n, res, ref, used]; n = -1 for a fixed-size digest *)
DIdx(G, name, x, n) == {i \in 1..Len(G) : G[i].used /\ G[i].name = name /\ G[i].inp = x /\ G[i].n = n}
Hg(G, name, x, n)   == IF DIdx(G, name, x, n) = {} THEN Bad ELSE G[CHOOSE i \in DIdx(G, name, x, n) : TRUE].res

(* the counter of block i: starts at 1, minimal big-endian byte string (int_to_bytes(c)) *)
Ctr(i) == BEMin(i)

HashOver(G, name, m, n) ==
    IF name \in Xofs
    THEN LET r == Hg(G, name, m, n)
         IN  [ok |-> r # Bad, out |-> IF r # Bad THEN r ELSE <<>>,
              why |-> IF r # Bad THEN "" ELSE "missing-core-call-XOF(m,n)", need |-> {m}]
    ELSE LET h   == DigestSize(name)
             B   == CeilDiv(n, h)
             Ins == <<>> \o [i \in 1..B |-> m \o Ctr(i)]
             Bl  == <<>> \o [i \in 1..B |-> Hg(G, name, Ins[i], -1)]
             ok  == \A i \in 1..B : Bl[i] # Bad
         IN  [ok |-> ok, out |-> IF ok THEN Take(FlattenEq(Bl, h), n) ELSE <<>>,
              why |-> IF ok THEN "" ELSE "missing-core-call-H(m+ctr(i))",
              need |-> {Ins[i] : i \in 1..B}]

(* ---- judged calls --------------------------------------------------------- *)
PrfContractBroken(d, k, m) == \/ d.key # Unlimited /\ Len(k) # d.key
                              \/ d.msg # Unlimited /\ Len(m) # d.msg

UsedIdx(G) == {i \in 1..Len(G) : G[i].used}

JudgePrf(e) ==
    IF PrfContractBroken(e.decl, e.k, e.m)
    THEN (IF e.out = "ValueError" THEN "ok" ELSE "Contract:prf-accepted-wrong-length")
    ELSE IF e.out # "ok" THEN "PRF:refused-valid-input"
    ELSE IF ~IsBytes(e.res) THEN "PRF:result-not-bytes"
    ELSE LET n == OutLen(e.decl.out, e.decl.dig)
             G == e.oracle           \* standard-library HMAC values supplied by the harness, independent of how the code computes
             want == PHashOver(G, e.decl.dig, e.k, e.m, n)
         IN  IF Len(e.res) # n THEN "PRF:output-length"
             ELSE IF ~want.ok THEN "A:oracle-incomplete"
             ELSE IF e.res # want.out THEN "PRF:output-not-P_hash"
             ELSE IF \E i \in 1..Len(e.again) : e.again[i] # e.res THEN "PRF:not-deterministic"
             ELSE "ok"

JudgeHash(e) ==
    IF e.out # "ok" THEN "Hash:refused-valid-input"
    ELSE IF ~IsBytes(e.res) THEN "Hash:result-not-bytes"
    ELSE LET n == OutLen(e.decl.out, e.decl.name)
             G == e.oracle
             want == HashOver(G, e.decl.name, e.m, n)
         IN  IF Len(e.res) # n THEN "Hash:output-length"
             ELSE IF ~want.ok THEN "A:oracle-incomplete"
             ELSE IF e.res # want.out THEN "Hash:output-not-the-documented-expansion"
             ELSE IF \E i \in 1..Len(e.again) : e.again[i] # e.res THEN "Hash:not-deterministic"
             ELSE "ok"

(* pairwise distinctness over a sampled set: items[i] = [k, m, res]; same declaration, one key length *)
JudgeDistinct(e) ==
    LET I == 1..Len(e.items)
    IN  IF \E i \in I : Len(e.items[i].res) < 16 \/ Len(e.items[i].k) # Len(e.items[1].k)
        THEN "Distinct:ill-formed-sample"
        ELSE IF \E i, j \in I : /\ i < j
                                /\ (e.items[i].k # e.items[j].k \/ e.items[i].m # e.items[j].m)
                                /\ e.items[i].res = e.items[j].res
        THEN "Distinct:two-inputs-one-output"
        ELSE IF \E i, j \in I : /\ i < j
                                /\ e.items[i].k = e.items[j].k /\ e.items[i].m = e.items[j].m
                                /\ e.items[i].res # e.items[j].res
        THEN "Distinct:one-input-two-outputs"
        ELSE "ok"

(* ---- Layer B: the calls the code of the unchanged tree makes (drift only) ------------------------ *)
(* _tls_p_hash: one HMAC object on (k, "") whose digest is never taken (digest-size probe), A(1) .. A(n+1)  *)
(* (one A more than the construction needs: the loop computes the next A before testing the counter) and   *)
(* the n blocks; nothing else.                                                                             *)
DriftPrf(e) ==
    IF PrfContractBroken(e.decl, e.k, e.m)
    THEN (IF Len(e.core) # 0 THEN "B:core-used-before-contract-check" ELSE "ok")
    ELSE IF e.out # "ok" THEN "ok"
    ELSE LET n == OutLen(e.decl.out, e.decl.dig)
             G == e.core
             blocks == CeilDiv(n, DigestSize(e.decl.dig))
             want == PHashOver(G, e.decl.dig, e.k, e.m, n)
             probes == {i \in 1..Len(G) : ~G[i].used}
         IN  IF \E i \in UsedIdx(G) : G[i].res # G[i].ref \/ Len(G[i].res) # DigestSize(G[i].dig)
                  THEN "B:PRF:core-is-not-standard-HMAC"
             ELSE IF ~want.ok THEN "B:PRF:" \o want.why
             ELSE IF \E i \in probes : ~(G[i].k = e.k /\ G[i].inp = <<>> /\ G[i].dig = e.decl.dig) THEN "B:unexpected-probe"
             ELSE IF Cardinality(probes) # 1 THEN "B:not-exactly-one-digest-size-probe"
             ELSE IF \E i \in UsedIdx(G) : ~(G[i].k = e.k /\ G[i].dig = e.decl.dig /\ G[i].inp \in want.need \cup {want.look})
                  THEN "B:core-call-outside-the-construction"
             ELSE IF Cardinality(UsedIdx(G)) # 2 * blocks + 1 THEN "B:number-of-core-calls"
             ELSE "ok"

DriftHash(e) ==
    IF e.out # "ok" THEN "ok" ELSE
    LET n == OutLen(e.decl.out, e.decl.name)
        G == e.core
        want == HashOver(G, e.decl.name, e.m, n)
        blocks == IF e.decl.name \in Xofs THEN 1 ELSE CeilDiv(n, DigestSize(e.decl.name))
    IN  IF \E i \in UsedIdx(G) : (G[i].res # G[i].ref)
                                   \/ (G[i].n = -1 /\ Len(G[i].res) # DigestSize(G[i].name))
                                   \/ (G[i].n # -1 /\ Len(G[i].res) # G[i].n)
             THEN "B:Hash:core-is-not-the-standard-hash"
        ELSE IF ~want.ok THEN "B:Hash:" \o want.why
        ELSE IF \E i \in 1..Len(G) : ~G[i].used THEN "B:unexpected-probe"
        ELSE IF \E i \in UsedIdx(G) : ~(G[i].name = e.decl.name /\ G[i].inp \in want.need) THEN "B:core-call-outside-the-construction"
        ELSE IF Cardinality(UsedIdx(G)) # blocks THEN "B:number-of-core-calls"
        ELSE "ok"
=============================================================================
