----------------------------- MODULE MC_Feistel -----------------------------
(***************************************************************************)
(* Bounded instances of Feistel.tla.  TLC quantifies over the ROUND        *)
(* FUNCTION: every "done" state is one choice of round function (and       *)
(* width, key) together with the complete table the network computes with  *)
(* it; the invariants are the Layer A predicates of C15 on that table.     *)
(*                                                                         *)
(*  Mode = "all"     every well-formed round function on the points the    *)
(*                   network consults, widths Ns, R rounds (built round by *)
(*                   round so that TLC's workers share the enumeration)    *)
(*  Mode = "sample"  K pseudo-randomly drawn round functions per width     *)
(*                   (TLC -seed), widths Ns, R rounds (the code's 10)      *)
(*  Mode = "total"   as "sample", but the function is defined for every    *)
(*                   input width and requested width: used for the         *)
(*                   instances that are EXPECTED to fail (odd R on odd n,  *)
(*                   n = 1), where encryption and decryption consult       *)
(*                   points outside the regular domain                     *)
(*  Mode = "round"   one round, every g : {0,1}^wb -> {0,1}^wa with        *)
(*                   wa, wb in Ns and wa + wb <= K                         *)
(*  Mode = "lr"      3-round byte Feistel, alphabet 0..A-1, half length H, *)
(*                   every PRF graph (K = 0) or K drawn ones, every key    *)
(*                   over the sub-key alphabet KA                          *)
(***************************************************************************)
EXTENDS Feistel, TLC

CONSTANTS Mode, Ns, R, K, A, H, KA

VARIABLE c
vars == <<c>>

(* ---------- round-function spaces ---------- *)
RECURSIVE DomUpTo(_, _)
DomUpTo(n, k) == IF k = 0 THEN {} ELSE DomUpTo(n, k - 1) \cup RoundDom(n, k - 1)

(* the round functions of round i (0-based) for width n: strings of the width of b to strings of the requested width *)
RoundFns(n, i) == LET p == WidthsAt(n, i)
                      w == IF p[1] = 0 THEN p[2] ELSE p[1]
                  IN  [BitStr(p[2]) -> BitStr(w)]
FOf(n, g) == TLCEval([t \in DomUpTo(n, R) |-> g[t[1] + 1][t[2]]])

RandBits(w) == [k \in 1..w |-> RandomElement(Bit)]
RandF(D)    == TLCEval([t \in D |-> TLCEval(RandBits(t[3]))])

AllStr(n)   == UNION {BitStr(k) : k \in 0..n}
TotalDom(n) == {<<i, b, w>> : i \in 0..(R - 1), b \in AllStr(n + 1), w \in 1..(n + 1)}

(* ---------- byte Feistel spaces ---------- *)
Alpha    == 0..(A - 1)
Half     == [1..H -> Alpha]
Msgs     == [1..(2 * H) -> Alpha]
Keys     == [1..3 -> KA]
LRDom    == {<<sk, r>> : sk \in [1..1 -> KA], r \in Half}
(* the argument only makes the expression state-dependent: TLC evaluates constant expressions once *)
RandHalf(s) == [k \in 1..H |-> RandomElement(IF s < 0 THEN {} ELSE Alpha)]
(* sub-keys are taken in increasing order when the PRF graph is enumerated sub-key by sub-key *)
NextSK(done) == CHOOSE k \in KA \ done : \A j \in KA \ done : k <= j
GOf(gs) == TLCEval([t \in LRDom |-> gs[t[1][1]][t[2]]])

DoneNet(n, f) == [st |-> "done", n |-> n, f |-> f, T |-> EncDecTable(f, R, n)]
DoneLR(key, g) == [st |-> "done", key |-> key, g |-> g, T |-> LRTable(g, key, 3, Msgs)]

Init ==
    CASE Mode = "all"    -> \E n \in Ns : c = [st |-> "build", n |-> n, g |-> <<>>]
      [] Mode = "sample" -> \E n \in Ns, s \in 1..K : c = [st |-> "draw", n |-> n, s |-> s]
      [] Mode = "total"  -> \E n \in Ns, s \in 1..K : c = [st |-> "draw", n |-> n, s |-> s]
      [] Mode = "round"  -> \E wa \in Ns, wb \in Ns : wa + wb <= K /\ c = [st |-> "draw", wa |-> wa, wb |-> wb]
      [] Mode = "lr"     -> \E key \in Keys : c = [st |-> "draw", key |-> key, gs |-> <<>>]

Build  == /\ c.st = "build" /\ Len(c.g) < R
          /\ \E h \in RoundFns(c.n, Len(c.g)) : c' = [c EXCEPT !.g = Append(c.g, h)]
Close  == /\ c.st = "build" /\ Len(c.g) = R
          /\ c' = DoneNet(c.n, FOf(c.n, c.g))
Sample == /\ c.st = "draw" /\ Mode = "sample"
          /\ c' = DoneNet(c.n, RandF(DomUpTo(c.n, R)))
Total  == /\ c.st = "draw" /\ Mode = "total"
          /\ c' = DoneNet(c.n, RandF(TotalDom(c.n)))
Round  == /\ c.st = "draw" /\ Mode = "round"
          /\ \E g \in [BitStr(c.wb) -> BitStr(c.wa)] : c' = [st |-> "done", wa |-> c.wa, wb |-> c.wb, g |-> g]
LRAll  == /\ c.st = "draw" /\ Mode = "lr" /\ K = 0 /\ DOMAIN c.gs # KA
          /\ \E h \in [Half -> Half] : c' = [c EXCEPT !.gs = (NextSK(DOMAIN c.gs) :> h) @@ c.gs]
LRClose == /\ c.st = "draw" /\ Mode = "lr" /\ K = 0 /\ DOMAIN c.gs = KA
           /\ c' = DoneLR(c.key, GOf(c.gs))
LRDraw == /\ c.st = "draw" /\ Mode = "lr" /\ K > 0
          /\ \E s \in 1..K : c' = DoneLR(c.key, TLCEval([t \in LRDom |-> TLCEval(RandHalf(s))]))

Next == Build \/ Close \/ Sample \/ Total \/ Round \/ LRAll \/ LRClose \/ LRDraw
Spec == Init /\ [][Next]_vars

Net    == Mode \in {"all", "sample", "total"} /\ c.st = "done"
DoneLr == Mode = "lr" /\ c.st = "done"

(* ---------- the theorems (Layer A predicates on the model's table) ---------- *)
ThmWellFormed == Net => WellFormed(c.f)
ThmComplete   == Net => TblComplete(c.T, BitStr(c.n))
ThmLength     == Net => TblLengthBits(c.T, c.n)
ThmInjective  == Net => TblInjective(c.T)
ThmBijective  == Net => TblPermutes(c.T, BitStr(c.n))
ThmInverse    == Net => TblInverse(c.T)
(* the halves are back at their original widths after R rounds iff R is even or the halves are equal *)
ThmWidths     == Net => (WidthsReturn(R, c.n) <=> (R % 2 = 0 \/ c.n % 2 = 0))
(* every point the network consults is in the domain the model gave f (no default value was used) *)
ThmDefined    == Net => \A x \in DOMAIN c.T : c.T[x].ok

ThmRound      == (Mode = "round" /\ c.st = "done") => RoundBijective(c.g, c.wa, c.wb)

ThmLRLength    == DoneLr => \A m \in Msgs : Len(c.T[m].y) = 2 * H /\ c.T[m].ok
ThmLRInjective == DoneLr => TblInjective(c.T)
ThmLRBijective == DoneLr => TblComplete(c.T, Msgs) /\ TblPermutes(c.T, Msgs)
=============================================================================
