----------------------------- MODULE Trace_SKE -----------------------------
(* Trace validation for C14.  A trace is a short script run on one AESxCBC *)
(* instance: ctor, enc, dec events (plus one "ivset" trace for the whole   *)
(* run).  The only state is what the property needs across calls: the IVs  *)
(* and ciphertexts used so far and the accepted encryptions (to know what  *)
(* a later Decrypt must return).                                           *)
(* Layer = "A": the property (a rejection is a violation).                 *)
(* Layer = "B": additionally the code-shaped clauses (a rejection of a     *)
(*              trace that Layer A accepts is drift).                      *)
EXTENDS SKE, TLC, Json, IOUtils

CONSTANT Layer

Traces == JsonDeserialize(IOEnv.TRACE_FILE)

VARIABLES usedIV, usedCt, encs, tid, l, verdict, clause
svars == <<usedIV, usedCt, encs>>
tvars == <<usedIV, usedCt, encs, tid, l, verdict, clause>>

Tr == Traces[tid].ev
Ev == Tr[l]

JudgeA ==
    CASE Ev.op = "ctor"  -> JudgeCtor(Ev)
      [] Ev.op = "enc"   -> JudgeEnc(Ev, usedIV, usedCt)
      [] Ev.op = "dec"   -> JudgeDec(Ev, encs)
      [] Ev.op = "encmany" -> JudgeEncMany(Ev, usedCt)
      [] Ev.op = "ivset" -> "ok"
      [] OTHER -> "unknown-event"
JudgeB ==
    CASE Ev.op = "ctor"  -> DriftCtor(Ev)
      [] Ev.op = "ivset" -> JudgeIvSet(Ev)
      [] Ev.op = "enc"   -> (IF StructEnc(Ev, usedIV) # "ok" THEN StructEnc(Ev, usedIV) ELSE DriftEnc(Ev))
      [] Ev.op = "dec"   -> DriftDec(Ev)
      [] OTHER -> "ok"
Judge == IF JudgeA # "ok" THEN JudgeA ELSE IF Layer = "B" THEN JudgeB ELSE "ok"

Update ==
    IF Ev.op = "enc" /\ Ev.out = "ok"
    THEN /\ usedIV' = usedIV \cup {IvOf(Ev)}
         /\ usedCt' = usedCt \cup {Ev.ct}
         /\ encs' = encs \cup {[k |-> Ev.k, m |-> Ev.m, ct |-> Ev.ct]}
    ELSE IF Ev.op = "encmany" /\ Ev.out = "ok"
    THEN /\ usedCt' = usedCt \cup {Ev.cts[i] : i \in 1..Len(Ev.cts)}
         /\ usedIV' = usedIV \cup {Take(Ev.cts[i], Block) : i \in 1..Len(Ev.cts)}
         /\ UNCHANGED encs
    ELSE UNCHANGED svars

Running == verdict = "run" /\ l <= Len(Tr)
(* the current event is judged once; "ok" advances, anything else ends the trace with that clause *)
Step   == /\ Running
          /\ \E j \in {Judge} :
                IF j = "ok"
                THEN Update /\ l' = l + 1 /\ UNCHANGED <<tid, verdict, clause>>
                ELSE verdict' = "REJECT" /\ clause' = j /\ UNCHANGED <<usedIV, usedCt, encs, tid, l>>
Finish == /\ verdict = "run" /\ l = Len(Tr) + 1
          /\ verdict' = "ACCEPT" /\ UNCHANGED <<usedIV, usedCt, encs, tid, l, clause>>

TraceInit == /\ usedIV = {} /\ usedCt = {} /\ encs = {}
             /\ tid \in 1..Len(Traces) /\ l = 1 /\ verdict = "run" /\ clause = ""
TraceNext == Step \/ Finish
TraceSpec == TraceInit /\ [][TraceNext]_tvars

Done == verdict # "run" => PrintT(<<"V", Traces[tid].tid, verdict, l, clause>>)
=============================================================================
