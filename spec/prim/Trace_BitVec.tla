---------------------------- MODULE Trace_BitVec ----------------------------
(***************************************************************************)
(* Call-trace validation for C18.  A trace is a small group of independent *)
(* calls of the real toolkit.bits.Bitset / toolkit.bits_utils; every       *)
(* record is ONE call:                                                     *)
(*    op    the operation                                                  *)
(*    a, b  bit-string operands (lists of 0/1, MSB first)                  *)
(*    v     an integer argument as a bit list, bs a bytes argument,        *)
(*    n, k, i, t, s  small integer / boolean / slice arguments             *)
(*    out   "ok" | "raised"   (anything else, e.g. "badtype", never fits)  *)
(*    res   the observed result: a bit string as [n |-> len(x), v |-> bits *)
(*          of int(x)], an int, a list of ints / booleans / characters     *)
(* The model (BitVec.tla) is evaluated on the same arguments and compared. *)
(* Calls are pure, so a failing call does not stop the walk: its position  *)
(* and operation are appended to `clause` and the walk goes on; the trace  *)
(* is accepted iff no call of the group failed.                            *)
(***************************************************************************)
EXTENDS BitVec, TLC, Json, IOUtils

Traces == JsonDeserialize(IOEnv.TRACE_FILE)

VARIABLES tid, l, verdict, clause
tvars == <<tid, l, verdict, clause>>

Tr == Traces[tid].ev
Ev == Tr[l]

Ops == {"new_int", "new_bytes", "new_bits", "from_seq", "and", "or", "xor", "not", "shl", "shr",
        "concat", "add", "higher", "lower", "half", "half_np", "half_int", "half_np_int",
        "eq", "ne", "int", "len", "bit_length", "bytes", "str", "repr", "iter", "getitem", "slice",
        "reversed", "contains", "count", "index", "setitem"}

(* the model's answer for one recorded call *)
Expected(e) ==
    CASE e.op = "new_int"     -> New(e.v, e.n)
      [] e.op = "new_bytes"   -> NewFromBytes(e.bs, e.n)
      [] e.op = "new_bits"    -> NewFromBits(e.a, e.n)
      [] e.op = "from_seq"    -> FromSequence(e.s)
      [] e.op = "and"         -> Ok(B(And(e.a, e.b)))
      [] e.op = "or"          -> Ok(B(Or(e.a, e.b)))
      [] e.op = "xor"         -> Ok(B(Xor(e.a, e.b)))
      [] e.op = "not"         -> Ok(B(Not(e.a)))
      [] e.op = "shl"         -> Ok(B(Shl(e.a, e.k)))
      [] e.op = "shr"         -> Ok(B(Shr(e.a, e.k)))
      [] e.op = "concat"      -> Ok(B(Concat(e.a, e.b)))
      [] e.op = "add"         -> Ok(B(Concat(e.a, e.b)))
      [] e.op = "higher"      -> Higher(e.a, e.k)
      [] e.op = "lower"       -> Lower(e.a, e.k)
      [] e.op = "half"        -> Ok(Halves(e.a))
      [] e.op = "half_np"     -> Ok(HalvesNoPad(e.a))
      [] e.op = "half_int"    -> Ok(Halves(Strip(e.v)))          \* an int argument is Bitset(int): minimal width
      [] e.op = "half_np_int" -> Ok(HalvesNoPad(Strip(e.v)))
      [] e.op = "eq"          -> Ok(Eq(e.a, e.b))
      [] e.op = "ne"          -> Ok(~Eq(e.a, e.b))
      [] e.op = "int"         -> Ok(ToInt(e.a))
      [] e.op = "len"         -> Ok(Len(e.a))
      [] e.op = "bit_length"  -> Ok(Len(e.a))
      [] e.op = "bytes"       -> Ok(ToBytes(e.a))
      [] e.op = "str"         -> Ok(Chars(e.a))
      [] e.op = "repr"        -> Ok(ReprChars(e.a))
      [] e.op = "iter"        -> Ok(Bools(e.a))
      [] e.op = "getitem"     -> IF InRange(e.a, e.i) THEN Ok(GetItem(e.a, e.i)) ELSE [out |-> "out-of-domain"]
      [] e.op = "slice"       -> GetSlice(e.a, e.s)
      [] e.op = "reversed"    -> Ok(Reversed(e.a))
      [] e.op = "contains"    -> Ok(Contains(e.a, e.t))
      [] e.op = "count"       -> Ok(Count(e.a, e.t))
      [] e.op = "index"       -> IF Contains(e.a, e.t) THEN Ok(IndexOf(e.a, e.t)) ELSE [out |-> "out-of-domain"]
      [] e.op = "setitem"     -> IF InRange(e.a, e.i) THEN Ok(B(SetItem(e.a, e.i, IF e.t THEN 1 ELSE 0)))
                                 ELSE [out |-> "out-of-domain"]

(* "" if the recorded call agrees with the model, else which part disagrees *)
Judge(e) ==
    LET m == Expected(e)
    IN  IF e.out # m.out THEN "outcome"
        ELSE IF m.out = "ok" /\ e.res # m.res THEN "result"
        ELSE ""

Running == verdict = "run" /\ l <= Len(Tr)

(* one call judged; the walk continues whatever the judgement *)
Step == /\ Running /\ Ev.op \in Ops
        /\ l' = l + 1
        /\ clause' = LET j == Judge(Ev)
                     IN  IF j = "" THEN clause ELSE clause \o ToString(l) \o ":" \o Ev.op \o ":" \o j \o ";"
        /\ UNCHANGED <<tid, verdict>>
Finish == /\ verdict = "run" /\ l = Len(Tr) + 1
          /\ verdict' = IF clause = "" THEN "ACCEPT" ELSE "REJECT"
          /\ UNCHANGED <<tid, l, clause>>
(* a record the specification cannot read at all *)
Reject == /\ Running /\ Ev.op \notin Ops
          /\ verdict' = "REJECT" /\ clause' = clause \o ToString(l) \o ":" \o Ev.op \o ":unknown-op;"
          /\ UNCHANGED <<tid, l>>

TraceInit == tid \in 1..Len(Traces) /\ l = 1 /\ verdict = "run" /\ clause = ""
TraceNext == Step \/ Finish \/ Reject
TraceSpec == TraceInit /\ [][TraceNext]_tvars

Done == verdict # "run" => PrintT(<<"V", Traces[tid].tid, verdict, l, clause>>)
=============================================================================
