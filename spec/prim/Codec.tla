------------------------------- MODULE Codec -------------------------------
(***************************************************************************)
(* Layer A for C17: the byte-level encodings as functions on plain         *)
(* sequences.  A byte string is Seq(0..255); an identifier list is a       *)
(* sequence of byte strings; an integer that may be large is a bit list    *)
(* (MSB first, any number of leading zeros); text is a sequence of Unicode *)
(* code points; a hex string / output string is a sequence of characters.  *)
(*                                                                         *)
(* An operation returns  Ok(x) = [out |-> "ok", res |-> x]  or  Raised.    *)
(***************************************************************************)
EXTENDS Integers, Sequences

Ok(x)  == [out |-> "ok", res |-> x]
Raised == [out |-> "raised"]

Min(x, y) == IF x <= y THEN x ELSE y
Max(x, y) == IF x >= y THEN x ELSE y
CeilDiv(x, y) == (x + y - 1) \div y
Zeros(n) == [i \in 1..n |-> 0]
IsZero(x) == \A j \in 1..Len(x) : x[j] = 0

(* concatenation of a sequence of sequences *)
RECURSIVE Flat(_)
Flat(ss) == IF ss = <<>> THEN <<>> ELSE Head(ss) \o Flat(Tail(ss))
RECURSIVE Sum(_)
Sum(ls) == IF ls = <<>> THEN 0 ELSE Head(ls) + Sum(Tail(ls))

(* successive n-sized pieces of x, the last one possibly shorter (n >= 1) -- toolkit.list_utils.chunks *)
Chunks(x, n) == [i \in 1..CeilDiv(Len(x), n) |-> SubSeq(x, (i - 1) * n + 1, Min(i * n, Len(x)))]

(*-------------------------- identifier blocks ---------------------------*)
(* partition_identifiers_to_blocks(ids, cap, size, block): groups of `cap` identifiers, each group        *)
(* concatenated and padded with zero bytes up to `block` bytes; block = 0 means cap * size; a block size  *)
(* too small for cap identifiers is refused.                                                              *)
BlockSize(cap, size, block) == IF block = 0 THEN cap * size ELSE block
Partition(ids, cap, size, block) ==
    LET bsz == BlockSize(cap, size, block)
        groups == Chunks(ids, cap)
    IN  IF bsz < cap * size THEN Raised
        ELSE Ok([k \in 1..Len(groups) |-> LET body == Flat(groups[k]) IN body \o Zeros(bsz - Len(body))])

(* the identifiers stored in one block: entries of `size` bytes up to (excluding) the first all-zero entry *)
ParseBySize(block, size) ==
    LET es == Chunks(block, size)
        stop == IF \E i \in 1..Len(es) : IsZero(es[i])
                THEN CHOOSE i \in 1..Len(es) : IsZero(es[i]) /\ \A j \in 1..(i - 1) : ~IsZero(es[j])
                ELSE Len(es) + 1
    IN  SubSeq(es, 1, stop - 1)
(* ... given the number of entries per block instead: the entry size is Len(block) \div cap *)
ParseByCount(block, cap) ==
    IF Len(block) \div cap = 0 THEN Raised ELSE Ok(ParseBySize(block, Len(block) \div cap))

(* the round trip as the callers perform it: partition, parse every block, concatenate the lists *)
RoundTripBySize(ids, cap, size, block) ==
    LET p == Partition(ids, cap, size, block)
    IN  IF p.out # "ok" THEN p ELSE Ok(Flat([k \in 1..Len(p.res) |-> ParseBySize(p.res[k], size)]))
RoundTripByCount(ids, cap, size, block) ==
    LET p == Partition(ids, cap, size, block)
    IN  IF p.out # "ok" THEN p
        ELSE IF \E k \in 1..Len(p.res) : ParseByCount(p.res[k], cap).out # "ok" THEN Raised
        ELSE Ok(Flat([k \in 1..Len(p.res) |-> ParseByCount(p.res[k], cap).res]))

(*-------------------------- split / join --------------------------------*)
(* split_bytes_given_slice_len(x, ls): consecutive pieces of the given lengths; the lengths must add up *)
Offset(ls, i) == Sum(SubSeq(ls, 1, i - 1))
Split(x, ls) ==
    IF Sum(ls) # Len(x) THEN Raised
    ELSE Ok([i \in 1..Len(ls) |-> SubSeq(x, Offset(ls, i) + 1, Offset(ls, i) + ls[i])])
Join(ps) == Flat(ps)

(*-------------------------- integers and bytes --------------------------*)
FirstOne(b) == IF \E i \in 1..Len(b) : b[i] = 1
               THEN CHOOSE i \in 1..Len(b) : b[i] = 1 /\ \A j \in 1..(i - 1) : b[j] = 0
               ELSE Len(b) + 1
Strip(b) == SubSeq(b, FirstOne(b), Len(b))          \* the same integer without leading zero bits
Width(b) == Len(b) - FirstOne(b) + 1                \* its bit length
ByteBit(x, j) == (x \div (2 ^ (7 - j))) % 2         \* j = 0 is the most significant bit of the byte
BytesToBits(bs) == [i \in 1..(8 * Len(bs)) |-> ByteBit(bs[((i - 1) \div 8) + 1], (i - 1) % 8)]
(* the m-byte big-endian encoding of the integer with bits v (needs Width(v) <= 8 m) *)
BitsToBytes(v, m) ==
    LET P == Zeros(8 * m - Width(v)) \o Strip(v)
    IN  [j \in 1..m |-> 128 * P[8 * j - 7] + 64 * P[8 * j - 6] + 32 * P[8 * j - 5] + 16 * P[8 * j - 4]
                        + 8 * P[8 * j - 3] + 4 * P[8 * j - 2] + 2 * P[8 * j - 1] + P[8 * j]]
(* int_to_bytes(x, w): w = -1 means the minimal number of bytes; an integer too large for w bytes is refused *)
IntToBytes(v, w) ==
    IF w = -1 THEN Ok(BitsToBytes(v, CeilDiv(Width(v), 8)))
    ELSE IF Width(v) > 8 * w THEN Raised
    ELSE Ok(BitsToBytes(v, w))
(* int_from_bytes(bs), as a minimal bit list *)
IntFromBytes(bs) == Strip(BytesToBits(bs))
(* the same two conversions for an integer small enough to be a TLC integer (0 <= x < 2^31), by division *)
SmallByte(x, k) == IF k >= 4 THEN 0 ELSE (x \div (256 ^ k)) % 256          \* k-th byte from the right
SmallIntToBytes(x, w) == IF w < 4 /\ x >= 256 ^ w THEN Raised ELSE Ok([j \in 1..w |-> SmallByte(x, w - j)])
RECURSIVE SmallIntFromBytes(_)
SmallIntFromBytes(bs) == IF bs = <<>> THEN 0 ELSE 256 * SmallIntFromBytes(SubSeq(bs, 1, Len(bs) - 1)) + bs[Len(bs)]

AddLeadingZeros(x, n) == Zeros(Max(n - Len(x), 0)) \o x

(* bytes_xor(a, b) on strings of equal length (a shorter b is xor-ed into the prefix of a) *)
XorByte(x, y) ==
    LET D(j) == IF ByteBit(x, j) # ByteBit(y, j) THEN 2 ^ (7 - j) ELSE 0
    IN  D(0) + D(1) + D(2) + D(3) + D(4) + D(5) + D(6) + D(7)
Xor(a, b) == IF Len(b) > Len(a) THEN Raised
             ELSE Ok([i \in 1..Len(a) |-> IF i <= Len(b) THEN XorByte(a[i], b[i]) ELSE a[i]])

(*-------------------------- hex and text --------------------------------*)
HexLower == <<"0", "1", "2", "3", "4", "5", "6", "7", "8", "9", "a", "b", "c", "d", "e", "f">>
HexUpper == <<"0", "1", "2", "3", "4", "5", "6", "7", "8", "9", "A", "B", "C", "D", "E", "F">>
IsHexChar(c) == \E i \in 1..16 : HexLower[i] = c \/ HexUpper[i] = c
HexVal(c) == (CHOOSE i \in 1..16 : HexLower[i] = c \/ HexUpper[i] = c) - 1
LowerChar(c) == IF IsHexChar(c) THEN HexLower[HexVal(c) + 1] ELSE c
LowerChars(h) == [i \in 1..Len(h) |-> LowerChar(h[i])]
(* bytes.hex(): two lower-case digits per byte *)
ToHex(bs) == [i \in 1..(2 * Len(bs)) |-> LET x == bs[(i + 1) \div 2]
                                         IN  HexLower[(IF i % 2 = 1 THEN x \div 16 ELSE x % 16) + 1]]
(* bytes.fromhex() on a string of hex digits (either case); anything else is refused *)
WellFormedHex(h) == Len(h) % 2 = 0 /\ \A i \in 1..Len(h) : IsHexChar(h[i])
FromHex(h) == IF ~WellFormedHex(h) THEN Raised
              ELSE Ok([j \in 1..(Len(h) \div 2) |-> 16 * HexVal(h[2 * j - 1]) + HexVal(h[2 * j])])
(* the integer written by the hex digits, as a bit list *)
HexToBits(h) == [i \in 1..(4 * Len(h)) |-> (HexVal(h[((i - 1) \div 4) + 1]) \div (2 ^ (3 - ((i - 1) % 4)))) % 2]

(* UTF-8 of one code point / of a text (surrogates cannot be encoded) *)
ValidCp(c) == 0 <= c /\ c <= 1114111 /\ ~(55296 <= c /\ c <= 57343)
Utf8(c) ==
    IF c < 128 THEN <<c>>
    ELSE IF c < 2048 THEN <<192 + (c \div 64), 128 + (c % 64)>>
    ELSE IF c < 65536 THEN <<224 + (c \div 4096), 128 + ((c \div 64) % 64), 128 + (c % 64)>>
    ELSE <<240 + (c \div 262144), 128 + ((c \div 4096) % 64), 128 + ((c \div 64) % 64), 128 + (c % 64)>>
Utf8Enc(cps) == IF \E i \in 1..Len(cps) : ~ValidCp(cps[i]) THEN Raised
                ELSE Ok(Flat([i \in 1..Len(cps) |-> Utf8(cps[i])]))

(* convert_database_keyword_to_bytes on a JSON database given as a sequence of <<keyword text, <<hex id, ...>>>> *)
(* (in the order of the JSON object): keywords to UTF-8, identifiers from hex                                    *)
ConvertDB(db) ==
    IF \E i \in 1..Len(db) : Utf8Enc(db[i][1]).out # "ok" \/ \E j \in 1..Len(db[i][2]) : ~WellFormedHex(db[i][2][j])
    THEN Raised
    ELSE Ok([i \in 1..Len(db) |-> <<Utf8Enc(db[i][1]).res, [j \in 1..Len(db[i][2]) |-> FromHex(db[i][2][j]).res]>>])

(* BytesConverter.convert_bytes(x, fmt) for fmt in hex / int / raw; utf8 is specified as the inverse of Utf8Enc: *)
(* the answer cps is right iff it is valid text whose encoding is x                                              *)
Convert(x, fmt) ==
    CASE fmt = "hex" -> Ok(ToHex(x))
      [] fmt = "int" -> Ok(IntFromBytes(x))
      [] fmt = "raw" -> Ok(x)
      [] OTHER -> Raised
IsUtf8DecodeOf(cps, x) == Utf8Enc(cps) = Ok(x)
=============================================================================
