---------------------------- MODULE Trace_Codec ----------------------------
(***************************************************************************)
(* Call-trace validation for C17.  A trace is a small group of independent *)
(* calls of toolkit.database_utils / toolkit.bytes_utils /                 *)
(* toolkit.list_utils; every record is ONE call (or one round trip made of *)
(* real calls only):                                                       *)
(*    op    the operation                                                  *)
(*    ids, cap, size, block / x, ls / v, w / a, b / h, fmt / db ...        *)
(*          the arguments: byte strings as lists of 0..255, identifier     *)
(*          lists as lists of those, large integers as bit lists, hex and  *)
(*          output strings as lists of characters, text as code points     *)
(*    out   "ok" | "raised"                                                *)
(*    res   the observed result in the same encodings                      *)
(* Codec.tla is evaluated on the same arguments and compared.  A failing   *)
(* call does not stop the walk (calls are pure): its position, operation   *)
(* and the failing part are appended to `clause`.                          *)
(***************************************************************************)
EXTENDS Codec, TLC, Json, IOUtils

Traces == JsonDeserialize(IOEnv.TRACE_FILE)

VARIABLES tid, l, verdict, clause
tvars == <<tid, l, verdict, clause>>

Tr == Traces[tid].ev
Ev == Tr[l]

Ops == {"partition", "partition_refusal", "parse_size", "parse_count", "rt_size", "rt_count", "split", "split_join", "chunks",
        "int_to_bytes", "int_to_bytes_small", "int_from_bytes", "int_from_bytes_small", "int_rt",
        "add_leading_zeros", "xor", "xor_prefix", "xor_twice", "xor_twice_prefix", "to_hex", "from_hex", "hex_rt",
        "convert", "convert_utf8", "convert_db", "db_format", "db_format_utf8"}

(* the domain of the round-trip property: identifiers of exactly `size` bytes, none of them all zero, *)
(* a block large enough for `cap` of them                                                             *)
InDomain(e) == /\ e.size >= 1 /\ e.cap >= 1
               /\ \A i \in 1..Len(e.ids) : Len(e.ids[i]) = e.size /\ ~IsZero(e.ids[i])
               /\ BlockSize(e.cap, e.size, e.block) >= e.cap * e.size
(* what the property promises about partition-then-parse: the identifiers come back, there are ceil(n/cap) *)
(* blocks and they all have the block length (blens = the distinct block lengths observed)                 *)
RoundTrip(e) == [ids |-> e.ids,
                 nblocks |-> CeilDiv(Len(e.ids), e.cap),
                 blens |-> IF Len(e.ids) = 0 THEN <<>> ELSE <<BlockSize(e.cap, e.size, e.block)>>]

(* the model's answer for one recorded call *)
Expected(e) ==
    CASE e.op = "partition"    -> IF InDomain(e) THEN Partition(e.ids, e.cap, e.size, e.block) ELSE [out |-> "out-of-domain"]
      [] e.op = "partition_refusal" -> Partition(e.ids, e.cap, e.size, e.block)      \* block too small (not in the property text)
      [] e.op = "parse_size"   -> Ok(ParseBySize(e.x, e.size))
      [] e.op = "parse_count"  -> ParseByCount(e.x, e.cap)
      (* the property itself: parsing what was partitioned gives the identifiers back (the model agrees: MC_Codec) *)
      [] e.op = "rt_size"      -> IF InDomain(e) THEN Ok(RoundTrip(e)) ELSE [out |-> "out-of-domain"]
      [] e.op = "rt_count"     -> IF InDomain(e) /\ BlockSize(e.cap, e.size, e.block) \div e.cap = e.size THEN Ok(RoundTrip(e))
                                  ELSE [out |-> "out-of-domain"]
      [] e.op = "split"        -> Split(e.x, e.ls)
      [] e.op = "split_join"   -> IF Sum(e.ls) = Len(e.x) THEN Ok(e.x) ELSE Raised      \* b"".join(split(x, ls))
      [] e.op = "chunks"       -> Ok(Chunks(e.x, e.n))
      [] e.op = "int_to_bytes" -> IntToBytes(e.v, e.w)
      [] e.op = "int_to_bytes_small"   -> SmallIntToBytes(e.i, e.w)
      [] e.op = "int_from_bytes"       -> Ok(IntFromBytes(e.x))
      [] e.op = "int_from_bytes_small" -> Ok(SmallIntFromBytes(e.x))
      [] e.op = "int_rt"       -> IF e.w # -1 /\ Width(e.v) > 8 * e.w THEN Raised ELSE Ok(Strip(e.v))   \* from(to(x, w))
      [] e.op = "add_leading_zeros"    -> Ok(AddLeadingZeros(e.x, e.n))
      [] e.op = "xor"          -> IF Len(e.a) = Len(e.b) THEN Xor(e.a, e.b) ELSE [out |-> "out-of-domain"]
      [] e.op = "xor_prefix"   -> IF Len(e.a) > Len(e.b) THEN Xor(e.a, e.b) ELSE [out |-> "out-of-domain"]
      (* "XOR is an involution": xor-ing the same shorter string in twice gives a back - unless unequal lengths are refused *)
      [] e.op = "xor_twice_prefix" -> IF Len(e.a) > Len(e.b) THEN (IF e.out = "raised" THEN Raised ELSE Ok(e.a))
                                      ELSE [out |-> "out-of-domain"]
      [] e.op = "xor_twice"    -> IF Len(e.a) = Len(e.b) THEN Ok(e.a) ELSE [out |-> "out-of-domain"]   \* xor(xor(a, b), b)
      [] e.op = "to_hex"       -> Ok(ToHex(e.x))
      [] e.op = "from_hex"     -> IF WellFormedHex(e.h) THEN FromHex(e.h) ELSE [out |-> "out-of-domain"]
      [] e.op = "hex_rt"       -> IF WellFormedHex(e.h) THEN Ok(LowerChars(e.h)) ELSE [out |-> "out-of-domain"]
      [] e.op = "convert"      -> IF e.fmt \in {"hex", "int", "raw"} THEN Convert(e.x, e.fmt) ELSE [out |-> "out-of-domain"]
      [] e.op = "convert_db"   -> ConvertDB(e.db)
      (* JSON database -> bytes -> output format, for one identifier given in hex *)
      [] e.op = "db_format"    -> IF ~WellFormedHex(e.h) THEN [out |-> "out-of-domain"]
                                  ELSE (CASE e.fmt = "hex" -> Ok(LowerChars(e.h))
                                          [] e.fmt = "int" -> Ok(Strip(HexToBits(e.h)))
                                          [] e.fmt = "raw" -> FromHex(e.h)
                                          [] OTHER -> [out |-> "out-of-domain"])
      (* the utf8 cases are judged relationally below; a result is demanded *)
      [] e.op = "convert_utf8"   -> [out |-> "ok"]
      [] e.op = "db_format_utf8" -> [out |-> "ok"]

(* relational part: the decoded text must be valid and encode to the given bytes / to the identifier the hex denotes *)
Relational(e) ==
    CASE e.op = "convert_utf8"   -> IsUtf8DecodeOf(e.res, e.x)
      [] e.op = "db_format_utf8" -> WellFormedHex(e.h) /\ Utf8Enc(e.res) = FromHex(e.h)
      [] OTHER -> TRUE

IsRelational(e) == e.op \in {"convert_utf8", "db_format_utf8"}

(* "" if the recorded call agrees with the model, else which part disagrees *)
Judge(e) ==
    LET m == Expected(e)
    IN  IF e.out # m.out THEN "outcome"
        ELSE IF IsRelational(e) THEN (IF Relational(e) THEN "" ELSE "result")
        ELSE IF m.out = "ok" /\ e.res # m.res THEN "result"
        ELSE ""

Running == verdict = "run" /\ l <= Len(Tr)

(* one call judged; the walk continues whatever the judgement *)
Step == /\ Running /\ Ev.op \in Ops
        /\ l' = l + 1
        /\ clause' = LET j == Judge(Ev)
                     IN  IF j = "" THEN clause ELSE clause \o ToString(l) \o ":" \o Ev.op \o ":" \o j \o ";"
        /\ UNCHANGED <<tid, verdict>>
Finish == /\ verdict = "run" /\ l = Len(Tr) + 1
          /\ verdict' = IF clause = "" THEN "ACCEPT" ELSE "REJECT"
          /\ UNCHANGED <<tid, l, clause>>
(* a record the specification cannot read at all *)
Reject == /\ Running /\ Ev.op \notin Ops
          /\ verdict' = "REJECT" /\ clause' = clause \o ToString(l) \o ":" \o Ev.op \o ":unknown-op;"
          /\ UNCHANGED <<tid, l>>

TraceInit == tid \in 1..Len(Traces) /\ l = 1 /\ verdict = "run" /\ clause = ""
TraceNext == Step \/ Finish \/ Reject
TraceSpec == TraceInit /\ [][TraceNext]_tvars

Done == verdict # "run" => PrintT(<<"V", Traces[tid].tid, verdict, l, clause>>)
=============================================================================
