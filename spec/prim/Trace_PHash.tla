---------------------------- MODULE Trace_PHash ----------------------------
(* Trace validation for C16.  Every event is one judged call (pure         *)
(* functions: no state is carried from one event to the next), traces are  *)
(* one call or a small group.                                              *)
(* Layer = "A": the property.  Layer = "B": additionally the exact set of  *)
(* core calls the code of the unchanged tree makes (drift only).           *)
EXTENDS PHash, TLC, Json, IOUtils

CONSTANT Layer

Traces == JsonDeserialize(IOEnv.TRACE_FILE)

VARIABLES tid, l, verdict, clause
tvars == <<tid, l, verdict, clause>>

Tr == Traces[tid].ev
Ev == Tr[l]

JudgeA ==
    CASE Ev.op = "prf"      -> JudgePrf(Ev)
      [] Ev.op = "hash"     -> JudgeHash(Ev)
      [] Ev.op = "distinct" -> JudgeDistinct(Ev)
      [] OTHER -> "unknown-event"
JudgeB ==
    CASE Ev.op = "prf"  -> DriftPrf(Ev)
      [] Ev.op = "hash" -> DriftHash(Ev)
      [] OTHER -> "ok"
Judge == IF JudgeA # "ok" THEN JudgeA ELSE IF Layer = "B" THEN JudgeB ELSE "ok"

Running == verdict = "run" /\ l <= Len(Tr)
(* the current event is judged once; "ok" advances, anything else ends the trace with that clause *)
Step   == /\ Running
          /\ \E j \in {Judge} :
                IF j = "ok"
                THEN l' = l + 1 /\ UNCHANGED <<tid, verdict, clause>>
                ELSE verdict' = "REJECT" /\ clause' = j /\ UNCHANGED <<tid, l>>
Finish == /\ verdict = "run" /\ l = Len(Tr) + 1
          /\ verdict' = "ACCEPT" /\ UNCHANGED <<tid, l, clause>>

TraceInit == tid \in 1..Len(Traces) /\ l = 1 /\ verdict = "run" /\ clause = ""
TraceNext == Step \/ Finish
TraceSpec == TraceInit /\ [][TraceNext]_tvars

Done == verdict # "run" => PrintT(<<"V", Traces[tid].tid, verdict, l, clause>>)
=============================================================================
