------------------------------- MODULE MC_SKE -------------------------------
(***************************************************************************)
(* Model-level theorems of SKE, checked exhaustively by TLC over a finite  *)
(* domain of messages / padded strings (each element is one initial state; *)
(* the invariants are the theorems).                                       *)
(*                                                                         *)
(*  kind "m": a message.  Domain = every sequence over Small up to length  *)
(*            FullLen  UNION  for every length 0..MaxLen: Fill-byte prefix *)
(*            + every tail of TailLen bytes over TailBytes (the bytes that *)
(*            matter to PKCS7: 0, the padding values 1..16 region, 17,     *)
(*            255).                                                        *)
(*  kind "p": an arbitrary would-be padded string of 1..3 blocks (and some *)
(*            non-aligned lengths) with the same tails: Unpad is the       *)
(*            inverse of Pad exactly on ValidPad, and invalid paddings     *)
(*            exist and are recognised.                                    *)
(***************************************************************************)
EXTENDS SKE, TLC

CONSTANTS MaxLen, FullLen, TailLen

Small     == {1, 2, 16}
TailBytes == {0, 1, 2, 3, 4, 13, 14, 15, 16, 17, 255}
Fills     == {0, 16}

RECURSIVE SeqsUpTo(_, _)
SeqsUpTo(S, n) == IF n = 0 THEN {<<>>}
                  ELSE LET R == SeqsUpTo(S, n - 1)
                       IN  R \cup {Append(s, b) : s \in {r \in R : Len(r) = n - 1}, b \in S}
SeqsOfLen(S, n) == {s \in SeqsUpTo(S, n) : Len(s) = n}

Tails(n) == SeqsOfLen(TailBytes, Min2(n, TailLen))
Shaped(n) == {Rep(f, n - Min2(n, TailLen)) \o t : f \in Fills, t \in Tails(n)}

MsgDomain == SeqsUpTo(Small, FullLen) \cup UNION {Shaped(n) : n \in 0..MaxLen}
PadDomain == UNION {Shaped(n) : n \in {0, 1, 15, 16, 17, 31, 32, 33, 48}}

VARIABLE x
Init == \/ \E m \in MsgDomain : x = [kind |-> "m", v |-> m]
        \/ \E p \in PadDomain : x = [kind |-> "p", v |-> p]
Next == UNCHANGED x
Spec == Init /\ [][Next]_x

(* toy invertible core, only to exercise the framing offsets of EncryptWith / DecryptWith in the model *)
Toy(k, iv, s)    == <<>> \o [i \in 1..Len(s) |-> (s[i] + k[1] + iv[1] + i) % 256]
ToyInv(k, iv, s) == <<>> \o [i \in 1..Len(s) |-> (s[i] + 1024 - k[1] - iv[1] - i) % 256]
K1 == Rep(7, 16)
IV1 == Rep(200, 16)

IsM == x.kind = "m"
IsP == x.kind = "p"

PadIsValid   == IsM => ValidPad(Pad(x.v))
RoundTrip    == IsM => Unpad(Pad(x.v)) = x.v
PadLength    == IsM => /\ Len(Pad(x.v)) = PadLen(Len(x.v))
                       /\ Len(Pad(x.v)) - Len(x.v) \in 1..Block
                       /\ Len(x.v) % Block = 0 => Len(Pad(x.v)) = Len(x.v) + Block
LengthFormula == IsM => Len(EncryptWith(Toy, K1, x.v, IV1)) = CtLen(Len(x.v))
EncDecToy    == IsM => DecryptWith(ToyInv, K1, EncryptWith(Toy, K1, x.v, IV1)) = [out |-> "ok", res |-> x.v]
IvPrepended  == IsM => Take(EncryptWith(Toy, K1, x.v, IV1), Block) = IV1
UnpadInverse == IsP /\ ValidPad(x.v) => /\ Pad(Unpad(x.v)) = x.v
                                        /\ Len(Unpad(x.v)) < Len(x.v)
PadImage     == IsP => (ValidPad(x.v) <=> \E j \in 1..Min2(Block, Len(x.v)) : Pad(Take(x.v, Len(x.v) - j)) = x.v)

(* vacuity guards (checked by TLC at start-up) *)
ASSUME \E p \in PadDomain : ValidPad(p) /\ p[Len(p)] = Block
ASSUME \E p \in PadDomain : ValidPad(p) /\ p[Len(p)] = 1
ASSUME \E p \in PadDomain : ~ValidPad(p) /\ Len(p) > 0 /\ Len(p) % Block = 0
ASSUME \E m \in MsgDomain : Len(m) = MaxLen
ASSUME \E m \in MsgDomain : Len(m) > 0 /\ m[Len(m)] = PadByte(Len(m))   \* message ending in what looks like padding
=============================================================================
