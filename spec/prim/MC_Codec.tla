------------------------------ MODULE MC_Codec ------------------------------
(***************************************************************************)
(* Bounded instance for C17: TLC checks the round-trip laws of the MODEL   *)
(* (Codec.tla) exhaustively on a small domain, so that the functions the   *)
(* recorded calls are compared with are themselves known to satisfy the    *)
(* property:                                                               *)
(*   part   identifier sizes Sizes, capacities Caps, 0..N identifiers over *)
(*          the byte alphabet Alpha, not all zero (unless AllowZero),      *)
(*          block = cap*size + 0..Extra                                    *)
(*   split  every length vector over 0..3 with at most 4 entries           *)
(*   int    every bit list of length <= IntBits, widths -1..MaxW           *)
(*   xor    pairs of byte strings over XorAlpha of length <= 2             *)
(*   hex    hex strings over HexAlpha of length <= 4; code points CPs      *)
(* A state is one case c; phase 0 holds one seed per parameter choice,     *)
(* phase 1 the cases (so that TLC's workers share them).                   *)
(***************************************************************************)
EXTENDS Codec, TLC

CONSTANTS Sizes, Caps, N, Extra, Alpha, AllowZero, IntBits, MaxW
VARIABLES c, ph
mcvars == <<c, ph>>

SeqsUpTo(S, n) == UNION {[1..k -> S] : k \in 0..n}
Ids(size) == {x \in [1..size -> Alpha] : AllowZero \/ ~IsZero(x)}
XorAlpha == {0, 1, 170, 255}
HexAlpha == {"0", "9", "a", "F", "c", "B"}
CPs == {0, 65, 127, 128, 255, 2047, 2048, 8364, 55295, 55296, 57343, 57344, 65535, 65536, 128512, 1114111}

Seeds == [fam : {"part"}, size : Sizes, cap : Caps, extra : 0..Extra]
         \cup [fam : {"split"}, k : 0..4]
         \cup [fam : {"int"}, k : 0..IntBits]
         \cup [fam : {"xor"}, k : 0..2]
         \cup [fam : {"hex"}, k : 0..4]
         \cup [fam : {"cp"}, k : CPs]

Cases(s) ==
    CASE s.fam = "part"  -> {[fam |-> "part", size |-> s.size, cap |-> s.cap, block |-> s.cap * s.size + s.extra, ids |-> x]
                                : x \in SeqsUpTo(Ids(s.size), N)}
      [] s.fam = "split" -> {[fam |-> "split", ls |-> x] : x \in [1..s.k -> 0..3]}
      [] s.fam = "int"   -> {[fam |-> "int", v |-> x, w |-> y] : x \in [1..s.k -> {0, 1}], y \in (-1)..MaxW}
      [] s.fam = "xor"   -> {[fam |-> "xor", a |-> x, b |-> y] : x \in [1..s.k -> XorAlpha], y \in [1..s.k -> XorAlpha]}
      [] s.fam = "hex"   -> {[fam |-> "hex", h |-> x] : x \in [1..s.k -> HexAlpha]}
      [] s.fam = "cp"    -> {[fam |-> "cp", cp |-> s.k]}

MCInit == ph = 0 /\ c \in Seeds
MCNext == ph = 0 /\ ph' = 1 /\ c' \in Cases(c)
MCSpec == MCInit /\ [][MCNext]_mcvars

Is(f) == ph = 1 /\ c.fam = f

(* ---- identifier blocks ---- *)
Blocks == Partition(c.ids, c.cap, c.size, c.block).res
L_BlockCount     == Is("part") => Len(Blocks) = CeilDiv(Len(c.ids), c.cap)
L_BlockLen       == Is("part") => \A k \in 1..Len(Blocks) : Len(Blocks[k]) = c.block
L_BlockContent   == Is("part") => \A k \in 1..Len(Blocks), j \in 1..c.block :
                        LET e == (j - 1) \div c.size                \* entry within the block, 0-based
                            g == (k - 1) * c.cap + e + 1            \* identifier number
                        IN  Blocks[k][j] = IF e < c.cap /\ g <= Len(c.ids) THEN c.ids[g][((j - 1) % c.size) + 1] ELSE 0
L_RoundTripSize  == Is("part") => RoundTripBySize(c.ids, c.cap, c.size, c.block) = Ok(c.ids)
L_RoundTripCount == Is("part") /\ c.block \div c.cap = c.size => RoundTripByCount(c.ids, c.cap, c.size, c.block) = Ok(c.ids)
L_DefaultBlock   == Is("part") => Partition(c.ids, c.cap, c.size, 0) = Partition(c.ids, c.cap, c.size, c.cap * c.size)
L_SmallBlock     == Is("part") /\ c.cap * c.size > 1 => Partition(c.ids, c.cap, c.size, c.cap * c.size - 1) = Raised
L_ParsePrefix    == Is("part") => \A k \in 1..Len(Blocks) :
                        LET got == ParseBySize(Blocks[k], c.size)
                        IN  /\ Len(got) <= c.cap
                            /\ \A i \in 1..Len(got) : Len(got[i]) = c.size /\ ~IsZero(got[i])
(* the same round trip WITHOUT the exactness condition on the block size: expected to FAIL (run separately) *)
X_RoundTripCountAny == Is("part") => RoundTripByCount(c.ids, c.cap, c.size, c.block) = Ok(c.ids)

(* ---- split / join: the data are the positions 1..Sum(ls) themselves ---- *)
Data == [i \in 1..Sum(c.ls) |-> i % 256]
L_SplitJoin      == Is("split") => Join(Split(Data, c.ls).res) = Data
L_SplitLens      == Is("split") => /\ Len(Split(Data, c.ls).res) = Len(c.ls)
                                    /\ \A i \in 1..Len(c.ls) : Len(Split(Data, c.ls).res[i]) = c.ls[i]
L_SplitMismatch  == Is("split") => Split(Data \o <<0>>, c.ls) = Raised /\ (Sum(c.ls) > 0 => Split(Tail(Data), c.ls) = Raised)
L_Chunks         == Is("split") => \A n \in 1..4 : /\ Flat(Chunks(Data, n)) = Data
                                                    /\ \A i \in 1..(Len(Chunks(Data, n)) - 1) : Len(Chunks(Data, n)[i]) = n
                                                    /\ Len(Data) > 0 => Len(Chunks(Data, n)[Len(Chunks(Data, n))]) \in 1..n

(* ---- integers ---- *)
RECURSIVE Val(_)
Val(x) == IF x = <<>> THEN 0 ELSE 2 * Val(SubSeq(x, 1, Len(x) - 1)) + x[Len(x)]
L_IntRoundTrip   == Is("int") => LET r == IntToBytes(c.v, c.w)
                                 IN  IF c.w >= 0 /\ Val(c.v) >= 256 ^ c.w THEN r = Raised
                                     ELSE r.out = "ok" /\ IntFromBytes(r.res) = Strip(c.v)
L_IntWidth       == Is("int") => LET r == IntToBytes(c.v, c.w)
                                 IN  r.out = "ok" => /\ Len(r.res) = (IF c.w = -1 THEN CeilDiv(Width(c.v), 8) ELSE c.w)
                                                     /\ \A j \in 1..Len(r.res) : r.res[j] \in 0..255
L_IntSmallAgree  == Is("int") /\ c.w >= 0 => /\ IntToBytes(c.v, c.w) = SmallIntToBytes(Val(c.v), c.w)
                                             /\ IntToBytes(c.v, c.w).out = "ok" =>
                                                    SmallIntFromBytes(IntToBytes(c.v, c.w).res) = Val(c.v)
L_LeadingZeros   == Is("int") => \A n \in 0..4 : LET x == IntToBytes(c.v, -1).res
                                                  IN  /\ Len(AddLeadingZeros(x, n)) = Max(n, Len(x))
                                                      /\ IntFromBytes(AddLeadingZeros(x, n)) = Strip(c.v)
(* ---- xor ---- *)
L_XorInvolution  == Is("xor") => Xor(Xor(c.a, c.b).res, c.b) = Ok(c.a)
L_XorSelf        == Is("xor") => Xor(c.a, c.a) = Ok(Zeros(Len(c.a)))
L_XorCommut      == Is("xor") => Xor(c.a, c.b) = Xor(c.b, c.a)
(* ---- hex / text ---- *)
L_HexRoundTrip   == Is("hex") => IF Len(c.h) % 2 = 1 THEN FromHex(c.h) = Raised
                                 ELSE /\ ToHex(FromHex(c.h).res) = LowerChars(c.h)
                                      /\ FromHex(ToHex(FromHex(c.h).res)) = FromHex(c.h)
                                      /\ Convert(FromHex(c.h).res, "int") = Ok(Strip(HexToBits(c.h)))
                                      /\ Convert(FromHex(c.h).res, "raw") = FromHex(c.h)
(* well-formedness of the UTF-8 of one code point: length class, lead byte, continuation bytes, value *)
L_Utf8           == Is("cp") => LET u == Utf8(c.cp)
                                    n == Len(u)
                                    Cont(i) == u[i] \in 128..191
                                IN  IF ~ValidCp(c.cp) THEN Utf8Enc(<<c.cp>>) = Raised
                                    ELSE /\ Utf8Enc(<<c.cp, c.cp>>) = Ok(u \o u)
                                         /\ n = (IF c.cp < 128 THEN 1 ELSE IF c.cp < 2048 THEN 2 ELSE IF c.cp < 65536 THEN 3 ELSE 4)
                                         /\ n = 1 => u[1] = c.cp
                                         /\ n = 2 => u[1] \in 194..223 /\ Cont(2) /\ (u[1] - 192) * 64 + (u[2] - 128) = c.cp
                                         /\ n = 3 => /\ u[1] \in 224..239 /\ Cont(2) /\ Cont(3)
                                                     /\ ((u[1] - 224) * 64 + (u[2] - 128)) * 64 + (u[3] - 128) = c.cp
                                         /\ n = 4 => /\ u[1] \in 240..244 /\ Cont(2) /\ Cont(3) /\ Cont(4)
                                                     /\ (((u[1] - 240) * 64 + (u[2] - 128)) * 64 + (u[3] - 128)) * 64 + (u[4] - 128) = c.cp
                                         /\ IsUtf8DecodeOf(<<c.cp>>, u)
=============================================================================
