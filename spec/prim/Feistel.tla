------------------------------ MODULE Feistel ------------------------------
(***************************************************************************)
(* C15 -- pseudo-random permutations are length-preserving bijections.     *)
(*                                                                         *)
(* Layer B part: the two Feistel networks exactly as the code wires them,  *)
(* with the cryptographic core left ABSTRACT.                              *)
(*                                                                         *)
(*  (1) toolkit/symmetric_encryption/fpe.py  BitwiseFFX                    *)
(*      split   v  ->  a = the high floor(n/2) bits, b = the low           *)
(*                     ceil(n/2) bits     (bits_utils.half_bits_not_padding)*)
(*      encrypt for i = 0 .. rounds-1 :  (a,b) := (b, a XOR F[i,b,|a|])    *)
(*              output a \o b                                              *)
(*      decrypt for i = rounds-1 .. 0 :  (a,b) := (b XOR F[i,a,|b|], a)    *)
(*      XOR is Bitset.__xor__: integer xor, width = max of the two widths  *)
(*      (right aligned).  F is BitwiseFFX.round; the only thing known      *)
(*      about it here is that it returns a bit string of the width it was  *)
(*      asked for, where the code reads a requested width of 0 as "the     *)
(*      width of the input" (round(): `if output_len == 0`).               *)
(*                                                                         *)
(*  (2) toolkit/prp/luby_rackoff_prp.py  LubyRackoffPRP                    *)
(*      three rounds (L,R) := (R, L XOR G[K_j, R]) over byte halves with   *)
(*      sub-keys K_1 K_2 K_3 = the three thirds of the key; XOR is         *)
(*      bytes_utils.bytes_xor (length of the left operand).                *)
(*                                                                         *)
(* Layer A part (what the property says, nothing else): the Tbl*           *)
(* predicates over tables of calls and the contract predicate at the end.  *)
(*                                                                         *)
(* A round function is a TLA+ function f whose domain is a set of triples  *)
(* <<round index, input string, requested width>>.  The model checker      *)
(* quantifies over f (MC_Feistel); the trace specification reads f from    *)
(* the round-function calls recorded in the same execution (Trace_Feistel).*)
(***************************************************************************)
EXTENDS Naturals, Sequences, FiniteSets, TLC

Bit == {0, 1}

RECURSIVE Pow2(_)
Pow2(k) == IF k = 0 THEN 1 ELSE 2 * Pow2(k - 1)

(* all bit strings of length n, as sequences, index 1 = most significant bit *)
BitStr(n) == [1..n -> Bit]

IsBits(s) == \A k \in 1..Len(s) : s[k] \in Bit
Max(x, y) == IF x >= y THEN x ELSE y

(* ---- Bitset operations used by the cipher (toolkit/bits.py) ---- *)
Hi(v, k) == SubSeq(v, 1, k)                          \* get_higher_bits(k)
Lo(v, k) == SubSeq(v, Len(v) - k + 1, Len(v))        \* get_lower_bits(k)
(* TLCEval(v) = v; it only tells TLC to evaluate the string now instead of keeping a closure (strings of  *)
(* 2000 bits pass through ten rounds)                                                                     *)
PadL(s, w) == LET d == w - Len(s) IN [k \in 1..w |-> IF k <= d THEN 0 ELSE s[k - d]]
XorW(a, f) == LET w  == Max(Len(a), Len(f))          \* Bitset.__xor__
                  pa == PadL(a, w)
                  pf == PadL(f, w)
              IN  TLCEval([k \in 1..w |-> (pa[k] + pf[k]) % 2])

(* ---- split (bits_utils.half_bits_not_padding) ---- *)
LoLen(n) == (n + 1) \div 2
HiLen(n) == n - LoLen(n)
Split(v) == <<Hi(v, HiLen(Len(v))), Lo(v, LoLen(Len(v)))>>

(* ---- the round function call as the code issues it ---- *)
ReqWidth(w, b) == IF w = 0 THEN Len(b) ELSE w        \* round(): output_len == 0 means len(s)
Pt(i, b, w) == <<i, b, ReqWidth(w, b)>>
Has(f, t) == t \in DOMAIN f
App(f, t) == IF Has(f, t) THEN f[t] ELSE <<>>

(* ---- encryption: state <<a, b, ok>>; ok becomes FALSE when f is not defined at a point that the   *)
(*      network needs (only possible when f is read from a recording)                                 *)
RECURSIVE EncRounds(_, _, _, _, _, _)
EncRounds(f, R, i, a, b, ok) ==
    IF i = R THEN <<a, b, ok>>
    ELSE LET t == Pt(i, b, Len(a))
         IN  EncRounds(f, R, i + 1, b, XorW(a, App(f, t)), ok /\ Has(f, t))

EncState(f, R, v) == LET s == Split(v) IN EncRounds(f, R, 0, s[1], s[2], TRUE)
Enc(f, R, v)      == LET p == EncState(f, R, v) IN p[1] \o p[2]
EncOk(f, R, v)    == EncState(f, R, v)[3]

(* ---- decryption: rounds R-1 .. 0;  b, c = a, b ; a = c XOR F[i, b, |c|] ---- *)
RECURSIVE DecRounds(_, _, _, _, _)
DecRounds(f, i, a, b, ok) ==
    IF i = 0 THEN <<a, b, ok>>
    ELSE LET t == Pt(i - 1, a, Len(b))
         IN  DecRounds(f, i - 1, XorW(b, App(f, t)), a, ok /\ Has(f, t))

DecState(f, R, v) == LET s == Split(v) IN DecRounds(f, R, s[1], s[2], TRUE)
Dec(f, R, v)      == LET p == DecState(f, R, v) IN p[1] \o p[2]
DecOk(f, R, v)    == DecState(f, R, v)[3]

(* ---- widths of the two halves before round i, as the wiring above produces them ---- *)
RECURSIVE WidthsAt(_, _)
WidthsAt(n, i) ==
    IF i = 0 THEN <<HiLen(n), LoLen(n)>>
    ELSE LET p == WidthsAt(n, i - 1)
             w == IF p[1] = 0 THEN p[2] ELSE p[1]
         IN  <<p[2], Max(p[1], w)>>

(* the points at which round i is consulted, and the well-formed round functions on them *)
RoundDom(n, i) == LET p == WidthsAt(n, i) IN {<<i, b, IF p[1] = 0 THEN p[2] ELSE p[1]>> : b \in BitStr(p[2])}
WellFormed(f) == \A t \in DOMAIN f : Len(f[t]) = t[3] /\ IsBits(f[t])

(***************************************************************************)
(* Layer A: the property, stated over a TABLE of observed (or computed)    *)
(* calls.  A table is a function from any index set to records             *)
(*   [x |-> input, y |-> the cipher's output on x, z |-> the inverse's     *)
(*    output on y (when there is an inverse)].                             *)
(* The same predicates judge the model (MC_Feistel: index = the input,     *)
(* y, z computed by Enc / Dec above for the chosen round function) and the *)
(* implementation (Trace_Feistel: index = position in the recording).      *)
(* S is the declared domain: BitStr(n), or the byte strings of a length.   *)
(***************************************************************************)
TblXs(T) == {T[i].x : i \in DOMAIN T}
TblYs(T) == {T[i].y : i \in DOMAIN T}

TblComplete(T, S)  == TblXs(T) = S /\ Cardinality(DOMAIN T) = Cardinality(S)   \* every input exactly once
TblLengthBits(T, n) == \A i \in DOMAIN T : Len(T[i].y) = n /\ IsBits(T[i].y)  \* n bits in, n bits out
TblInjective(T)    == Cardinality(TblYs(T)) = Cardinality(TblXs(T))            \* one-to-one on the table
TblPermutes(T, S)  == TblYs(T) = S                                             \* onto the declared domain
TblInverse(T)      == \A i \in DOMAIN T : T[i].z = T[i].x                      \* decrypt(encrypt(x)) = x

(* the tables of the model *)
EncDecTable(f, R, n) ==
    [x \in BitStr(n) |->
        LET e == EncState(f, R, x)
            y == e[1] \o e[2]
            d == DecState(f, R, y)
        IN  [x |-> x, y |-> y, z |-> d[1] \o d[2], ok |-> e[3] /\ d[3]]]

WidthsReturn(R, n) == WidthsAt(n, R) = WidthsAt(n, 0)

(* one round is a bijection from pairs of widths (wa, wb) onto pairs of widths (wb, wa), for any g :  *)
(* the inductive step behind the theorem for every n                                                 *)
RoundMap(g, a, b) == <<b, XorW(a, g[b])>>
RoundBijective(g, wa, wb) ==
    {RoundMap(g, a, b) : a \in BitStr(wa), b \in BitStr(wb)} = BitStr(wb) \X BitStr(wa)

(***************************************************************************)
(* (2) three-round byte Feistel, toolkit/prp/luby_rackoff_prp.py           *)
(***************************************************************************)
RECURSIVE BX(_, _, _)
BX(x, y, k) == IF k = 0 THEN 0 ELSE (((x % 2) + (y % 2)) % 2) + 2 * BX(x \div 2, y \div 2, k - 1)
ByteXor(x, y) == BX(x, y, 8)

(* bytes_utils.bytes_xor(a, b): a copy of a with b xor-ed onto its prefix; needs Len(b) <= Len(a) *)
XorBytesDefined(a, b) == Len(b) <= Len(a)
XorBytes(a, b) == LET n == Len(b) IN TLCEval([k \in 1..Len(a) |-> IF k <= n THEN ByteXor(a[k], b[k]) ELSE a[k]])

(* key_list = [key[i : i + kl//3] for i in range(0, kl, kl//3)], kl = the declared key length *)
SubKey(key, kl, j) == SubSeq(key, (j - 1) * (kl \div 3) + 1, j * (kl \div 3))

RECURSIVE LRRounds(_, _, _, _, _, _, _)
LRRounds(g, key, kl, j, L, Rt, ok) ==
    IF j = 4 THEN <<L, Rt, ok>>
    ELSE LET t == <<SubKey(key, kl, j), Rt>>
             o == App(g, t)
         IN  LRRounds(g, key, kl, j + 1, Rt,
                      IF XorBytesDefined(L, o) THEN XorBytes(L, o) ELSE L,
                      ok /\ Has(g, t) /\ XorBytesDefined(L, o))

LRState(g, key, kl, m) == LET h == Len(m) \div 2
                          IN  LRRounds(g, key, kl, 1, SubSeq(m, 1, h), SubSeq(m, h + 1, Len(m)), TRUE)
LR3(g, key, kl, m)   == LET p == LRState(g, key, kl, m) IN p[1] \o p[2]
LR3Ok(g, key, kl, m) == LRState(g, key, kl, m)[3]

(* the table of the model: every message of Msgs under key `key` with PRF graph g *)
LRTable(g, key, kl, Msgs) ==
    [m \in Msgs |-> [x |-> m, y |-> LR3(g, key, kl, m), ok |-> LR3Ok(g, key, kl, m)]]

IsBytes(s) == \A k \in 1..Len(s) : s[k] \in 0..255
TblLengthBytes(T, n) == \A i \in DOMAIN T : Len(T[i].y) = n /\ IsBytes(T[i].y)

(***************************************************************************)
(* Layer A: contracts of the PRP wrappers ("refuse inputs or keys of the   *)
(* wrong length", otherwise an output of the declared length).             *)
(***************************************************************************)
ContractOutcome(declKey, declMsg, keyLen, msgLen) ==
    IF keyLen = declKey /\ msgLen = declMsg THEN "ok" ELSE "raised"
=============================================================================
