------------------------------- MODULE BitVec -------------------------------
(***************************************************************************)
(* Layer A for C18: a bit string is a plain list of bits, most significant *)
(* bit first (Seq({0,1})).  Every public operation of toolkit.bits.Bitset  *)
(* and the halving helpers of toolkit.bits_utils is defined here on that   *)
(* list, together with its refusals.  Nothing in this module looks like    *)
(* the implementation (no value/length pair, no shifts or masks on ints).  *)
(*                                                                         *)
(* Integers that may be large are bit lists too (any number of leading     *)
(* zeros; the integer is the value of the list).  An operation returns     *)
(*     Ok(x)   = [out |-> "ok", res |-> x]     or     Raised.              *)
(* A bit string result is B(bits) = [n |-> Len(bits), v |-> bits]: the     *)
(* length and the bits are observed separately on the real object          *)
(* (len(x) and int(x)), so a length that disagrees with the value shows.   *)
(***************************************************************************)
EXTENDS Integers, Sequences, FiniteSets

Bit == {0, 1}
Max(x, y) == IF x >= y THEN x ELSE y
Min(x, y) == IF x <= y THEN x ELSE y

Ok(x)  == [out |-> "ok", res |-> x]
Raised == [out |-> "raised"]
B(bits) == [n |-> Len(bits), v |-> bits]

Zeros(n) == [i \in 1..n |-> 0]

(* position of the first 1 (Len+1 if there is none) *)
FirstOne(b) == IF \E i \in 1..Len(b) : b[i] = 1
               THEN CHOOSE i \in 1..Len(b) : b[i] = 1 /\ \A j \in 1..(i - 1) : b[j] = 0
               ELSE Len(b) + 1
(* the same integer without leading zeros; Width = its bit length (0 for the integer 0) *)
Strip(b) == SubSeq(b, FirstOne(b), Len(b))
Width(b) == Len(b) - FirstOne(b) + 1
(* pad on the most significant side up to n bits (n >= Len(b)) *)
ZExt(b, n) == Zeros(n - Len(b)) \o b

(*-------------------------- construction --------------------------------*)
(* Bitset(value, length): n = 0 means "no length given" => minimal width;  *)
(* a value wider than an explicit length is refused.                       *)
New(v, n) ==
    IF n = 0 THEN Ok(B(Strip(v)))
    ELSE IF Width(v) > n THEN Raised
    ELSE Ok(B(ZExt(Strip(v), n)))

(* bytes are Seq(0..255); their integer is the big-endian concatenation of the 8-bit groups *)
ByteBit(x, j) == (x \div (2 ^ (7 - j))) % 2            \* j = 0 is the most significant bit
BytesToBits(bs) == [i \in 1..(8 * Len(bs)) |-> ByteBit(bs[((i - 1) \div 8) + 1], (i - 1) % 8)]
NewFromBytes(bs, n) == New(BytesToBits(bs), n)
(* copy constructor Bitset(b, n): the VALUE of b with the given (or minimal) length *)
NewFromBits(b, n) == New(b, n)
(* Bitset.from_sequence(seq): construction without a length *)
FromSequence(s) == New(s, 0)

(*-------------------------- bitwise operators ---------------------------*)
(* operands are aligned at the least significant bit; the result has the larger length *)
Pointwise(F(_, _), a, b) ==
    LET m == Max(Len(a), Len(b))
        A == ZExt(a, m)
        C == ZExt(b, m)
    IN  [i \in 1..m |-> F(A[i], C[i])]
BAnd(x, y) == IF x = 1 /\ y = 1 THEN 1 ELSE 0
BOr(x, y)  == IF x = 1 \/ y = 1 THEN 1 ELSE 0
BXor(x, y) == IF x # y THEN 1 ELSE 0
And(a, b) == Pointwise(BAnd, a, b)
Or(a, b)  == Pointwise(BOr, a, b)
Xor(a, b) == Pointwise(BXor, a, b)
Not(a)    == [i \in 1..Len(a) |-> 1 - a[i]]

(* fixed-width logical shifts, k >= 0 *)
Shl(a, k) == [i \in 1..Len(a) |-> IF i + k <= Len(a) THEN a[i + k] ELSE 0]
Shr(a, k) == [i \in 1..Len(a) |-> IF i - k >= 1 THEN a[i - k] ELSE 0]

(*-------------------------- concat / higher / lower / halves ------------*)
Concat(a, b) == a \o b
Higher(a, k) == IF k < 0 \/ k > Len(a) THEN Raised ELSE Ok(B(SubSeq(a, 1, k)))
Lower(a, k)  == IF k < 0 \/ k > Len(a) THEN Raised ELSE Ok(B(SubSeq(a, Len(a) - k + 1, Len(a))))

HalfLen(n) == (n + 1) \div 2
(* left part = the Len - HalfLen high bits, right part = the HalfLen low bits *)
HalfLeft(a)  == SubSeq(a, 1, Len(a) - HalfLen(Len(a)))
HalfRight(a) == SubSeq(a, Len(a) - HalfLen(Len(a)) + 1, Len(a))
HalvesNoPad(a) == <<B(HalfLeft(a)), B(HalfRight(a))>>
(* half_bits: both halves HalfLen long, the left one zero-extended when the length is odd *)
Halves(a) == <<B(ZExt(HalfLeft(a), HalfLen(Len(a)))), B(HalfRight(a))>>

(*-------------------------- observers -----------------------------------*)
Eq(a, b) == a = b                      \* same length and same bits
ToInt(a) == Strip(a)                   \* the integer, as a minimal bit list
Chars(a) == [i \in 1..Len(a) |-> IF a[i] = 1 THEN "1" ELSE "0"]      \* str(x) as a list of characters
ReprChars(a) == <<"B", "i", "t", "s", "e", "t", "(">> \o Chars(a) \o <<")">>
(* bytes(x): ceil(n/8) bytes, big endian, the value right-aligned *)
ToBytes(a) ==
    LET m == (Len(a) + 7) \div 8
        P == ZExt(a, 8 * m)
    IN  [j \in 1..m |-> 128 * P[8 * j - 7] + 64 * P[8 * j - 6] + 32 * P[8 * j - 5] + 16 * P[8 * j - 4]
                        + 8 * P[8 * j - 3] + 4 * P[8 * j - 2] + 2 * P[8 * j - 1] + P[8 * j]]
Bools(a) == [i \in 1..Len(a) |-> a[i] = 1]               \* list(x), x[:]
(* x[i] for 0 <= i < len(x) (the property only speaks about in-range indices) *)
InRange(a, i) == 0 <= i /\ i < Len(a)
GetItem(a, i) == a[i + 1] = 1
SetItem(a, i, bit) == [a EXCEPT ![i + 1] = bit]

(* Python slicing: slice(start, stop, step).indices(n) and range(start, stop, step).       *)
(* An absent bound (None) is the empty sequence, a given bound is <<value>>.               *)
IsNone(x) == Len(x) = 0
SliceStep(s) == IF IsNone(s.step) THEN 1 ELSE s.step[1]
SliceLo(s, n) == IF SliceStep(s) < 0 THEN -1 ELSE 0
SliceHi(s, n) == IF SliceStep(s) < 0 THEN n - 1 ELSE n
Clamp(x, s, n) == IF x < 0 THEN Max(x + n, SliceLo(s, n)) ELSE Min(x, SliceHi(s, n))
SliceStart(s, n) == IF IsNone(s.start) THEN (IF SliceStep(s) < 0 THEN SliceHi(s, n) ELSE SliceLo(s, n))
                    ELSE Clamp(s.start[1], s, n)
SliceStop(s, n)  == IF IsNone(s.stop) THEN (IF SliceStep(s) < 0 THEN SliceLo(s, n) ELSE SliceHi(s, n))
                    ELSE Clamp(s.stop[1], s, n)
RangeLen(start, stop, step) ==
    IF step > 0 THEN (IF stop > start THEN (stop - start + step - 1) \div step ELSE 0)
    ELSE (IF start > stop THEN (start - stop - step - 1) \div (-step) ELSE 0)
(* the 0-based positions selected by the slice, in order *)
SlicePositions(s, n) ==
    LET st == SliceStep(s)
        a0 == SliceStart(s, n)
        cnt == RangeLen(a0, SliceStop(s, n), st)
    IN  [i \in 1..cnt |-> a0 + (i - 1) * st]
GetSlice(a, s) ==
    IF SliceStep(s) = 0 THEN Raised
    ELSE LET ps == SlicePositions(s, Len(a)) IN Ok([i \in 1..Len(ps) |-> a[ps[i] + 1] = 1])

(* what collections.abc.Sequence derives from indexing and iteration *)
Reversed(a) == [i \in 1..Len(a) |-> a[Len(a) - i + 1] = 1]
Contains(a, t) == \E i \in 1..Len(a) : (a[i] = 1) = t
Count(a, t) == Cardinality({i \in 1..Len(a) : (a[i] = 1) = t})
IndexOf(a, t) == (CHOOSE i \in 1..Len(a) : ((a[i] = 1) = t) /\ \A j \in 1..(i - 1) : (a[j] = 1) # t) - 1
=============================================================================
