-------------------------------- MODULE SKE --------------------------------
(***************************************************************************)
(* Layer A for C14: the symmetric encryption wrapper (AES-CBC + PKCS7).    *)
(*                                                                         *)
(*   Pad / Unpad      literal PKCS7 for a 16-byte block                    *)
(*   Encrypt(k,m)     = iv \o body,  |iv| = 16, iv a fresh random draw,    *)
(*                      body = CBC[k, iv, Pad(m)]                          *)
(*   Decrypt(k,c)     = Unpad(CBC^-1[k, Take(c,16), Drop(c,16)]),          *)
(*                      Raised when the padding is not valid               *)
(*                                                                         *)
(* CBC / CBC^-1 (the AES block pipeline) are ABSTRACT: every judged call   *)
(* carries the calls the wrapper made to the core (`core`: direction, key, *)
(* iv, input, result) and the random draws it made (`rng`); the            *)
(* specification states how the wrapper's own input and output must relate *)
(* to them.  Nothing else about AES is assumed here.                       *)
(*                                                                         *)
(* Every Judge operator returns "ok" or the name of the first clause that  *)
(* fails, so a rejection always names its clause.                          *)
(***************************************************************************)
EXTENDS Bytes, Integers, FiniteSets

Block     == 16
KeyLens   == {16, 24, 32}
Unlimited == -1            \* toolkit.constants.LENGTH_UNLIMITED

(* ---- PKCS7 ------------------------------------------------------------ *)
PadByte(n)  == Block - (n % Block)                 \* 1..16, a full block for aligned messages
Pad(m)      == m \o Rep(PadByte(Len(m)), PadByte(Len(m)))
ValidPad(p) == /\ Len(p) > 0
               /\ Len(p) % Block = 0
               /\ p[Len(p)] \in 1..Block
               /\ \A i \in (Len(p) - p[Len(p)] + 1)..Len(p) : p[i] = p[Len(p)]
Unpad(p)    == SubSeq(p, 1, Len(p) - p[Len(p)])    \* only meaningful when ValidPad(p)

PadLen(n)   == Block * (n \div Block + 1)
CtLen(n)    == Block + PadLen(n)                   \* 16 + 16 * (|m| div 16 + 1)

(* ---- the construction, over an abstract core --------------------------- *)
EncryptWith(CBC(_, _, _), k, m, iv) == iv \o CBC(k, iv, Pad(m))
DecryptWith(CBCinv(_, _, _), k, c) ==
    LET p == CBCinv(k, Take(c, Block), Drop(c, Block))
    IN  IF ValidPad(p) THEN [out |-> "ok", res |-> Unpad(p)]
                       ELSE [out |-> "raised", res |-> <<>>]

(* ---- declared lengths (constructor arguments) -------------------------- *)
(* d = [key |-> .., msg |-> .., ct |-> ..]; msg / ct may be Unlimited       *)
DeclValid(d) == /\ d.key \in KeyLens
                /\ d.msg = Unlimited \/ d.msg >= 0
                /\ d.ct = Unlimited \/ (d.ct >= 2 * Block /\ d.ct % Block = 0)
EncContractBroken(d, k, m) == Len(k) # d.key \/ (d.msg # Unlimited /\ Len(m) # d.msg)
DecContractBroken(d, k, c) == Len(k) # d.key \/ (d.ct # Unlimited /\ Len(c) # d.ct)

(* ---- judged calls ------------------------------------------------------- *)
(* e.core[i] = [dir, alg, mode, k, iv, inp, res, ref, fin]; ref = what real AES-CBC gives on        *)
(* (k, iv, inp), computed independently by the harness: the abstract core must be that function.    *)
CoreIdx(e)   == 1..Len(e.core)
RngOutputs(e) == {e.rng[j] : j \in 1..Len(e.rng)}

(* a declaration whose two lengths contradict each other (no message of the declared length has a ciphertext of the     *)
(* declared length) may be refused by the constructor, or later by Encrypt - the property does not say where             *)
DeclConsistent(d) == d.msg = Unlimited \/ d.ct = Unlimited \/ d.ct = CtLen(d.msg)
CtFits(d, m) == d.ct = Unlimited \/ d.ct = CtLen(Len(m))

(* a key length that is not permitted: refused by the constructor, or at the latest by Encrypt (see JudgeEnc) *)
JudgeCtor(e) ==
    IF e.decl.key \notin KeyLens THEN "ok"
    ELSE IF DeclValid(e.decl) /\ DeclConsistent(e.decl) /\ e.out # "ok" THEN "Ctor:valid-declaration-refused"
    ELSE "ok"

(* Encrypt, Layer A - exactly what the property states: length contracts are enforced, a valid call returns bytes, *)
(* the ciphertext length depends only on the message length, and no ciphertext is ever produced twice (usedCt = the *)
(* ciphertexts of the encryptions seen before in this trace, which repeat (k, m) pairs on purpose).                *)
JudgeEnc(e, usedIV, usedCt) ==
    IF e.decl.key \notin KeyLens
    THEN (IF e.out = "ok" THEN "Contract:key-length-not-permitted-accepted" ELSE "ok")
    ELSE IF EncContractBroken(e.decl, e.k, e.m)
    THEN (IF e.out = "ValueError" THEN "ok" ELSE "Contract:encrypt-accepted-wrong-length")
    ELSE IF e.out # "ok" THEN (IF CtFits(e.decl, e.m) THEN "Encrypt:refused-valid-input" ELSE "ok")
    ELSE IF ~IsBytes(e.ct) THEN "Encrypt:result-not-bytes"
    ELSE IF Len(e.ct) # CtLen(Len(e.m)) THEN "Encrypt:length-formula"
    ELSE IF e.ct \in usedCt THEN "Encrypt:ciphertext-repeated"
    ELSE "ok"

(* n encryptions of one (k, m) in a row on one object: every one a ciphertext of the right length, all of them new *)
JudgeEncMany(e, usedCt) ==
    IF e.out # "ok" THEN "Encrypt:refused-valid-input"
    ELSE IF Len(e.cts) # e.n THEN "Encrypt:result-not-bytes"
    ELSE IF \E i \in 1..Len(e.cts) : ~IsBytes(e.cts[i]) \/ Len(e.cts[i]) # CtLen(Len(e.m)) THEN "Encrypt:length-formula"
    ELSE IF Cardinality({e.cts[i] : i \in 1..Len(e.cts)}) # Len(e.cts) THEN "Encrypt:ciphertext-repeated"
    ELSE IF \E i \in 1..Len(e.cts) : e.cts[i] \in usedCt THEN "Encrypt:ciphertext-repeated"
    ELSE "ok"

(* Encrypt, Layer B (drift only) - the construction the code of the unchanged tree uses: one AES-CBC core call under *)
(* k on Pad(m) with an IV that is a fresh 16-byte draw from os.urandom, ct = iv . body.  An implementation that gets *)
(* its randomness or its cipher elsewhere may satisfy the property without satisfying this.                          *)
StructEnc(e, usedIV) ==
    IF EncContractBroken(e.decl, e.k, e.m) \/ e.out # "ok" \/ ~IsBytes(e.ct) THEN "ok"
    ELSE LET S0 == {i \in CoreIdx(e) : e.core[i].dir = "enc" /\ e.core[i].alg = "AES" /\ e.core[i].mode = "CBC"
                                        /\ e.core[i].fin}
             S1 == {i \in S0 : e.core[i].k = e.k}
             S2 == {i \in S1 : e.core[i].inp = Pad(e.m)}
             S3 == {i \in S2 : Len(e.core[i].res) = Len(e.core[i].inp) /\ e.core[i].res = e.core[i].ref}
             S4 == {i \in S3 : Len(e.core[i].iv) = Block /\ e.core[i].iv \in RngOutputs(e)}
             S5 == {i \in S4 : e.core[i].iv \notin usedIV}
             S6 == {i \in S5 : e.ct = EncryptWith(LAMBDA k, iv, x : e.core[i].res, e.k, e.m, e.core[i].iv)}
         IN  IF S0 = {} THEN "B:Encrypt:no-AES-CBC-core-call"
             ELSE IF S1 = {} THEN "B:Encrypt:core-key-differs"
             ELSE IF S2 = {} THEN "B:Encrypt:core-input-not-Pad(m)"
             ELSE IF S3 = {} THEN "B:Encrypt:core-result-shape"
             ELSE IF S4 = {} THEN "B:Encrypt:iv-not-a-16-byte-random-draw"
             ELSE IF S5 = {} THEN "B:Encrypt:iv-reused"
             ELSE IF S6 = {} THEN "B:Encrypt:ct-not-iv+body"
             ELSE "ok"

(* the IV of an accepted encryption (first 16 bytes of the ciphertext, by the framing clause) *)
IvOf(e) == Take(e.ct, Block)

(* Decrypt: encs = set of [k, m, ct] of the accepted encryptions of this trace *)
JudgeDec(e, encs) ==
    IF DecContractBroken(e.decl, e.k, e.ct)
    THEN (IF e.out = "ValueError" THEN "ok" ELSE "Contract:decrypt-accepted-wrong-length")
    ELSE IF e.out = "ok" /\ ~IsBytes(e.res) THEN "Decrypt:result-not-bytes"
    ELSE IF \E x \in encs : x.ct = e.ct /\ x.k = e.k /\ ~(e.out = "ok" /\ e.res = x.m)
         THEN "Decrypt:roundtrip"
    ELSE IF \E x \in encs : x.ct = e.ct /\ x.k # e.k /\ e.out = "ok" /\ e.res = x.m
         THEN "Decrypt:wrong-key-returned-message"
    ELSE "ok"

(* a whole run's IVs are pairwise distinct *)
JudgeIvSet(e) == IF Cardinality({e.ivs[i] : i \in 1..Len(e.ivs)}) = Len(e.ivs) THEN "ok" ELSE "B:Encrypt:iv-reused-across-run"

(* ---- Layer B: what the code of the unchanged tree does beyond the property (drift only) --------- *)
DriftCtor(e) ==
    IF e.decl.key \in KeyLens /\ e.decl.ct # Unlimited /\ e.decl.ct % Block # 0 /\ e.out # "ValueError"
    THEN "B:ctor-accepts-cipher-length-not-multiple-of-16"
    ELSE "ok"
DriftEnc(e) ==
    IF EncContractBroken(e.decl, e.k, e.m)
    THEN (IF Len(e.core) # 0 \/ Len(e.rng) # 0 THEN "B:core-or-rng-used-before-contract-check" ELSE "ok")
    ELSE IF Len(e.core) # 1 THEN "B:not-exactly-one-core-call"
    ELSE IF Len(e.rng) # 1 THEN "B:not-exactly-one-random-draw"
    ELSE "ok"
DriftDec(e) ==
    IF DecContractBroken(e.decl, e.k, e.ct)
    THEN (IF Len(e.core) # 0 THEN "B:core-used-before-contract-check" ELSE "ok")
    ELSE IF Len(e.ct) < Block \/ Len(e.ct) % Block # 0
    THEN (IF e.out = "ValueError" THEN "ok" ELSE "B:malformed-ciphertext-not-ValueError")
    ELSE IF Len(e.core) # 1 THEN "B:not-exactly-one-core-call"
    ELSE LET c == e.core[1]
             want == DecryptWith(LAMBDA k, iv, x : c.res, e.k, e.ct)
         IN  IF ~(c.dir = "dec" /\ c.alg = "AES" /\ c.mode = "CBC" /\ c.k = e.k /\ c.fin) THEN "B:core-call-kind"
             ELSE IF c.iv # Take(e.ct, Block) \/ c.inp # Drop(e.ct, Block) THEN "B:iv-body-split"
             ELSE IF c.res # c.ref THEN "B:core-result"
             ELSE IF want.out = "ok" /\ ~(e.out = "ok" /\ e.res = want.res) THEN "B:result-not-Unpad(core)"
             ELSE IF want.out = "raised" /\ e.out # "ValueError" THEN "B:invalid-padding-not-ValueError"
             ELSE "ok"
=============================================================================
