------------------------------ MODULE MC_PHash ------------------------------
(***************************************************************************)
(* Model-level theorems of PHash, checked by TLC over a finite domain with *)
(* a TOY core (a deterministic function with the right digest sizes; the   *)
(* theorems are about the construction, not about the core):               *)
(*  - the assembly over the graph of exactly the calls of the construction *)
(*    is defined and has exactly n bytes, for n below / at / above every   *)
(*    multiple of the digest size;                                         *)
(*  - prefix consistency: asking for fewer bytes gives a prefix;           *)
(*  - the construction needs exactly 2*blocks (PRF) / blocks (hash) core   *)
(*    values, and removing any one of them makes the assembly undefined    *)
(*    (so a trace that lacks a call of the construction cannot be          *)
(*    accepted);                                                           *)
(*  - the counter encoding: starts at 1, minimal big-endian, two bytes     *)
(*    from 256 on.                                                         *)
(***************************************************************************)
EXTENDS PHash, TLC

CONSTANTS KeyLens, MsgLens

(* cheap deterministic toy core: depends on both lengths and on a few positions of key and input *)
At(s, i) == IF i >= 1 /\ i <= Len(s) THEN s[i] ELSE 0
Mix(s)   == At(s, 1) + 3 * At(s, 2) + 5 * At(s, Len(s)) + 7 * At(s, (Len(s) + 1) \div 2) + 11 * At(s, Len(s) - 1)
Toy(size, k, x) == <<>> \o [i \in 1..size |-> (7 * Mix(k) + 13 * Mix(x) + 31 * Len(x) + 3 * Len(k) + i * (1 + Len(x) + At(x, 1))) % 256]

(* the graph of the calls the construction makes, built by running the chain with the toy core *)
PGraph(dig, k, m, blocks) ==
    LET h == DigestSize(dig)
        A[i \in 0..blocks] == IF i = 0 THEN m ELSE Toy(h, k, A[i - 1])
        As == <<>> \o [i \in 1..(blocks + 1) |-> A[i - 1]]   \* As[i + 1] = A(i)
        E(x) == [dig |-> dig, k |-> k, inp |-> x, res |-> Toy(h, k, x), ref |-> Toy(h, k, x), used |-> TRUE]
    IN  [j \in 1..(2 * blocks) |-> IF j % 2 = 1 THEN E(As[(j + 1) \div 2])                 \* A(i) = HMAC(k, A(i-1))
                                                ELSE E(As[j \div 2 + 1] \o m)]             \* HMAC(k, A(i) + m)

HGraph(name, m, blocks) ==
    [i \in 1..blocks |-> LET r == Toy(DigestSize(name), <<>>, m \o BEMin(i))
                         IN  [name |-> name, inp |-> m \o BEMin(i), n |-> -1, res |-> r, ref |-> r, used |-> TRUE]]

Without(G, i) == SubSeq(G, 1, i - 1) \o SubSeq(G, i + 1, Len(G))

Boundary(h) == {1, 2, h - 1, h, h + 1, 2 * h - 1, 2 * h, 2 * h + 1, 3 * h, 3 * h + 1, 200}

VARIABLE x
Init == \E d \in FixedDigests, kl \in KeyLens, ml \in MsgLens, fill \in {0, 1} :
          \E n \in Boundary(DigestSize(d)) :
             x = [dig |-> d, k |-> <<>> \o Rep(5 + fill, kl), m |-> <<>> \o [i \in 1..ml |-> (i * (fill + 1)) % 3], n |-> n]
Next == UNCHANGED x
Spec == Init /\ [][Next]_x

(* NOTE: the graphs are bound with LET inside every invariant: a LET value is computed once per evaluation, *)
(* a top-level definition that mentions the variable would be rebuilt at every reference.                  *)
H == DigestSize(x.dig)
B == CeilDiv(x.n, H)
MkG  == <<>> \o PGraph(x.dig, x.k, x.m, B)
MkHG == <<>> \o HGraph(x.dig, x.m, B)
Others(n, h) == {n2 \in {n - 1, n - h} : n2 >= 1}

PrfDefined   == LET g == MkG  p == PHashOver(g, x.dig, x.k, x.m, x.n) IN p.ok /\ Len(p.out) = x.n /\ Len(g) = 2 * B
PrfPrefix    == LET g == MkG  p == PHashOver(g, x.dig, x.k, x.m, x.n)
                IN  \A n2 \in Others(x.n, H) : PHashOver(g, x.dig, x.k, x.m, n2).out = Take(p.out, n2)
PrfNeedsAll  == LET g == MkG
                IN  \A i \in 1..Len(g) :
                       LET gi == g[i].inp
                       IN  (\A j \in 1..Len(g) : j # i => g[j].inp # gi) => ~PHashOver(Without(g, i), x.dig, x.k, x.m, x.n).ok
PrfFirstBlock == LET p == PHashOver(MkG, x.dig, x.k, x.m, x.n)
                 IN  x.n >= H => Take(p.out, H) = Toy(H, x.k, Toy(H, x.k, x.m) \o x.m)      \* HMAC(k, A(1) + m), A(1) = HMAC(k, m)
PrfSecondBlock == LET p == PHashOver(MkG, x.dig, x.k, x.m, x.n)
                  IN  x.n >= 2 * H =>
                        SubSeq(p.out, H + 1, 2 * H) = Toy(H, x.k, Toy(H, x.k, Toy(H, x.k, x.m)) \o x.m)   \* HMAC(k, A(2) + m)
PrfNeedIsGraph == LET g == MkG  p == PHashOver(g, x.dig, x.k, x.m, x.n)
                  IN  p.need = {g[i].inp : i \in 1..Len(g)}                                   \* Layer B `need` = exactly the calls

HashDefined  == LET g == MkHG  p == HashOver(g, x.dig, x.m, x.n) IN p.ok /\ Len(p.out) = x.n /\ Len(g) = B
HashPrefix   == LET g == MkHG  p == HashOver(g, x.dig, x.m, x.n)
                IN  \A n2 \in Others(x.n, H) : HashOver(g, x.dig, x.m, n2).out = Take(p.out, n2)
HashNeedsAll == LET g == MkHG IN \A i \in 1..Len(g) : ~HashOver(Without(g, i), x.dig, x.m, x.n).ok
HashFirstBlock == LET p == HashOver(MkHG, x.dig, x.m, x.n) IN x.n >= H => Take(p.out, H) = Toy(H, <<>>, x.m \o <<1>>)

(* counter encoding (no state involved) *)
ASSUME BEMin(0) = <<>> /\ BEMin(1) = <<1>> /\ BEMin(255) = <<255>> /\ BEMin(256) = <<1, 0>> /\ BEMin(65536) = <<1, 0, 0>>
ASSUME \A c \in 0..3000 : BEIncr(BEMin(c)) = BEMin(c + 1) /\ BEValue(BEMin(c)) = c /\ (c > 0 => BEMin(c)[1] # 0)
ASSUME \A c \in {65534, 65535, 65536, 16777214} : BEIncr(BEMin(c)) = BEMin(c + 1) /\ BEValue(BEMin(c)) = c
(* 257 md5 blocks: the counter becomes two bytes at block 256 *)
ASSUME LET g == <<>> \o HGraph("md5", <<9>>, 257)
       IN  /\ g[255].inp = <<9, 255>> /\ g[256].inp = <<9, 1, 0>> /\ g[257].inp = <<9, 1, 1>>
           /\ HashOver(g, "md5", <<9>>, 257 * 16 - 3).ok
           /\ Len(HashOver(g, "md5", <<9>>, 257 * 16 - 3).out) = 257 * 16 - 3
=============================================================================
