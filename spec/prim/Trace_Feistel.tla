--------------------------- MODULE Trace_Feistel ---------------------------
(***************************************************************************)
(* Trace validation for C15.  Every trace is ONE recorded call (or one     *)
(* recorded table of calls) of the real code; records are judged           *)
(* independently.                                                          *)
(*                                                                         *)
(* Layer = "A": the property (a rejection is a violation)                  *)
(*   ffx    x, y = encrypt(key, x), z = decrypt(key, y):                   *)
(*          neither raises, |y| = |x|, y is a bit string, z = x            *)
(*   table  the complete table of one key and width n: every input once,   *)
(*          outputs are n-bit strings, one-to-one, onto {0,1}^n, and (when *)
(*          there is a decryption) the recorded decryption inverts it      *)
(*   prp    BitwiseFPEPRP call: raises iff key or message width differs    *)
(*          from the declared one, else an output of the declared width    *)
(*   lr     (Hmac)LubyRackoffPRP call: the same contract over bytes        *)
(*   inj    a sampled (or complete) set of messages under one key:         *)
(*          lengths kept, one-to-one, (complete: onto)                     *)
(*   round  nothing (the round function is internal)                       *)
(*                                                                         *)
(* Layer = "B": the wiring (a rejection is DRIFT, never a violation)       *)
(*   ffx / prp  the output equals Feistel!Enc / Dec run with the round     *)
(*          function READ FROM THE RECORDED round() CALLS of the same call *)
(*   lr     the output equals Feistel!LR3 with the PRF graph read from the *)
(*          recorded PRF calls (so the three sub-keys are the three thirds *)
(*          of the key, in order)                                          *)
(*   round  round(key,i,s,w) = the high w bits of HMAC(key, pack(i,s,0))   *)
(*          repeated, with HMAC read from the recorded hmac.new calls      *)
(***************************************************************************)
EXTENDS Feistel, TLC, Json, IOUtils

CONSTANT Layer

Traces == JsonDeserialize(IOEnv.TRACE_FILE)

VARIABLES tid, l, verdict, clause
tvars == <<tid, l, verdict, clause>>

Tr == Traces[tid].ev
Ev == Tr[l]

(* ---------- the round function / PRF graph read from a recording ---------- *)
RKey(r)   == <<r.i, r.s, ReqWidth(r.w, r.s)>>
FRec(rs)  == [t \in {RKey(rs[k]) : k \in DOMAIN rs} |-> rs[CHOOSE k \in DOMAIN rs : RKey(rs[k]) = t].o]
RFunctional(rs) == \A j, k \in DOMAIN rs : RKey(rs[j]) = RKey(rs[k]) => rs[j].o = rs[k].o
RWidths(rs)     == \A k \in DOMAIN rs : Len(rs[k].o) = ReqWidth(rs[k].w, rs[k].s) /\ IsBits(rs[k].o)

GKey(r)   == <<r.k, r.m>>
GRec(ps)  == [t \in {GKey(ps[k]) : k \in DOMAIN ps} |-> ps[CHOOSE k \in DOMAIN ps : GKey(ps[k]) = t].o]
GFunctional(ps) == \A j, k \in DOMAIN ps : GKey(ps[j]) = GKey(ps[k]) => ps[j].o = ps[k].o

ByteStr(n) == [1..n -> 0..255]

(* ---------- Layer A ---------- *)
FfxA(e) ==
    IF e.n < 2 \/ Len(e.x) # e.n \/ ~IsBits(e.x) THEN "harness:domain"
    ELSE IF e.eo # "ok" THEN "ffx:encrypt-raised"
    ELSE IF Len(e.y) # e.n \/ ~IsBits(e.y) THEN "ffx:length"
    ELSE IF e.do # "ok" THEN "ffx:decrypt-raised"
    ELSE IF e.z # e.x THEN "ffx:inverse"
    ELSE ""

TableA(e) ==
    IF e.n < 2 \/ ~TblComplete(e.rows, BitStr(e.n)) THEN "harness:domain"
    ELSE IF ~TblLengthBits(e.rows, e.n) THEN "table:length"
    ELSE IF ~TblInjective(e.rows) THEN "table:injective"
    ELSE IF ~TblPermutes(e.rows, BitStr(e.n)) THEN "table:onto"
    ELSE IF e.inv /\ ~TblInverse(e.rows) THEN "table:inverse"
    ELSE ""

PrpA(e) ==
    IF e.out # ContractOutcome(e.klen, e.mlen, e.kl, Len(e.x)) THEN "prp:contract"
    ELSE IF e.out = "ok" /\ (Len(e.y) # e.mlen \/ ~IsBits(e.y)) THEN "prp:length"
    ELSE ""

LrA(e) ==
    IF e.out # ContractOutcome(e.klen, e.mlen, Len(e.key), Len(e.x)) THEN "lr:contract"
    ELSE IF e.out = "ok" /\ (Len(e.y) # e.mlen \/ ~IsBytes(e.y)) THEN "lr:length"
    ELSE ""

InjA(e) ==
    IF Cardinality(TblXs(e.rows)) # Len(e.rows) THEN "harness:domain"
    ELSE IF e.unit = "bit" /\ ~TblLengthBits(e.rows, e.mlen) THEN "inj:length"
    ELSE IF e.unit = "byte" /\ ~TblLengthBytes(e.rows, e.mlen) THEN "inj:length"
    ELSE IF ~TblInjective(e.rows) THEN "inj:injective"
    ELSE IF e.full /\ e.unit = "byte" /\ ~TblComplete(e.rows, ByteStr(e.mlen)) THEN "harness:domain"
    ELSE IF e.full /\ e.unit = "byte" /\ ~TblPermutes(e.rows, ByteStr(e.mlen)) THEN "inj:onto"
    ELSE ""

FailA(e) ==
    CASE e.k = "ffx"   -> FfxA(e)
      [] e.k = "table" -> TableA(e)
      [] e.k = "prp"   -> PrpA(e)
      [] e.k = "lr"    -> LrA(e)
      [] e.k = "inj"   -> InjA(e)
      [] e.k = "round" -> ""
      [] OTHER -> "harness:kind"

(* ---------- Layer B ---------- *)
FfxB(e) ==
    IF ~e.rec \/ e.eo # "ok" \/ e.do # "ok" THEN ""
    ELSE LET rs == e.er \o e.dr
             f  == FRec(rs)
         IN  IF ~RWidths(rs) THEN "round:width"
             ELSE IF ~RFunctional(rs) THEN "round:function"
             ELSE IF Len(e.er) # e.R \/ Len(e.dr) # e.R THEN "wiring:round-count"
             ELSE IF ~EncOk(f, e.R, e.x) \/ Enc(f, e.R, e.x) # e.y THEN "wiring:encrypt"
             ELSE IF ~DecOk(f, e.R, e.y) \/ Dec(f, e.R, e.y) # e.z THEN "wiring:decrypt"
             ELSE ""

PrpB(e) ==
    IF ~e.rec \/ e.out # "ok" THEN ""
    ELSE LET f == FRec(e.er)
         IN  IF ~RWidths(e.er) THEN "round:width"
             ELSE IF ~RFunctional(e.er) THEN "round:function"
             ELSE IF ~EncOk(f, e.R, e.x) \/ Enc(f, e.R, e.x) # e.y THEN "wiring:prp"
             ELSE ""

LrB(e) ==
    IF ~e.rec \/ e.out # "ok" THEN ""
    ELSE LET g == GRec(e.prf)
         IN  IF ~GFunctional(e.prf) THEN "prf:function"
             ELSE IF Len(e.prf) # 3 THEN "wiring:lr-round-count"
             ELSE IF ~LR3Ok(g, e.key, e.klen, e.x) \/ LR3(g, e.key, e.klen, e.x) # e.y THEN "wiring:lr"
             ELSE ""

(* BitwiseFFX.round: pre = struct.pack('I%sI' % len(s), i, *s); d = HMAC(key, pre + struct.pack('I', 0));      *)
(* result = d \o d \o ... until long enough; the high output_len bits.  'I' is a native 32-bit unsigned,   *)
(* little-endian on the platforms this runs on (the harness records the byte order it observed).            *)
LE32(v, le) == IF le THEN <<v, 0, 0, 0>> ELSE <<0, 0, 0, v>>       \* v < 256 here: round indices and bits
RECURSIVE PackBits(_, _, _)
PackBits(s, k, le) == IF k > Len(s) THEN <<>> ELSE LE32(s[k], le) \o PackBits(s, k + 1, le)
RoundMsg(i, s, le) == LE32(i, le) \o PackBits(s, 1, le) \o LE32(0, le)

ByteBits(v) == [k \in 1..8 |-> (v \div Pow2(8 - k)) % 2]
RECURSIVE BytesBits(_, _)
BytesBits(d, k) == IF k > Len(d) THEN <<>> ELSE ByteBits(d[k]) \o BytesBits(d, k + 1)
RECURSIVE Repeat(_, _)
Repeat(d, w) == IF Len(d) = 0 \/ w <= 0 THEN <<>> ELSE d \o Repeat(d, w - Len(d))

RoundB(e) ==
    LET w   == ReqWidth(e.w, e.s)
        msg == RoundMsg(e.i, e.s, e.le)
        hs  == {k \in DOMAIN e.hm : e.hm[k].m = msg}
    IN  IF e.out # "ok" THEN ""
        ELSE IF hs = {} THEN "round:hmac-input"
        ELSE LET D == BytesBits(e.hm[CHOOSE k \in hs : TRUE].d, 1)
                 S == Repeat(D, w)
             IN  IF Len(S) < w \/ e.o # Hi(S, w) THEN "round:expansion" ELSE ""

FailB(e) ==
    CASE e.k = "ffx"   -> FfxB(e)
      [] e.k = "prp"   -> PrpB(e)
      [] e.k = "lr"    -> LrB(e)
      [] e.k = "round" -> RoundB(e)
      [] OTHER -> ""

Fail(e) == IF Layer = "A" THEN FailA(e) ELSE FailB(e)

(* ---------- trace skeleton ---------- *)
Running == verdict = "run" /\ l <= Len(Tr)
Advance == l' = l + 1 /\ UNCHANGED <<tid, verdict, clause>>

(* one action judges the record: Fail is evaluated once per record (tables are large) *)
Step   == /\ Running
          /\ LET r == Fail(Ev)
             IN  IF r = "" THEN Advance
                 ELSE verdict' = "REJECT" /\ clause' = r /\ UNCHANGED <<tid, l>>
Finish == /\ verdict = "run" /\ l = Len(Tr) + 1
          /\ verdict' = "ACCEPT" /\ UNCHANGED <<tid, l, clause>>

TraceInit == tid \in 1..Len(Traces) /\ l = 1 /\ verdict = "run" /\ clause = ""
TraceNext == Step \/ Finish
TraceSpec == TraceInit /\ [][TraceNext]_tvars

Done == verdict # "run" => PrintT(<<"V", Traces[tid].tid, verdict, l, clause>>)
=============================================================================
