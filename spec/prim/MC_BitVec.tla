----------------------------- MODULE MC_BitVec -----------------------------
(***************************************************************************)
(* Bounded instance for C18.  The "state space" is the domain itself:      *)
(* a ranges over every bit string of length <= W, b over every bit string  *)
(* of length <= WP.  The invariants are algebraic laws of the MODEL        *)
(* (BitVec.tla) -- they tie the list-of-bits definitions to each other and *)
(* to ordinary integer arithmetic (Val), so that the oracle used for the   *)
(* trace validation is itself checked.  Emit prints every a once: the      *)
(* driver evaluates the real Bitset on exactly these values.               *)
(***************************************************************************)
EXTENDS BitVec, TLC

CONSTANTS W, WP
VARIABLES a, b, ph
mcvars == <<a, b, ph>>

BV(n) == UNION {[1..k -> Bit] : k \in 0..n}

(* phase 0: one initial state per a (Emit); phase 1: every b for that a (the laws).                *)
(* Two levels so that TLC's workers share the pairs (initial states are processed by one thread).  *)
MCInit == a \in BV(W) /\ b = <<>> /\ ph = 0
Pair == ph = 0 /\ ph' = 1 /\ a' = a /\ b' \in BV(WP)
MCNext == Pair
MCSpec == MCInit /\ [][MCNext]_mcvars

Emit == (ph = 0) => PrintT(<<"H", a>>)

(* integer value of a short bit string, by Horner's rule, and the n-bit encoding of a natural number *)
RECURSIVE Val(_)
Val(x) == IF x = <<>> THEN 0 ELSE 2 * Val(SubSeq(x, 1, Len(x) - 1)) + x[Len(x)]
NatBits(v, n) == [i \in 1..n |-> (v \div (2 ^ (n - i))) % 2]
RECURSIVE BytesVal(_)
BytesVal(bs) == IF bs = <<>> THEN 0 ELSE 256 * BytesVal(SubSeq(bs, 1, Len(bs) - 1)) + bs[Len(bs)]
(* v.bit_length(): the least n with v < 2^n *)
BitLength(v) == CHOOSE n \in 0..(W + WP + 1) : v < 2 ^ n /\ (n = 0 \/ v >= 2 ^ (n - 1))

(* laws about a alone are evaluated once per a, in the phase-1 state with b = <<>> *)
U == ph = 1 /\ b = <<>>

TypeOK == a \in Seq(Bit) /\ b \in Seq(Bit) /\ ph \in {0, 1}

(* ---- construction ---- *)
L_NatBitsVal   == U => NatBits(Val(a), Len(a)) = a
L_StripVal     == U => /\ Val(Strip(a)) = Val(a)
                       /\ Width(a) = BitLength(Val(a))
                       /\ Len(Strip(a)) = Width(a)
L_NewMinimal   == U => New(a, 0) = Ok(B(NatBits(Val(a), BitLength(Val(a)))))
L_NewFit       == U => \A n \in 1..(W + 1) :
                           IF Val(a) >= 2 ^ n THEN New(a, n) = Raised
                           ELSE New(a, n) = Ok(B(NatBits(Val(a), n)))
L_NewKeeps     == U => (Len(a) > 0 => New(a, Len(a)) = Ok(B(a)))
L_FromSequence == U => FromSequence(a) = New(a, 0)
(* ---- bytes ---- *)
L_BytesLen     == U => /\ Len(ToBytes(a)) = (Len(a) + 7) \div 8
                       /\ \A j \in 1..Len(ToBytes(a)) : ToBytes(a)[j] \in 0..255
L_BytesVal     == U => BytesVal(ToBytes(a)) = Val(a)
L_BytesRound   == U => NewFromBytes(ToBytes(a), Len(a)) = (IF Len(a) = 0 THEN Ok(B(Strip(a))) ELSE Ok(B(a)))
L_BytesBits    == U => /\ Val(BytesToBits(ToBytes(a))) = Val(a)
                       /\ Len(BytesToBits(ToBytes(a))) = 8 * Len(ToBytes(a))
(* ---- concat / higher / lower / halves ---- *)
L_ConcatHigher == Higher(Concat(a, b), Len(a)) = Ok(B(a))
L_ConcatLower  == Lower(Concat(a, b), Len(b)) = Ok(B(b))
L_ConcatVal    == /\ Val(Concat(a, b)) = Val(a) * (2 ^ Len(b)) + Val(b)
                  /\ Len(Concat(a, b)) = Len(a) + Len(b)
L_Split        == U => \A k \in 0..Len(a) : Higher(a, k).res.v \o Lower(a, Len(a) - k).res.v = a
L_HigherVal    == U => \A k \in 0..Len(a) : Val(Higher(a, k).res.v) = Val(a) \div (2 ^ (Len(a) - k))
L_LowerVal     == U => \A k \in 0..Len(a) : Val(Lower(a, k).res.v) = Val(a) % (2 ^ k)
L_Refuse       == U => /\ Higher(a, Len(a) + 1) = Raised /\ Lower(a, Len(a) + 1) = Raised
                       /\ Higher(a, -1) = Raised /\ Lower(a, -1) = Raised
L_HalvesNoPad  == U => /\ HalvesNoPad(a)[1].v \o HalvesNoPad(a)[2].v = a
                       /\ HalvesNoPad(a)[2].n = (Len(a) + 1) \div 2
L_Halves       == U => /\ Halves(a)[1].n = (Len(a) + 1) \div 2 /\ Halves(a)[2].n = (Len(a) + 1) \div 2
                       /\ Val(Halves(a)[1].v) * (2 ^ Halves(a)[2].n) + Val(Halves(a)[2].v) = Val(a)
(* ---- bitwise ---- *)
L_OpLen        == /\ Len(And(a, b)) = Max(Len(a), Len(b)) /\ Len(Or(a, b)) = Max(Len(a), Len(b))
                  /\ Len(Xor(a, b)) = Max(Len(a), Len(b))
L_XorInvol     == Xor(Xor(a, b), b) = ZExt(a, Max(Len(a), Len(b)))
L_XorSelf      == U => Xor(a, a) = Zeros(Len(a))
L_AndOrSum     == Val(And(a, b)) + Val(Or(a, b)) = Val(a) + Val(b)
L_XorVal       == Val(Xor(a, b)) = Val(Or(a, b)) - Val(And(a, b))
L_Commut       == And(a, b) = And(b, a) /\ Or(a, b) = Or(b, a) /\ Xor(a, b) = Xor(b, a)
L_Absorb       == And(a, Or(a, b)) = ZExt(a, Max(Len(a), Len(b)))
L_NotNot       == U => Not(Not(a)) = a
L_NotVal       == U => Val(Not(a)) = (2 ^ Len(a)) - 1 - Val(a)
L_DeMorgan     == Len(a) = Len(b) => Not(And(a, b)) = Or(Not(a), Not(b))
(* ---- shifts ---- *)
L_ShlVal       == U => \A k \in 0..(Len(a) + 2) : /\ Val(Shl(a, k)) = (Val(a) * (2 ^ k)) % (2 ^ Len(a))
                                                  /\ Len(Shl(a, k)) = Len(a)
L_ShrVal       == U => \A k \in 0..(Len(a) + 2) : /\ Val(Shr(a, k)) = Val(a) \div (2 ^ k)
                                                  /\ Len(Shr(a, k)) = Len(a)
(* ---- observers ---- *)
L_Eq           == Eq(a, b) <=> (Len(a) = Len(b) /\ Val(a) = Val(b))
L_ToInt        == U => /\ Val(ToInt(a)) = Val(a)
                       /\ (ToInt(a) = <<>> \/ ToInt(a)[1] = 1)
L_Chars        == U => /\ Len(Chars(a)) = Len(a)
                       /\ \A i \in 1..Len(a) : (Chars(a)[i] = "1") <=> GetItem(a, i - 1)
L_Iter         == U => Bools(a) = [i \in 1..Len(a) |-> GetItem(a, i - 1)]
L_SetGet       == U => \A i \in 0..(Len(a) - 1), t \in Bit :
                           /\ GetItem(SetItem(a, i, t), i) = (t = 1)
                           /\ \A j \in 0..(Len(a) - 1) : j # i => GetItem(SetItem(a, i, t), j) = GetItem(a, j)
(* ---- slices ---- *)
None == <<>>
Sl(x, y, z) == [start |-> x, stop |-> y, step |-> z]
Bounds == {None} \cup {<<i>> : i \in (0 - W - 2)..(W + 2)}
Steps  == {None, <<-3>>, <<-2>>, <<-1>>, <<1>>, <<2>>, <<3>>}
L_SliceAll     == U => GetSlice(a, Sl(None, None, None)) = Ok(Bools(a))
L_SliceRev     == U => GetSlice(a, Sl(None, None, <<-1>>)) = Ok(Reversed(a))
L_SliceOne     == U => \A i \in 0..(Len(a) - 1) : GetSlice(a, Sl(<<i>>, <<i + 1>>, None)) = Ok(<<GetItem(a, i)>>)
L_SliceSplit   == U => \A i \in 0..Len(a) :
                           GetSlice(a, Sl(None, <<i>>, None)).res \o GetSlice(a, Sl(<<i>>, None, None)).res = Bools(a)
L_SliceNeg     == U => \A k \in 1..Len(a) : GetSlice(a, Sl(<<0 - k>>, None, None)).res = Bools(Lower(a, k).res.v)
L_SliceZero    == U => GetSlice(a, Sl(None, None, <<0>>)) = Raised
(* every slice selects in-range positions, equidistant in the direction of the step, starting at the  *)
(* clamped start, and is maximal: the next position would be at or beyond the clamped stop            *)
L_SliceShape   == U => \A x \in Bounds, y \in Bounds, z \in Steps :
                           LET s == Sl(x, y, z)
                               ps == SlicePositions(s, Len(a))
                               st == SliceStep(s)
                               nxt == SliceStart(s, Len(a)) + Len(ps) * st
                           IN  /\ \A i \in 1..Len(ps) : ps[i] \in 0..(Len(a) - 1)
                               /\ \A i \in 1..(Len(ps) - 1) : ps[i + 1] = ps[i] + st
                               /\ Len(ps) > 0 => ps[1] = SliceStart(s, Len(a))
                               /\ IF st > 0 THEN nxt >= SliceStop(s, Len(a)) ELSE nxt <= SliceStop(s, Len(a))
(* ---- what Sequence derives ---- *)
L_Count        == U => /\ Count(a, TRUE) + Count(a, FALSE) = Len(a)
                       /\ Contains(a, TRUE) <=> Count(a, TRUE) > 0
L_Index        == U => \A t \in BOOLEAN : Contains(a, t) => GetItem(a, IndexOf(a, t)) = t
=============================================================================
