---------------------------- MODULE APA_ClientSM ----------------------------
(* Apalache wrapper: the inductive invariant of ClientSM, proving Prereq and Searchable for ALL behaviours. *)
EXTENDS Naturals, Sequences
VARIABLES
  \* @type: Bool;
  exists,
  \* @type: Bool;
  cc,
  \* @type: Bool;
  cu,
  \* @type: Bool;
  kc,
  \* @type: Bool;
  de,
  \* @type: Bool;
  du,
  \* @type: Int;
  keyVer,
  \* @type: Int;
  edbVer,
  \* @type: Int;
  st
INSTANCE ClientSM

TypeInv == /\ exists \in BOOLEAN /\ cc \in BOOLEAN /\ cu \in BOOLEAN /\ kc \in BOOLEAN /\ de \in BOOLEAN /\ du \in BOOLEAN
           /\ keyVer \in 0..1 /\ edbVer \in 0..1 /\ st \in 0..2
IndInv == /\ TypeInv /\ Prereq /\ Searchable
          /\ (cc <=> exists)
          /\ (kc <=> keyVer = 1)
          /\ (de => edbVer = keyVer) /\ (~de => edbVer = 0)
IndInit == IndInv
=============================================================================
