--------------------------- MODULE PersistClient ---------------------------
(***************************************************************************)
(* Layer B for C13, client side: the persisting client handlers (create,   *)
(* generate key, encrypt database, upload-config echo, upload-index echo)  *)
(* as sequences of file-system operations, the loader of Service(sid), a   *)
(* kill between any two operations, and an operator who re-runs the        *)
(* command that was interrupted.  The server is reliable here (its side is *)
(* Persist.tla): `sst` is its state and the client flags cu/du are synced  *)
(* from it at every connect, as the code does.                             *)
(* Fixed = TRUE: service_meta via temp file + rename.  FALSE: in place.    *)
(***************************************************************************)
EXTENDS Integers, Sequences, TLC
CONSTANTS Fixed, MaxCrashes

VARIABLES dir, cfg, meta, metaVal, key, edb, tmp, tmpVal,   \* durable
          mem,                                              \* flags of the live Service object [cc,kc,de]
          sst,                                              \* server state
          prog, pc, phase, crashes
vars == <<dir, cfg, meta, metaVal, key, edb, tmp, tmpVal, mem, sst, prog, pc, phase, crashes>>

NoFlags == [cc |-> FALSE, kc |-> FALSE, de |-> FALSE]
MetaW == IF Fixed THEN <<"open_tmp", "write_tmp", "close_tmp", "rename_meta">>
                  ELSE <<"open_meta", "write_meta", "close_meta">>
ProgOf(h) ==
    CASE h = "create"  -> <<"mkdir", "open_cfg", "write_cfg", "close_cfg", "setcc">> \o MetaW \o <<"ret">>
      [] h = "genkey"  -> <<"open_key", "write_key", "close_key", "setkc">> \o MetaW \o <<"ret">>
      [] h = "encrypt" -> <<"open_edb", "write_edb", "close_edb", "setde">> \o MetaW \o <<"ret">>
      [] h = "upcfg"   -> <<"srv1">> \o MetaW \o <<"ret">>
      [] h = "upidx"   -> <<"srv2">> \o MetaW \o <<"unlink_edb", "ret">>
FsOps(p) == SelectSeq(p, LAMBDA o : o \notin {"setcc", "setkc", "setde", "srv1", "srv2", "ret"})

Init == /\ dir = FALSE /\ cfg = "absent" /\ meta = "absent" /\ metaVal = NoFlags /\ key = "absent" /\ edb = "absent"
        /\ tmp = "absent" /\ tmpVal = NoFlags /\ mem = NoFlags /\ sst = 0
        /\ prog = <<>> /\ pc = 0 /\ phase = "load" /\ crashes = 0

(* Service(sid).__init__: check_sid_local_file_valid, then read config and meta *)
Valid == dir /\ cfg # "absent" /\ meta # "absent"
LoadFails == Valid /\ (cfg # "full" \/ meta # "full")

Load == /\ phase = "load" /\ prog = <<>>
        /\ IF LoadFails THEN phase' = "unusable" /\ mem' = mem
           ELSE /\ mem' = IF Valid THEN metaVal ELSE NoFlags
                /\ phase' = "act"
        /\ UNCHANGED <<dir, cfg, meta, metaVal, key, edb, tmp, tmpVal, sst, prog, pc, crashes>>

(* the operator runs the next command of the workflow, judged by the flags of the loaded object and the server state *)
NextCmd == IF ~mem.cc THEN "create"
           ELSE IF ~mem.kc THEN "genkey"
           ELSE IF ~mem.de /\ sst < 2 THEN "encrypt"
           ELSE IF sst = 0 THEN "upcfg"
           ELSE IF sst = 1 THEN "upidx"
           ELSE "search"
Act == /\ phase = "act" /\ prog = <<>>
       /\ IF NextCmd = "search"
          THEN /\ phase' = (IF key = "full" /\ cfg = "full" THEN "done" ELSE "stuck") /\ UNCHANGED <<prog, pc>>
          ELSE IF NextCmd = "upidx" /\ edb # "full"
          THEN phase' = "stuck" /\ UNCHANGED <<prog, pc>>                \* nothing (complete) to upload
          ELSE prog' = ProgOf(NextCmd) /\ pc' = 1 /\ phase' = "act"
       /\ UNCHANGED <<dir, cfg, meta, metaVal, key, edb, tmp, tmpVal, mem, sst, crashes>>

Keep == UNCHANGED <<prog, phase>>
W(f, v) == f' = v
Step ==
  /\ prog # <<>> /\ pc <= Len(prog)
  /\ LET op == prog[pc] IN
     /\ pc' = pc + 1
     /\ CASE op = "mkdir"     -> dir' = TRUE /\ Keep /\ UNCHANGED <<cfg, meta, metaVal, key, edb, tmp, tmpVal, mem, sst>>
          [] op = "open_cfg"  -> cfg' = "empty" /\ Keep /\ UNCHANGED <<dir, meta, metaVal, key, edb, tmp, tmpVal, mem, sst>>
          [] op = "write_cfg" -> cfg' \in {"empty", "partial"} /\ Keep /\ UNCHANGED <<dir, meta, metaVal, key, edb, tmp, tmpVal, mem, sst>>
          [] op = "close_cfg" -> cfg' = "full" /\ Keep /\ UNCHANGED <<dir, meta, metaVal, key, edb, tmp, tmpVal, mem, sst>>
          [] op = "open_key"  -> key' = "empty" /\ Keep /\ UNCHANGED <<dir, cfg, meta, metaVal, edb, tmp, tmpVal, mem, sst>>
          [] op = "write_key" -> key' \in {"empty", "partial"} /\ Keep /\ UNCHANGED <<dir, cfg, meta, metaVal, edb, tmp, tmpVal, mem, sst>>
          [] op = "close_key" -> key' = "full" /\ Keep /\ UNCHANGED <<dir, cfg, meta, metaVal, edb, tmp, tmpVal, mem, sst>>
          [] op = "open_edb"  -> edb' = "empty" /\ Keep /\ UNCHANGED <<dir, cfg, meta, metaVal, key, tmp, tmpVal, mem, sst>>
          [] op = "write_edb" -> edb' \in {"empty", "partial"} /\ Keep /\ UNCHANGED <<dir, cfg, meta, metaVal, key, tmp, tmpVal, mem, sst>>
          [] op = "close_edb" -> edb' = "full" /\ Keep /\ UNCHANGED <<dir, cfg, meta, metaVal, key, tmp, tmpVal, mem, sst>>
          [] op = "unlink_edb"-> edb' = "absent" /\ Keep /\ UNCHANGED <<dir, cfg, meta, metaVal, key, tmp, tmpVal, mem, sst>>
          [] op = "setcc"     -> mem' = [mem EXCEPT !.cc = TRUE] /\ Keep /\ UNCHANGED <<dir, cfg, meta, metaVal, key, edb, tmp, tmpVal, sst>>
          [] op = "setkc"     -> mem' = [mem EXCEPT !.kc = TRUE] /\ Keep /\ UNCHANGED <<dir, cfg, meta, metaVal, key, edb, tmp, tmpVal, sst>>
          [] op = "setde"     -> mem' = [mem EXCEPT !.de = TRUE] /\ Keep /\ UNCHANGED <<dir, cfg, meta, metaVal, key, edb, tmp, tmpVal, sst>>
          [] op = "srv1"      -> sst' = 1 /\ Keep /\ UNCHANGED <<dir, cfg, meta, metaVal, key, edb, tmp, tmpVal, mem>>
          [] op = "srv2"      -> sst' = 2 /\ Keep /\ UNCHANGED <<dir, cfg, meta, metaVal, key, edb, tmp, tmpVal, mem>>
          [] op = "open_meta" -> meta' = "empty" /\ Keep /\ UNCHANGED <<dir, cfg, metaVal, key, edb, tmp, tmpVal, mem, sst>>
          [] op = "write_meta"-> meta' \in {"empty", "partial"} /\ Keep /\ UNCHANGED <<dir, cfg, metaVal, key, edb, tmp, tmpVal, mem, sst>>
          [] op = "close_meta"-> meta' = "full" /\ metaVal' = mem /\ Keep /\ UNCHANGED <<dir, cfg, key, edb, tmp, tmpVal, mem, sst>>
          [] op = "open_tmp"  -> tmp' = "empty" /\ tmpVal' = mem /\ Keep /\ UNCHANGED <<dir, cfg, meta, metaVal, key, edb, mem, sst>>
          [] op = "write_tmp" -> tmp' \in {"empty", "partial"} /\ Keep /\ UNCHANGED <<dir, cfg, meta, metaVal, key, edb, tmpVal, mem, sst>>
          [] op = "close_tmp" -> tmp' = "full" /\ Keep /\ UNCHANGED <<dir, cfg, meta, metaVal, key, edb, tmpVal, mem, sst>>
          [] op = "rename_meta" -> meta' = tmp /\ metaVal' = tmpVal /\ tmp' = "absent" /\ Keep /\ UNCHANGED <<dir, cfg, key, edb, tmpVal, mem, sst>>
          [] op = "ret"       -> prog' = <<>> /\ phase' = "load"        \* the command ends; the next one loads a fresh object
                                 /\ UNCHANGED <<dir, cfg, meta, metaVal, key, edb, tmp, tmpVal, mem, sst>>
  /\ UNCHANGED crashes

(* kill between two steps.  A create that did not return never told the user its sid: the retry makes a new service *)
Crash == /\ prog # <<>> /\ crashes < MaxCrashes /\ crashes' = crashes + 1
         /\ prog' = <<>> /\ pc' = 0 /\ phase' = "load"
         /\ IF prog = ProgOf("create")
            THEN /\ dir' = FALSE /\ cfg' = "absent" /\ meta' = "absent" /\ metaVal' = NoFlags /\ tmp' = "absent"
                 /\ UNCHANGED <<key, edb, tmpVal, mem, sst>>
            ELSE UNCHANGED <<dir, cfg, meta, metaVal, key, edb, tmp, tmpVal, mem, sst>>

Next == Load \/ Act \/ Step \/ Crash
Spec == Init /\ [][Next]_vars
FairSpec == Spec /\ WF_vars(Load) /\ WF_vars(Act) /\ WF_vars(Step)
(* everything but the crash counter (see Persist!NoCrashCount) *)
NoCrashCount == <<dir, cfg, meta, metaVal, key, edb, tmp, tmpVal, mem, sst, prog, pc, phase>>
Usable == phase \notin {"unusable", "stuck"}
MetaNeverTorn == Fixed => meta \in {"absent", "full"}
Reaches == <>(phase = "done")
=============================================================================
