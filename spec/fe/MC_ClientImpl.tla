--------------------------- MODULE MC_ClientImpl ---------------------------
(***************************************************************************)
(* Generator for the binding of ClientImpl (Layer B of C11 / C09): every   *)
(* history of client commands up to depth D in which at least one upload   *)
(* echo is lost on the way (symbols "upconfig!" / "upindex!": the server   *)
(* accepts and stores, the client never hears of it) and in which the      *)
(* server may be restarted between two commands ("restart").  The harness  *)
(* replays each on the real client and server (dropping the echo where the *)
(* history says so) and Trace_ClientImpl judges the recorded run.          *)
(* Lossless histories are C11's own alphabet (MC_ClientSM) and are left    *)
(* out here.                                                               *)
(***************************************************************************)
EXTENDS ClientImpl, TLC
CONSTANT D
VARIABLE hist
mvars == <<ivars, hist>>

Outs == {"ok", "refused", "noecho"}
Sym(s) ==
    CASE s = "create"    -> \E o \in Outs : Create(o)
      [] s = "genkey"    -> \E o \in Outs : GenKey(o)
      [] s = "encrypt"   -> \E o \in Outs : Encrypt(o)
      [] s = "upconfig"  -> \E o \in {"ok", "refused"} : UpConfig(o, FALSE)
      [] s = "upconfig!" -> UpConfig("noecho", TRUE)              \* enabled only where the server accepts and a loss is left
      [] s = "upindex"   -> \E o \in {"ok", "refused"} : UpIndex(o, FALSE)
      [] s = "upindex!"  -> UpIndex("noecho", TRUE)
      [] s = "search"    -> \E o \in Outs, c \in BOOLEAN : Search(o, c)
      [] s = "restart"   -> UNCHANGED ivars                         \* the server's state is durable
Syms == {"create", "genkey", "encrypt", "upconfig", "upconfig!", "upindex", "upindex!", "search", "restart"}

MCInit == Init /\ hist = <<>>
MCNext == /\ Len(hist) < D
          /\ \E s \in Syms :
                /\ (s = "restart" => (IF hist = <<>> THEN FALSE ELSE hist[Len(hist)] # "restart" /\ st > 0))   \* only restarts that can matter
                /\ Sym(s) /\ hist' = Append(hist, s)
MCSpec == MCInit /\ [][MCNext]_mvars

\* ---- the goal-directed driver of ClientImpl (DriverNext), as a generator: every way the documented workflow can run when up to
\* MaxLost echoes are lost; a history ends with the first search
DrvSyms == IF ~disk.cc THEN {"create"} ELSE IF ~disk.kc THEN {"genkey"} ELSE IF ~disk.de /\ ~disk.du THEN {"encrypt"}
           ELSE IF ~disk.cu THEN {"upconfig", "upconfig!"} ELSE IF ~disk.du THEN {"upindex", "upindex!"} ELSE {"search"}
LastIsSearch == IF hist = <<>> THEN FALSE ELSE hist[Len(hist)] = "search"
DrvNext == /\ ~LastIsSearch /\ Len(hist) < 20
           /\ \E s \in DrvSyms : Sym(s) /\ hist' = Append(hist, s)
DrvSpec == MCInit /\ [][DrvNext]_mvars
DrvEmit == LastIsSearch => PrintT(<<"H", hist>>)
DrvEndsInGoal == LastIsSearch => Goal

\* only histories with a loss, and whose last command is one that connects (it shows whether the lag was repaired)
Interesting == Len(hist) = D /\ lost > 0 /\ hist[D] \in {"upconfig", "upindex", "search"}
Emit == Interesting => PrintT(<<"H", hist>>)
=============================================================================
