------------------------------ MODULE Persist ------------------------------
(***************************************************************************)
(* Layer B for C13, server side: persistence of ONE service as sequences   *)
(* of file-system operations, with a process kill between any two of them. *)
(*                                                                         *)
(* Fixed = TRUE  : the code after "fix: keep a service usable when the     *)
(*                 process dies between two file operations"               *)
(*                 (service_meta via temp file + rename, written last;     *)
(*                 loader: no meta => state 0, config read only when the   *)
(*                 state is not 0; mkdir(exist_ok=True)).                  *)
(* Fixed = FALSE : the code at 0676006 (regression: must violate Usable).  *)
(*                                                                         *)
(* A file is "absent" | "empty" | "partial" | "full".  Python's buffered   *)
(* writer reaches the disk at close; a process killed while a file is open *)
(* for writing leaves it empty, partial or full - `write` therefore picks  *)
(* "empty" or "partial" and `close` makes it "full".                       *)
(*                                                                         *)
(* An operator drives the workflow: connect (the loader runs), send the    *)
(* request the reported state asks for, close (the cleanup rewrites the    *)
(* meta file from the in-memory state), repeat; done when a search can be  *)
(* answered.                                                               *)
(***************************************************************************)
EXTENDS Integers, Sequences, TLC
CONSTANTS Fixed, MaxCrashes

VARIABLES dir, cfg, meta, metaVal, edb,   \* durable: folder bit, three files, state stored in a full meta
          tmp, tmpVal,                     \* the temporary meta file and the state it holds
          prog, pc,                        \* program being executed and position in it
          snap,                            \* in-memory state of the Service object (-1 = no connection)
          phase,                           \* "connect" | "act" | "cleanup" | "done" | "unusable" | "stuck"
          crashes
vars == <<dir, cfg, meta, metaVal, edb, tmp, tmpVal, prog, pc, snap, phase, crashes>>

CfgProgOld == <<"mkdir", "open_cfg", "write_cfg", "close_cfg", "set1", "open_meta", "write_meta", "close_meta", "echo">>
UpProgOld  == <<"open_edb", "write_edb", "close_edb", "set2", "open_meta", "write_meta", "close_meta", "echo">>
CleanOld   == <<"open_meta", "write_meta", "close_meta", "closed">>
MetaNew    == <<"open_tmp", "write_tmp", "close_tmp", "rename_meta">>
CfgProgNew == <<"mkdir_ok", "open_cfg", "write_cfg", "close_cfg", "set1">> \o MetaNew \o <<"echo">>
UpProgNew  == <<"open_edb", "write_edb", "close_edb", "set2">> \o MetaNew \o <<"echo">>
CleanNew   == MetaNew \o <<"closed">>
CfgProg == IF Fixed THEN CfgProgNew ELSE CfgProgOld
UpProg  == IF Fixed THEN UpProgNew ELSE UpProgOld
Clean   == IF Fixed THEN CleanNew ELSE CleanOld

(* the FS-visible part of each program, as the harness records it from the real handlers (binding) *)
FsOps(p) == SelectSeq(p, LAMBDA o : o \notin {"set1", "set2", "echo", "closed"})

Init == /\ dir = FALSE /\ cfg = "absent" /\ meta = "absent" /\ metaVal = 0 /\ edb = "absent"
        /\ tmp = "absent" /\ tmpVal = 0 /\ prog = <<>> /\ pc = 0 /\ snap = -1 /\ phase = "connect" /\ crashes = 0

(* Service.load_stored_state: the state it reports, or -2 for an exception in the constructor *)
LoadOld == IF ~dir THEN 0 ELSE IF cfg # "full" \/ meta # "full" THEN -2 ELSE metaVal
LoadNew == IF ~dir \/ meta = "absent" THEN 0
           ELSE IF meta # "full" THEN -2
           ELSE IF metaVal = 0 THEN 0
           ELSE IF cfg # "full" THEN -2 ELSE metaVal
Load == IF Fixed THEN LoadNew ELSE LoadOld

Connect == /\ phase = "connect" /\ prog = <<>>
           /\ IF Load = -2 THEN phase' = "unusable" /\ snap' = snap
              ELSE snap' = Load /\ phase' = "act"
           /\ UNCHANGED <<dir, cfg, meta, metaVal, edb, tmp, tmpVal, prog, pc, crashes>>

(* the operator does what the reported state asks for *)
Act == /\ phase = "act" /\ prog = <<>>
       /\ CASE snap = 0 -> prog' = CfgProg /\ pc' = 1 /\ phase' = "act"
            [] snap = 1 -> prog' = UpProg /\ pc' = 1 /\ phase' = "act"
            [] snap = 2 -> prog' = prog /\ pc' = pc /\ phase' = (IF edb = "full" /\ cfg = "full" THEN "done" ELSE "stuck")
       /\ UNCHANGED <<dir, cfg, meta, metaVal, edb, tmp, tmpVal, snap, crashes>>

Stay == UNCHANGED <<prog, phase>>
Step ==
  /\ prog # <<>> /\ pc <= Len(prog)
  /\ LET op == prog[pc] IN
     /\ (IF op \in {"echo", "closed"} THEN TRUE ELSE pc' = pc + 1)
     /\ CASE op = "mkdir"     -> IF dir THEN /\ prog' = <<>> /\ phase' = "stuck"                      \* FileExistsError, for ever
                                        /\ UNCHANGED <<dir, cfg, meta, metaVal, edb, tmp, tmpVal, snap>>
                                 ELSE dir' = TRUE /\ Stay /\ UNCHANGED <<cfg, meta, metaVal, edb, tmp, tmpVal, snap>>
          [] op = "mkdir_ok"  -> dir' = TRUE /\ Stay /\ UNCHANGED <<cfg, meta, metaVal, edb, tmp, tmpVal, snap>>
          [] op = "open_cfg"  -> cfg' = "empty" /\ Stay /\ UNCHANGED <<dir, meta, metaVal, edb, tmp, tmpVal, snap>>
          [] op = "write_cfg" -> cfg' \in {"empty", "partial"} /\ Stay /\ UNCHANGED <<dir, meta, metaVal, edb, tmp, tmpVal, snap>>
          [] op = "close_cfg" -> cfg' = "full" /\ Stay /\ UNCHANGED <<dir, meta, metaVal, edb, tmp, tmpVal, snap>>
          [] op = "open_edb"  -> edb' = "empty" /\ Stay /\ UNCHANGED <<dir, cfg, meta, metaVal, tmp, tmpVal, snap>>
          [] op = "write_edb" -> edb' \in {"empty", "partial"} /\ Stay /\ UNCHANGED <<dir, cfg, meta, metaVal, tmp, tmpVal, snap>>
          [] op = "close_edb" -> edb' = "full" /\ Stay /\ UNCHANGED <<dir, cfg, meta, metaVal, tmp, tmpVal, snap>>
          [] op = "open_meta" -> (IF dir THEN meta' = "empty" ELSE meta' = meta) /\ Stay /\ UNCHANGED <<dir, cfg, metaVal, edb, tmp, tmpVal, snap>>
          [] op = "write_meta"-> (IF dir THEN meta' \in {"empty", "partial"} ELSE meta' = meta) /\ Stay /\ UNCHANGED <<dir, cfg, metaVal, edb, tmp, tmpVal, snap>>
          [] op = "close_meta"-> (IF dir THEN meta' = "full" /\ metaVal' = snap ELSE UNCHANGED <<meta, metaVal>>) /\ Stay /\ UNCHANGED <<dir, cfg, edb, tmp, tmpVal, snap>>
          [] op = "set1"      -> snap' = 1 /\ Stay /\ UNCHANGED <<dir, cfg, meta, metaVal, edb, tmp, tmpVal>>
          [] op = "set2"      -> snap' = 2 /\ Stay /\ UNCHANGED <<dir, cfg, meta, metaVal, edb, tmp, tmpVal>>
          [] op = "open_tmp"  -> (IF dir THEN tmp' = "empty" /\ tmpVal' = snap ELSE UNCHANGED <<tmp, tmpVal>>) /\ Stay /\ UNCHANGED <<dir, cfg, meta, metaVal, edb, snap>>
          [] op = "write_tmp" -> (IF dir THEN tmp' \in {"empty", "partial"} ELSE tmp' = tmp) /\ Stay /\ UNCHANGED <<dir, cfg, meta, metaVal, edb, tmpVal, snap>>
          [] op = "close_tmp" -> (IF dir THEN tmp' = "full" ELSE tmp' = tmp) /\ Stay /\ UNCHANGED <<dir, cfg, meta, metaVal, edb, tmpVal, snap>>
          [] op = "rename_meta" -> (IF dir THEN meta' = tmp /\ metaVal' = tmpVal /\ tmp' = "absent" ELSE UNCHANGED <<meta, metaVal, tmp>>)
                                   /\ Stay /\ UNCHANGED <<dir, cfg, edb, tmpVal, snap>>
          [] op = "echo"      -> prog' = Clean /\ pc' = 1 /\ phase' = "cleanup"       \* the client got its echo and closes
                                 /\ UNCHANGED <<dir, cfg, meta, metaVal, edb, tmp, tmpVal, snap>>
          [] op = "closed"    -> prog' = <<>> /\ pc' = 0 /\ phase' = "connect" /\ snap' = -1
                                 /\ UNCHANGED <<dir, cfg, meta, metaVal, edb, tmp, tmpVal>>
  /\ UNCHANGED crashes

(* a connection that only connected and closed (a probe) also runs the cleanup *)
ProbeClose == /\ phase = "act" /\ prog = <<>> /\ crashes < MaxCrashes /\ crashes' = crashes + 1   \* (bounded like crashes)
              /\ prog' = Clean /\ pc' = 1 /\ phase' = "cleanup"
              /\ UNCHANGED <<dir, cfg, meta, metaVal, edb, tmp, tmpVal, snap>>

(* kill -9 between any two steps: volatile state is gone, files stay as they are *)
Crash == /\ prog # <<>> /\ crashes < MaxCrashes
         /\ prog' = <<>> /\ pc' = 0 /\ snap' = -1 /\ phase' = "connect" /\ crashes' = crashes + 1
         /\ UNCHANGED <<dir, cfg, meta, metaVal, edb, tmp, tmpVal>>

Next == Connect \/ Act \/ Step \/ ProbeClose \/ Crash
Spec == Init /\ [][Next]_vars
FairSpec == Spec /\ WF_vars(Connect) /\ WF_vars(Act) /\ WF_vars(Step)

(* everything but the crash counter: with this VIEW and a bound far above the diameter TLC covers ANY number of crashes *)
NoCrashCount == <<dir, cfg, meta, metaVal, edb, tmp, tmpVal, prog, pc, snap, phase>>
Usable == phase \notin {"unusable", "stuck"}
(* after a crash the reported state is the state before or after the interrupted step: never beyond what is durable *)
ReportedDurable == (phase = "act" /\ snap = 2) => (edb = "full" /\ cfg = "full")
MetaNeverTorn == Fixed => meta \in {"absent", "full"}
Reaches == <>(phase = "done")
=============================================================================
