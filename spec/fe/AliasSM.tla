------------------------------- MODULE AliasSM -------------------------------
(***************************************************************************)
(* Growth beyond the listed properties (anchored in C11's files):          *)
(* frontend/client/services/service_name_handler.py - the registry that    *)
(* maps a service alias (sname) to its sid, kept in one JSON file and      *)
(* cached in the process.                                                  *)
(*   record(n, s): refused (KeyError) if n is already recorded, else stored*)
(*   get(n):       the recorded sid, or refused (KeyError)                 *)
(*   restart:      a new process: the in-process cache is gone             *)
(* Reference behaviour: a write-once map that survives restarts.           *)
(***************************************************************************)
EXTENDS Naturals, Sequences
CONSTANTS Names, Sids
VARIABLE reg            \* reg[n] \in Sids \cup {"none"}
Init == reg = [n \in Names |-> "none"]
Record(n, s, out) == IF reg[n] = "none" THEN out = "ok" /\ reg' = [reg EXCEPT ![n] = s]
                                        ELSE out = "refused" /\ UNCHANGED reg
Get(n, out, res) == /\ IF reg[n] = "none" THEN out = "refused" /\ res = "none" ELSE out = "ok" /\ res = reg[n]
                    /\ UNCHANGED reg
Restart == UNCHANGED reg
Next == \/ \E n \in Names, s \in Sids, o \in {"ok", "refused"} : Record(n, s, o)
        \/ \E n \in Names, o \in {"ok", "refused"}, r \in Sids \cup {"none"} : Get(n, o, r)
        \/ Restart
Spec == Init /\ [][Next]_reg
WriteOnce == [][\A n \in Names : reg[n] # "none" => reg'[n] = reg[n]]_reg
=============================================================================
