---------------------------- MODULE ServerImpl ----------------------------
(***************************************************************************)
(* Layer B for C12 (and the sequential restriction used by C10):           *)
(* frontend/server/services/services_manager.py + service.py for ONE sid,  *)
(* as written after the "fix: serve overlapping connections ..." commit.   *)
(*                                                                         *)
(* Atomicity follows asyncio: a step runs from one suspension point to the *)
(* next; awaiting a done future or acquiring a free Lock does not suspend. *)
(* Scheduling is over-approximated: any runnable task may take the next    *)
(* step.  One ordering fact of asyncio is assumed and stated as (A1).      *)
(*                                                                         *)
(*   create_service:                                                       *)
(*     service = Service(sid, ws)          \* loads snapshot, init echo    *)
(*     if sid in dict: CONTROL; enqueue (service, turn); await turn;       *)
(*                     service.load_stored_state()                         *)
(*     else:           dict[sid] = service                                 *)
(*     clean_task = create_task(clean(sid, ws)); await service.start()     *)
(*   clean:  await ws.wait_closed(); async with lock: sleep(1);            *)
(*           dict[sid].close_service(); del dict[sid];                     *)
(*           if waiting: dict[sid] = next; turn.set_result()               *)
(***************************************************************************)
EXTENDS Naturals, Sequences, FiniteSets, TLC

CONSTANTS Conn,      \* connection ids, e.g. {1,2,3}
          MaxSend,   \* requests per connection
          Req        \* subset of {"cfg1","cfg2","up1","up2","search"}

NoC == 0
VARIABLES disk,     \* durable record [dir, st, cfg, idx]
          ws,       \* per connection: "new" | "open" | "closed"
          inbox,    \* per connection: requests received and not yet processed
          sent,     \* per connection: number of requests sent (bound)
          snap,     \* per connection: the Service object's in-memory state (service_meta["state"])
          pcM,      \* main task: "new" | "waitTurn" | "serve" | "done" | "dead"
          turn,     \* per connection: its turn future is done
          pcC,      \* cleanup task: "none" | "waitClosed" | "locked" | "sleep" | "done"
          reg,      \* _service_dict[sid] (NoC = absent)
          waiting,  \* _waiting_dict[sid]
          lock,     \* holder of _access_dict_lock (<<>> = free)
          lockQ,    \* FIFO waiters of the lock
          outq,     \* per connection: replies scheduled (send tasks created) and not yet written to the socket
          opened,   \* connections in the order they were opened (history, for Serialised)
          ackC, ackX \* acknowledged configuration / index (history, for AckDurable)
vars == <<disk, ws, inbox, sent, snap, pcM, turn, pcC, reg, waiting, lock, lockQ, outq, opened, ackC, ackX>>

KindOf(r) == CASE r \in {"cfg1", "cfg2"} -> "config" [] r \in {"up1", "up2"} -> "upload" [] OTHER -> "search"
NumOf(r) == IF r \in {"cfg1", "up1"} THEN 1 ELSE 2
LockFree == lock = <<>> /\ lockQ = <<>>

Init == /\ disk = [dir |-> FALSE, st |-> 0, cfg |-> 0, idx |-> 0]
        /\ ws = [c \in Conn |-> "new"] /\ inbox = [c \in Conn |-> <<>>] /\ sent = [c \in Conn |-> 0]
        /\ snap = [c \in Conn |-> 0] /\ pcM = [c \in Conn |-> "new"] /\ turn = [c \in Conn |-> FALSE]
        /\ pcC = [c \in Conn |-> "none"] /\ reg = NoC /\ waiting = <<>> /\ lock = <<>> /\ lockQ = <<>>
        /\ outq = [c \in Conn |-> <<>>] /\ opened = <<>> /\ ackC = 0 /\ ackX = 0

(* ---------------- environment ---------------- *)
PeerSend(c, m) == /\ ws[c] = "open" /\ sent[c] < MaxSend
                  /\ inbox' = [inbox EXCEPT ![c] = Append(@, m)] /\ sent' = [sent EXCEPT ![c] = @ + 1]
                  /\ UNCHANGED <<disk, ws, snap, pcM, turn, pcC, reg, waiting, lock, lockQ, outq, opened, ackC, ackX>>
PeerClose(c) == /\ ws[c] = "open" /\ ws' = [ws EXCEPT ![c] = "closed"]
                /\ UNCHANGED <<disk, inbox, sent, snap, pcM, turn, pcC, reg, waiting, lock, lockQ, outq, opened, ackC, ackX>>

(* ---------------- create_service ---------------- *)
(* handler start: Service(sid, ws) takes the snapshot; check-and-register without an await *)
Open(c) == /\ ws[c] = "new" /\ pcM[c] = "new"
           /\ ws' = [ws EXCEPT ![c] = "open"] /\ opened' = Append(opened, c)
           /\ snap' = [snap EXCEPT ![c] = disk.st]
           /\ IF reg # NoC
              THEN /\ waiting' = Append(waiting, c) /\ pcM' = [pcM EXCEPT ![c] = "waitTurn"]
                   /\ UNCHANGED <<reg, pcC>>
              ELSE /\ reg' = c /\ pcM' = [pcM EXCEPT ![c] = "serve"]
                   /\ pcC' = [pcC EXCEPT ![c] = "waitClosed"] /\ UNCHANGED waiting
           /\ UNCHANGED <<disk, inbox, sent, turn, lock, lockQ, outq, ackC, ackX>>

(* `await turn` returns: reload the stored state, start the cleanup task, enter the receive loop *)
TurnWake(c) == /\ pcM[c] = "waitTurn" /\ turn[c]
               /\ snap' = [snap EXCEPT ![c] = disk.st]
               /\ pcM' = [pcM EXCEPT ![c] = "serve"] /\ pcC' = [pcC EXCEPT ![c] = "waitClosed"]
               /\ UNCHANGED <<disk, ws, inbox, sent, turn, reg, waiting, lock, lockQ, outq, opened, ackC, ackX>>

(* ---------------- Service._recv_message: one request ---------------- *)
(* a handler that refuses raises: the handler task ends and the server closes the socket (1011) *)
Die(c) == /\ pcM' = [pcM EXCEPT ![c] = "dead"] /\ ws' = [ws EXCEPT ![c] = "closed"]
(* A handler answers by creating a task that writes the reply (comm.send_message): the reply is only SCHEDULED here. *)
Sched(c, r) == outq' = [outq EXCEPT ![c] = Append(@, r)]
Recv(c) ==
  /\ pcM[c] = "serve" /\ inbox[c] # <<>>
  /\ inbox' = [inbox EXCEPT ![c] = Tail(@)]
  /\ LET m == Head(inbox[c]) IN
     CASE KindOf(m) = "config" ->
            IF snap[c] # 0 THEN Die(c) /\ UNCHANGED <<disk, snap, outq>>
            ELSE /\ disk' = [dir |-> TRUE, st |-> 1, cfg |-> NumOf(m), idx |-> disk.idx]      \* mkdir(exist_ok=True)
                 /\ snap' = [snap EXCEPT ![c] = 1]
                 /\ Sched(c, <<"config", NumOf(m)>>)
                 /\ UNCHANGED <<pcM, ws>>
       [] KindOf(m) = "upload" ->
            IF snap[c] # 1 THEN Die(c) /\ UNCHANGED <<disk, snap, outq>>
            ELSE /\ disk' = IF disk.dir THEN [disk EXCEPT !.idx = NumOf(m), !.st = 2] ELSE disk
                 /\ snap' = [snap EXCEPT ![c] = 2]
                 /\ Sched(c, <<"upload", NumOf(m)>>)
                 /\ UNCHANGED <<pcM, ws>>
       [] OTHER ->   \* search
            IF snap[c] # 2 THEN Die(c) /\ UNCHANGED <<disk, snap, outq>>
            ELSE Sched(c, <<"result", disk.idx>>) /\ UNCHANGED <<disk, snap, pcM, ws>>
  /\ UNCHANGED <<sent, turn, pcC, reg, waiting, lock, lockQ, opened, ackC, ackX>>
(* the send task runs: the reply reaches the client only if the socket is still open (a handler that failed in the *)
(* meantime has already put the connection into the closing state, and the reply is lost)                          *)
Deliver(c) ==
  /\ outq[c] # <<>>
  /\ outq' = [outq EXCEPT ![c] = Tail(@)]
  /\ LET r == Head(outq[c]) IN
     /\ ackC' = IF ws[c] = "open" /\ r[1] = "config" THEN r[2] ELSE ackC
     /\ ackX' = IF ws[c] = "open" /\ r[1] = "upload" THEN r[2] ELSE ackX
  /\ UNCHANGED <<disk, ws, inbox, sent, snap, pcM, turn, pcC, reg, waiting, lock, lockQ, opened>>
(* the receive loop ends when the socket is closed and the buffer is empty *)
RecvEnd(c) == /\ pcM[c] = "serve" /\ inbox[c] = <<>> /\ ws[c] = "closed"
              /\ pcM' = [pcM EXCEPT ![c] = "done"]
              /\ UNCHANGED <<disk, ws, inbox, sent, snap, turn, pcC, reg, waiting, lock, lockQ, outq, opened, ackC, ackX>>

(* ---------------- clean_service_when_close_connection ---------------- *)
CleanWake(c) == /\ pcC[c] = "waitClosed" /\ ws[c] = "closed"
                /\ IF LockFree THEN lock' = <<c>> /\ pcC' = [pcC EXCEPT ![c] = "sleep"] /\ UNCHANGED lockQ
                   ELSE lockQ' = Append(lockQ, c) /\ pcC' = [pcC EXCEPT ![c] = "locked"] /\ UNCHANGED lock
                /\ UNCHANGED <<disk, ws, inbox, sent, snap, pcM, turn, reg, waiting, outq, opened, ackC, ackX>>
CleanGotLock(c) == /\ pcC[c] = "locked" /\ lock = <<c>> /\ pcC' = [pcC EXCEPT ![c] = "sleep"]
                   /\ UNCHANGED <<disk, ws, inbox, sent, snap, pcM, turn, reg, waiting, lock, lockQ, outq, opened, ackC, ackX>>
Release == IF lockQ = <<>> THEN lock' = <<>> /\ lockQ' = lockQ
           ELSE lock' = <<Head(lockQ)>> /\ lockQ' = Tail(lockQ)
(* (A1) asyncio ordering: the close event that wakes the cleanup task also wakes the receive loop of the  *)
(* same connection, which drains its buffer and ends in that loop iteration - long before the one-second  *)
(* delay of the cleanup can elapse.  Hence the timer of c fires only after main(c) has ended.             *)
TimerFire(c) ==
  /\ pcC[c] = "sleep" /\ lock = <<c>>
  /\ pcM[c] \in {"done", "dead"}                                          \* (A1)
  /\ Release /\ pcC' = [pcC EXCEPT ![c] = "done"]
  /\ disk' = IF reg # NoC /\ disk.dir THEN [disk EXCEPT !.st = snap[reg]] ELSE disk   \* dict[sid].close_service()
  /\ IF waiting = <<>>
     THEN reg' = NoC /\ UNCHANGED <<waiting, turn>>
     ELSE reg' = Head(waiting) /\ waiting' = Tail(waiting) /\ turn' = [turn EXCEPT ![Head(waiting)] = TRUE]
  /\ UNCHANGED <<ws, inbox, sent, snap, pcM, outq, opened, ackC, ackX>>

(* The lock is ONE lock for all service ids: the cleanup of a connection of another sid may hold it for its delay. *)
(* (holder NoC = somebody else's cleanup)                                                                          *)
ForeignAcquire == /\ LockFree /\ lock' = <<NoC>>
                  /\ UNCHANGED <<disk, ws, inbox, sent, snap, pcM, turn, pcC, reg, waiting, lockQ, outq, opened, ackC, ackX>>
ForeignRelease == /\ lock = <<NoC>> /\ Release
                  /\ UNCHANGED <<disk, ws, inbox, sent, snap, pcM, turn, pcC, reg, waiting, outq, opened, ackC, ackX>>

Next == ForeignAcquire \/ ForeignRelease \/ \E c \in Conn :
          \/ Open(c) \/ PeerClose(c) \/ (\E m \in Req : PeerSend(c, m))
          \/ TurnWake(c) \/ Recv(c) \/ Deliver(c) \/ RecvEnd(c)
          \/ CleanWake(c) \/ CleanGotLock(c) \/ TimerFire(c)
Spec == Init /\ [][Next]_vars
FairSpec == Spec /\ WF_vars(ForeignRelease) /\ \A c \in Conn : WF_vars(TurnWake(c) \/ Recv(c) \/ Deliver(c) \/ RecvEnd(c) \/ CleanWake(c) \/ CleanGotLock(c) \/ TimerFire(c))

(* ---------------- Layer A clauses at model level ---------------- *)
Before(i, c) == \E a, b \in 1..Len(opened) : a < b /\ opened[a] = i /\ opened[b] = c
Serialised == \A c \in Conn : (pcM[c] = "serve" /\ ws[c] = "open") => \A i \in Conn : Before(i, c) => ws[i] = "closed"
OneServed  == Cardinality({c \in Conn : pcM[c] = "serve"}) <= 1
NoRollback == [][disk'.st >= disk.st]_vars
WriteOnce  == [][(disk.cfg # 0 => disk'.cfg = disk.cfg) /\ (disk.idx # 0 => disk'.idx = disk.idx)]_vars
AckDurable == (ackC # 0 => disk.cfg = ackC) /\ (ackX # 0 => disk.idx = ackX /\ disk.st = 2)
WellFormed == ((disk.st = 0) <=> (disk.cfg = 0)) /\ ((disk.st = 2) <=> (disk.idx # 0))
SnapFresh  == \A c \in Conn : pcM[c] = "serve" => snap[c] = disk.st     \* the served connection acts on the current state
RegIsServed == reg # NoC => pcM[reg] \in {"serve", "done", "dead", "waitTurn"}
(* Refinement: under the mapping "abstract state = durable record", every behaviour of this implementation model *)
(* is a behaviour of the 3-state reference machine of C10 (refused requests, scheduling and cleanup steps stutter). *)
SM == INSTANCE ServerSM WITH st <- disk.st, cfg <- disk.cfg, idx <- disk.idx, Cfgs <- {1, 2}, Idxs <- {1, 2}
RefinesServerSM == SM!SMSpec
(* liveness (under FairSpec): once everybody before it has closed, a waiting connection gets its turn *)
EventuallyServed == \A c \in Conn : (pcM[c] = "waitTurn" /\ \A i \in Conn : Before(i, c) => ws[i] = "closed") ~> (pcM[c] # "waitTurn")
=============================================================================
