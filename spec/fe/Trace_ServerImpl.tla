-------------------------- MODULE Trace_ServerImpl --------------------------
(***************************************************************************)
(* Layer B trace validation for C12 (DRIFT detection, never a violation):  *)
(* a recorded execution of the real ServicesManager must be a behaviour of *)
(* ServerImpl.  Logged events are bound to model actions; the steps the    *)
(* harness cannot see (a waiting connection waking up, requests processed  *)
(* on a socket that is already closed, the end of a receive loop, the      *)
(* cleanup task reaching its delay) are composed as silent steps, at most  *)
(* MaxSilent between two logged events.  At every "tick" (the harness let  *)
(* the loop run until idle) the model must be quiescent too and its        *)
(* registry, waiting queue, registered snapshot and durable record must    *)
(* equal the projection of the real objects.                               *)
(***************************************************************************)
EXTENDS ServerImpl, Json, IOUtils
Traces == JsonDeserialize(IOEnv.TRACE_FILE)
MaxSilent == 12
VARIABLES tid, l, verdict, clause, silent
tvars == <<vars, tid, l, verdict, clause, silent>>
Tr == Traces[tid].ev
Ev == Tr[l]

SilentStep(c) == \/ TurnWake(c)
                 \/ (Recv(c) /\ pcM'[c] = "serve")            \* a request is accepted: its reply is only scheduled
                 \/ (ws[c] = "closed" /\ Recv(c))             \* a request refused on a socket that is closed anyway
                 \/ (ws[c] = "closed" /\ Deliver(c))          \* a reply that can no longer be written: lost
                 \/ RecvEnd(c) \/ CleanWake(c) \/ CleanGotLock(c)
Silent == \E c \in Conn : SilentStep(c)
Quiescent == ~ENABLED Silent

Projection == /\ reg = Ev.i.reg
              /\ waiting = Ev.i.waiting
              /\ (reg # NoC => snap[reg] = Ev.i.snap)
              /\ disk.st = Ev.d.st /\ disk.cfg = Ev.d.cfg /\ disk.idx = Ev.d.idx

Logged ==
    CASE Ev.e = "init"    -> Open(Ev.c)
      [] Ev.e = "send"    -> PeerSend(Ev.c, Ev.req)
      [] Ev.e = "pclose"  -> PeerClose(Ev.c)
      [] Ev.e = "timer"   -> \E c \in Conn : TimerFire(c)
      [] Ev.e = "reply"   -> ws[Ev.c] = "open" /\ Deliver(Ev.c)                           \* a scheduled reply is written
      [] Ev.e = "sclosed" -> ws[Ev.c] = "open" /\ Recv(Ev.c) /\ pcM'[Ev.c] = "dead"       \* request refused: the handler failed
      [] Ev.e = "tick"    -> Quiescent /\ Projection /\ UNCHANGED vars
      [] Ev.e \in {"open", "control"} -> UNCHANGED vars
      [] OTHER -> FALSE

Running == verdict = "run" /\ l <= Len(Tr)
Consume == Running /\ Logged /\ l' = l + 1 /\ silent' = 0 /\ UNCHANGED <<tid, verdict, clause>>
Hidden == Running /\ silent < MaxSilent /\ Silent /\ silent' = silent + 1 /\ UNCHANGED <<tid, l, verdict, clause>>
Finish == /\ verdict = "run" /\ l = Len(Tr) + 1 /\ verdict' = "ACCEPT"
          /\ UNCHANGED <<vars, tid, l, clause, silent>>
Reject == /\ Running /\ ~ENABLED Consume /\ ~ENABLED Hidden
          /\ verdict' = "REJECT" /\ clause' = Ev.e
          /\ UNCHANGED <<vars, tid, l, silent>>
TraceInit == Init /\ tid \in 1..Len(Traces) /\ l = 1 /\ verdict = "run" /\ clause = "" /\ silent = 0
TraceNext == Consume \/ Hidden \/ Finish \/ Reject
TraceSpec == TraceInit /\ [][TraceNext]_tvars
Done == verdict # "run" => PrintT(<<"V", Traces[tid].tid, verdict, l, clause>>)
=============================================================================
