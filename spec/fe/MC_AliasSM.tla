------------------------------ MODULE MC_AliasSM ------------------------------
EXTENDS AliasSM, TLC
CONSTANT D
VARIABLE hist
mvars == <<reg, hist>>
MCInit == Init /\ hist = <<>>
MCNext == /\ Len(hist) < D
          /\ \/ \E n \in Names, s \in Sids, o \in {"ok", "refused"} : Record(n, s, o) /\ hist' = Append(hist, <<"record", n, s>>)
             \/ \E n \in Names, o \in {"ok", "refused"}, r \in Sids \cup {"none"} : Get(n, o, r) /\ hist' = Append(hist, <<"get", n>>)
             \/ Restart /\ hist' = Append(hist, <<"restart">>)
MCSpec == MCInit /\ [][MCNext]_mvars
Emit == Len(hist) = D => PrintT(<<"H", hist>>)
=============================================================================
