------------------------------ MODULE Overlap ------------------------------
(***************************************************************************)
(* Layer A for C12: several connections for ONE service id overlap.        *)
(*                                                                         *)
(* The abstract state is what an outside observer can see:                 *)
(*   order   the connections that are open now, in the order they opened   *)
(*   pend    per connection, the requests sent and not yet answered        *)
(*   st,cfg,idx   the durable service record (state, configuration, index) *)
(*   ackC, ackX   the configuration / index whose upload was acknowledged  *)
(*                                                                         *)
(* Environment actions (Open, Send, PeerClose, Timer, Tick) are free.      *)
(* Server-visible actions (Reply, ServerClose) and every change of the     *)
(* durable record must satisfy the clauses below; each clause is a named   *)
(* operator so that a rejected trace names the clause that failed.         *)
(***************************************************************************)
EXTENDS Naturals, Sequences, FiniteSets

CONSTANTS Conns, Cfgs, Idxs

VARIABLES order, pend, st, cfg, idx, ackC, ackX,
          mustTell      \* connections that opened while an earlier one was open and have not yet been told to wait
ovars == <<order, pend, st, cfg, idx, ackC, ackX, mustTell>>

Reqs == {"cfg1", "cfg2", "up1", "up2", "search"}
KindOf(r) == CASE r \in {"cfg1", "cfg2"} -> "config" [] r \in {"up1", "up2"} -> "upload" [] OTHER -> "result"
NumOf(r) == IF r \in {"cfg1", "up1"} THEN 1 ELSE 2

OvInit == /\ order = <<>> /\ pend = [c \in Conns |-> <<>>]
          /\ st = 0 /\ cfg = 0 /\ idx = 0 /\ ackC = 0 /\ ackX = 0 /\ mustTell = {}

IsOpen(c) == \E i \in 1..Len(order) : order[i] = c
Remove(s, c) == SelectSeq(s, LAMBDA x : x # c)
AllPending == UNION { { pend[c][i] : i \in 1..Len(pend[c]) } : c \in Conns }

(* ---- clauses on the durable record: d is the record after the step ---- *)
WellFormed(d)  == /\ d.st \in 0..2 /\ d.cfg \in Cfgs \cup {0} /\ d.idx \in Idxs \cup {0}
                  /\ (d.st = 0) <=> (d.cfg = 0)
                  /\ (d.st = 2) <=> (d.idx # 0)
NoRollback(d)  == d.st >= st
WriteOnce(d)   == (cfg # 0 => d.cfg = cfg) /\ (idx # 0 => d.idx = idx)
AckDurable(d)  == (ackC # 0 => d.cfg = ackC) /\ (ackX # 0 => d.idx = ackX /\ d.st = 2)
(* a change of the record is the effect of a request somebody actually sent *)
Explained(d)   == /\ (d.cfg # cfg => \E r \in AllPending : KindOf(r) = "config" /\ NumOf(r) = d.cfg)
                  /\ (d.idx # idx => \E r \in AllPending : KindOf(r) = "upload" /\ NumOf(r) = d.idx)
DiskOK(d) == WellFormed(d) /\ NoRollback(d) /\ WriteOnce(d) /\ AckDurable(d) /\ Explained(d)
Disk(d) == st' = d.st /\ cfg' = d.cfg /\ idx' = d.idx

(* ---- environment ---- *)
Open(c, d) == /\ ~IsOpen(c) /\ order' = Append(order, c) /\ pend' = [pend EXCEPT ![c] = <<>>]
              /\ mustTell' = IF order # <<>> THEN mustTell \cup {c} ELSE mustTell
              /\ DiskOK(d) /\ Disk(d) /\ UNCHANGED <<ackC, ackX>>
Send(c, r, d) == /\ IsOpen(c) /\ pend' = [pend EXCEPT ![c] = Append(@, r)]
                 /\ DiskOK(d) /\ Disk(d) /\ UNCHANGED <<order, ackC, ackX, mustTell>>
(* a connection that comes to the front with nothing pending never had to wait in any way its peer could notice: nobody owes *)
(* it the "wait" message any more                                                                                          *)
Relieved(o) == IF o # <<>> /\ pend[Head(o)] = <<>> THEN mustTell \ {Head(o)} ELSE mustTell
PeerClose(c, d) == /\ order' = Remove(order, c)
                   /\ mustTell' = Relieved(Remove(order, c))
                   /\ DiskOK(d) /\ Disk(d) /\ UNCHANGED <<pend, ackC, ackX>>
Quiet(d) == DiskOK(d) /\ Disk(d) /\ UNCHANGED <<order, pend, ackC, ackX, mustTell>>     \* Timer, Tick
(* the control message: "wait until the earlier connection has closed" *)
Told(c, d) == DiskOK(d) /\ Disk(d) /\ mustTell' = mustTell \ {c} /\ UNCHANGED <<order, pend, ackC, ackX>>

(* ---- server-visible ---- *)
ServerClose(c, d) == /\ order' = Remove(order, c)
                     /\ mustTell' = Relieved(Remove(order, c))
                     /\ DiskOK(d) /\ Disk(d) /\ UNCHANGED <<pend, ackC, ackX>>

(* the init echo and control messages are not request replies: any connection may get them at once *)
InitEcho(c, rep, d) == /\ rep \in 0..2 /\ rep <= d.st
                       /\ DiskOK(d) /\ Disk(d) /\ UNCHANGED <<order, pend, ackC, ackX, mustTell>>

(* Serialised: a request of c is answered only when no earlier-opened connection is still open *)
Serialised(c) == Len(order) > 0 /\ Head(order) = c
(* a connection that had to wait was told so before it is served *)
ToldToWait(c) == c \notin mustTell
Fifo(c, kind) == pend[c] # <<>> /\ KindOf(Head(pend[c])) = kind
AckOnce(c, kind, out) ==
    out = "ok" => IF kind = "config" THEN ackC = 0 ELSE ackX = 0
AckMatches(c, kind, out, d) ==
    out = "ok" => IF kind = "config" THEN d.cfg = NumOf(Head(pend[c])) /\ d.st >= 1
                                     ELSE d.idx = NumOf(Head(pend[c])) /\ d.st = 2
ResultOK(kind, out, res, d) ==
    (kind = "result" /\ out = "result") => d.st = 2 /\ res = d.idx
OutOK(kind, out) == IF kind = "result" THEN out \in {"result", "refused"} ELSE out \in {"ok", "refused"}

Reply(c, kind, out, res, d) ==
    /\ Serialised(c) /\ ToldToWait(c) /\ Fifo(c, kind) /\ OutOK(kind, out)
    /\ AckOnce(c, kind, out) /\ AckMatches(c, kind, out, d) /\ ResultOK(kind, out, res, d)
    /\ DiskOK(d) /\ Disk(d)
    /\ pend' = [pend EXCEPT ![c] = Tail(@)]
    /\ ackC' = IF kind = "config" /\ out = "ok" THEN NumOf(Head(pend[c])) ELSE ackC
    /\ ackX' = IF kind = "upload" /\ out = "ok" THEN NumOf(Head(pend[c])) ELSE ackX
    /\ UNCHANGED <<order, mustTell>>

(* after everything is closed and the server restarted: a fresh connection *)
ProbeOK(rep, d) == /\ rep = d.st
                   /\ (ackC # 0 => rep >= 1) /\ (ackX # 0 => rep = 2)
Probe(rep, d) == ProbeOK(rep, d) /\ DiskOK(d) /\ Disk(d) /\ UNCHANGED <<order, pend, ackC, ackX, mustTell>>
ProbeSearch(out, res, d) == /\ out = "result" /\ res = d.idx /\ d.st = 2
                            /\ DiskOK(d) /\ Disk(d) /\ UNCHANGED <<order, pend, ackC, ackX, mustTell>>
=============================================================================
