---------------------------- MODULE APA_ServerSM ----------------------------
(* Apalache wrapper: TypeOK /\ Consistent is an inductive invariant of ServerSM (all behaviours, not a bounded depth). *)
EXTENDS Naturals, Sequences
VARIABLES
  \* @type: Int;
  st,
  \* @type: Int;
  cfg,
  \* @type: Int;
  idx
Cfgs == {1, 2}
Idxs == {1, 2}
INSTANCE ServerSM
IndInv == TypeOK /\ Consistent
IndInit == IndInv
=============================================================================
