--------------------------- MODULE Trace_ServerSM ---------------------------
(* Trace validation for C10: every recorded execution of the real handler  *)
(* must be a behaviour of ServerSM, with the projected durable state bound *)
(* to the abstract variables after every event.                            *)
EXTENDS ServerSM, Integers, TLC, Json, IOUtils

Traces == JsonDeserialize(IOEnv.TRACE_FILE)

VARIABLES tid, l, verdict, clause
tvars == <<st, cfg, idx, tid, l, verdict, clause>>

Tr == Traces[tid].ev
Ev == Tr[l]

(* the logged projection of the durable state after the event.  Before the state is "ready" no client can observe what an   *)
(* index file holds (an upload the server could not store may have left an empty one): the index is bound in state 2 only.  *)
(* the durable projection: a folder without the meta file (-1) is what the server itself reads as state 0; what a refused,  *)
(* unstorable upload leaves in a file that no client can observe in that state (the configuration file in state 0, the    *)
(* index file below state 2) is not bound                                                                                  *)
StOf(d) == IF d.st = -1 THEN 0 ELSE d.st
Observed == st' = StOf(Ev.d) /\ (StOf(Ev.d) >= 1 => cfg' = Ev.d.cfg) /\ (Ev.d.st = 2 => idx' = Ev.d.idx)

Act ==
    CASE Ev.e = "connect" -> Connect(Ev.rep)
      [] Ev.e = "config"  -> Config(Ev.c, Ev.out)
      [] Ev.e = "upload"  -> Upload(Ev.x, Ev.out)
      [] Ev.e = "search"  -> Search(Ev.out, Ev.res)
      [] Ev.e = "foreign" -> Foreign(Ev.out)
      [] Ev.e = "unknown" -> Unknown(Ev.out)
      [] Ev.e = "malformed" -> Malformed(Ev.out)
      [] Ev.e = "close"   -> Close
      [] Ev.e = "restart" -> Close
      [] OTHER -> FALSE

Running == verdict = "run" /\ l <= Len(Tr)
Advance == l' = l + 1 /\ UNCHANGED <<tid, verdict, clause>>

StepOutcome == Running /\ Act                       \* the reply is one the reference machine allows
Step == Running /\ Act /\ Observed /\ Advance       \* ... and the durable state is the machine's state

Finish == /\ verdict = "run" /\ l = Len(Tr) + 1
          /\ verdict' = "ACCEPT" /\ UNCHANGED <<st, cfg, idx, tid, l, clause>>
Reject == /\ Running /\ ~ENABLED Step
          /\ verdict' = "REJECT"
          /\ clause' = IF ~ENABLED StepOutcome THEN "reply:" \o Ev.e ELSE "state:" \o Ev.e
          /\ UNCHANGED <<st, cfg, idx, tid, l>>

TraceInit == /\ SMInit /\ tid \in 1..Len(Traces) /\ l = 1 /\ verdict = "run" /\ clause = ""
TraceNext == Step \/ Finish \/ Reject
TraceSpec == TraceInit /\ [][TraceNext]_tvars

Done == verdict # "run" => PrintT(<<"V", Traces[tid].tid, verdict, l, clause>>)
=============================================================================
