-------------------------- MODULE MC_ClientRouting --------------------------
EXTENDS ClientRouting
KwDef == [i \in Searches |-> IF i = 1 THEN "a" ELSE IF i = 2 THEN "b" ELSE "a"]
(* restriction to the documented, sequential use: a search starts only when none is waiting *)
SeqNext == (\E i \in Searches : Start(i) /\ \A j \in Searches : phase[j] # "waiting") \/ ServerAnswers \/ Receive
SeqSpec == Init /\ [][SeqNext]_vars
=============================================================================
