--------------------------- MODULE Trace_ClientSM ---------------------------
(* Trace validation for C11 (and the client half of C09): recorded runs of the *)
(* real client operations against ClientSM, with the persisted flags, the key  *)
(* version, the number of service directories and the server state bound to    *)
(* the abstract variables after every operation.                               *)
EXTENDS ClientSM, TLC, Json, IOUtils
Traces == JsonDeserialize(IOEnv.TRACE_FILE)
VARIABLES tid, l, verdict, clause
tvars == <<exists, cc, cu, kc, de, du, keyVer, edbVer, st, tid, l, verdict, clause>>
Tr == Traces[tid].ev
Ev == Tr[l]

Act ==
    CASE Ev.op = "create"    -> Create(TRUE, Ev.out)
      [] Ev.op = "createbad" -> Create(FALSE, Ev.out)
      [] Ev.op = "createsame" -> Create(TRUE, Ev.out)
      [] Ev.op = "genkey"    -> GenKey(Ev.out)
      [] Ev.op = "encrypt"   -> Encrypt(Ev.out)
      [] Ev.op = "upconfig"  -> UpConfig(Ev.out)
      [] Ev.op = "upindex"   -> UpIndex(Ev.out)
      [] Ev.op = "search"    -> Search(Ev.out, Ev.correct)
      [] Ev.op = "recreate"  -> UNCHANGED cvars          \* client object discarded and re-created from disk (C09)
      [] Ev.op = "restart"   -> UNCHANGED cvars          \* server restarted (C09)
      [] OTHER -> FALSE
(* what is persisted after the operation.  live: the client object that ran the operation is still connected (C09 keeps it  *)
(* between two steps unless the history re-creates it); commands.py persists the upload flags at the latest when it closes   *)
(* the service, so while the object lives they are not yet bound.                                                            *)
Observed == /\ exists' = Ev.o.exists
            /\ cc' = Ev.o.cc /\ kc' = Ev.o.kc /\ de' = Ev.o.de
            /\ (Ev.o.live \/ (cu' = Ev.o.cu /\ du' = Ev.o.du))
            /\ keyVer' = Ev.o.keyVer
            /\ st' = Ev.o.sst
            /\ Ev.o.ndirs = (IF exists' THEN 1 ELSE 0)
            /\ (Ev.out = "refused" => ~Ev.o.changed)      \* a refused operation leaves the persisted files untouched

Running == verdict = "run" /\ l <= Len(Tr)
Adv == l' = l + 1 /\ UNCHANGED <<tid, verdict, clause>>
StepOutcome == Running /\ Act
Step == Running /\ Act /\ Observed /\ Adv
Finish == /\ verdict = "run" /\ l = Len(Tr) + 1 /\ verdict' = "ACCEPT"
          /\ UNCHANGED <<cvars, tid, l, clause>>
Reject == /\ Running /\ ~ENABLED Step /\ verdict' = "REJECT"
          /\ clause' = (IF ~ENABLED StepOutcome THEN "outcome:" ELSE "persisted:") \o Ev.op \o ":" \o Ev.out
          /\ UNCHANGED <<cvars, tid, l>>
TraceInit == CInit /\ tid \in 1..Len(Traces) /\ l = 1 /\ verdict = "run" /\ clause = ""
TraceNext == Step \/ Finish \/ Reject
TraceSpec == TraceInit /\ [][TraceNext]_tvars
Done == verdict # "run" => PrintT(<<"V", Traces[tid].tid, verdict, l, clause>>)
=============================================================================
