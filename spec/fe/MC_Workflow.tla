---------------------------- MODULE MC_Workflow ----------------------------
(***************************************************************************)
(* Generator for C09: the documented workflow (create, generate key,       *)
(* encrypt, upload config, upload index, searches) over ClientSM, with the *)
(* client object discarded and re-created from disk ("recreate") in any    *)
(* gap and the server restarted ("restart", which also forces a fresh      *)
(* client connection) in any gap after the index upload.  TLC enumerates   *)
(* every placement and checks that the model answers every search          *)
(* correctly; the harness executes each placement on the real client and   *)
(* server.                                                                 *)
(***************************************************************************)
EXTENDS ClientSM, TLC
CONSTANT NSearch
VARIABLES hist, step, gapdone
mcvars == <<exists, cc, cu, kc, de, du, keyVer, edbVer, st, hist, step, gapdone>>

Flow == <<"create", "genkey", "encrypt", "upconfig", "upindex">> \o [i \in 1..NSearch |-> "search"]

DoOp(op) ==
    CASE op = "create"   -> Create(TRUE, "ok")
      [] op = "genkey"   -> GenKey("ok")
      [] op = "encrypt"  -> Encrypt("ok")
      [] op = "upconfig" -> UpConfig("ok")
      [] op = "upindex"  -> UpIndex("ok")
      [] op = "search"   -> Search("ok", TRUE)

MCInit == CInit /\ hist = <<>> /\ step = 1 /\ gapdone = FALSE
(* take the next workflow step *)
Next1 == /\ step <= Len(Flow) /\ DoOp(Flow[step])
         /\ hist' = Append(hist, Flow[step]) /\ step' = step + 1 /\ gapdone' = FALSE
(* in the gap before the next step: discard the client object, or (after the upload) restart the server *)
Gap(g) == /\ step > 1 /\ step <= Len(Flow) /\ ~gapdone
          /\ (g = "restart" => step > 5)
          /\ UNCHANGED cvars
          /\ hist' = Append(hist, g) /\ gapdone' = TRUE /\ UNCHANGED step
MCNext == Next1 \/ Gap("recreate") \/ Gap("restart")
MCSpec == MCInit /\ [][MCNext]_mcvars

Emit == step = Len(Flow) + 1 => PrintT(<<"H", hist>>)
(* the model never gets stuck: every step of the documented workflow is accepted, whatever the placement *)
NoStuck == step <= Len(Flow) => ENABLED Next1
=============================================================================
