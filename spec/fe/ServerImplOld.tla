--------------------------- MODULE ServerImplOld ---------------------------
(***************************************************************************)
(* Layer B of the code AS IT WAS at commit 0676006 (before the fix).  Kept *)
(* as a regression for the model itself: TLC must find Serialised,         *)
(* NoRollback, WriteOnce and AckDurable violated here (defect D9), with    *)
(* the same (A1) assumption as ServerImpl.  If it does not, the model has  *)
(* lost the ability to see the defect class.                               *)
(*                                                                         *)
(*   create_service (old):                                                 *)
(*     service = Service(sid, ws)                                          *)
(*     if sid in dict: prev = dict[sid]; CONTROL; await prev.wait_closed() *)
(*     async with lock: dict[sid] = service                                *)
(*     clean_task = create_task(clean(sid, ws)); await service.start()     *)
(*   clean (old): await ws.wait_closed(); async with lock: sleep(1);       *)
(*                dict[sid].close_service(); del dict[sid]                 *)
(***************************************************************************)
EXTENDS Naturals, Sequences, FiniteSets, TLC
CONSTANTS Conn, MaxSend, Req
NoC == 0
VARIABLES disk, ws, inbox, sent, snap, pcM, prev, pcC, reg, lock, lockQ, opened, ackC, ackX
vars == <<disk, ws, inbox, sent, snap, pcM, prev, pcC, reg, lock, lockQ, opened, ackC, ackX>>
M(c) == <<"M", c>>
C(c) == <<"C", c>>
KindOf(r) == CASE r \in {"cfg1", "cfg2"} -> "config" [] r \in {"up1", "up2"} -> "upload" [] OTHER -> "search"
NumOf(r) == IF r \in {"cfg1", "up1"} THEN 1 ELSE 2
LockFree == lock = <<>> /\ lockQ = <<>>

Init == /\ disk = [dir |-> FALSE, st |-> 0, cfg |-> 0, idx |-> 0]
        /\ ws = [c \in Conn |-> "new"] /\ inbox = [c \in Conn |-> <<>>] /\ sent = [c \in Conn |-> 0]
        /\ snap = [c \in Conn |-> 0] /\ pcM = [c \in Conn |-> "new"] /\ prev = [c \in Conn |-> NoC]
        /\ pcC = [c \in Conn |-> "none"] /\ reg = NoC /\ lock = <<>> /\ lockQ = <<>>
        /\ opened = <<>> /\ ackC = 0 /\ ackX = 0

Release == IF lockQ = <<>> THEN lock' = <<>> /\ lockQ' = lockQ
           ELSE lock' = Head(lockQ) /\ lockQ' = Tail(lockQ)

PeerSend(c, m) == /\ ws[c] = "open" /\ sent[c] < MaxSend
                  /\ inbox' = [inbox EXCEPT ![c] = Append(@, m)] /\ sent' = [sent EXCEPT ![c] = @ + 1]
                  /\ UNCHANGED <<disk, ws, snap, pcM, prev, pcC, reg, lock, lockQ, opened, ackC, ackX>>
PeerClose(c) == /\ ws[c] = "open" /\ ws' = [ws EXCEPT ![c] = "closed"]
                /\ UNCHANGED <<disk, inbox, sent, snap, pcM, prev, pcC, reg, lock, lockQ, opened, ackC, ackX>>

UnderLock(c) == /\ reg' = c /\ pcM' = [pcM EXCEPT ![c] = "serve"] /\ pcC' = [pcC EXCEPT ![c] = "waitClosed"]
ToLock(c) == IF LockFree THEN UnderLock(c) /\ UNCHANGED <<lock, lockQ>>
             ELSE /\ lockQ' = Append(lockQ, M(c)) /\ pcM' = [pcM EXCEPT ![c] = "locked"] /\ UNCHANGED <<lock, reg, pcC>>

Open(c) == /\ ws[c] = "new" /\ pcM[c] = "new"
           /\ ws' = [ws EXCEPT ![c] = "open"] /\ opened' = Append(opened, c)
           /\ snap' = [snap EXCEPT ![c] = disk.st]
           /\ IF reg # NoC /\ ws[reg] # "closed"
              THEN /\ prev' = [prev EXCEPT ![c] = reg] /\ pcM' = [pcM EXCEPT ![c] = "waitPrev"]
                   /\ UNCHANGED <<reg, pcC, lock, lockQ>>
              ELSE ToLock(c) /\ UNCHANGED prev
           /\ UNCHANGED <<disk, inbox, sent, ackC, ackX>>
WakePrev(c) == /\ pcM[c] = "waitPrev" /\ ws[prev[c]] = "closed"
               /\ ToLock(c)
               /\ UNCHANGED <<disk, ws, inbox, sent, snap, prev, opened, ackC, ackX>>
GotLockM(c) == /\ pcM[c] = "locked" /\ lock = M(c)
               /\ UnderLock(c) /\ Release
               /\ UNCHANGED <<disk, ws, inbox, sent, snap, prev, opened, ackC, ackX>>

Die(c) == /\ pcM' = [pcM EXCEPT ![c] = "dead"] /\ ws' = [ws EXCEPT ![c] = "closed"]
Acked(c) == ws[c] = "open"
Recv(c) ==
  /\ pcM[c] = "serve" /\ inbox[c] # <<>>
  /\ inbox' = [inbox EXCEPT ![c] = Tail(@)]
  /\ LET m == Head(inbox[c]) IN
     CASE KindOf(m) = "config" ->
            IF snap[c] # 0 THEN Die(c) /\ UNCHANGED <<disk, snap, ackC, ackX>>
            ELSE IF disk.dir THEN Die(c) /\ UNCHANGED <<disk, snap, ackC, ackX>>
            ELSE /\ disk' = [dir |-> TRUE, st |-> 1, cfg |-> NumOf(m), idx |-> disk.idx]
                 /\ snap' = [snap EXCEPT ![c] = 1]
                 /\ ackC' = IF Acked(c) THEN NumOf(m) ELSE ackC
                 /\ UNCHANGED <<pcM, ws, ackX>>
       [] KindOf(m) = "upload" ->
            IF snap[c] # 1 THEN Die(c) /\ UNCHANGED <<disk, snap, ackC, ackX>>
            ELSE /\ disk' = IF disk.dir THEN [disk EXCEPT !.idx = NumOf(m), !.st = 2] ELSE disk
                 /\ snap' = [snap EXCEPT ![c] = 2]
                 /\ ackX' = IF Acked(c) THEN NumOf(m) ELSE ackX
                 /\ UNCHANGED <<pcM, ws, ackC>>
       [] OTHER ->
            IF snap[c] # 2 THEN Die(c) /\ UNCHANGED <<disk, snap, ackC, ackX>>
            ELSE UNCHANGED <<disk, snap, ackC, ackX, pcM, ws>>
  /\ UNCHANGED <<sent, prev, pcC, reg, lock, lockQ, opened>>
RecvEnd(c) == /\ pcM[c] = "serve" /\ inbox[c] = <<>> /\ ws[c] = "closed"
              /\ pcM' = [pcM EXCEPT ![c] = "done"]
              /\ UNCHANGED <<disk, ws, inbox, sent, snap, prev, pcC, reg, lock, lockQ, opened, ackC, ackX>>

CleanWake(c) == /\ pcC[c] = "waitClosed" /\ ws[c] = "closed"
                /\ IF LockFree THEN lock' = C(c) /\ pcC' = [pcC EXCEPT ![c] = "sleep"] /\ UNCHANGED lockQ
                   ELSE lockQ' = Append(lockQ, C(c)) /\ pcC' = [pcC EXCEPT ![c] = "locked"] /\ UNCHANGED lock
                /\ UNCHANGED <<disk, ws, inbox, sent, snap, pcM, prev, reg, opened, ackC, ackX>>
CleanGotLock(c) == /\ pcC[c] = "locked" /\ lock = C(c) /\ pcC' = [pcC EXCEPT ![c] = "sleep"]
                   /\ UNCHANGED <<disk, ws, inbox, sent, snap, pcM, prev, reg, lock, lockQ, opened, ackC, ackX>>
TimerFire(c) ==
  /\ pcC[c] = "sleep" /\ lock = C(c)
  /\ pcM[c] \in {"done", "dead"}                                          \* (A1), see ServerImpl
  /\ Release /\ pcC' = [pcC EXCEPT ![c] = "done"]
  /\ disk' = IF reg # NoC /\ disk.dir THEN [disk EXCEPT !.st = snap[reg]] ELSE disk   \* close_service of WHOEVER is registered
  /\ reg' = NoC
  /\ UNCHANGED <<ws, inbox, sent, snap, pcM, prev, opened, ackC, ackX>>

Next == \E c \in Conn :
          \/ Open(c) \/ PeerClose(c) \/ (\E m \in Req : PeerSend(c, m))
          \/ WakePrev(c) \/ GotLockM(c) \/ Recv(c) \/ RecvEnd(c)
          \/ CleanWake(c) \/ CleanGotLock(c) \/ TimerFire(c)
Spec == Init /\ [][Next]_vars

Before(i, c) == \E a, b \in 1..Len(opened) : a < b /\ opened[a] = i /\ opened[b] = c
Serialised == \A c \in Conn : (pcM[c] = "serve" /\ ws[c] = "open") => \A i \in Conn : Before(i, c) => ws[i] = "closed"
NoRollback == [][disk'.st >= disk.st]_vars
WriteOnce  == [][(disk.cfg # 0 => disk'.cfg = disk.cfg) /\ (disk.idx # 0 => disk'.idx = disk.idx)]_vars
AckDurable == (ackC # 0 => disk.cfg = ackC) /\ (ackX # 0 => disk.idx = ackX /\ disk.st = 2)
=============================================================================
