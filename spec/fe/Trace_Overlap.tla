--------------------------- MODULE Trace_Overlap ---------------------------
(* Trace validation for C12: recorded executions of the real ServicesManager *)
(* with several overlapping connections, against Overlap (Layer A).          *)
EXTENDS Overlap, TLC, Json, IOUtils

Traces == JsonDeserialize(IOEnv.TRACE_FILE)

VARIABLES tid, l, verdict, clause
tvars == <<order, pend, st, cfg, idx, ackC, ackX, mustTell, tid, l, verdict, clause>>

Tr == Traces[tid].ev
Ev == Tr[l]

Act ==
    CASE Ev.e = "open"    -> Open(Ev.c, Ev.d)
      [] Ev.e = "send"    -> Send(Ev.c, Ev.req, Ev.d)
      [] Ev.e = "pclose"  -> PeerClose(Ev.c, Ev.d)
      [] Ev.e = "timer"   -> Quiet(Ev.d)
      [] Ev.e = "tick"    -> Quiet(Ev.d)
      [] Ev.e = "spin"    -> Quiet(Ev.d)
      [] Ev.e = "restart" -> Quiet(Ev.d)
      [] Ev.e = "xopen"   -> Quiet(Ev.d)      \* a connection of another service id opens / closes
      [] Ev.e = "xclose"  -> Quiet(Ev.d)
      [] Ev.e = "sclosed" -> ServerClose(Ev.c, Ev.d)
      [] Ev.e = "init"    -> InitEcho(Ev.c, Ev.rep, Ev.d)
      [] Ev.e = "control" -> Told(Ev.c, Ev.d)
      [] Ev.e = "reply"   -> Reply(Ev.c, Ev.kind, Ev.out, Ev.res, Ev.d)
      [] Ev.e = "probe"   -> Probe(Ev.rep, Ev.d)
      [] Ev.e = "psearch" -> ProbeSearch(Ev.out, Ev.res, Ev.d)
      [] OTHER -> FALSE

(* first clause that fails for the current event; evaluated only when Act is not enabled *)
DiskWhy(d) ==
    IF ~NoRollback(d) THEN "NoRollback"
    ELSE IF ~WriteOnce(d) THEN "WriteOnce"
    ELSE IF ~AckDurable(d) THEN "AckDurable"
    ELSE IF ~WellFormed(d) THEN "WellFormed"
    ELSE IF ~Explained(d) THEN "Explained"
    ELSE "other"
Why ==
    IF ~DiskOK(Ev.d) THEN DiskWhy(Ev.d)
    ELSE IF Ev.e = "reply" THEN
         IF ~Serialised(Ev.c) THEN "Serialised"
         ELSE IF ~ToldToWait(Ev.c) THEN "ToldToWait"
         ELSE IF ~Fifo(Ev.c, Ev.kind) THEN "Fifo"
         ELSE IF ~OutOK(Ev.kind, Ev.out) THEN "Outcome"
         ELSE IF ~AckOnce(Ev.c, Ev.kind, Ev.out) THEN "AckOnce"
         ELSE IF ~AckMatches(Ev.c, Ev.kind, Ev.out, Ev.d) THEN "AckMatches"
         ELSE IF ~ResultOK(Ev.kind, Ev.out, Ev.res, Ev.d) THEN "ResultOK"
         ELSE "other"
    ELSE IF Ev.e = "probe" THEN "Probe"
    ELSE IF Ev.e = "psearch" THEN "ProbeSearch"
    ELSE IF Ev.e = "init" THEN "InitEcho"
    ELSE "other:" \o Ev.e

Running == verdict = "run" /\ l <= Len(Tr)
Step == Running /\ Act /\ l' = l + 1 /\ UNCHANGED <<tid, verdict, clause>>
Finish == /\ verdict = "run" /\ l = Len(Tr) + 1
          /\ verdict' = "ACCEPT" /\ UNCHANGED <<order, pend, st, cfg, idx, ackC, ackX, mustTell, tid, l, clause>>
Reject == /\ Running /\ ~ENABLED Step
          /\ verdict' = "REJECT" /\ clause' = Why
          /\ UNCHANGED <<order, pend, st, cfg, idx, ackC, ackX, mustTell, tid, l>>

TraceInit == OvInit /\ tid \in 1..Len(Traces) /\ l = 1 /\ verdict = "run" /\ clause = ""
TraceNext == Step \/ Finish \/ Reject
TraceSpec == TraceInit /\ [][TraceNext]_tvars

Done == verdict # "run" => PrintT(<<"V", Traces[tid].tid, verdict, l, clause>>)
=============================================================================
