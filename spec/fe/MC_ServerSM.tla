---------------------------- MODULE MC_ServerSM ----------------------------
(* Bounded instance of ServerSM that also emits every history (sequence of *)
(* request symbols) up to depth D: the behaviours replayed into the real   *)
(* connection handler for C10.                                             *)
EXTENDS ServerSM, TLC

CONSTANTS D,
          Alphabet     \* the request symbols histories are made of (a subset of Symbols)
VARIABLE hist
mcvars == <<st, cfg, idx, hist>>

Symbols == {"cfg1", "cfg2", "up1", "up2", "search", "reconnL", "reconnE", "foreign", "unknown", "cfgbad", "upbad"}
ASSUME Alphabet \subseteq Symbols

Step(s) ==
    CASE s = "cfg1"    -> \E o \in Outcomes : Config(1, o)
      [] s = "cfg2"    -> \E o \in Outcomes : Config(2, o)
      [] s = "up1"     -> \E o \in Outcomes : Upload(1, o)
      [] s = "up2"     -> \E o \in Outcomes : Upload(2, o)
      [] s = "search"  -> \E o \in Outcomes, r \in Idxs \cup {0} : Search(o, r)
      [] s = "reconnL" -> Close
      [] s = "reconnE" -> Close
      [] s = "foreign" -> \E o \in Outcomes : Foreign(o)
      [] s = "unknown" -> \E o \in Outcomes : Unknown(o)
      [] s = "cfgbad"  -> \E o \in Outcomes : Malformed(o)
      [] s = "upbad"   -> \E o \in Outcomes : Malformed(o)

MCInit == SMInit /\ hist = <<>>
MCNext == /\ Len(hist) < D
          /\ \E s \in Alphabet : Step(s) /\ hist' = Append(hist, s)
MCSpec == MCInit /\ [][MCNext]_mcvars

Emit == Len(hist) = D => PrintT(<<"H", hist>>)
=============================================================================
