-------------------------- MODULE MC_PersistClient --------------------------
EXTENDS PersistClient
ASSUME PrintT(<<"P", "client.create", FsOps(ProgOf("create"))>>)
ASSUME PrintT(<<"P", "client.genkey", FsOps(ProgOf("genkey"))>>)
ASSUME PrintT(<<"P", "client.encrypt", FsOps(ProgOf("encrypt"))>>)
ASSUME PrintT(<<"P", "client.upconfig", FsOps(ProgOf("upcfg"))>>)
ASSUME PrintT(<<"P", "client.upindex", FsOps(ProgOf("upidx"))>>)
=============================================================================
