---------------------------- MODULE MC_ClientSM ----------------------------
(* Bounded instance of ClientSM emitting every operation history up to depth D *)
(* (replayed into the real client against a live server for C11).              *)
EXTENDS ClientSM, TLC
CONSTANT D
VARIABLE hist
mcvars == <<exists, cc, cu, kc, de, du, keyVer, edbVer, st, hist>>
(* "createsame": create-service run again from scratch (no sid given) with the stored, already salted configuration, *)
(* which maps to the sid of the existing service                                                                   *)
Symbols == {"create", "createbad", "createsame", "genkey", "encrypt", "upconfig", "upindex", "search"}
Outs == {"ok", "refused"}
StepOf(s) ==
    CASE s = "create"    -> \E o \in Outs : Create(TRUE, o)
      [] s = "createbad" -> \E o \in Outs : Create(FALSE, o)
      [] s = "createsame" -> \E o \in Outs : Create(TRUE, o)
      [] s = "genkey"    -> \E o \in Outs : GenKey(o)
      [] s = "encrypt"   -> \E o \in Outs : Encrypt(o)
      [] s = "upconfig"  -> \E o \in Outs : UpConfig(o)
      [] s = "upindex"   -> \E o \in Outs : UpIndex(o)
      [] s = "search"    -> \E o \in Outs, c \in BOOLEAN : Search(o, c)
MCInit == CInit /\ hist = <<>>
MCNext == Len(hist) < D /\ \E s \in Symbols : StepOf(s) /\ hist' = Append(hist, s)
MCSpec == MCInit /\ [][MCNext]_mcvars
Emit == Len(hist) = D => PrintT(<<"H", hist>>)
(* every search the model answers is correct: the index was built with the one and only key *)
SearchAlwaysCorrect == (du /\ st = 2) => edbVer = keyVer
=============================================================================
