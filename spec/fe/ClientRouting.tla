---------------------------- MODULE ClientRouting ----------------------------
(***************************************************************************)
(* Growth beyond the listed properties: how the client Service routes      *)
(* RESULT messages to the callers that are waiting for them when several   *)
(* searches are in flight on ONE client object / connection                *)
(* (frontend/client/services/service.py: handle_keyword_search,            *)
(* _recv_message, echo_futures, result_futures).                           *)
(*                                                                         *)
(*   handle_keyword_search(w, wait=True):                                  *)
(*       fut registered under echo_futures["result"]     (Routing = "type")*)
(*       TOKEN(w) sent with token_digest = H(token)                        *)
(*   _recv_message on RESULT(content, token_digest):                       *)
(*       every future in echo_futures["result"] gets `content`; list reset *)
(*       every future in result_futures[token_digest] gets `content`       *)
(*                                                                         *)
(* The code registers search futures by MESSAGE TYPE (Routing = "type");   *)
(* the per-digest registry exists but handle_keyword_search does not use   *)
(* it (Routing = "digest" is what it would do if it did).  The server      *)
(* answers the tokens of one connection in order.                          *)
(***************************************************************************)
EXTENDS Naturals, Sequences, FiniteSets
CONSTANTS Searches,   \* search ids, e.g. {1,2,3}
          Kw,         \* Kw[i]: the keyword search i asks for
          Routing     \* "type" (as written) | "digest"
VARIABLES phase,      \* phase[i]: "idle" | "waiting" | "done"
          toServer,   \* tokens in transit / queued at the server, in order: sequence of search ids
          toClient,   \* RESULT messages in transit: sequence of keywords (= digests)
          byType,     \* futures registered under the message type
          byDigest,   \* futures registered under a token digest: set of <<search, keyword>>
          got         \* got[i]: the keyword whose result search i's future received ("" = none yet)
vars == <<phase, toServer, toClient, byType, byDigest, got>>

Init == /\ phase = [i \in Searches |-> "idle"] /\ toServer = <<>> /\ toClient = <<>>
        /\ byType = {} /\ byDigest = {} /\ got = [i \in Searches |-> ""]

Start(i) == /\ phase[i] = "idle" /\ phase' = [phase EXCEPT ![i] = "waiting"]
            /\ toServer' = Append(toServer, i)
            /\ IF Routing = "type" THEN byType' = byType \cup {i} /\ UNCHANGED byDigest
                                   ELSE byDigest' = byDigest \cup {<<i, Kw[i]>>} /\ UNCHANGED byType
            /\ UNCHANGED <<toClient, got>>
ServerAnswers == /\ toServer # <<>> /\ toServer' = Tail(toServer)
                 /\ toClient' = Append(toClient, Kw[Head(toServer)])
                 /\ UNCHANGED <<phase, byType, byDigest, got>>
Receive == /\ toClient # <<>> /\ toClient' = Tail(toClient)
           /\ LET w == Head(toClient)
                  hit == byType \cup {p[1] : p \in {q \in byDigest : q[2] = w}}
              IN /\ got' = [i \in Searches |-> IF i \in hit THEN w ELSE got[i]]
                 /\ phase' = [i \in Searches |-> IF i \in hit THEN "done" ELSE phase[i]]
                 /\ byType' = {} /\ byDigest' = {q \in byDigest : q[2] # w}
           /\ UNCHANGED toServer
Next == (\E i \in Searches : Start(i)) \/ ServerAnswers \/ Receive
Spec == Init /\ [][Next]_vars
FairSpec == Spec /\ WF_vars(ServerAnswers) /\ WF_vars(Receive)

(* every caller receives the result of the keyword it asked for *)
RightResult == \A i \in Searches : phase[i] = "done" => got[i] = Kw[i]
(* and every caller is eventually answered *)
Answered == \A i \in Searches : (phase[i] = "waiting") ~> (phase[i] = "done")
(* the sequential use of the documented workflow (one search at a time) is fine under both routings *)
OneAtATime == Cardinality({i \in Searches : phase[i] = "waiting"}) <= 1
=============================================================================
