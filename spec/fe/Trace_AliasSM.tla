---------------------------- MODULE Trace_AliasSM ----------------------------
EXTENDS AliasSM, TLC, Json, IOUtils
Traces == JsonDeserialize(IOEnv.TRACE_FILE)
VARIABLES tid, l, verdict, clause
tvars == <<reg, tid, l, verdict, clause>>
Tr == Traces[tid].ev
Ev == Tr[l]
Act == CASE Ev.e = "record"  -> Record(Ev.n, Ev.s, Ev.out)
         [] Ev.e = "get"     -> Get(Ev.n, Ev.out, Ev.res)
         [] Ev.e = "restart" -> Restart
         [] OTHER -> FALSE
Running == verdict = "run" /\ l <= Len(Tr)
Step == Running /\ Act /\ l' = l + 1 /\ UNCHANGED <<tid, verdict, clause>>
Finish == verdict = "run" /\ l = Len(Tr) + 1 /\ verdict' = "ACCEPT" /\ UNCHANGED <<reg, tid, l, clause>>
Reject == Running /\ ~ENABLED Step /\ verdict' = "REJECT" /\ clause' = Ev.e \o ":" \o Ev.out /\ UNCHANGED <<reg, tid, l>>
TraceInit == Init /\ tid \in 1..Len(Traces) /\ l = 1 /\ verdict = "run" /\ clause = ""
TraceSpec == TraceInit /\ [][Step \/ Finish \/ Reject]_tvars
Done == verdict # "run" => PrintT(<<"V", Traces[tid].tid, verdict, l, clause>>)
=============================================================================
