--------------------------- MODULE MC_OverlapEnv ---------------------------
(* Generator for C12: the ENVIRONMENT half of Overlap (what clients and the *)
(* clock can do), with a history variable.  TLC enumerates (or, with        *)
(* -simulate, samples) schedules; the harness executes them against the     *)
(* real ServicesManager.  `Fine = TRUE` makes loop iterations explicit      *)
(* ("tick" = run one asyncio iteration, "settle" = run until idle);         *)
(* with `Fine = FALSE` the harness settles after every event.               *)
EXTENDS Naturals, Sequences, FiniteSets, TLC

CONSTANTS NConn, MaxSend, MaxTicks, Fine, D, ReqSet,
          WithX      \* TRUE: one more connection, for ANOTHER service id, may open and close (its cleanup holds the global lock)

Conns == 1..NConn
VARIABLES phase, sent, timers, ticks, hist, xphase
vars == <<phase, sent, timers, ticks, hist, xphase>>

Init == /\ phase = [c \in Conns |-> "new"] /\ sent = [c \in Conns |-> 0]
        /\ timers = 0 /\ ticks = 0 /\ hist = <<>> /\ xphase = "new"

(* connections open in numeric order (symmetry: connection ids are just names) *)
Open(c) == /\ phase[c] = "new" /\ (IF c = 1 THEN TRUE ELSE phase[c - 1] # "new")
           /\ phase' = [phase EXCEPT ![c] = "open"]
           /\ hist' = Append(hist, <<"open", c>>) /\ UNCHANGED <<sent, timers, ticks, xphase>>
Send(c, r) == /\ phase[c] = "open" /\ sent[c] < MaxSend
              /\ sent' = [sent EXCEPT ![c] = @ + 1]
              /\ hist' = Append(hist, <<"send", c, r>>) /\ UNCHANGED <<phase, timers, ticks, xphase>>
Close(c) == /\ phase[c] = "open" /\ phase' = [phase EXCEPT ![c] = "closed"]
            /\ hist' = Append(hist, <<"close", c>>) /\ UNCHANGED <<sent, timers, ticks, xphase>>
OpenX == /\ WithX /\ xphase = "new" /\ xphase' = "open"
         /\ hist' = Append(hist, <<"openx">>) /\ UNCHANGED <<phase, sent, timers, ticks>>
CloseX == /\ xphase = "open" /\ xphase' = "closed"
          /\ hist' = Append(hist, <<"closex">>) /\ UNCHANGED <<phase, sent, timers, ticks>>
Timer == /\ timers < Cardinality({c \in Conns : phase[c] = "closed"}) + (IF xphase = "closed" THEN 1 ELSE 0)
         /\ timers' = timers + 1
         /\ hist' = Append(hist, <<"timer">>) /\ UNCHANGED <<phase, sent, ticks, xphase>>
Tick == /\ Fine /\ ticks < MaxTicks /\ ticks' = ticks + 1
        /\ hist' = Append(hist, <<"tick">>) /\ UNCHANGED <<phase, sent, timers, xphase>>
Settle == /\ Fine /\ hist # <<>> /\ hist[Len(hist)] # <<"settle">>
          /\ hist' = Append(hist, <<"settle">>) /\ UNCHANGED <<phase, sent, timers, ticks, xphase>>

Next == /\ Len(hist) < D
        /\ \/ \E c \in Conns : Open(c) \/ Close(c) \/ (\E r \in ReqSet : Send(c, r))
           \/ Timer \/ Tick \/ Settle \/ OpenX \/ CloseX
Spec == Init /\ [][Next]_vars

Finished == Len(hist) = D \/ (\A c \in Conns : phase[c] = "closed")
Emit == Finished => PrintT(<<"H", hist>>)
=============================================================================
