----------------------------- MODULE ClientImpl -----------------------------
(***************************************************************************)
(* Layer B for C11 / C09: the client Service object as the code has it     *)
(* (frontend/client/services/service.py, used the way commands.py uses it: *)
(* every command loads a fresh object from disk; the commands that connect *)
(* close the service afterwards, which persists the in-memory flags).      *)
(*                                                                         *)
(*   disk   the five persisted flags (service_meta), key / local index     *)
(*   mem    the flags of the live object (loaded from disk, then           *)
(*          cu := st >= 1, du := st = 2 at connect time)                   *)
(*   st     the server's state for this sid                                *)
(*   lost   an upload was accepted by the server but its echo never        *)
(*          reached the client (connection lost): the disk flags lag       *)
(*          behind the server until the next command that connects.        *)
(*                                                                         *)
(* Checked: it refines ClientSM under the mapping "cu, du are what the     *)
(* server says; the other flags are the persisted ones"; guards evaluated  *)
(* on the in-memory flags AFTER the connect-time synchronisation are the   *)
(* guards of the reference machine; after any lost echo the next           *)
(* connecting command repairs the persisted flags (Resync).                *)
(***************************************************************************)
EXTENDS Naturals, Sequences
CONSTANTS MaxLost,
          PersistSynced    \* TRUE: as the code has it - close_service stores the connect-time synchronised flags even when the
                           \* command was refused; FALSE: a twin that stores nothing on a refusal (must lose Recoverable)
Flag == [cc : BOOLEAN, cu : BOOLEAN, kc : BOOLEAN, de : BOOLEAN, du : BOOLEAN]
NoFlags == [cc |-> FALSE, cu |-> FALSE, kc |-> FALSE, de |-> FALSE, du |-> FALSE]
VARIABLES disk, created, keyVer, edbVer, edbLocal, st, lost
ivars == <<disk, created, keyVer, edbVer, edbLocal, st, lost>>

Init == /\ disk = NoFlags /\ created = FALSE /\ keyVer = 0 /\ edbVer = 0 /\ edbLocal = FALSE /\ st = 0 /\ lost = 0

(* load_websocket: the in-memory flags after the connect-time synchronisation with the server's init echo *)
Synced(m) == [m EXCEPT !.cu = (st >= 1), !.du = (st = 2)]

(* ---- commands that do not connect: object loaded, handler, nothing persisted unless the handler stores ---- *)
Create(out) ==
    IF ~disk.cc
    THEN /\ out = "ok" /\ created' = TRUE /\ disk' = [disk EXCEPT !.cc = TRUE]
         /\ UNCHANGED <<keyVer, edbVer, edbLocal, st, lost>>
    ELSE out = "refused" /\ UNCHANGED ivars
GenKey(out) ==
    IF disk.cc /\ ~disk.kc
    THEN /\ out = "ok" /\ keyVer' = keyVer + 1 /\ disk' = [disk EXCEPT !.kc = TRUE]
         /\ UNCHANGED <<created, edbVer, edbLocal, st, lost>>
    ELSE out = "refused" /\ UNCHANGED ivars
Encrypt(out) ==
    IF disk.cc /\ disk.kc /\ ~disk.de
    THEN /\ out = "ok" /\ edbVer' = keyVer /\ edbLocal' = TRUE /\ disk' = [disk EXCEPT !.de = TRUE]
         /\ UNCHANGED <<created, keyVer, st, lost>>
    ELSE out = "refused" /\ UNCHANGED ivars

(* ---- commands that connect: load, connect (sync), guard on the synced flags, request, echo handler, close_service ---- *)
(* close_service persists the in-memory flags whatever the outcome was *)
UpConfig(out, echoLost) ==
    LET m == Synced(disk) IN
    IF ~m.cu /\ m.cc
    THEN /\ st' = 1                                            \* the server accepts (its state is 0, as the synced flag says)
         /\ IF echoLost /\ lost < MaxLost
            THEN /\ out = "noecho" /\ lost' = lost + 1 /\ disk' = m          \* echo never arrives: cu stays FALSE in memory; close persists m
            ELSE /\ out = "ok" /\ lost' = lost /\ disk' = [m EXCEPT !.cu = TRUE]
         /\ UNCHANGED <<created, keyVer, edbVer, edbLocal>>
    ELSE /\ out = "refused" /\ disk' = (IF created /\ PersistSynced THEN m ELSE disk)          \* close_service still stores the synced flags
         /\ UNCHANGED <<created, keyVer, edbVer, edbLocal, st, lost>>
UpIndex(out, echoLost) ==
    LET m == Synced(disk) IN
    IF ~m.du /\ m.cu /\ m.kc /\ edbLocal
    THEN /\ st' = 2
         /\ IF echoLost /\ lost < MaxLost
            THEN /\ out = "noecho" /\ lost' = lost + 1 /\ disk' = m /\ edbLocal' = edbLocal
            ELSE /\ out = "ok" /\ lost' = lost /\ disk' = [m EXCEPT !.du = TRUE] /\ edbLocal' = FALSE   \* local copy deleted after the flag is stored
         /\ UNCHANGED <<created, keyVer, edbVer>>
    ELSE /\ out = "refused" /\ disk' = (IF created /\ PersistSynced THEN m ELSE disk)
         /\ UNCHANGED <<created, keyVer, edbVer, edbLocal, st, lost>>
Search(out, correct) ==
    LET m == Synced(disk) IN
    /\ IF m.du THEN out = "ok" /\ correct = (edbVer = keyVer) ELSE out = "refused" /\ correct = FALSE
    /\ disk' = (IF created /\ (PersistSynced \/ out = "ok") THEN m ELSE disk)
    /\ UNCHANGED <<created, keyVer, edbVer, edbLocal, st, lost>>

Next == \/ \E o \in {"ok", "refused"} : Create(o) \/ GenKey(o) \/ Encrypt(o)
        \/ \E o \in {"ok", "refused", "noecho"}, e \in BOOLEAN : UpConfig(o, e) \/ UpIndex(o, e)
        \/ \E o \in {"ok", "refused"}, c \in BOOLEAN : Search(o, c)
Spec == Init /\ [][Next]_ivars

(* ---- the documented workflow as a goal-directed driver: the user looks at what the client reports (the persisted flags)  ---- *)
(* ---- and issues the next command of the README; a command that ends in an error or a time-out is simply issued again    ---- *)
DriverNext ==
    IF ~disk.cc THEN \E o \in {"ok", "refused"} : Create(o)
    ELSE IF ~disk.kc THEN \E o \in {"ok", "refused"} : GenKey(o)
    ELSE IF ~disk.de /\ ~disk.du THEN \E o \in {"ok", "refused"} : Encrypt(o)
    ELSE IF ~disk.cu THEN \E o \in {"ok", "refused", "noecho"}, e \in BOOLEAN : UpConfig(o, e)
    ELSE IF ~disk.du THEN \E o \in {"ok", "refused", "noecho"}, e \in BOOLEAN : UpIndex(o, e)
    ELSE \E o \in {"ok", "refused"}, c \in BOOLEAN : Search(o, c)
DriverSpec == Init /\ [][DriverNext]_ivars /\ WF_ivars(DriverNext)
(* whatever echoes are lost on the way (at most MaxLost), the workflow ends in a service whose searches are answered from an  *)
(* index built with the one key, and stays there                                                                             *)
Goal == st = 2 /\ disk.du /\ disk.cu /\ edbVer = keyVer /\ keyVer = 1
Recoverable == <>[]Goal
(* the driver never gets a refusal it cannot act on: a refused command changes what the client reports (the flags catch up),  *)
(* except the very last state in which searches succeed                                                                       *)
DriverProgress == [][DriverNext => (ivars' # ivars \/ Goal)]_ivars

(* ---- refinement of the reference machine: cu / du are the server's view, the rest is the persisted view ---- *)
SM == INSTANCE ClientSM WITH exists <- created, cc <- disk.cc, cu <- (st >= 1), kc <- disk.kc, de <- disk.de, du <- (st = 2),
                             keyVer <- keyVer, edbVer <- edbVer, st <- st
RefinesClientSM == SM!CSpec
(* the persisted upload flags never claim more than the server has *)
DiskNotAhead == (disk.cu => st >= 1) /\ (disk.du => st = 2)
(* ... and lag behind only while an echo was lost and no connecting command has run since *)
Lag == (st >= 1 /\ ~disk.cu) \/ (st = 2 /\ ~disk.du)
LagOnlyAfterLoss == Lag => lost > 0
(* an uploaded index was built with the one and only key *)
Searchable == st = 2 => (edbVer = keyVer /\ keyVer = 1)
=============================================================================
