------------------------ MODULE Trace_CrashRecovery ------------------------
(***************************************************************************)
(* Layer A for C13 as a trace specification over ClientSM:                 *)
(* a workflow run in which one component (server or client) is killed at a *)
(* file-system operation of a persisting handler, restarted, and the       *)
(* workflow is continued by an operator who retries the interrupted step.  *)
(*                                                                         *)
(*  - the interrupted step has either not happened or happened completely  *)
(*    (TLC chooses; a trace is accepted if one choice explains the rest);  *)
(*  - after the restart the handshake succeeds and reports the server      *)
(*    state of that choice, and the client object loads;                   *)
(*  - every retried step is accepted, or refused only because it has       *)
(*    visibly completed; the workflow ends with correct searches.          *)
(***************************************************************************)
EXTENDS ClientSM, TLC, Json, IOUtils

Traces == JsonDeserialize(IOEnv.TRACE_FILE)
VARIABLES tid, l, verdict, clause, nsearch
tvars == <<exists, cc, cu, kc, de, du, keyVer, edbVer, st, tid, l, verdict, clause, nsearch>>
Tr == Traces[tid].ev
Ev == Tr[l]

Op(op, out) ==
    CASE op = "create"   -> Create(TRUE, out)
      [] op = "genkey"   -> GenKey(out)
      [] op = "encrypt"  -> Encrypt(out)
      [] op = "upconfig" -> UpConfig(out)
      [] op = "upindex"  -> UpIndex(out)
      [] OTHER -> FALSE

AlreadyDone(op) ==
    CASE op = "create"   -> exists
      [] op = "genkey"   -> kc
      [] op = "encrypt"  -> de
      [] op = "upconfig" -> cu
      [] op = "upindex"  -> du
      [] OTHER -> FALSE

(* the killed step: nothing, or all of it ("create" is only visible once it has returned the sid) *)
CrashStep(h) == \/ UNCHANGED cvars
                \/ (h # "create" /\ Op(h, "ok"))

Act ==
    CASE Ev.e = "step"   -> Op(Ev.op, Ev.out) /\ Ev.out = "ok" /\ UNCHANGED nsearch
      [] Ev.e = "crash"  -> CrashStep(Ev.h) /\ UNCHANGED nsearch
      [] Ev.e = "probe"  -> Ev.ok /\ Ev.rep = st /\ UNCHANGED cvars /\ UNCHANGED nsearch
      [] Ev.e = "load"   -> Ev.ok /\ UNCHANGED cvars /\ UNCHANGED nsearch
      [] Ev.e = "rstep"  -> /\ \/ (Ev.out = "ok" /\ Op(Ev.op, "ok"))
                               \/ (Ev.out = "already" /\ AlreadyDone(Ev.op) /\ UNCHANGED cvars)
                            /\ UNCHANGED nsearch
      [] Ev.e = "search" -> Search(Ev.out, Ev.correct) /\ Ev.out = "ok" /\ Ev.correct /\ nsearch' = nsearch + 1
      [] Ev.e = "end"    -> du /\ nsearch > 0 /\ UNCHANGED cvars /\ UNCHANGED nsearch
      [] OTHER -> FALSE

Running == verdict = "run" /\ l <= Len(Tr)
Step == Running /\ Act /\ l' = l + 1 /\ UNCHANGED <<tid, verdict, clause>>
Finish == /\ verdict = "run" /\ l = Len(Tr) + 1
          /\ verdict' = "ACCEPT" /\ UNCHANGED <<cvars, tid, l, clause, nsearch>>
Reject == /\ Running /\ ~ENABLED Step
          /\ verdict' = "REJECT"
          /\ clause' = (IF Ev.e \in {"step", "rstep"} THEN Ev.e \o ":" \o Ev.op \o ":" \o Ev.out
                        ELSE IF Ev.e = "probe" THEN "Handshake" ELSE IF Ev.e = "load" THEN "ClientLoads"
                        ELSE IF Ev.e = "search" THEN "SearchCorrect" ELSE Ev.e)
          /\ UNCHANGED <<cvars, tid, l, nsearch>>

TraceInit == CInit /\ tid \in 1..Len(Traces) /\ l = 1 /\ verdict = "run" /\ clause = "" /\ nsearch = 0
TraceNext == Step \/ Finish \/ Reject
TraceSpec == TraceInit /\ [][TraceNext]_tvars
Done == verdict # "run" => PrintT(<<"V", Traces[tid].tid, verdict, l, clause>>)
=============================================================================
