--------------------------- MODULE Trace_ClientImpl ---------------------------
(* Recorded runs of the real client (incl. runs in which the server's upload echo is dropped) against ClientImpl:  *)
(* after every command the persisted flags, the key version and the server state must be the model's.            *)
EXTENDS ClientImpl, TLC, Json, IOUtils
Traces == JsonDeserialize(IOEnv.TRACE_FILE)
VARIABLES tid, l, verdict, clause
tvars == <<ivars, tid, l, verdict, clause>>
Tr == Traces[tid].ev
Ev == Tr[l]
Act == CASE Ev.op = "create"   -> Create(Ev.out)
         [] Ev.op = "genkey"   -> GenKey(Ev.out)
         [] Ev.op = "encrypt"  -> Encrypt(Ev.out)
         [] Ev.op = "upconfig" -> UpConfig(Ev.out, Ev.out = "noecho")
         [] Ev.op = "upindex"  -> UpIndex(Ev.out, Ev.out = "noecho")
         [] Ev.op = "search"   -> Search(Ev.out, Ev.correct)
         [] Ev.op = "restart"  -> UNCHANGED ivars               \* server restart: its state is durable
         [] OTHER -> FALSE
Observed == /\ disk'.cc = Ev.o.cc /\ disk'.cu = Ev.o.cu /\ disk'.kc = Ev.o.kc /\ disk'.de = Ev.o.de /\ disk'.du = Ev.o.du
            /\ st' = Ev.o.sst /\ keyVer' = Ev.o.keyVer
Running == verdict = "run" /\ l <= Len(Tr)
Step == Running /\ Act /\ Observed /\ l' = l + 1 /\ UNCHANGED <<tid, verdict, clause>>
Finish == verdict = "run" /\ l = Len(Tr) + 1 /\ verdict' = "ACCEPT" /\ UNCHANGED <<ivars, tid, l, clause>>
Reject == Running /\ ~ENABLED Step /\ verdict' = "REJECT" /\ clause' = Ev.op \o ":" \o Ev.out /\ UNCHANGED <<ivars, tid, l>>
TraceInit == Init /\ tid \in 1..Len(Traces) /\ l = 1 /\ verdict = "run" /\ clause = ""
TraceSpec == TraceInit /\ [][Step \/ Finish \/ Reject]_tvars
Done == verdict # "run" => PrintT(<<"V", Traces[tid].tid, verdict, l, clause>>)
=============================================================================
