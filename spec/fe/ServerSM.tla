----------------------------- MODULE ServerSM -----------------------------
(***************************************************************************)
(* Layer A for C10 (and the per-service core of C09/C12/C13): the server   *)
(* keeps every service id in a forward-only, write-once 3-state machine.   *)
(*                                                                         *)
(*   st   0 = not configured, 1 = configured, 2 = ready                    *)
(*   cfg  the accepted configuration (0 = none)                            *)
(*   idx  the accepted index (0 = none)                                    *)
(*                                                                         *)
(* Actions are the protocol requests of ONE service id together with the   *)
(* outcome the client observes.  Nothing here talks about files, tasks or  *)
(* connections: whether a request travels on a fresh or an old connection  *)
(* is irrelevant to the reference machine, so `Connect` only states what   *)
(* the init echo must report.                                              *)
(***************************************************************************)
EXTENDS Naturals, Sequences

CONSTANTS Cfgs,    \* identifiers of configurations a client may upload, e.g. {1,2}
          Idxs     \* identifiers of encrypted databases a client may upload, e.g. {1,2}

VARIABLES st, cfg, idx
\* @type: <<Int, Int, Int>>;
svars == <<st, cfg, idx>>

Outcomes == {"ok", "refused", "result", "none"}

TypeOK == /\ st \in 0..2
          /\ cfg \in Cfgs \cup {0}
          /\ idx \in Idxs \cup {0}

SMInit == st = 0 /\ cfg = 0 /\ idx = 0

(* the init echo of a new connection reports the state reached so far *)
Connect(rep) == /\ rep = st
                /\ UNCHANGED svars

(* configuration upload: accepted exactly in state 0 *)
Config(c, out) ==
    IF st = 0
    THEN /\ out = "ok"
         /\ st' = 1 /\ cfg' = c /\ idx' = idx
    ELSE /\ out = "refused"
         /\ UNCHANGED svars

(* index upload: accepted exactly in state 1 *)
Upload(x, out) ==
    IF st = 1
    THEN /\ out = "ok"
         /\ st' = 2 /\ idx' = x /\ cfg' = cfg
    ELSE /\ out = "refused"
         /\ UNCHANGED svars

(* search: answered with a result exactly in state 2, and then from the accepted index *)
Search(out, res) ==
    /\ IF st = 2 THEN out = "result" /\ res = idx
                 ELSE out = "refused" /\ res = 0
    /\ UNCHANGED svars

(* a message with a foreign sid or an unknown type: no effect on the service; the server may       *)
(* ignore it, refuse it, or drop the connection                                                     *)
Foreign(out) == out \in {"none", "refused"} /\ UNCHANGED svars
Unknown(out) == out \in {"none", "refused"} /\ UNCHANGED svars

(* a configuration / index upload whose content the server cannot decode or store (outside the message alphabet the     *)
(* property enumerates, but "a refused request changes nothing" speaks of it): never acknowledged, no effect               *)
Malformed(out) == out \in {"none", "refused"} /\ UNCHANGED svars

(* closing / re-opening a connection, and a restart of the server process, do not change the machine *)
Close == UNCHANGED svars

SMNext == \/ \E r \in 0..2 : Connect(r)
          \/ \E c \in Cfgs, o \in Outcomes : Config(c, o)
          \/ \E x \in Idxs, o \in Outcomes : Upload(x, o)
          \/ \E o \in Outcomes, r \in Idxs \cup {0} : Search(o, r)
          \/ \E o \in Outcomes : Foreign(o) \/ Unknown(o) \/ Malformed(o)
          \/ Close

SMSpec == SMInit /\ [][SMNext]_svars

(* the properties of C10, as action properties over the abstract state *)
ForwardOnly  == [][st' >= st /\ st' <= st + 1]_svars
CfgWriteOnce == [][cfg # 0 => cfg' = cfg]_svars
IdxWriteOnce == [][idx # 0 => idx' = idx]_svars
Consistent   == /\ (st = 0) <=> (cfg = 0)
                /\ (st = 2) <=> (idx # 0)
=============================================================================
