------------------------------ MODULE ClientSM ------------------------------
(***************************************************************************)
(* Layer A for C11 (client workflow), reused by C09 (end to end) and C13   *)
(* (crash recovery): ONE client service talking to a live server.          *)
(*                                                                         *)
(*   exists  the service has been created (a sid exists)                   *)
(*   cc,cu,kc,de,du   the five persisted client flags (config created,     *)
(*           config uploaded, key created, db encrypted, db uploaded)      *)
(*   keyVer  version of the key file (0 = none); changes only when a key   *)
(*           is generated                                                  *)
(*   edbVer  key version the local/remote index was built with (0 = none)  *)
(*   st      the server's state for this sid (ServerSM: 0,1,2)             *)
(*                                                                         *)
(* Every operation is run on a client object freshly loaded from disk and  *)
(* closed afterwards, as frontend/client/commands.py does.  An operation   *)
(* has the outcome "ok" or "refused" (it raised); a refused operation      *)
(* leaves everything unchanged.  The prerequisite relation is the one      *)
(* documented in frontend/README.md.                                       *)
(***************************************************************************)
EXTENDS Naturals, Sequences

VARIABLES exists, cc, cu, kc, de, du, keyVer, edbVer, st
\* @type: <<Bool, Bool, Bool, Bool, Bool, Bool, Int, Int, Int>>;
cvars == <<exists, cc, cu, kc, de, du, keyVer, edbVer, st>>

CInit == /\ exists = FALSE /\ cc = FALSE /\ cu = FALSE /\ kc = FALSE /\ de = FALSE /\ du = FALSE
         /\ keyVer = 0 /\ edbVer = 0 /\ st = 0

\* @type: <<Bool, Bool, Bool, Bool, Bool>>;
Flags == <<cc, cu, kc, de, du>>

(* create service: a configuration the scheme cannot be instantiated with does not create a service *)
Create(valid, out) ==
    IF ~exists /\ valid
    THEN /\ out = "ok" /\ exists' = TRUE /\ cc' = TRUE
         /\ UNCHANGED <<cu, kc, de, du, keyVer, edbVer, st>>
    ELSE /\ out = "refused" /\ UNCHANGED cvars

(* generate key: needs the config, and is write-once *)
GenKey(out) ==
    IF cc /\ ~kc
    THEN /\ out = "ok" /\ kc' = TRUE /\ keyVer' = keyVer + 1
         /\ UNCHANGED <<exists, cc, cu, de, du, edbVer, st>>
    ELSE /\ out = "refused" /\ UNCHANGED cvars

(* encrypt database: needs config and key, once *)
Encrypt(out) ==
    IF cc /\ kc /\ ~de
    THEN /\ out = "ok" /\ de' = TRUE /\ edbVer' = keyVer
         /\ UNCHANGED <<exists, cc, cu, kc, du, keyVer, st>>
    ELSE /\ out = "refused" /\ UNCHANGED cvars

(* upload config: needs the config, once; the server accepts in state 0 *)
UpConfig(out) ==
    IF cc /\ ~cu /\ st = 0
    THEN /\ out = "ok" /\ cu' = TRUE /\ st' = 1
         /\ UNCHANGED <<exists, cc, kc, de, du, keyVer, edbVer>>
    ELSE /\ out = "refused" /\ UNCHANGED cvars

(* upload index: needs uploaded config, key and the encrypted database, once *)
UpIndex(out) ==
    IF cu /\ kc /\ de /\ ~du /\ st = 1
    THEN /\ out = "ok" /\ du' = TRUE /\ st' = 2
         /\ UNCHANGED <<exists, cc, cu, kc, de, keyVer, edbVer>>
    ELSE /\ out = "refused" /\ UNCHANGED cvars

(* search: only after the index is uploaded; then the answer is the posting list *)
Search(out, correct) ==
    /\ IF du /\ st = 2 THEN out = "ok" /\ correct = (edbVer = keyVer)
                       ELSE out = "refused" /\ correct = FALSE
    /\ UNCHANGED cvars

CNext == \/ \E v \in BOOLEAN, o \in {"ok", "refused"} : Create(v, o)
         \/ \E o \in {"ok", "refused"} : GenKey(o) \/ Encrypt(o) \/ UpConfig(o) \/ UpIndex(o)
         \/ \E o \in {"ok", "refused"}, c \in BOOLEAN : Search(o, c)
CSpec == CInit /\ [][CNext]_cvars

(* ---- the properties of C11 ---- *)
KeyWriteOnce  == [][keyVer # 0 => keyVer' = keyVer]_cvars
FlagsMonotone == [][(cc => cc') /\ (cu => cu') /\ (kc => kc') /\ (de => de') /\ (du => du')]_cvars
Prereq == /\ (cu => cc) /\ (kc => cc) /\ (de => kc) /\ (du => cu /\ de)
          /\ (cu <=> st >= 1) /\ (du <=> st = 2)
(* an uploaded index is searchable: it was built with the only key there ever was *)
Searchable == du => (edbVer = keyVer /\ keyVer = 1)
=============================================================================
