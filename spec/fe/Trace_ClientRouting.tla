------------------------ MODULE Trace_ClientRouting ------------------------
(* Recorded run of ONE real client object with several searches in flight, against ClientRouting.        *)
(* Events: start(i) - handle_keyword_search(i) registered its future and sent its token;                 *)
(*         deliver(i, w) - the callback of search i was given the result that belongs to keyword w.      *)
(* The trace is accepted iff it is a behaviour of ClientRouting under the given Routing (ServerAnswers   *)
(* and Receive are composed silently); RightResult is reported separately in the clause field.           *)
EXTENDS MC_ClientRouting, TLC, Json, IOUtils
Traces == JsonDeserialize(IOEnv.TRACE_FILE)
VARIABLES tid, l, verdict, clause, silent
tvars == <<vars, tid, l, verdict, clause, silent>>
Tr == Traces[tid].ev
Ev == Tr[l]
Logged == CASE Ev.e = "start"   -> Start(Ev.i)
            [] Ev.e = "deliver" -> phase[Ev.i] = "done" /\ got[Ev.i] = Ev.w /\ UNCHANGED vars
            [] OTHER -> FALSE
Running == verdict = "run" /\ l <= Len(Tr)
Consume == Running /\ Logged /\ l' = l + 1 /\ silent' = 0 /\ UNCHANGED <<tid, verdict, clause>>
Hidden == Running /\ silent < 8 /\ (ServerAnswers \/ Receive) /\ silent' = silent + 1 /\ UNCHANGED <<tid, l, verdict, clause>>
Finish == /\ verdict = "run" /\ l = Len(Tr) + 1 /\ verdict' = "ACCEPT"
          /\ clause' = (IF RightResult THEN "RightResult:holds" ELSE "RightResult:VIOLATED")
          /\ UNCHANGED <<vars, tid, l, silent>>
Reject == /\ Running /\ ~ENABLED Consume /\ ~ENABLED Hidden /\ verdict' = "REJECT" /\ clause' = Ev.e
          /\ UNCHANGED <<vars, tid, l, silent>>
TraceInit == Init /\ tid \in 1..Len(Traces) /\ l = 1 /\ verdict = "run" /\ clause = "" /\ silent = 0
TraceSpec == TraceInit /\ [][Consume \/ Hidden \/ Finish \/ Reject]_tvars
Done == verdict # "run" => PrintT(<<"V", Traces[tid].tid, verdict, l, clause>>)
=============================================================================
