----------------------------- MODULE MC_Persist -----------------------------
(* Instance of Persist that also prints the FS-visible programs of the model, *)
(* so that the harness can compare them with the recorded operation logs.      *)
EXTENDS Persist
ASSUME PrintT(<<"P", "server.upconfig", FsOps(CfgProg)>>)
ASSUME PrintT(<<"P", "server.upindex", FsOps(UpProg)>>)
=============================================================================
