------------------------------ MODULE PArray ------------------------------
(***************************************************************************)
(* Layer A for C19: a persistent fixed-length array of fixed-size byte     *)
(* strings behaves like a plain list of left-zero-padded items, on disk    *)
(* and after reopen.                                                       *)
(*                                                                         *)
(*   par     [n, isz, pf]  array length, item size, items per chunk file   *)
(*           (fixed at creation; a variable only because every trace       *)
(*           brings its own parameters)                                    *)
(*   arr     the list: n items, each a byte sequence of length isz         *)
(*   opened  whether the handle the user holds is open                     *)
(*                                                                         *)
(* Every public operation is an action with the outcome the caller         *)
(* observes:  [cls |-> "ok" | "raised", kind, res, num]                    *)
(*   res   the items returned (get: one, slice read / iteration: many)     *)
(*   num   membership (0/1) or len()                                       *)
(*   kind  the exception class a plain list / the documented interface     *)
(*         would raise.  The property only says "raises", so `kind` is     *)
(*         compared by the trace spec as DRIFT, never as a violation.      *)
(* Nothing here talks about chunk files, handles or offsets; the only      *)
(* statement about the file system is the set of names the array may own.  *)
(*                                                                         *)
(* A value handed to a write is [k, v]: k = "b" (bytes) / "ba" (bytearray) *)
(* with content v, anything else = not a byte string (v ignored).          *)
(* An operation is a record [op, i, sl, xs] (index, slice, list of values; *)
(* the fields an operation does not use are ignored).                      *)
(***************************************************************************)
EXTENDS PySlice, FiniteSets

VARIABLES par, arr, opened
avars == <<par, arr, opened>>

N   == par.n
ISZ == par.isz
PF  == par.pf
NFiles == (N + PF - 1) \div PF          \* ceil(n / pf)

Byte == 0..255
Zero == [j \in 1..ISZ |-> 0]
IsItem(x) == DOMAIN x = 1..ISZ /\ \A j \in 1..ISZ : x[j] \in Byte

TypeOK == /\ N \in Nat \ {0} /\ ISZ \in Nat \ {0} /\ PF \in Nat \ {0}
          /\ DOMAIN arr = 1..N
          /\ \A p \in 1..N : IsItem(arr[p])
          /\ opened \in BOOLEAN

(* ---- values ---------------------------------------------------------- *)
IsBytes(x) == x.k \in {"b", "ba"}
Fits(x)    == IsBytes(x) /\ Len(x.v) <= ISZ
(* fixed-size item for a (shorter) byte string: zeros on the LEFT *)
Pad(v)     == [j \in 1..ISZ |-> IF j <= ISZ - Len(v) THEN 0 ELSE v[j - (ISZ - Len(v))]]
BadKind(x) == IF IsBytes(x) THEN "ValueError" ELSE "TypeError"

(* ---- outcomes -------------------------------------------------------- *)
Ok(res, num)  == [cls |-> "ok", kind |-> "", res |-> res, num |-> num]
Raised(kind)  == [cls |-> "raised", kind |-> kind, res |-> <<>>, num |-> 0]
Either        == [cls |-> "any", kind |-> "", res |-> <<>>, num |-> 0]
ClosedErr     == Raised("ValueError")

(* ---- indices --------------------------------------------------------- *)
InRange(i) == (0 - N) <= i /\ i < N
Pos(i)     == (IF i < 0 THEN i + N ELSE i) + 1       \* 1-based position of Python index i
Idx(sl)    == SliceSeq(sl, N)                          \* 0-based indices selected by slice sl
Min(a, b)  == IF a < b THEN a ELSE b
Used(sl, xs) == Min(Len(Idx(sl)), Len(xs))             \* element-wise up to the shorter
FirstBad(sl, xs) ==                                    \* first consumed value that cannot be stored, 0 if none
    LET bad == {j \in 1..Used(sl, xs) : ~Fits(xs[j])} IN
    IF bad = {} THEN 0 ELSE CHOOSE j \in bad : \A k \in bad : j <= k

(* ---- expected outcome of every operation in the current state -------- *)
GetOut(i) ==
    IF ~opened THEN ClosedErr
    ELSE IF ~InRange(i) THEN Raised("IndexError")
    ELSE Ok(<<arr[Pos(i)]>>, 0)

SetOut(i, x) ==
    IF ~opened THEN ClosedErr
    ELSE IF ~InRange(i) THEN Raised("IndexError")
    ELSE IF ~Fits(x) THEN Raised(BadKind(x))
    ELSE Ok(<<>>, 0)

GetSliceOut(sl) ==
    IF ~opened THEN ClosedErr
    ELSE IF ~SliceOK(sl) THEN Raised("ValueError")
    ELSE Ok([k \in 1..Len(Idx(sl)) |-> arr[Idx(sl)[k] + 1]], 0)

SetSliceOut(sl, xs) ==
    IF ~opened THEN ClosedErr
    ELSE IF ~SliceOK(sl) THEN Raised("ValueError")
    ELSE IF FirstBad(sl, xs) # 0 THEN Raised(BadKind(xs[FirstBad(sl, xs)]))
    ELSE Ok(<<>>, 0)

DelOut(i) ==
    IF ~opened THEN ClosedErr
    ELSE IF ~InRange(i) THEN Raised("IndexError")
    ELSE Ok(<<>>, 0)

DelSliceOut(sl) ==
    IF ~opened THEN ClosedErr
    ELSE IF ~SliceOK(sl) THEN Raised("ValueError")
    ELSE Ok(<<>>, 0)

ClearOut == IF ~opened THEN ClosedErr ELSE Ok(<<>>, 0)
IterOut  == IF ~opened THEN ClosedErr ELSE Ok(arr, 0)
LenOut   == IF ~opened THEN ClosedErr ELSE Ok(<<>>, N)
(* `x in arr` : equality with the stored (padded) item, like a list of bytes objects *)
ContainsOut(x) ==
    IF ~opened THEN ClosedErr
    ELSE Ok(<<>>, IF IsBytes(x) /\ \E p \in 1..N : arr[p] = x.v THEN 1 ELSE 0)
(* closing twice: the property does not single it out (file.close() is idempotent); both allowed *)
CloseOut  == IF opened THEN Ok(<<>>, 0) ELSE Either
ReopenOut == Ok(<<>>, 0)

(* ---- the list after every operation; a failing operation changes nothing *)
SetArr(i, x) ==
    IF SetOut(i, x).cls = "ok" THEN [arr EXCEPT ![Pos(i)] = Pad(x.v)] ELSE arr
SetSliceArr(sl, xs) ==
    IF SetSliceOut(sl, xs).cls = "ok"
    THEN [p \in 1..N |->
            IF \E j \in 1..Used(sl, xs) : Idx(sl)[j] + 1 = p
            THEN Pad(xs[CHOOSE j \in 1..Used(sl, xs) : Idx(sl)[j] + 1 = p].v)
            ELSE arr[p]]
    ELSE arr
DelArr(i) ==
    IF DelOut(i).cls = "ok" THEN [arr EXCEPT ![Pos(i)] = Zero] ELSE arr
DelSliceArr(sl) ==
    IF DelSliceOut(sl).cls = "ok"
    THEN [p \in 1..N |-> IF \E j \in 1..Len(Idx(sl)) : Idx(sl)[j] + 1 = p THEN Zero ELSE arr[p]]
    ELSE arr
ClearArr == IF opened THEN [p \in 1..N |-> Zero] ELSE arr

(* ---- comparison of an observed outcome with the expected one ---------- *)
(* (IF rather than \/ and =>: inside an action TLC would explore both disjuncts as separate successors) *)
SameClass(obs, exp) == IF exp.cls = "any" THEN TRUE ELSE obs.cls = exp.cls
SameOutcome(obs, exp) ==
    /\ SameClass(obs, exp)
    /\ IF exp.cls = "ok" THEN obs.res = exp.res /\ obs.num = exp.num ELSE TRUE
SameKind(obs, exp) == IF exp.cls = "raised" THEN obs.kind = exp.kind ELSE TRUE

(* ---- actions ---------------------------------------------------------- *)
Reads(out, exp) == SameOutcome(out, exp) /\ UNCHANGED avars
Writes(out, exp, a2) == SameOutcome(out, exp) /\ arr' = a2 /\ UNCHANGED <<par, opened>>

Create(out)         == Reads(out, Ok(<<>>, 0))           \* the state after creation is the initial state
Get(i, out)         == Reads(out, GetOut(i))
GetSlice(sl, out)   == Reads(out, GetSliceOut(sl))
Iter(out)           == Reads(out, IterOut)
Contains(x, out)    == Reads(out, ContainsOut(x))
LenOp(out)          == Reads(out, LenOut)
Set(i, x, out)      == Writes(out, SetOut(i, x), SetArr(i, x))
SetSlice(sl, xs, out) == Writes(out, SetSliceOut(sl, xs), SetSliceArr(sl, xs))
Del(i, out)         == Writes(out, DelOut(i), DelArr(i))
DelSlice(sl, out)   == Writes(out, DelSliceOut(sl), DelSliceArr(sl))
Clear(out)          == Writes(out, ClearOut, ClearArr)
Close(out)          == SameOutcome(out, CloseOut) /\ opened' = FALSE /\ UNCHANGED <<par, arr>>
(* reopening is only defined for a closed handle: the contents are those before the close *)
Reopen(out)         == ~opened /\ SameOutcome(out, ReopenOut) /\ opened' = TRUE /\ UNCHANGED <<par, arr>>
\* life cycle: the array is released (its files are given up) and a new array of the same geometry is created under the
\* same path - a new array is a list of zero items, whatever the old one held
Recreate(out)       == SameOutcome(out, Ok(<<>>, 0)) /\ arr' = [p \in 1..N |-> Zero] /\ opened' = TRUE /\ UNCHANGED par

OpNames == {"create", "get", "set", "getslice", "setslice", "del", "delslice", "clear", "iter",
            "contains", "len", "close", "reopen", "recreate"}

(* dispatcher over operation records *)
Apply(o, out) ==
    CASE o.op = "create"   -> Create(out)
      [] o.op = "get"      -> Get(o.i, out)
      [] o.op = "set"      -> Len(o.xs) = 1 /\ Set(o.i, o.xs[1], out)
      [] o.op = "getslice" -> GetSlice(o.sl, out)
      [] o.op = "setslice" -> SetSlice(o.sl, o.xs, out)
      [] o.op = "del"      -> Del(o.i, out)
      [] o.op = "delslice" -> DelSlice(o.sl, out)
      [] o.op = "clear"    -> Clear(out)
      [] o.op = "iter"     -> Iter(out)
      [] o.op = "contains" -> Len(o.xs) = 1 /\ Contains(o.xs[1], out)
      [] o.op = "len"      -> LenOp(out)
      [] o.op = "close"    -> Close(out)
      [] o.op = "reopen"   -> Reopen(out)
      [] o.op = "recreate" -> Recreate(out)
      [] OTHER -> FALSE

(* expected outcome / next list as values (used by generators and for clause naming) *)
ExpOut(o) ==
    CASE o.op = "create"   -> Ok(<<>>, 0)
      [] o.op = "get"      -> GetOut(o.i)
      [] o.op = "set"      -> SetOut(o.i, o.xs[1])
      [] o.op = "getslice" -> GetSliceOut(o.sl)
      [] o.op = "setslice" -> SetSliceOut(o.sl, o.xs)
      [] o.op = "del"      -> DelOut(o.i)
      [] o.op = "delslice" -> DelSliceOut(o.sl)
      [] o.op = "clear"    -> ClearOut
      [] o.op = "iter"     -> IterOut
      [] o.op = "contains" -> ContainsOut(o.xs[1])
      [] o.op = "len"      -> LenOut
      [] o.op = "close"    -> CloseOut
      [] o.op = "reopen"   -> ReopenOut
      [] o.op = "recreate" -> Ok(<<>>, 0)
ExpArr(o) ==
    CASE o.op = "set"      -> SetArr(o.i, o.xs[1])
      [] o.op = "setslice" -> SetSliceArr(o.sl, o.xs)
      [] o.op = "del"      -> DelArr(o.i)
      [] o.op = "delslice" -> DelSliceArr(o.sl)
      [] o.op = "clear"    -> ClearArr
      [] o.op = "recreate" -> [p \in 1..N |-> Zero]
      [] OTHER -> arr
ExpOpened(o) ==
    CASE o.op = "close" -> FALSE
      [] o.op = "reopen" -> TRUE
      [] o.op = "recreate" -> TRUE
      [] OTHER -> opened

(* ---- the file system statement of the property ------------------------ *)
(* a directory listing is projected to [meta, chunks, other]: the meta file, the decimal chunk   *)
(* numbers, and every other name                                                                  *)
FilesOK(f) == /\ Len(f.other) = 0
              /\ \A j \in 1..Len(f.chunks) : f.chunks[j] \in 0..(NFiles - 1)

(* ---- initial state: a freshly created array is all zeros and open ----- *)
AInit(p) == par = p /\ arr = [q \in 1..p.n |-> [j \in 1..p.isz |-> 0]] /\ opened = TRUE

(* ---- properties of the reference itself ------------------------------- *)
LenConst   == [][DOMAIN arr' = DOMAIN arr /\ par' = par]_avars
=============================================================================
