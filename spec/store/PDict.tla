------------------------------- MODULE PDict -------------------------------
(***************************************************************************)
(* Layer A for C20: a persistent byte dictionary behaves like an in-memory *)
(* dict and survives close / reopen.                                       *)
(*                                                                         *)
(*   st      "none"   no dictionary object exists yet                      *)
(*           "open"   the (single) dictionary object is open               *)
(*           "closed" the dictionary object has been closed                *)
(*   d       contents of the open dictionary: Keys -> Vals \cup {Absent}   *)
(*           (Empty while there is no open dictionary)                     *)
(*   exists  something is stored under the path (a dictionary, or -- after *)
(*           Occupy, while no dictionary object exists yet -- a foreign    *)
(*           file that somebody else put there)                            *)
(*   onDisk  what an open of the path would load                           *)
(*   linked  from_dict(src) has produced this dictionary                   *)
(*   src     the caller's dict that was handed to from_dict; the caller    *)
(*           keeps mutating it afterwards (MutSrc)                         *)
(*                                                                         *)
(* Every action carries the outcome the caller observes: "ok" or the name  *)
(* of the exception class raised, and (for the reading operations) the     *)
(* result.  There is never more than one dictionary object on the path at  *)
(* a time: Create / FromDict / Open need st # "open".                      *)
(*                                                                         *)
(* Keys and Vals are sets of positive integers naming byte strings; NB     *)
(* names a value that is not a byte string.  Nothing here speaks of files, *)
(* pickles, caches or dbm.                                                 *)
(***************************************************************************)
EXTENDS Integers, Sequences, FiniteSets

CONSTANTS Keys, Vals

NB     == -1      \* a value that is not a byte string
Absent == 0       \* "key not present"; also the result code for None / no result
Dflt   == -2      \* result code: the default object handed to get(key, default) came back

VARIABLES d, st, onDisk, exists, src, linked
pvars == <<d, st, onDisk, exists, src, linked>>

Maps    == [Keys -> Vals \cup {Absent}]
Empty   == [k \in Keys |-> Absent]
Dom(m)  == {k \in Keys : m[k] # Absent}
Items(m) == {<<k, m[k]>> : k \in Dom(m)}

opened == st = "open"
Handle == st # "none"
\* the path is taken by a file that no dictionary object of ours produced (see Occupy)
foreign == st = "none" /\ exists

\* "ok" or the exception raised, named by the nearest of these built-in classes among its base classes ("Error": none of them)
Outcomes == {"ok", "KeyError", "ValueError", "TypeError", "FileExistsError", "FileNotFoundError", "Error"}
Refusals == Outcomes \ {"ok"}

TypeOK == /\ d \in Maps /\ onDisk \in Maps /\ src \in Maps
          /\ st \in {"none", "open", "closed"}
          /\ exists \in BOOLEAN /\ linked \in BOOLEAN
          /\ (~opened => d = Empty)
          /\ (Handle => exists)
          /\ (~exists => onDisk = Empty)

PInit == /\ st = "none" /\ d = Empty /\ onDisk = Empty /\ exists = FALSE
         /\ src = Empty /\ linked = FALSE

-----------------------------------------------------------------------------
(* allowed outcomes, as functions of the state *)

\* every operation on a closed dictionary raises ValueError
OpenOuts == IF opened THEN {"ok"} ELSE {"ValueError"}

\* a value that is not a byte string is refused (the property does not say with which exception); on a closed dictionary
\* a refusal for either reason is fine
SetOuts(v) == IF opened THEN (IF v = NB THEN Refusals ELSE {"ok"})
              ELSE IF v = NB THEN Refusals ELSE {"ValueError"}

KeyOuts(k) == IF opened THEN (IF d[k] # Absent THEN {"ok"} ELSE {"KeyError"}) ELSE {"ValueError"}

\* closing twice: the property is silent; idempotent close and a ValueError are both accepted
CloseOuts == IF opened THEN {"ok"} ELSE {"ok", "ValueError"}

CreateOuts == IF exists THEN {"FileExistsError"} ELSE {"ok"}
OpenFileOuts == IF exists THEN {"ok"} ELSE {"FileNotFoundError"}

-----------------------------------------------------------------------------
(* results of the reading operations *)
GetRes(k, out)         == IF out = "ok" THEN d[k] ELSE Absent
InRes(k, out)          == out = "ok" /\ d[k] # Absent
LenRes(out)            == IF out = "ok" THEN Cardinality(Dom(d)) ELSE 0
\* iteration yields every present key exactly once; the order is not prescribed
IterOK(out, res)       == IF out = "ok"
                          THEN /\ Len(res) = Cardinality(Dom(d))
                               /\ {res[i] : i \in 1..Len(res)} = Dom(d)
                          ELSE Len(res) = 0
\* dflt = Absent: get(key) (result None when missing); dflt = Dflt: get(key, default)
GetDefRes(k, dflt, out) == IF out = "ok" THEN (IF d[k] # Absent THEN d[k] ELSE dflt) ELSE Absent

-----------------------------------------------------------------------------
(* operations on the dictionary object *)

Set(k, v, out) ==
    /\ Handle /\ out \in SetOuts(v)
    /\ d' = IF out = "ok" THEN [d EXCEPT ![k] = v] ELSE d
    /\ UNCHANGED <<st, onDisk, exists, src, linked>>

Get(k, out, res) ==
    /\ Handle /\ out \in KeyOuts(k) /\ res = GetRes(k, out)
    /\ UNCHANGED pvars

Del(k, out) ==
    /\ Handle /\ out \in KeyOuts(k)
    /\ d' = IF out = "ok" THEN [d EXCEPT ![k] = Absent] ELSE d
    /\ UNCHANGED <<st, onDisk, exists, src, linked>>

In(k, out, res) ==
    /\ Handle /\ out \in OpenOuts /\ res = InRes(k, out)
    /\ UNCHANGED pvars

LenOp(out, res) ==
    /\ Handle /\ out \in OpenOuts /\ res = LenRes(out)
    /\ UNCHANGED pvars

Iter(out, res) ==
    /\ Handle /\ out \in OpenOuts /\ IterOK(out, res)
    /\ UNCHANGED pvars

GetDefault(k, dflt, out, res) ==
    /\ Handle /\ dflt \in {Absent, Dflt} /\ out \in OpenOuts /\ res = GetDefRes(k, dflt, out)
    /\ UNCHANGED pvars

Clear(out) ==
    /\ Handle /\ out \in OpenOuts
    /\ d' = IF out = "ok" THEN Empty ELSE d
    /\ UNCHANGED <<st, onDisk, exists, src, linked>>

Sync(out) ==
    /\ Handle /\ out \in OpenOuts
    /\ onDisk' = IF out = "ok" THEN d ELSE onDisk
    /\ UNCHANGED <<d, st, exists, src, linked>>

Close(out) ==
    /\ Handle /\ out \in CloseOuts
    /\ IF opened
       THEN /\ st' = "closed" /\ onDisk' = d /\ d' = Empty
            /\ UNCHANGED <<exists, src, linked>>
       ELSE UNCHANGED pvars

-----------------------------------------------------------------------------
(* life cycle: never a second object while one is open *)

\* create(path): refused over an existing path, otherwise a new empty dictionary
Create(out) ==
    /\ ~opened /\ out \in CreateOuts
    /\ IF out = "ok"
       THEN /\ st' = "open" /\ d' = Empty /\ onDisk' = Empty /\ exists' = TRUE
            /\ UNCHANGED <<src, linked>>
       ELSE UNCHANGED pvars

\* from_dict(m, path): like create, with the contents of m at the time of the call
FromDict(m, out) ==
    /\ ~opened /\ m \in Maps /\ out \in CreateOuts
    /\ IF out = "ok"
       THEN /\ st' = "open" /\ d' = m /\ onDisk' = m /\ exists' = TRUE
            /\ src' = m /\ linked' = TRUE
       ELSE UNCHANGED pvars

\* the caller changes its own dict after from_dict: no effect on the persistent dictionary
MutSrc(k, v) ==
    /\ linked /\ v \in Vals \cup {Absent} /\ v # src[k]
    /\ src' = [src EXCEPT ![k] = v]
    /\ UNCHANGED <<d, st, onDisk, exists, linked>>

\* the environment puts a foreign file under the path before any dictionary exists (kind: 0 = an empty file, 1 = a file
\* with some bytes in it; the property makes no difference between them: the path exists)
Occupy(kind) ==
    /\ st = "none" /\ ~exists /\ kind \in {0, 1}
    /\ exists' = TRUE
    /\ UNCHANGED <<d, st, onDisk, src, linked>>

\* open(path): refused when nothing is stored; otherwise exactly what was persisted last
\* (what opening a foreign file does is not the property's business: not enabled)
Open(out) ==
    /\ ~opened /\ ~foreign /\ out \in OpenFileOuts
    /\ IF out = "ok"
       THEN /\ st' = "open" /\ d' = onDisk
            /\ UNCHANGED <<onDisk, exists, src, linked>>
       ELSE UNCHANGED pvars

\* the three life-cycle situations the property names, as separate actions (for coverage counts)
Reopen(out)         == exists /\ Open(out)
OpenMissing(out)    == ~exists /\ Open(out)
CreateExisting(out) == exists /\ Create(out)
CreateFresh(out)    == ~exists /\ Create(out)

-----------------------------------------------------------------------------
Perms(S) == {f \in [1..Cardinality(S) -> S] : \A i, j \in 1..Cardinality(S) : i # j => f[i] # f[j]}

PNext ==
    \/ \E k \in Keys, v \in Vals \cup {NB}, o \in Outcomes : Set(k, v, o)
    \/ \E k \in Keys, o \in Outcomes : Get(k, o, GetRes(k, o))
    \/ \E k \in Keys, o \in Outcomes : Del(k, o)
    \/ \E k \in Keys, o \in Outcomes : In(k, o, InRes(k, o))
    \/ \E o \in Outcomes : LenOp(o, LenRes(o))
    \/ \E o \in Outcomes : \E r \in (IF o = "ok" THEN Perms(Dom(d)) ELSE {<<>>}) : Iter(o, r)
    \/ \E k \in Keys, df \in {Absent, Dflt}, o \in Outcomes : GetDefault(k, df, o, GetDefRes(k, df, o))
    \/ \E o \in Outcomes : Clear(o)
    \/ \E o \in Outcomes : Sync(o)
    \/ \E o \in Outcomes : Close(o)
    \/ \E o \in Outcomes : CreateFresh(o)
    \/ \E o \in Outcomes : CreateExisting(o)
    \/ \E m \in Maps, o \in Outcomes : FromDict(m, o)
    \/ \E k \in Keys, v \in Vals \cup {Absent} : MutSrc(k, v)
    \/ \E o \in Outcomes : Reopen(o)
    \/ \E o \in Outcomes : OpenMissing(o)
    \/ \E kind \in {0, 1} : Occupy(kind)

PSpec == PInit /\ [][PNext]_pvars

-----------------------------------------------------------------------------
(* the clauses of C20 as properties of the model *)

\* nothing that is done to a closed dictionary has an effect
ClosedInert      == [][(st = "closed" /\ st' = "closed") => (d' = d /\ onDisk' = onDisk /\ exists' = exists)]_pvars
\* closing persists the contents at the time of closing; opening loads exactly what was persisted
ClosePersists    == [][(st = "open" /\ st' = "closed") => onDisk' = d]_pvars
OpenLoads        == [][(st # "open" /\ st' = "open" /\ exists) => d' = onDisk]_pvars
\* changing the source of from_dict changes nothing else
SrcIndependent   == [][src' # src /\ linked => UNCHANGED <<d, st, onDisk, exists>>]_pvars
\* a stored path stays stored (no action removes it)
ExistsMonotone   == [][exists => exists']_pvars
=============================================================================
