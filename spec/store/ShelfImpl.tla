----------------------------- MODULE ShelfImpl -----------------------------
(***************************************************************************)
(* Layer B for C20: DBMDict over data_persistence/bytes_shelf.py as it is  *)
(* written - a dbm database wrapped by a shelf with writeback = TRUE.      *)
(*                                                                         *)
(*   dbm     the dbm object (`shelf.dict`): Keys -> Vals \cup {Absent}.    *)
(*           Membership, length and iteration of the shelf look at THIS.   *)
(*   cache   the shelf's write-back cache: Keys -> Vals \cup {Absent}.     *)
(*           __getitem__ looks HERE first and fills it on a miss;          *)
(*           __setitem__ writes it and the dbm object; __delitem__ deletes *)
(*           from the dbm object first (KeyError leaves the cache alone)   *)
(*           and then from the cache.                                      *)
(*   wb      shelf.writeback (sync() switches it off while it writes the   *)
(*           cached entries back, so that writing back does not refill     *)
(*           the cache)                                                    *)
(*   stored  what the dbm backend has committed (index file written by     *)
(*           sync / close): what an open of the path would load            *)
(*   st, exists, src, linked   as in PDict                                 *)
(*   last    the call just executed: [op, k, v, out, res]                  *)
(*                                                                         *)
(* One action per public operation of DBMDict (single-threaded, no await). *)
(* Loops of the code are recursive operators: MutableMapping.clear() is    *)
(* `while True: popitem()` with popitem = next(iter) ; self[key] (fills    *)
(* the cache) ; del self[key]; sync() re-writes every cached entry.        *)
(*                                                                         *)
(* Variants (CONSTANT Variant) to show that the clauses bite:              *)
(*   "code"        the code as it is                                       *)
(*   "delKeepsCache"  __delitem__ forgets the cache: get() of a deleted    *)
(*                 key answers from the cache and sync() resurrects it     *)
(*   "setSkipsDbm" __setitem__ relies on the write-back (cache only): a    *)
(*                 new key is invisible to `in` / len / iteration          *)
(*   "clearCacheOnly" clear() empties the cache and leaves the database    *)
(*                                                                         *)
(* Checked by TLC: CacheCoherent, TypeOKB, and Refines - every executed    *)
(* call, with the outcome and result it computes, is a step of PDict       *)
(* (Layer A) under the mapping d <- dbm (the dictionary as membership      *)
(* shows it), onDisk <- stored.                                            *)
(***************************************************************************)
EXTENDS Integers, Sequences, FiniteSets, TLC

CONSTANTS Keys, Vals, Variant

NB     == -1
Absent == 0
Dflt   == -2

VARIABLES dbm, cache, wb, stored, st, exists, src, linked, last
bvars == <<dbm, cache, wb, stored, st, exists, src, linked, last>>

LA == INSTANCE PDict WITH d <- dbm, onDisk <- stored

Maps  == [Keys -> Vals \cup {Absent}]
Empty == [k \in Keys |-> Absent]
Dom(m) == {k \in Keys : m[k] # Absent}
NoCall == [op |-> "none", k |-> 0, v |-> 0, out |-> "ok", res |-> 0]
Call(op, k, v, out, res) == [op |-> op, k |-> k, v |-> v, out |-> out, res |-> res]

BInit == /\ dbm = Empty /\ cache = Empty /\ wb = TRUE /\ stored = Empty
         /\ st = "none" /\ exists = FALSE /\ src = Empty /\ linked = FALSE /\ last = NoCall

opened == st = "open"
Handle == st # "none"

(* ---- shelf internals --------------------------------------------------- *)
\* BytesShelf.__setitem__ on a pair of maps [db, ca]
ShSet(p, k, v, writeback) ==
    [db |-> IF Variant = "setSkipsDbm" /\ writeback THEN p.db ELSE [p.db EXCEPT ![k] = v],
     ca |-> IF writeback THEN [p.ca EXCEPT ![k] = v] ELSE p.ca]
\* BytesShelf.__getitem__ : value, and the cache afterwards (KeyError: value Absent)
ShGetVal(p, k) == IF p.ca[k] # Absent THEN p.ca[k] ELSE p.db[k]
ShGetCa(p, k, writeback) == IF p.ca[k] = Absent /\ p.db[k] # Absent /\ writeback THEN [p.ca EXCEPT ![k] = p.db[k]] ELSE p.ca
\* BytesShelf.__delitem__ (key present in the database)
ShDel(p, k) == [db |-> [p.db EXCEPT ![k] = Absent],
                ca |-> IF Variant = "delKeepsCache" THEN p.ca ELSE [p.ca EXCEPT ![k] = Absent]]

\* MutableMapping.clear(): popitem until iteration over the database is exhausted
RECURSIVE PopAll(_)
PopAll(p) ==
    IF Dom(p.db) = {} THEN p
    ELSE LET k == CHOOSE x \in Dom(p.db) : TRUE
             q == [db |-> p.db, ca |-> ShGetCa(p, k, TRUE)]
         IN PopAll(ShDel(q, k))

\* BytesShelf.sync(): write the cached entries back with writeback off, then empty the cache
RECURSIVE WriteBack(_, _)
WriteBack(p, todo) ==
    IF todo = {} THEN p
    ELSE LET k == CHOOSE x \in todo : TRUE IN WriteBack(ShSet(p, k, p.ca[k], FALSE), todo \ {k})
ShSync(p) == IF Dom(p.ca) # {} THEN [db |-> WriteBack(p, Dom(p.ca)).db, ca |-> Empty] ELSE p

P == [db |-> dbm, ca |-> cache]

(* ---- the public operations of DBMDict ---------------------------------- *)
Frame == UNCHANGED <<wb, st, exists, src, linked>>

Set(k, v) ==
    /\ Handle
    /\ IF v = NB THEN /\ last' = Call("set", k, v, "TypeError", 0)          \* the type check comes first, open or closed
                      /\ UNCHANGED <<dbm, cache, stored>>
       ELSE IF ~opened THEN /\ last' = Call("set", k, v, "ValueError", 0) /\ UNCHANGED <<dbm, cache, stored>>
       ELSE LET q == ShSet(P, k, v, wb) IN
            /\ dbm' = q.db /\ cache' = q.ca /\ last' = Call("set", k, v, "ok", 0) /\ UNCHANGED stored
    /\ Frame

Get(k) ==
    /\ Handle
    /\ IF ~opened THEN last' = Call("get", k, 0, "ValueError", 0) /\ UNCHANGED <<dbm, cache, stored>>
       ELSE IF ShGetVal(P, k) = Absent THEN last' = Call("get", k, 0, "KeyError", 0) /\ UNCHANGED <<dbm, cache, stored>>
       ELSE /\ last' = Call("get", k, 0, "ok", ShGetVal(P, k))
            /\ cache' = ShGetCa(P, k, wb) /\ UNCHANGED <<dbm, stored>>
    /\ Frame

\* get(key[, default]): `if key in self.dict: return self[key]`
GetDefault(k, df) ==
    /\ Handle /\ df \in {Absent, Dflt}
    /\ IF ~opened THEN last' = Call("getd", k, df, "ValueError", 0) /\ UNCHANGED <<dbm, cache, stored>>
       ELSE IF dbm[k] = Absent THEN last' = Call("getd", k, df, "ok", df) /\ UNCHANGED <<dbm, cache, stored>>
       ELSE /\ last' = Call("getd", k, df, "ok", ShGetVal(P, k))
            /\ cache' = ShGetCa(P, k, wb) /\ UNCHANGED <<dbm, stored>>
    /\ Frame

Del(k) ==
    /\ Handle
    /\ IF ~opened THEN last' = Call("del", k, 0, "ValueError", 0) /\ UNCHANGED <<dbm, cache, stored>>
       ELSE IF dbm[k] = Absent THEN last' = Call("del", k, 0, "KeyError", 0) /\ UNCHANGED <<dbm, cache, stored>>
       ELSE LET q == ShDel(P, k) IN
            /\ dbm' = q.db /\ cache' = q.ca /\ last' = Call("del", k, 0, "ok", 0) /\ UNCHANGED stored
    /\ Frame

In(k) ==
    /\ Handle
    /\ last' = IF opened THEN Call("in", k, 0, "ok", IF dbm[k] # Absent THEN 1 ELSE 0) ELSE Call("in", k, 0, "ValueError", 0)
    /\ UNCHANGED <<dbm, cache, stored>> /\ Frame

LenOp ==
    /\ Handle
    /\ last' = IF opened THEN Call("len", 0, 0, "ok", Cardinality(Dom(dbm))) ELSE Call("len", 0, 0, "ValueError", 0)
    /\ UNCHANGED <<dbm, cache, stored>> /\ Frame

\* iteration runs over the keys of the database; the order is the backend's
Iter ==
    /\ Handle
    /\ last' = IF opened THEN Call("iter", 0, 0, "ok", 0) ELSE Call("iter", 0, 0, "ValueError", 0)
    /\ UNCHANGED <<dbm, cache, stored>> /\ Frame

\* `for k in d: d[k]` - what items() / values() and every reader of the whole dictionary do: each key goes through __getitem__
ReadAll ==
    /\ opened
    /\ cache' = IF wb THEN [k \in Keys |-> IF cache[k] # Absent THEN cache[k] ELSE dbm[k]] ELSE cache
    /\ last' = Call("readall", 0, 0, "ok", 0)
    /\ UNCHANGED <<dbm, stored>> /\ Frame

Clear ==
    /\ Handle
    /\ IF ~opened THEN last' = Call("clear", 0, 0, "ValueError", 0) /\ UNCHANGED <<dbm, cache, stored>>
       ELSE LET q == IF Variant = "clearCacheOnly" THEN [db |-> dbm, ca |-> Empty] ELSE PopAll(P) IN
            /\ dbm' = q.db /\ cache' = q.ca /\ last' = Call("clear", 0, 0, "ok", 0) /\ UNCHANGED stored
    /\ Frame

Sync ==
    /\ Handle
    /\ IF ~opened THEN last' = Call("sync", 0, 0, "ValueError", 0) /\ UNCHANGED <<dbm, cache, stored>>
       ELSE LET q == IF wb THEN ShSync(P) ELSE P IN
            /\ dbm' = q.db /\ cache' = q.ca /\ stored' = q.db /\ last' = Call("sync", 0, 0, "ok", 0)
    /\ Frame

\* close(): a second close returns at once; the first one syncs, closes the database and installs the closed marker
Close ==
    /\ Handle
    /\ IF ~opened THEN last' = Call("close", 0, 0, "ok", 0) /\ UNCHANGED <<dbm, cache, stored, st>>
       ELSE LET q == IF wb THEN ShSync(P) ELSE P IN
            /\ stored' = q.db /\ dbm' = Empty /\ cache' = Empty /\ st' = "closed" /\ last' = Call("close", 0, 0, "ok", 0)
    /\ UNCHANGED <<wb, exists, src, linked>>

\* create(path) / from_dict(m, path): only while no object exists (one session per path)
Create ==
    /\ st = "none"
    /\ IF exists THEN last' = Call("create", 0, 0, "FileExistsError", 0) /\ UNCHANGED <<dbm, cache, stored, st, exists>>
       ELSE /\ st' = "open" /\ exists' = TRUE /\ dbm' = Empty /\ cache' = Empty /\ stored' = Empty
            /\ last' = Call("create", 0, 0, "ok", 0)
    /\ UNCHANGED <<wb, src, linked>>

RECURSIVE UpdateAll(_, _, _)
UpdateAll(p, m, todo) ==
    IF todo = {} THEN p
    ELSE LET k == CHOOSE x \in todo : TRUE IN UpdateAll(ShSet(p, k, m[k], TRUE), m, todo \ {k})

FromDict(m) ==
    /\ st = "none" /\ m \in Maps
    /\ IF exists THEN last' = Call("fromdict", 0, 0, "FileExistsError", 0) /\ UNCHANGED <<dbm, cache, stored, st, exists, src, linked>>
       ELSE LET q == ShSync(UpdateAll([db |-> Empty, ca |-> Empty], m, Dom(m))) IN
            /\ st' = "open" /\ exists' = TRUE /\ dbm' = q.db /\ cache' = q.ca /\ stored' = q.db
            /\ src' = m /\ linked' = TRUE /\ last' = Call("fromdict", 0, 0, "ok", 0)
    /\ UNCHANGED wb

OpenMissing ==
    /\ st = "none" /\ ~exists
    /\ last' = Call("open", 0, 0, "FileNotFoundError", 0)
    /\ UNCHANGED <<dbm, cache, wb, stored, st, exists, src, linked>>

MutSrc(k, v) ==
    /\ linked /\ v \in Vals \cup {Absent} /\ v # src[k]
    /\ src' = [src EXCEPT ![k] = v] /\ last' = Call("mutsrc", k, v, "ok", 0)
    /\ UNCHANGED <<dbm, cache, wb, stored, st, exists, linked>>

Occupy ==
    /\ st = "none" /\ ~exists /\ exists' = TRUE /\ last' = Call("occupy", 0, 0, "ok", 0)
    /\ UNCHANGED <<dbm, cache, wb, stored, st, src, linked>>

BNext ==
    \/ \E k \in Keys, v \in Vals \cup {NB} : Set(k, v)
    \/ \E k \in Keys : Get(k) \/ Del(k) \/ In(k)
    \/ \E k \in Keys, df \in {Absent, Dflt} : GetDefault(k, df)
    \/ LenOp \/ Iter \/ ReadAll \/ Clear \/ Sync \/ Close \/ Create \/ OpenMissing \/ Occupy
    \/ \E m \in Maps : FromDict(m)
    \/ \E k \in Keys, v \in Vals \cup {Absent} : MutSrc(k, v)
BSpec == BInit /\ [][BNext]_bvars

-----------------------------------------------------------------------------
TypeOKB == /\ dbm \in Maps /\ cache \in Maps /\ stored \in Maps /\ src \in Maps /\ wb \in BOOLEAN
           /\ st \in {"none", "open", "closed"} /\ exists \in BOOLEAN /\ linked \in BOOLEAN
\* a cached entry is the database's entry
CacheCoherent == \A k \in Keys : cache[k] # Absent => dbm[k] = cache[k]
\* nothing is cached for a dictionary that is not open
NoCacheUnlessOpen == ~opened => cache = Empty /\ dbm = Empty

(* the call just executed is a Layer A step with the outcome and the result it computed *)
StepOK ==
    LET c == last' IN
    CASE c.op = "set"      -> LA!Set(c.k, c.v, c.out)
      [] c.op = "get"      -> LA!Get(c.k, c.out, c.res)
      [] c.op = "getd"     -> LA!GetDefault(c.k, c.v, c.out, c.res)
      [] c.op = "del"      -> LA!Del(c.k, c.out)
      [] c.op = "in"       -> LA!In(c.k, c.out, c.res = 1)
      [] c.op = "len"      -> LA!LenOp(c.out, c.res)
      [] c.op = "iter"     -> \E r \in (IF c.out = "ok" THEN LA!Perms(Dom(dbm)) ELSE {<<>>}) : LA!Iter(c.out, r)
      [] c.op = "readall"  -> UNCHANGED LA!pvars
      [] c.op = "clear"    -> LA!Clear(c.out)
      [] c.op = "sync"     -> LA!Sync(c.out)
      [] c.op = "close"    -> LA!Close(c.out)
      [] c.op = "create"   -> LA!Create(c.out)
      [] c.op = "fromdict" -> LA!FromDict(src', c.out) \/ (c.out # "ok" /\ \E m \in Maps : LA!FromDict(m, c.out))
      [] c.op = "open"     -> LA!Open(c.out)
      [] c.op = "mutsrc"   -> LA!MutSrc(c.k, c.v)
      [] c.op = "occupy"   -> \E kind \in {0, 1} : LA!Occupy(kind)
      [] OTHER -> FALSE
Refines == [][StepOK]_bvars
=============================================================================
