------------------------------ MODULE MC_PDict ------------------------------
(***************************************************************************)
(* Bounded instances of PDict (Layer A of C20).                            *)
(*                                                                         *)
(* GraphSpec: the complete state graph of PDict over Keys x Vals, one named *)
(*   action per operation and outcome class (ok / refused), to check the   *)
(*   model's own clauses (TypeOK, ClosedInert, ClosePersists, OpenLoads,   *)
(*   SrcIndependent, ExistsMonotone, RefusedNoEffect, ClosedRaises, Total, *)
(*   NonBytesRefused, CreateExistingRefused, OpenMissingRefused) and to    *)
(*   count that every action fires.                                        *)
(*                                                                         *)
(* HistSpec: the generator.  `hist` is the sequence of operation symbols   *)
(*   <<op, a, b>> applied so far; the state space is the tree of all       *)
(*   histories up to depth D and Emit prints each leaf.  Histories are     *)
(*   enumerated up to renaming of keys and of values: key k+1 (value v+1)  *)
(*   may appear only after key k (value v) has appeared; the harness       *)
(*   instantiates the names with concrete byte strings, a different        *)
(*   assignment per case.                                                  *)
(*   Lifecycle = TRUE : full life cycle (PickledDict): Create, FromDict    *)
(*     and Open are available whenever no dictionary object is open.       *)
(*   Lifecycle = FALSE: one open session per path (DBMDict): a path is     *)
(*     never opened a second time; Create / FromDict / Open only while no  *)
(*     object exists yet, everything else incl. use after close as above.  *)
(***************************************************************************)
EXTENDS PDict, TLC

CONSTANTS D, Lifecycle

VARIABLE hist
mcvars == <<d, st, onDisk, exists, src, linked, hist>>

NK == Cardinality(Keys)
NV == Cardinality(Vals)

\* the sources offered to from_dict: {}, {1: 1}, {1: 1, 2: 2}
SrcMap(n) == [k \in Keys |-> IF k <= n /\ k \in Vals THEN k ELSE Absent]
SrcSizes == {n \in 0..2 : n <= NK /\ n <= NV}

KeyedOps == {"set", "get", "del", "in", "getd", "mutsrc"}

(* one step of the model for an operation symbol s = <<op, a, b>> with outcome o *)
Do(s, o) ==
    CASE s[1] = "set"      -> Set(s[2], s[3], o)
      [] s[1] = "get"      -> Get(s[2], o, GetRes(s[2], o))
      [] s[1] = "del"      -> Del(s[2], o)
      [] s[1] = "in"       -> In(s[2], o, InRes(s[2], o))
      [] s[1] = "len"      -> LenOp(o, LenRes(o))
      [] s[1] = "iter"     -> \E r \in (IF o = "ok" /\ opened THEN Perms(Dom(d)) ELSE {<<>>}) : Iter(o, r)
      [] s[1] = "getd"     -> GetDefault(s[2], s[3], o, GetDefRes(s[2], s[3], o))
      [] s[1] = "clear"    -> Clear(o)
      [] s[1] = "sync"     -> Sync(o)
      [] s[1] = "close"    -> Close(o)
      [] s[1] = "create"   -> Create(o)
      [] s[1] = "fromdict" -> FromDict(SrcMap(s[2]), o)
      [] s[1] = "mutsrc"   -> o = "ok" /\ MutSrc(s[2], s[3])
      [] s[1] = "open"     -> Open(o)
      [] s[1] = "occupy"   -> o = "ok" /\ Occupy(s[2])

-----------------------------------------------------------------------------
(* GraphSpec: full alphabet, no history; one named action per operation and outcome class *)
AllSyms ==
    {<<"set", k, v>> : k \in Keys, v \in Vals \cup {NB}}
    \cup {<<op, k, 0>> : op \in {"get", "del", "in"}, k \in Keys}
    \cup {<<"getd", k, df>> : k \in Keys, df \in {Absent, Dflt}}
    \cup {<<op, 0, 0>> : op \in {"len", "iter", "clear", "sync", "close", "create", "open"}}
    \cup {<<"fromdict", n, 0>> : n \in SrcSizes}
    \cup {<<"mutsrc", k, v>> : k \in Keys, v \in Vals \cup {Absent}}
    \cup {<<"occupy", kind, 0>> : kind \in {0, 1}}
SymsOf(op) == {s \in AllSyms : s[1] = op}

G_set_ok  == \E s \in SymsOf("set") : Do(s, "ok") /\ UNCHANGED hist
G_set_ref == \E s \in SymsOf("set"), o \in Refusals : Do(s, o) /\ UNCHANGED hist
G_get_ok  == \E s \in SymsOf("get") : Do(s, "ok") /\ UNCHANGED hist
G_get_ref == \E s \in SymsOf("get"), o \in Refusals : Do(s, o) /\ UNCHANGED hist
G_del_ok  == \E s \in SymsOf("del") : Do(s, "ok") /\ UNCHANGED hist
G_del_ref == \E s \in SymsOf("del"), o \in Refusals : Do(s, o) /\ UNCHANGED hist
G_in_ok  == \E s \in SymsOf("in") : Do(s, "ok") /\ UNCHANGED hist
G_in_ref == \E s \in SymsOf("in"), o \in Refusals : Do(s, o) /\ UNCHANGED hist
G_len_ok  == \E s \in SymsOf("len") : Do(s, "ok") /\ UNCHANGED hist
G_len_ref == \E s \in SymsOf("len"), o \in Refusals : Do(s, o) /\ UNCHANGED hist
G_iter_ok  == \E s \in SymsOf("iter") : Do(s, "ok") /\ UNCHANGED hist
G_iter_ref == \E s \in SymsOf("iter"), o \in Refusals : Do(s, o) /\ UNCHANGED hist
G_getd_ok  == \E s \in SymsOf("getd") : Do(s, "ok") /\ UNCHANGED hist
G_getd_ref == \E s \in SymsOf("getd"), o \in Refusals : Do(s, o) /\ UNCHANGED hist
G_clear_ok  == \E s \in SymsOf("clear") : Do(s, "ok") /\ UNCHANGED hist
G_clear_ref == \E s \in SymsOf("clear"), o \in Refusals : Do(s, o) /\ UNCHANGED hist
G_sync_ok  == \E s \in SymsOf("sync") : Do(s, "ok") /\ UNCHANGED hist
G_sync_ref == \E s \in SymsOf("sync"), o \in Refusals : Do(s, o) /\ UNCHANGED hist
G_close_ok  == \E s \in SymsOf("close") : Do(s, "ok") /\ UNCHANGED hist
G_close_ref == \E s \in SymsOf("close"), o \in Refusals : Do(s, o) /\ UNCHANGED hist
G_create_ok  == \E s \in SymsOf("create") : Do(s, "ok") /\ UNCHANGED hist
G_create_ref == \E s \in SymsOf("create"), o \in Refusals : Do(s, o) /\ UNCHANGED hist
G_fromdict_ok  == \E s \in SymsOf("fromdict") : Do(s, "ok") /\ UNCHANGED hist
G_fromdict_ref == \E s \in SymsOf("fromdict"), o \in Refusals : Do(s, o) /\ UNCHANGED hist
G_open_ok  == \E s \in SymsOf("open") : Do(s, "ok") /\ UNCHANGED hist
G_open_ref == \E s \in SymsOf("open"), o \in Refusals : Do(s, o) /\ UNCHANGED hist
G_mutsrc  == \E s \in SymsOf("mutsrc") : Do(s, "ok") /\ UNCHANGED hist
G_occupy  == \E s \in SymsOf("occupy") : Do(s, "ok") /\ UNCHANGED hist

GraphInit == PInit /\ hist = <<>>
GraphNext ==
    \/ G_set_ok
    \/ G_set_ref
    \/ G_get_ok
    \/ G_get_ref
    \/ G_del_ok
    \/ G_del_ref
    \/ G_in_ok
    \/ G_in_ref
    \/ G_len_ok
    \/ G_len_ref
    \/ G_iter_ok
    \/ G_iter_ref
    \/ G_getd_ok
    \/ G_getd_ref
    \/ G_clear_ok
    \/ G_clear_ref
    \/ G_sync_ok
    \/ G_sync_ref
    \/ G_close_ok
    \/ G_close_ref
    \/ G_create_ok
    \/ G_create_ref
    \/ G_fromdict_ok
    \/ G_fromdict_ref
    \/ G_open_ok
    \/ G_open_ref
    \/ G_mutsrc
    \/ G_occupy
GraphSpec == GraphInit /\ [][GraphNext]_mcvars

HandleSyms == {s \in AllSyms : s[1] \in {"set", "get", "del", "in", "len", "iter", "getd", "clear", "sync"}}

\* an operation that is refused (any outcome but "ok") changes nothing
RefusedNoEffect == [][(pvars' # pvars) => ~(\E s \in AllSyms, o \in Refusals : Do(s, o))]_mcvars
\* on a closed dictionary every operation except close raises ValueError (a non-bytes value may be refused for being that)
ClosedRaises == st = "closed" =>
                  \A s \in HandleSyms, o \in Outcomes :
                      ENABLED Do(s, o) => (o = "ValueError" \/ (o # "ok" /\ s[1] = "set" /\ s[3] = NB))
\* ... and some outcome is always defined (no operation is left without an allowed outcome)
Total == Handle => \A s \in HandleSyms \cup SymsOf("close") : \E o \in Outcomes : ENABLED Do(s, o)
\* a non-bytes value is never accepted
NonBytesRefused == Handle => \A k \in Keys : ~ENABLED Do(<<"set", k, NB>>, "ok")
CreateExistingRefused == (exists /\ ~opened) =>
                  \A s \in SymsOf("create") \cup SymsOf("fromdict"), o \in Outcomes :
                      ENABLED Do(s, o) => o = "FileExistsError"
OpenMissingRefused == (~exists) => \A o \in Outcomes : ENABLED Do(<<"open", 0, 0>>, o) => o = "FileNotFoundError"

-----------------------------------------------------------------------------
(* HistSpec: the generator *)
Max(S) == IF S = {} THEN 0 ELSE CHOOSE x \in S : \A y \in S : y <= x

KeyOf(s) == IF s[1] \in KeyedOps THEN s[2] ELSE IF s[1] = "fromdict" THEN s[2] ELSE 0      \* ("occupy" carries a kind, not a key)
ValOf(s) == IF s[1] \in {"set", "mutsrc"} /\ s[3] > 0 THEN s[3] ELSE IF s[1] = "fromdict" THEN s[2] ELSE 0
KeysSeen == Max({KeyOf(hist[i]) : i \in 1..Len(hist)})
ValsSeen == Max({ValOf(hist[i]) : i \in 1..Len(hist)})
UKeys == {k \in Keys : k <= KeysSeen + 1}
UVals == {v \in Vals : v <= ValsSeen + 1}

CtorAllowed == IF Lifecycle THEN ~opened ELSE st = "none"

Syms ==
    (IF Handle THEN
        {<<"set", k, v>> : k \in UKeys, v \in UVals \cup {NB}}
        \cup {<<op, k, 0>> : op \in {"get", "del", "in"}, k \in UKeys}
        \cup {<<"getd", k, df>> : k \in UKeys, df \in {Absent, Dflt}}
        \cup {<<op, 0, 0>> : op \in {"len", "iter", "clear", "sync", "close"}}
     ELSE {})
    \cup (IF CtorAllowed THEN
            {<<"create", 0, 0>>, <<"open", 0, 0>>}
            \cup {<<"fromdict", n, 0>> : n \in (IF exists THEN {1} ELSE SrcSizes)}
          ELSE {})
    \cup (IF linked THEN {<<"mutsrc", k, v>> : k \in UKeys, v \in UVals \cup {Absent}} ELSE {})
    \cup (IF st = "none" /\ ~exists THEN {<<"occupy", kind, 0>> : kind \in {0, 1}} ELSE {})

HistInit == PInit /\ hist = <<>>
HistNext == /\ Len(hist) < D
            /\ \E s \in Syms : /\ \E o \in Outcomes : Do(s, o)
                               /\ hist' = Append(hist, s)
HistSpec == HistInit /\ [][HistNext]_mcvars

Emit == Len(hist) = D => PrintT(<<"H", hist>>)
\* the same on one line per history (ToString does not wrap): what the harness parses
EmitS == Len(hist) = D => PrintT(<<"H", ToString(hist)>>)
=============================================================================
