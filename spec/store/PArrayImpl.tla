---------------------------- MODULE PArrayImpl ----------------------------
(***************************************************************************)
(* Layer B for C19: data_persistence/persistent_array.py as it is written. *)
(*                                                                         *)
(*   disk    file id -> [ex, data]: does <path>_<id> exist, and its        *)
(*           contents as a sequence of whole items (every write is one     *)
(*           padded item at an item-aligned offset; a write past the end   *)
(*           leaves a zero-filled hole, a read past the end returns b""    *)
(*           which the code pads to a zero item).  The id may be NEGATIVE. *)
(*   cache   __opened_files: slot 0..NFiles-1 -> id of the file whose      *)
(*           handle sits there, or NoF.  The code indexes this Python list *)
(*           with file_id as computed by divmod, so a negative file_id     *)
(*           selects slot NFiles + file_id.                                *)
(*   hopen   the SPFLBArray still wraps a live underlying array            *)
(*   viol    "" or the first Layer A clause an executed operation broke    *)
(*                                                                         *)
(* One action per public operation (the class is single-threaded and has   *)
(* no await points); inside it the loops of the code are recursive         *)
(* operators threading the pair [disk, cache]:                             *)
(*   _get_file_by_id      Touch  (cached handle, else open, else "wb+")    *)
(*   _get_bytes_by_index  RdItem (divmod addressing, zero padding)         *)
(*   _write_bytes_to_file WrItem (size check, LEFT padding, divmod)        *)
(*   __setitem__(slice)   SetLoop + rollback through the same loop         *)
(*   __delitem__, clear   through __setitem__(int) with a zero item        *)
(*   __iter__/__contains__ collections.abc.Sequence mixins over            *)
(*                        __getitem__(int) (membership stops at the first  *)
(*                        hit)                                             *)
(*                                                                         *)
(* NormaliseReads = FALSE is the code as first published: __getitem__(int) *)
(* checks the bounds but hands the raw, possibly negative index to         *)
(* _get_bytes_by_index.  NormaliseReads = TRUE is the repaired read path   *)
(* (index % len, as __setitem__ always did).                               *)
(*                                                                         *)
(* Assumption (B1): one handle at a time; buffered writes are visible to   *)
(* later reads through the same handle and are flushed by close().         *)
(*                                                                         *)
(* Checked by TLC: every executed operation is a Layer A step of PArray    *)
(* under the refinement mapping AbsArr (what a full read through the       *)
(* current handles - or, when closed, from the canonical chunk files -     *)
(* returns):  invariants Refines (viol = "") and FilesInv.                 *)
(***************************************************************************)
EXTENDS PySlice, FiniteSets, TLC

CONSTANTS MaxLenB,          \* largest array length explored
          NormaliseReads    \* BOOLEAN, see above

VARIABLES par, disk, cache, hopen, viol
bvars == <<par, disk, cache, hopen, viol>>

N   == par.n
ISZ == par.isz
PF  == par.pf
NFiles == (N + PF - 1) \div PF
NoF == 99
FIds == (0 - MaxLenB)..(MaxLenB - 1)
ZeroB == [j \in 1..ISZ |-> 0]

(* ---- refinement mapping ------------------------------------------------ *)
(* the item a read of non-negative index q returns with handles c over disk d, without side effects *)
Peek(d, c, q) ==
    LET fid == q \div PF
        off == q % PF
        f   == IF c[fid] # NoF THEN c[fid] ELSE fid IN
    IF d[f].ex /\ off < Len(d[f].data) THEN d[f].data[off + 1] ELSE ZeroB
AbsArrOf(d, c) == [p \in 1..N |-> Peek(d, c, p - 1)]
AbsArr == AbsArrOf(disk, cache)

LA == INSTANCE PArray WITH arr <- AbsArr, opened <- hopen

(* ---- the code ----------------------------------------------------------- *)
St(d, c) == [d |-> d, c |-> c]
Slot(fid) == IF fid < 0 THEN fid + NFiles ELSE fid          \* Python list indexing
SlotOK(fid) == (0 - NFiles) <= fid /\ fid < NFiles          \* else IndexError from the list

(* _get_file_by_id(fid), SlotOK(fid) *)
Touch(st, fid) ==
    IF st.c[Slot(fid)] # NoF THEN st
    ELSE St(IF st.d[fid].ex THEN st.d ELSE [st.d EXCEPT ![fid] = [ex |-> TRUE, data |-> <<>>]],
            [st.c EXCEPT ![Slot(fid)] = fid])
FileOf(st, fid) == Touch(st, fid).c[Slot(fid)]

(* _get_bytes_by_index(idx): idx as handed over, possibly negative *)
RdItem(st, idx) ==
    LET fid == idx \div PF
        off == idx % PF
        s2  == Touch(st, fid)
        f   == FileOf(st, fid)
        dat == s2.d[f].data IN
    [st |-> s2, v |-> IF off < Len(dat) THEN dat[off + 1] ELSE ZeroB]

(* _write_bytes_to_file(idx, item) after the size check, item already padded *)
WrItem(st, idx, item) ==
    LET fid == idx \div PF
        off == idx % PF
        s2  == Touch(st, fid)
        f   == FileOf(st, fid)
        dat == s2.d[f].data
        new == [j \in 1..(IF off + 1 > Len(dat) THEN off + 1 ELSE Len(dat)) |->
                  IF j = off + 1 THEN item ELSE IF j <= Len(dat) THEN dat[j] ELSE ZeroB] IN
    St([s2.d EXCEPT ![f] = [ex |-> TRUE, data |-> new]], s2.c)

(* content = b"\x00" * (item_size - len(content)) + content *)
ImplPad(v) == [j \in 1..(ISZ - Len(v)) |-> 0] \o v
IsBytes(x) == x.k \in {"b", "ba"}
Storable(x) == IsBytes(x) /\ Len(x.v) <= ISZ     \* len() / concatenation / size check all pass
ErrKind(x) == IF IsBytes(x) THEN "ValueError" ELSE "TypeError"
InRange(i) == (0 - N) <= i /\ i < N

Ok(res, num) == [cls |-> "ok", kind |-> "", res |-> res, num |-> num]
Raised(kind) == [cls |-> "raised", kind |-> kind, res |-> <<>>, num |-> 0]
R(st, out)   == [st |-> st, out |-> out]

(* __getitem__(int) *)
GetInt(st, i) ==
    IF ~InRange(i) THEN [st |-> st, ok |-> FALSE, v |-> ZeroB]
    ELSE LET idx == IF NormaliseReads THEN i % N ELSE i
             r == RdItem(st, idx) IN [st |-> r.st, ok |-> TRUE, v |-> r.v]

(* __setitem__(int, value) *)
SetInt(st, i, x) ==
    IF ~InRange(i) THEN R(st, Raised("IndexError"))
    ELSE IF ~IsBytes(x) THEN R(st, Raised("TypeError"))
    ELSE IF Len(x.v) > ISZ THEN R(st, Raised("ValueError"))
    ELSE R(WrItem(st, i % N, ImplPad(x.v)), Ok(<<>>, 0))

(* reads of a sequence of non-negative indices through __getitem__(int) / _get_bytes_by_index *)
RECURSIVE RdLoop(_, _, _, _)
RdLoop(st, idxs, k, acc) ==
    IF k > Len(idxs) THEN [st |-> st, vs |-> acc]
    ELSE LET r == RdItem(st, idxs[k]) IN RdLoop(r.st, idxs, k + 1, Append(acc, r.v))

(* the loop of __setitem__(slice): old value saved, then next(value) written; stops at the shorter *)
RECURSIVE SetLoop(_, _, _, _, _)
SetLoop(st, idxs, xs, k, olds) ==
    IF k > Len(idxs) THEN [st |-> st, bad |-> 0, olds |-> olds]
    ELSE LET r == RdItem(st, idxs[k])
             olds2 == Append(olds, r.v) IN
         IF k > Len(xs) THEN [st |-> r.st, bad |-> 0, olds |-> olds2]          \* StopIteration
         ELSE IF ~Storable(xs[k]) THEN [st |-> r.st, bad |-> k, olds |-> olds2]  \* raises before writing
         ELSE SetLoop(WrItem(r.st, idxs[k], ImplPad(xs[k].v)), idxs, xs, k + 1, olds2)

SetSliceImpl(st, sl, xs) ==
    IF ~SliceOK(sl) THEN R(st, Raised("ValueError"))
    ELSE LET idxs == SliceSeq(sl, N)
             a == SetLoop(st, idxs, xs, 1, <<>>) IN
         IF a.bad = 0 THEN R(a.st, Ok(<<>>, 0))
         ELSE (* except: self[key] = old_items; raise *)
              LET back == SetLoop(a.st, idxs, [j \in 1..Len(a.olds) |-> [k |-> "b", v |-> a.olds[j]]], 1, <<>>) IN
              R(back.st, Raised(ErrKind(xs[a.bad])))

(* zero fill through __setitem__(int): for index in ...: self[index] = zeros *)
RECURSIVE ZeroLoop(_, _, _)
ZeroLoop(st, idxs, k) ==
    IF k > Len(idxs) THEN st
    ELSE ZeroLoop(SetInt(st, idxs[k], [k |-> "b", v |-> ZeroB]).st, idxs, k + 1)

(* `x in arr`: Sequence.__contains__ over __iter__, stops at the first equal item *)
RECURSIVE FindLoop(_, _, _)
FindLoop(st, x, q) ==
    IF q >= N THEN [st |-> st, found |-> 0]
    ELSE LET r == RdItem(st, q) IN
         IF IsBytes(x) /\ r.v = x.v THEN [st |-> r.st, found |-> 1] ELSE FindLoop(r.st, x, q + 1)

AllIdx == [k \in 1..N |-> k - 1]

(* the effect of operation o on an OPEN handle: [st, out] *)
Exec(st, o) ==
    CASE o.op = "get"      -> LET g == GetInt(st, o.i) IN
                              IF g.ok THEN R(g.st, Ok(<<g.v>>, 0)) ELSE R(st, Raised("IndexError"))
      [] o.op = "set"      -> SetInt(st, o.i, o.xs[1])
      [] o.op = "getslice" -> IF ~SliceOK(o.sl) THEN R(st, Raised("ValueError"))
                              ELSE LET r == RdLoop(st, SliceSeq(o.sl, N), 1, <<>>) IN R(r.st, Ok(r.vs, 0))
      [] o.op = "setslice" -> SetSliceImpl(st, o.sl, o.xs)
      [] o.op = "del"      -> SetInt(st, o.i, [k |-> "b", v |-> ZeroB])
      [] o.op = "delslice" -> IF ~SliceOK(o.sl) THEN R(st, Raised("ValueError"))
                              ELSE R(ZeroLoop(st, SliceSeq(o.sl, N), 1), Ok(<<>>, 0))
      [] o.op = "clear"    -> R(ZeroLoop(st, AllIdx, 1), Ok(<<>>, 0))
      [] o.op = "iter"     -> LET r == RdLoop(st, AllIdx, 1, <<>>) IN R(r.st, Ok(r.vs, 0))
      [] o.op = "contains" -> LET f == FindLoop(st, o.xs[1], 0) IN R(f.st, Ok(<<>>, f.found))
      [] o.op = "len"      -> R(st, Ok(<<>>, N))

EmptyCache == [s \in 0..(NFiles - 1) |-> NoF]

(* ---- alphabet (the bounded domain of MC_PArray, slices over None/-1/2) -- *)
A    == [k |-> "b", v |-> <<1>>]
B    == [k |-> "b", v |-> <<2, 3>>]
PA   == [k |-> "b", v |-> <<0, 1>>]
OVER == [k |-> "b", v |-> <<4, 5, 6>>]
NONB == [k |-> "int", v |-> <<>>]
NoSl == <<<<>>, <<>>, <<>>>>
O(op, i, sl, xs) == [op |-> op, i |-> i, sl |-> sl, xs |-> xs]
SVB == {<<>>, <<0 - 1>>, <<2>>}
SlicesB == {<<a, b, c>> : a \in SVB, b \in SVB, c \in SVB} \cup {<<<<>>, <<>>, <<0>>>>, <<<<1>>, <<>>, <<0 - 2>>>>}
ValListsB == {<<A>>, <<B, A, B, A, B>>, <<A, OVER>>, <<B, A, NONB>>}
IdxAll == (0 - N - 1)..N
OpsB ==
    {O("get", i, NoSl, <<>>) : i \in IdxAll}
    \cup {O("set", i, NoSl, <<x>>) : i \in IdxAll, x \in {A, B}}
    \cup {O("set", i, NoSl, <<x>>) : i \in {0, 0 - 1}, x \in {OVER, NONB}}
    \cup {O("del", i, NoSl, <<>>) : i \in {0 - N - 1, 0 - 1, 0, N}}
    \cup {O("getslice", 0, s, <<>>) : s \in SlicesB}
    \cup {O("delslice", 0, s, <<>>) : s \in SlicesB}
    \cup {O("setslice", 0, s, xs) : s \in SlicesB, xs \in ValListsB}
    \cup {O("contains", 0, NoSl, <<x>>) : x \in {A, PA, B, NONB}}
    \cup {O(nm, 0, NoSl, <<>>) : nm \in {"clear", "iter", "len"}}

(* ---- comparison with Layer A, evaluated inside the step ------------------ *)
(* o executed in the current state gave `out` and leads to handles/disk st2, handle open h2 *)
Judge(o, out, st2, h2) ==
    IF ~LA!SameClass(out, LA!ExpOut(o)) THEN "outcome:" \o o.op
    ELSE IF ~LA!SameOutcome(out, LA!ExpOut(o)) THEN "result:" \o o.op
    ELSE IF AbsArrOf(st2.d, st2.c) # LA!ExpArr(o) THEN "after:" \o o.op
    ELSE IF h2 # LA!ExpOpened(o) THEN "opened:" \o o.op
    ELSE ""

Record(o, out, st2, h2) == viol' = IF viol = "" THEN Judge(o, out, st2, h2) ELSE viol

(* ---- actions --------------------------------------------------------------- *)
DoOp == \E o \in OpsB :
          IF hopen
          THEN LET r == Exec(St(disk, cache), o) IN
               /\ disk' = r.st.d /\ cache' = r.st.c
               /\ Record(o, r.out, r.st, TRUE)
               /\ UNCHANGED <<par, hopen>>
          ELSE (* the closed marker raises ValueError on every access *)
               /\ Record(o, Raised("ValueError"), St(disk, cache), FALSE)
               /\ UNCHANGED <<par, disk, cache, hopen>>

(* close(): every cached handle is closed (and flushed); a second close is swallowed *)
DoClose == /\ hopen' = FALSE /\ cache' = EmptyCache
           /\ Record(O("close", 0, NoSl, <<>>), Ok(<<>>, 0), St(disk, EmptyCache), FALSE)
           /\ UNCHANGED <<par, disk>>
(* SPFLBArray.open(path): a new underlying array, nothing opened yet *)
DoReopen == /\ ~hopen /\ hopen' = TRUE /\ cache' = EmptyCache
            /\ Record(O("reopen", 0, NoSl, <<>>), Ok(<<>>, 0), St(disk, EmptyCache), TRUE)
            /\ UNCHANGED <<par, disk>>

ParsB == {[n |-> n, isz |-> 2, pf |-> pf] : n \in 1..MaxLenB, pf \in 1..(MaxLenB + 2)}
InitB == /\ par \in {p \in ParsB : p.pf <= p.n + 2}
         /\ disk = [f \in FIds |-> [ex |-> FALSE, data |-> <<>>]]
         /\ cache = [s \in 0..(((par.n + par.pf - 1) \div par.pf) - 1) |-> NoF]
         /\ hopen = TRUE /\ viol = ""
NextB == DoOp \/ DoClose \/ DoReopen
SpecB == InitB /\ [][NextB]_bvars

(* ---- what is checked --------------------------------------------------------- *)
TypeOKB == /\ \A f \in FIds : \A j \in 1..Len(disk[f].data) : LA!IsItem(disk[f].data[j])
           /\ \A f \in FIds : ~disk[f].ex => disk[f].data = <<>>
           /\ \A s \in DOMAIN cache : cache[s] = NoF \/ (cache[s] \in FIds /\ disk[cache[s]].ex)
           /\ LA!TypeOK
(* every executed operation was a Layer A step: outcome class, results, contents, open flag *)
Refines == viol = ""
(* only the array's own chunk files exist (the meta file is not modelled: written once at creation) *)
FilesInv == \A f \in FIds : disk[f].ex => f \in 0..(NFiles - 1)
(* a handle in slot s belongs to chunk s: what "the cache is not poisoned" means (holds when reads normalise) *)
CacheSane == \A s \in DOMAIN cache : cache[s] \in {NoF, s}
=============================================================================
