----------------------------- MODULE MC_PArray -----------------------------
(***************************************************************************)
(* Bounded instance of PArray (Layer A) and GENERATOR of the histories     *)
(* replayed on the real SPFLBArray.                                        *)
(*                                                                         *)
(* Domain: n <= MaxLen, pf in 1..n+2, item size 2, values                  *)
(*   A = b"\x01" (needs padding), B = b"\x02\x03" (exact size),            *)
(*   Z = b"\x00", OVER = 3 bytes (oversized), NONB = not a byte string,    *)
(* indices -n-1 .. n, slices BaseSl at every state and WideSl (up to every *)
(* triple over {None, -3..3}) at the seed states.                          *)
(*                                                                         *)
(* Generation is a TRANSITION-COVERING set: the VIEW hides the history     *)
(* variable, so TLC visits every reachable abstract state once (by a       *)
(* shortest history, breadth first); `Emit` prints that history and the    *)
(* alphabet applied at that state, and the harness replays the history     *)
(* extended by EVERY operation of the alphabet (= every transition).  The  *)
(* ghost `fresh` (no chunk touched since the handle was opened) is part of *)
(* the view so that every operation is                                     *)
(* also generated directly after a reopen, i.e. on lazily opened files.    *)
(* From the seed states (alternating A/B contents) the wide slice alphabet *)
(* WideSl x WideLists is applied in addition.                              *)
(***************************************************************************)
EXTENDS PArray, TLC

CONSTANTS MaxLen,     \* largest array length
          BaseSl,     \* slices applied at every open state            (BaseSl <- SL_small ...)
          WideSl,     \* slices applied in addition at the seed states (WideSl <- SL_mid ...)
          BaseLists,  \* value lists for slice assignment at every open state
          WideLists,  \* value lists for slice assignment at the seed states
          WideFresh,  \* TRUE: the wide alphabet also at seed states directly after a reopen
          EmitOn      \* TRUE: print histories (generator run); FALSE: invariants only

VARIABLES hist, fresh
mcvars == <<par, arr, opened, hist, fresh>>
MCView == <<par, arr, opened, fresh>>

A    == [k |-> "b", v |-> <<1>>]
B    == [k |-> "b", v |-> <<2, 3>>]
Z    == [k |-> "b", v |-> <<0>>]
ZZ   == [k |-> "b", v |-> <<0, 0>>]
PA   == [k |-> "b", v |-> <<0, 1>>]        \* A as stored
OVER == [k |-> "b", v |-> <<4, 5, 6>>]
NONB == [k |-> "int", v |-> <<>>]

NoSl == <<<<>>, <<>>, <<>>>>
O(op, i, sl, xs) == [op |-> op, i |-> i, sl |-> sl, xs |-> xs]

Pars == {[n |-> n, isz |-> 2, pf |-> pf] : n \in 1..MaxLen, pf \in 1..(MaxLen + 2)}
GoodPars == {p \in Pars : p.pf <= p.n + 2}

(* named alphabets for the configuration file (which cannot hold negative literals or tuples) *)
Opt(S)   == {<<>>} \cup {<<v>> : v \in S}                          \* None or a value of S
Cube(S)  == {<<a, b, c>> : a \in Opt(S), b \in Opt(S), c \in Opt(S)}
SL_small == {NoSl, <<<<>>, <<>>, <<0 - 1>>>>, <<<<0 - 1>>, <<>>, <<>>>>, <<<<>>, <<2>>, <<>>>>,
             <<<<2>>, <<>>, <<0 - 1>>>>, <<<<>>, <<>>, <<2>>>>, <<<<1>>, <<0 - 1>>, <<>>>>, <<<<>>, <<>>, <<0>>>>}
SL_tiny  == Cube({0 - 1, 2})                        \*  27 slices
SL_mid   == Cube({0 - 3, 0 - 1, 0, 1, 2})           \* 216 slices
SL_full  == Cube((0 - 3)..3)                        \* 512 slices: every triple over {None, -3..3}
Slices   == BaseSl
WSlices  == WideSl

(* value lists for slice assignment: shorter / longer than the slice, failing first / in the middle / late *)
VL_small  == {<<B, A>>, <<A, B, A, B, A>>, <<A, OVER>>, <<B, NONB, A>>}
VL_full   == VL_small \cup {<<>>, <<A>>, <<OVER>>, <<B, A, NONB>>}
WVL_small == {<<B, A, Z, B, A>>, <<B, A, NONB>>}
WVL_full  == WVL_small \cup {<<B, OVER, A>>}
ValLists  == BaseLists
WValLists == WideLists

IdxAll == (0 - N - 1)..N
EdgeIdx == {0 - N - 1, 0 - N, 0 - 1, 0, N - 1, N}

IsSeed == opened /\ arr = [p \in 1..N |-> IF p % 2 = 1 THEN Pad(A.v) ELSE Pad(B.v)]

OpenOps ==
    {O("get", i, NoSl, <<>>) : i \in IdxAll}
    \cup {O("set", i, NoSl, <<x>>) : i \in IdxAll, x \in {A, B}}
    \cup {O("set", i, NoSl, <<x>>) : i \in {0, 0 - 1, N}, x \in {Z, OVER, NONB}}
    \cup {O("del", i, NoSl, <<>>) : i \in IdxAll}
    \cup {O("getslice", 0, s, <<>>) : s \in Slices}
    \cup {O("delslice", 0, s, <<>>) : s \in Slices}
    \cup {O("setslice", 0, s, xs) : s \in Slices, xs \in ValLists}
    \cup {O("contains", 0, NoSl, <<x>>) : x \in {A, PA, B, Z, ZZ, OVER, NONB}}
    \cup {O(nm, 0, NoSl, <<>>) : nm \in {"clear", "iter", "len", "close"}}
WideOps ==
    {O("getslice", 0, s, <<>>) : s \in WSlices}
    \cup {O("delslice", 0, s, <<>>) : s \in WSlices}
    \cup {O("setslice", 0, s, xs) : s \in WSlices, xs \in WValLists}
(* on a closed handle everything must raise: one operation of every kind is enough *)
ClosedOps ==
    {O("get", 0, NoSl, <<>>), O("get", 0 - 1, NoSl, <<>>), O("set", 0, NoSl, <<A>>), O("del", 0, NoSl, <<>>),
     O("getslice", 0, NoSl, <<>>), O("delslice", 0, NoSl, <<>>), O("setslice", 0, NoSl, <<A>>),
     O("setslice", 0, NoSl, <<>>), O("contains", 0, NoSl, <<A>>), O("clear", 0, NoSl, <<>>),
     O("iter", 0, NoSl, <<>>), O("len", 0, NoSl, <<>>), O("close", 0, NoSl, <<>>), O("reopen", 0, NoSl, <<>>)}

UseWide == IsSeed /\ (WideFresh \/ ~fresh)
Ops == IF ~opened THEN ClosedOps
       ELSE IF UseWide THEN OpenOps \cup WideOps
       ELSE OpenOps

OpsKind == IF ~opened THEN "closed" ELSE IF UseWide THEN "seed" ELSE "open"

MCInit == /\ \E p \in GoodPars : AInit(p)
          /\ hist = <<>> /\ fresh = TRUE

MCNext == \E o \in Ops :
            /\ Apply(o, ExpOut(o))
            /\ hist' = Append(hist, o)
            /\ fresh' = (o.op = "reopen")
MCSpec == MCInit /\ [][MCNext]_mcvars

(* Emission (an invariant, so evaluated once per distinct VIEW state, on the state TLC keeps and    *)
(* expands): the shortest history of the state and the name of the alphabet applied to it; the      *)
(* alphabets themselves are printed once per array length, from the initial states.  The harness    *)
(* replays hist \o <<o>> for every o of that alphabet: exactly the transitions TLC generates.        *)
Emit == EmitOn =>
          /\ PrintT(<<"S", par, hist, OpsKind>>)
          /\ hist = <<>> => /\ PrintT(<<"A", N, "open", OpenOps>>)
                            /\ PrintT(<<"A", N, "seed", OpenOps \cup WideOps>>)
                            /\ PrintT(<<"A", N, "closed", ClosedOps>>)

(* ---- the model's own invariants --------------------------------------- *)
(* (TypeOK and LenConst come from PArray)                                  *)
AllSl == Slices \cup WSlices
(* every operation on a closed handle raises (close itself excepted), and leaves the list alone *)
ClosedRaises == ~opened => \A o \in ClosedOps :
                    /\ (o.op \notin {"close", "reopen"} => ExpOut(o).cls = "raised")
                    /\ ExpArr(o) = arr
(* a failing operation leaves the list exactly as it was *)
FailKeeps == \A o \in Ops : ExpOut(o).cls = "raised" => ExpArr(o) = arr
(* a slice assignment touches only selected positions, at most min(#slice, #values) of them, and
   writes the left-padded value: the last byte stored is the last byte given *)
SliceSetBound ==
    opened => \A s \in (IF UseWide THEN AllSl ELSE Slices), xs \in ValLists \cup WValLists :
        LET a2 == SetSliceArr(s, xs)
            changed == {p \in 1..N : a2[p] # arr[p]} IN
        /\ SliceOK(s) => Cardinality(changed) <= Used(s, xs)
        /\ SliceOK(s) => \A p \in changed : \E j \in 1..Used(s, xs) : Idx(s)[j] + 1 = p
        /\ DOMAIN a2 = DOMAIN arr
PadLeft == \A x \in {A, B, Z} : /\ IsItem(Pad(x.v))
                                /\ Pad(x.v)[ISZ] = x.v[Len(x.v)]
                                /\ Len(x.v) < ISZ => Pad(x.v)[1] = 0
(* Python slices never select outside 0..n-1 and never select a position twice (depends on n only:
   evaluated in the initial states) *)
SlicesSane == hist = <<>> => \A s \in AllSl : SliceOK(s) => SliceInRange(s, N) /\ SliceDistinct(s, N)
(* reads are reads *)
ReadsKeep == \A o \in Ops : o.op \in {"get", "getslice", "iter", "contains", "len"} => ExpArr(o) = arr
=============================================================================
