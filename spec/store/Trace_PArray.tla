---------------------------- MODULE Trace_PArray ----------------------------
(***************************************************************************)
(* Trace validation for C19: every recorded execution of the real          *)
(* SPFLBArray must be a behaviour of PArray (Layer A).                     *)
(*                                                                         *)
(* A trace is {tid, par: {n, isz, pf}, ev: [record...]}; one record per    *)
(* operation:                                                              *)
(*   o     the operation [op, i, sl, xs]                                   *)
(*   out   the observed outcome [cls, kind, res, num] (byte strings as     *)
(*         lists of ints)                                                  *)
(*   chk   whether a full read was taken after the operation, and          *)
(*   after its result (list of byte lists; <<>> when chk is FALSE)         *)
(*   files the directory listing after the operation, projected to         *)
(*         [meta |-> BOOLEAN, chunks |-> <<k...>>, other |-> <<name...>>]  *)
(* TLC steps the reference list and compares outcome class, results, the   *)
(* full contents after the step and the file set.  The exception class     *)
(* (`kind`) is not part of the property: a mismatch is carried in `clause` *)
(* of an ACCEPTed trace as "kind:<op>@<step>" (drift).                     *)
(***************************************************************************)
EXTENDS PArray, TLC, Json, IOUtils

Traces == JsonDeserialize(IOEnv.TRACE_FILE)

VARIABLES tid, l, verdict, clause
tvars == <<par, arr, opened, tid, l, verdict, clause>>

Tr == Traces[tid].ev
Ev == Tr[l]

Act      == Apply(Ev.o, Ev.out)
AfterOK  == Ev.chk => arr' = Ev.after
FilesObs == FilesOK(Ev.files)

KindNote == IF clause = "" /\ Ev.o.op \in OpNames /\ ~SameKind(Ev.out, ExpOut(Ev.o))
            THEN "kind:" \o Ev.o.op \o "@" \o ToString(l) ELSE clause

(* first clause that fails for the current record; evaluated only when Step is not enabled *)
Why ==
    IF Ev.o.op \notin OpNames THEN "unknown-op"
    ELSE IF Ev.o.op = "reopen" /\ opened THEN "harness:reopen-while-open"
    ELSE IF ~SameClass(Ev.out, ExpOut(Ev.o)) THEN "outcome:" \o Ev.o.op
    ELSE IF ~SameOutcome(Ev.out, ExpOut(Ev.o)) THEN "result:" \o Ev.o.op
    ELSE IF Ev.chk /\ Ev.after # ExpArr(Ev.o) THEN "after:" \o Ev.o.op
    ELSE IF ~FilesObs THEN "files:" \o Ev.o.op
    ELSE "other:" \o Ev.o.op

Running == verdict = "run" /\ l <= Len(Tr)
Step == /\ Running /\ Act /\ AfterOK /\ FilesObs
        /\ l' = l + 1 /\ clause' = KindNote /\ UNCHANGED <<tid, verdict>>
Finish == /\ verdict = "run" /\ l = Len(Tr) + 1
          /\ verdict' = "ACCEPT" /\ UNCHANGED <<par, arr, opened, tid, l, clause>>
Reject == /\ Running /\ ~ENABLED Step
          /\ verdict' = "REJECT" /\ clause' = Why
          /\ UNCHANGED <<par, arr, opened, tid, l>>

TraceInit == /\ tid \in 1..Len(Traces)
             /\ AInit(Traces[tid].par)
             /\ l = 1 /\ verdict = "run" /\ clause = ""
TraceNext == Step \/ Finish \/ Reject
TraceSpec == TraceInit /\ [][TraceNext]_tvars

Done == verdict # "run" => PrintT(<<"V", Traces[tid].tid, verdict, l, clause>>)
=============================================================================
