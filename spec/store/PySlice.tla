------------------------------ MODULE PySlice ------------------------------
(***************************************************************************)
(* Transcription of the two pieces of Python semantics that every slice    *)
(* operation of a sequence goes through:                                   *)
(*                                                                         *)
(*   slice(start, stop, step).indices(n)   (CPython PySlice_Unpack +       *)
(*                                          PySlice_AdjustIndices)         *)
(*   range(start, stop, step)              (length and elements)           *)
(*                                                                         *)
(* A slice component is an OPTION: <<>> stands for None, <<v>> for the     *)
(* integer v.  A slice is a triple of options <<start, stop, step>>.       *)
(* The transcription itself is checked against the running CPython by      *)
(* Trace_PySlice (every call recorded by harness/c19.py).                  *)
(***************************************************************************)
EXTENDS Integers, Sequences

IsNone(o) == Len(o) = 0
ValOf(o)  == o[1]

StepOf(sl)  == IF IsNone(sl[3]) THEN 1 ELSE ValOf(sl[3])
(* slice.indices raises ValueError("slice step cannot be zero") *)
SliceOK(sl) == StepOf(sl) # 0

(* one bound: None -> the default; negative -> + n, clamped below; else clamped above *)
Clamp(o, n, lower, upper, dflt) ==
    IF IsNone(o) THEN dflt
    ELSE LET v == ValOf(o) IN
         IF v < 0 THEN (IF v + n < lower THEN lower ELSE v + n)
                  ELSE (IF v > upper THEN upper ELSE v)

(* slice.indices(n) for SliceOK(sl); n >= 0 *)
SliceIndices(sl, n) ==
    LET step  == StepOf(sl)
        neg   == step < 0
        lower == IF neg THEN -1 ELSE 0
        upper == IF neg THEN n - 1 ELSE n
        start == Clamp(sl[1], n, lower, upper, IF neg THEN upper ELSE lower)
        stop  == Clamp(sl[2], n, lower, upper, IF neg THEN lower ELSE upper)
    IN <<start, stop, step>>

(* len(range(a, b, s)), s # 0 *)
RangeLen(r) ==
    LET a == r[1]  b == r[2]  s == r[3] IN
    IF s > 0 THEN (IF a < b THEN ((b - a - 1) \div s) + 1 ELSE 0)
             ELSE (IF a > b THEN ((a - b - 1) \div (0 - s)) + 1 ELSE 0)

(* list(range(a, b, s)) as a sequence of (0-based) indices *)
RangeSeq(r) == [k \in 1..RangeLen(r) |-> r[1] + (k - 1) * r[3]]

(* the 0-based indices a slice selects in a sequence of length n, in order *)
SliceSeq(sl, n) == RangeSeq(SliceIndices(sl, n))

(* sanity theorems (checked by TLC in MC_PArray for the bounded domain) *)
SliceInRange(sl, n)  == \A k \in 1..Len(SliceSeq(sl, n)) : SliceSeq(sl, n)[k] \in 0..(n - 1)
SliceDistinct(sl, n) == \A j, k \in 1..Len(SliceSeq(sl, n)) :
                            j # k => SliceSeq(sl, n)[j] # SliceSeq(sl, n)[k]
=============================================================================
