--------------------------- MODULE Trace_PySlice ---------------------------
(***************************************************************************)
(* Checks the transcription in PySlice.tla against the running CPython:    *)
(* every record is one call                                                *)
(*   slice(start, stop, step).indices(n)  ->  ok (no ValueError), ind = the triple,      *)
(*   list(range(a, b, c))   ->  idx                                        *)
(* recorded by harness/c19.py.  A rejection here means the SPECIFICATION   *)
(* is wrong (machinery error), not the code under test.                    *)
(***************************************************************************)
EXTENDS PySlice, TLC, Json, IOUtils

Traces == JsonDeserialize(IOEnv.TRACE_FILE)

VARIABLES tid, l, verdict, clause
tvars == <<tid, l, verdict, clause>>

Tr == Traces[tid].ev
Ev == Tr[l]

CallOK == IF SliceOK(Ev.sl)
          THEN /\ Ev.ok
               /\ SliceIndices(Ev.sl, Ev.n) = Ev.ind
               /\ SliceSeq(Ev.sl, Ev.n) = Ev.idx
               /\ Len(SliceSeq(Ev.sl, Ev.n)) = Len(Ev.idx)
          ELSE ~Ev.ok

Running == verdict = "run" /\ l <= Len(Tr)
Step == Running /\ CallOK /\ l' = l + 1 /\ UNCHANGED <<tid, verdict, clause>>
Finish == /\ verdict = "run" /\ l = Len(Tr) + 1
          /\ verdict' = "ACCEPT" /\ UNCHANGED <<tid, l, clause>>
Reject == /\ Running /\ ~CallOK
          /\ verdict' = "REJECT" /\ clause' = "pyslice" /\ UNCHANGED <<tid, l>>

TraceInit == tid \in 1..Len(Traces) /\ l = 1 /\ verdict = "run" /\ clause = ""
TraceNext == Step \/ Finish \/ Reject
TraceSpec == TraceInit /\ [][TraceNext]_tvars

Done == verdict # "run" => PrintT(<<"V", Traces[tid].tid, verdict, l, clause>>)
=============================================================================
