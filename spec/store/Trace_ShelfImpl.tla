-------------------------- MODULE Trace_ShelfImpl --------------------------
(***************************************************************************)
(* Layer B binding for C20 (DRIFT only, never a violation): a recorded     *)
(* sequence of calls on a real DBMDict must be the behaviour of ShelfImpl, *)
(* call by call: same outcome, same result, and - where the harness could  *)
(* find the shelf object inside the dictionary - the same set of cached    *)
(* keys and the same set of keys in the dbm object after every call.       *)
(* Records as in Trace_PDict plus                                          *)
(*   impl   [h |-> "known" | "unknown", cache |-> list of key names,       *)
(*           dbm |-> list of key names]                                    *)
(***************************************************************************)
EXTENDS ShelfImpl, Json, IOUtils

Traces == JsonDeserialize(IOEnv.TRACE_FILE)

VARIABLES tid, l, verdict, clause
tvars == <<dbm, cache, wb, stored, st, exists, src, linked, last, tid, l, verdict, clause>>

Tr == Traces[tid].ev
Ev == Tr[l]

ToMap(items) ==
    [k \in Keys |-> LET S == {i \in 1..Len(items) : items[i][1] = k}
                    IN IF S = {} THEN Absent ELSE items[CHOOSE i \in S : TRUE][2]]
SetOf(s) == {s[i] : i \in 1..Len(s)}

Act ==
    CASE Ev.op = "set"      -> Set(Ev.k, Ev.v)
      [] Ev.op = "get"      -> Get(Ev.k)
      [] Ev.op = "del"      -> Del(Ev.k)
      [] Ev.op = "in"       -> In(Ev.k)
      [] Ev.op = "len"      -> LenOp
      [] Ev.op = "iter"     -> Iter
      [] Ev.op = "readall"  -> ReadAll
      [] Ev.op = "getd"     -> GetDefault(Ev.k, Ev.df)
      [] Ev.op = "clear"    -> Clear
      [] Ev.op = "sync"     -> Sync
      [] Ev.op = "close"    -> Close
      [] Ev.op = "create"   -> Create
      [] Ev.op = "fromdict" -> FromDict(ToMap(Ev.m))
      [] Ev.op = "open"     -> OpenMissing
      [] Ev.op = "mutsrc"   -> MutSrc(Ev.k, Ev.v)
      [] Ev.op = "occupy"   -> Occupy
      [] OTHER -> FALSE

OutOK == last'.out = Ev.out
ResOK ==
    CASE Ev.op \in {"get", "getd", "len"} -> last'.res = Ev.res
      [] Ev.op = "in"   -> (last'.res = 1) = Ev.res
      [] Ev.op = "iter" -> IF Ev.out = "ok" THEN SetOf(Ev.res) = Dom(dbm') /\ Len(Ev.res) = Cardinality(Dom(dbm')) ELSE Len(Ev.res) = 0
      [] OTHER -> TRUE
ImplOK ==
    \/ Ev.impl.h = "unknown"
    \/ /\ SetOf(Ev.impl.cache) = Dom(cache')
       /\ SetOf(Ev.impl.dbm) = Dom(dbm')

Why ==
    IF ~ENABLED Act THEN "B:precondition:" \o Ev.op
    ELSE IF ~ENABLED (Act /\ OutOK) THEN "B:outcome:" \o Ev.op
    ELSE IF ~ENABLED (Act /\ OutOK /\ ResOK) THEN "B:result:" \o Ev.op
    ELSE "B:cache-or-database-keys:" \o Ev.op

Running == verdict = "run" /\ l <= Len(Tr)
Step == Running /\ Act /\ OutOK /\ ResOK /\ ImplOK /\ l' = l + 1 /\ UNCHANGED <<tid, verdict, clause>>
Finish == /\ verdict = "run" /\ l = Len(Tr) + 1
          /\ verdict' = "ACCEPT" /\ UNCHANGED <<dbm, cache, wb, stored, st, exists, src, linked, last, tid, l, clause>>
Reject == /\ Running /\ ~ENABLED Step
          /\ verdict' = "REJECT" /\ clause' = Why
          /\ UNCHANGED <<dbm, cache, wb, stored, st, exists, src, linked, last, tid, l>>

TraceInit == BInit /\ tid \in 1..Len(Traces) /\ l = 1 /\ verdict = "run" /\ clause = ""
TraceNext == Step \/ Finish \/ Reject
TraceSpec == TraceInit /\ [][TraceNext]_tvars

Done == verdict # "run" => PrintT(<<"V", Traces[tid].tid, verdict, l, clause>>)
=============================================================================
