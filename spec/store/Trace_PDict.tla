---------------------------- MODULE Trace_PDict ----------------------------
(***************************************************************************)
(* Trace validation for C20: every recorded sequence of calls on a real    *)
(* PickledDict / DBMDict must be a behaviour of PDict (Layer A).           *)
(*                                                                         *)
(* One record per call:                                                    *)
(*   op     "set" "get" "del" "in" "len" "iter" "getd" "clear" "sync"      *)
(*          "close" "create" "fromdict" "open" "mutsrc" "occupy" (the      *)
(*          harness put a foreign file under the path; k = 0 empty, 1 not) *)
(*   k, v   key / value names (v = -1: a value that is not bytes; for      *)
(*          mutsrc v = 0: the key is deleted from the caller's dict)       *)
(*   df     getd: 0 = get(key), -2 = get(key, default)                     *)
(*   m      fromdict: the caller's dict at the time of the call, as a list *)
(*          of <<key, value>>                                              *)
(*   out    "ok" or the name of the exception class ("NoReturn": the call  *)
(*          did not come back within the time limit)                       *)
(*   res    get / getd: value name (0 = None, -2 = the default object,     *)
(*          99 = anything else); in: boolean; len: integer; iter: list of  *)
(*          key names in the order delivered                               *)
(*   after  what the public API shows after the call: h = "none" (no       *)
(*          object), "closed" (iteration raises ValueError), "open" with   *)
(*          items = list of <<key, value>> read by iteration + indexing,   *)
(*          or "unknown" (not observed at this step)                       *)
(***************************************************************************)
EXTENDS PDict, TLC, Json, IOUtils

Traces == JsonDeserialize(IOEnv.TRACE_FILE)

VARIABLES tid, l, verdict, clause
tvars == <<d, st, onDisk, exists, src, linked, tid, l, verdict, clause>>

Tr == Traces[tid].ev
Ev == Tr[l]

HandleOps == {"set", "get", "del", "in", "len", "iter", "getd", "clear", "sync"}
CtorOps   == {"create", "fromdict", "open"}

ToMap(items) ==
    [k \in Keys |-> LET S == {i \in 1..Len(items) : items[i][1] = k}
                    IN IF S = {} THEN Absent ELSE items[CHOOSE i \in S : TRUE][2]]

Act ==
    CASE Ev.op = "set"      -> Set(Ev.k, Ev.v, Ev.out)
      [] Ev.op = "get"      -> Get(Ev.k, Ev.out, Ev.res)
      [] Ev.op = "del"      -> Del(Ev.k, Ev.out)
      [] Ev.op = "in"       -> In(Ev.k, Ev.out, Ev.res)
      [] Ev.op = "len"      -> LenOp(Ev.out, Ev.res)
      [] Ev.op = "iter"     -> Iter(Ev.out, Ev.res)
      [] Ev.op = "getd"     -> GetDefault(Ev.k, Ev.df, Ev.out, Ev.res)
      [] Ev.op = "clear"    -> Clear(Ev.out)
      [] Ev.op = "sync"     -> Sync(Ev.out)
      [] Ev.op = "close"    -> Close(Ev.out)
      [] Ev.op = "create"   -> Create(Ev.out)
      [] Ev.op = "fromdict" -> FromDict(ToMap(Ev.m), Ev.out)
      [] Ev.op = "open"     -> Open(Ev.out)
      [] Ev.op = "mutsrc"   -> Ev.out = "ok" /\ MutSrc(Ev.k, Ev.v)
      [] Ev.op = "occupy"   -> Ev.out = "ok" /\ Occupy(Ev.k)
      [] OTHER -> FALSE

(* what the public API shows after the call is the model's dictionary *)
Observed ==
    \/ Ev.after.h = "unknown"
    \/ /\ Ev.after.h = st'
       /\ st' = "open" => /\ Len(Ev.after.items) = Cardinality(Dom(d'))
                          /\ {Ev.after.items[i] : i \in 1..Len(Ev.after.items)} = Items(d')

-----------------------------------------------------------------------------
(* naming the clause that failed; evaluated only when Step is not enabled *)
Pre ==
    IF Ev.op \in HandleOps \cup {"close"} THEN Handle
    ELSE IF Ev.op = "open" THEN ~opened /\ ~foreign
    ELSE IF Ev.op \in CtorOps THEN ~opened
    ELSE IF Ev.op = "occupy" THEN st = "none" /\ ~exists
    ELSE IF Ev.op = "mutsrc" THEN linked /\ Ev.v # src[Ev.k]
    ELSE FALSE

Outs ==
    CASE Ev.op = "set"                  -> SetOuts(Ev.v)
      [] Ev.op \in {"get", "del"}       -> KeyOuts(Ev.k)
      [] Ev.op \in {"in", "len", "iter", "getd", "clear", "sync"} -> OpenOuts
      [] Ev.op = "close"                -> CloseOuts
      [] Ev.op \in {"create", "fromdict"} -> CreateOuts
      [] Ev.op = "open"                 -> OpenFileOuts
      [] Ev.op \in {"mutsrc", "occupy"}  -> {"ok"}
      [] OTHER -> {}

ResOK ==
    CASE Ev.op = "get"  -> Ev.res = GetRes(Ev.k, Ev.out)
      [] Ev.op = "in"   -> Ev.res = InRes(Ev.k, Ev.out)
      [] Ev.op = "len"  -> Ev.res = LenRes(Ev.out)
      [] Ev.op = "iter" -> IterOK(Ev.out, Ev.res)
      [] Ev.op = "getd" -> Ev.res = GetDefRes(Ev.k, Ev.df, Ev.out)
      [] OTHER -> TRUE

Why ==
    IF Ev.out = "NoReturn" THEN "NoReturn:" \o Ev.op
    ELSE IF ~Pre THEN "Harness:precondition:" \o Ev.op
    ELSE IF Ev.out \notin Outs THEN
         IF st = "closed" /\ Ev.op \in HandleOps THEN "ClosedRaisesValueError:" \o Ev.op
         ELSE IF Ev.op = "set" /\ Ev.v = NB THEN "NonBytesRefused"
         ELSE IF Ev.op \in {"create", "fromdict"} /\ exists THEN "CreateOnExistingRefused"
         ELSE IF Ev.op = "open" /\ ~exists THEN "OpenMissingRefused"
         ELSE "Outcome:" \o Ev.op
    ELSE IF ~ResOK THEN "Result:" \o Ev.op
    ELSE IF Ev.op = "open" THEN "ReopenRestores"
    ELSE IF Ev.op = "mutsrc" THEN "FromDictIndependent"
    ELSE IF Ev.out # "ok" THEN "RefusedWithoutEffect:" \o Ev.op
    ELSE "State:" \o Ev.op

-----------------------------------------------------------------------------
Running == verdict = "run" /\ l <= Len(Tr)
Step == Running /\ Act /\ Observed /\ l' = l + 1 /\ UNCHANGED <<tid, verdict, clause>>
Finish == /\ verdict = "run" /\ l = Len(Tr) + 1
          /\ verdict' = "ACCEPT" /\ UNCHANGED <<d, st, onDisk, exists, src, linked, tid, l, clause>>
Reject == /\ Running /\ ~ENABLED Step
          /\ verdict' = "REJECT" /\ clause' = Why
          /\ UNCHANGED <<d, st, onDisk, exists, src, linked, tid, l>>

TraceInit == PInit /\ tid \in 1..Len(Traces) /\ l = 1 /\ verdict = "run" /\ clause = ""
TraceNext == Step \/ Finish \/ Reject
TraceSpec == TraceInit /\ [][TraceNext]_tvars

Done == verdict # "run" => PrintT(<<"V", Traces[tid].tid, verdict, l, clause>>)
=============================================================================
