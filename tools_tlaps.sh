#!/bin/bash
# check every TLAPS proof module under spec/proofs with tlapm (flat copy of all specs in a scratch directory)
D=$(mktemp -d /tmp/tlaps.XXXXXX); cp /verif/spec/*/*.tla $D/; cd $D; bad=0
for f in *_proofs.tla; do
  out=$(timeout 900 tlapm --cleanfp --threads 4 $f 2>&1 | grep -E 'obligations' | tail -1)
  echo "$f: $out"; echo "$out" | grep -q 'All .* proved' || bad=1
done
cd /; rm -rf $D; exit $bad
