"""C01 — search returns exactly the posting list of every stored keyword (and C02 via mode="absent").

Layer B: Layouts.tla (the nine index layouts over length profiles, literal arithmetic) explored by TLC through
MC_Profiles for every scheme x grid configuration: NoRaiseOnValid, ShapeFunctionOfPi, UniformTables; every
profile TLC reaches is replayed on the real scheme (KeyGen, EDBSetup, TokenGen, Search for every keyword),
plus random larger profiles; each case is one record judged by TLC against SSEFunctional (Trace_SSE).
Layer B binding: the projected shape of the real index must equal Layouts!Shape (DRIFT otherwise).
"""
import random
import time

from common import (REPO, MachineryError, classify, finish, pmap, seed, tier, validate_traces, write_replay)
import fe_server as fs
import sse_common as sc
import sse_engine as se

PROP = "C01"


def build_cases(tr, mode):
    rnd = random.Random(seed())
    cases, model = [], {"distinct": 0, "generated": 0, "runs": []}
    for s in sc.SCHEMES:
        for gi, cfg in enumerate(se.grid(s, tr)):
            profs, r, c = se.model_profiles(s, cfg, tr)
            model["distinct"] += r.distinct or 0
            model["generated"] += r.generated or 0
            nvalid = 0
            for pr in profs:
                if pr["valid"] and pr["outcome"] == "built":
                    nvalid += 1
                    # two keyword orders of the same multiset: as emitted (non-increasing) and shuffled
                    p1 = list(pr["p"])
                    cases.append((s, gi, cfg, p1))
                    if len(set(p1)) > 1:
                        p2 = list(p1)
                        rnd.shuffle(p2)
                        cases.append((s, gi, cfg, p2))
            model["runs"].append({"scheme": s, "cfg": gi, "profiles": len(profs), "valid": nvalid, "distinct": r.distinct})
            if nvalid == 0:
                raise MachineryError("no valid profile for %s cfg %d" % (s, gi))
    # random larger profiles with the default configurations (the sizes the repository's own tests use, scaled down)
    nbig = 3 if tr == "quick" else 25
    for s in sc.SCHEMES:
        d = sc.default_config(s)
        for _ in range(nbig):
            k = rnd.randint(5, 40)
            p = [rnd.choice([1, 2, 3, rnd.randint(1, 60), 64, 65, 128]) for _ in range(k)]
            if s == "CGKO06.SSE1":
                d2 = dict(d, param_s=sc.next_pow2(sum(p) + 2), param_dictionary_size=64)
            elif s == "CGKO06.SSE2":
                d2 = dict(d, param_dictionary_size=64)
                p = p[:10]
            else:
                d2 = d
            cases.append((s, -1, d2, p))
    # one large database per scheme (17 000 postings: size thresholds of caches / batching far above the model's bounds)
    for s in sc.SCHEMES:
        if s == "CGKO06.SSE2":
            continue
        d = sc.default_config(s)
        if s == "CGKO06.SSE1":
            d = dict(d, param_s=32768, param_dictionary_size=256)
        cases.append((s, -6, d, [100] * 168 + [130, 70]))
    # arrays of more than 2^14 cells (one posting per block), EVERY keyword searched: a placement that mishandles one
    # particular cell (the first, the last) shows under exactly one keyword
    cases.append(("CJJ14.PiPtr", -7, dict(sc.default_config("CJJ14.PiPtr"), param_B=1, param_b=16), [50] * 340))
    cases.append(("CJJ14.Pi2Lev", -7, dict(sc.default_config("CJJ14.Pi2Lev"), param_B=2, param_b=8, param_B_prime=2, param_b_prime=8), [31] * 1100))
    cases.append(("CGKO06.SSE1", -7, dict(sc.default_config("CGKO06.SSE1"), param_s=32768, param_dictionary_size=512), [50] * 340))
    # profiles on either side of every layout threshold that only larger databases reach, found by TLC (MC_Boundaries)
    bcfgs = se.boundary_families(tr)
    if tr == "thorough":
        bcfgs.append(("CJJ14.PiBas", dict(sc.default_config("CJJ14.PiBas"), param_identifier_size=4), 65600))   # ... and 65536
        bcfgs.append(("CJJ14.Pi2Lev", sc.default_config("CJJ14.Pi2Lev"), 4200))
        bcfgs.append(("CJJ14.PiPtr", dict(sc.default_config("CJJ14.PiPtr"), param_B=2, param_b=16), 600))
    nb = 0
    for s, cfg, maxn in bcfgs:
        bs, r = se.model_boundaries(s, cfg, maxn)
        model["distinct"] += r.distinct or 0
        model["generated"] += r.generated or 0
        model["runs"].append({"module": "MC_Boundaries", "scheme": s, "max_n": maxn, "boundary_profiles": len(bs)})
        for p in bs:
            if sum(p) <= 70000:
                cases.append((s, -2, cfg, p))
                nb += 1
    if nb == 0:
        raise MachineryError("MC_Boundaries found no threshold at all")
    # the far counter threshold (65536 entries under one keyword) is only enumerated by TLC in the thorough tier; one case of it always runs
    cases.append(("CJJ14.PiBas", -3, dict(sc.default_config("CJJ14.PiBas"), param_identifier_size=4), [65537]))
    if tr == "thorough":
        # Pi2Lev's large (two-level pointer) case at the default B = 64 needs more than 4096 postings
        cases.append(("CJJ14.Pi2Lev", -1, sc.default_config("CJJ14.Pi2Lev"), [4200, 70, 3]))
        cases.append(("CJJ14.Pi2Lev", -1, sc.default_config("CJJ14.Pi2Lev"), [4097, 4096, 65, 64]))
        cases.append(("ANSS16.Scheme3", -1, sc.default_config("ANSS16.Scheme3"), [256]))
        cases.append(("CT14.Pi", -1, sc.default_config("CT14.Pi"), [1024]))
    return cases, model


def run(tr, mode, prop, replay_path=None):
    t0 = time.time()
    fs.setup_env(REPO)
    present, absent = (mode == "present"), (mode == "absent")
    if replay_path:
        import json
        with open(replay_path) as fh:
            rp = json.load(fh)
        rec = se.run_case(rp["scheme"], rp["cfg"], rp["p"], rp["seed"], present=present, absent=absent)
        verdicts, _ = validate_traces("Trace_SSE", [{"tid": "replay", "ev": [strip(rec)]}])
        print(json.dumps(rec, indent=1, default=str)[:4000])
        print(verdicts)
        return 0 if verdicts["replay"]["ok"] else 1
    cases, model = build_cases(tr, mode)
    if mode == "present":
        # Layer B state machines: every choice of the random dummy keywords (CT14 / ANSS16) and of the random bucket (DP17)
        import sse_models
        for runs, tot in (sse_models.levels_runs(tr), sse_models.dpplace_runs(tr)):
            model["runs"] += runs
            model["distinct"] += tot["distinct"]
            model["generated"] += tot["generated"]
    sd = seed()
    recs = pmap(lambda a: se.run_case(a[1][0], a[1][2], a[1][3], sd * 1000003 + a[0], present=present, absent=absent,
                                      max_search=1000 if a[1][1] == -7 else 8), list(enumerate(cases)))
    traces = [{"tid": "k%d" % i, "ev": [strip(r)]} for i, r in enumerate(recs)]
    verdicts, agg = validate_traces("Trace_SSE", traces, shards=12)
    rej, drift = [], []
    for i, r in enumerate(recs):
        v = verdicts["k%d" % i]
        if not v["ok"]:
            if v["clause"] == "ValidDomain":
                raise MachineryError("the harness submitted a database outside the valid domain: %s %s" % (r["scheme"], r["p"]))
            rej.append({"key": "%s:%s" % (r["scheme"], v["clause"]), "rec": r, "verdict": v})
        elif v["clause"] == "DRIFT":
            drift.append({"scheme": r["scheme"], "p": r["p"], "shape": r["shape"]})
    viol, seen = classify(prop, rej)
    vio_out = []
    for x in viol:
        p = ""
        if len(vio_out) < 20:
            r = x["rec"]
            p = write_replay(prop, "%s-%d" % (r["scheme"].replace(".", "_"), len(vio_out)),
                             {"scheme": r["scheme"], "cfg": r["cfg"], "p": r["p"], "seed": r["seed"], "record": r, "verdict": x["verdict"]})
        vio_out.append(("%s profile=%s clause=%s err=%s" % (x["rec"]["scheme"], x["rec"]["p"], x["verdict"]["clause"],
                                                            x["rec"]["err"] or [s["err"] for s in x["rec"]["searches"] if s["err"]][:1]), p))
    for d in drift[:10]:
        print("DRIFT property=%s %s profile=%s: index shape differs from Layouts!Shape" % (prop, d["scheme"], d["p"]))
    nsearch = sum(len(r["searches"]) for r in recs)
    cov = {
        "states": model["distinct"], "transitions": model["generated"], "model_runs": model["runs"],
        "traces_validated_against_impl": len(recs), "trace_validation_states": agg["distinct"],
        "evaluations": nsearch,
        "distinct_nontrivial": len({(r["scheme"], tuple(r["p"]), str(sorted(r["c"].items(), key=str))) for r in recs if r["setup"] == "built" and r["searches"]}),
        "rule": "cases = (scheme, grid configuration, length profile): every profile of the bounded MC_Profiles instance that the model says is valid "
                "(one per multiset, plus one shuffled order), plus random larger profiles with the default configurations; "
                "evaluations = searches executed; non-trivial = distinct (scheme, configuration, profile) that built and were searched",
        "drift": drift[:20], "drift_count": len(drift),
        "samples": [strip(recs[0]), strip(recs[len(recs) // 2])],
        "model": "Layer B spec/sse/Layouts.tla via MC_Profiles (NoRaiseOnValid, ShapeFunctionOfPi, UniformTables), spec/sse/Levels.tla (all dummy-keyword choices: "
                 "NoRaiseOnValid, LevelFits, AllStored; pre-fix variant must fail), spec/sse/DPPlace.tla (all bucket choices: ChoiceNeverEmpty, LocalityBound, "
                 "NoOverflow); Layer A spec/sse/SSEFunctional.tla via Trace_SSE",
    }
    return finish(prop, tr, t0, cov, vio_out, seen,
                  assumptions=["ideal cryptography in the layout model; AES/HMAC/hash trusted",
                               "SSE-1 capacity read as N < param_s (the node counter starts at 1); SSE-2 param_n = number of distinct identifiers",
                               "identifiers and keywords random, valid by construction (no leading NUL, exact size, not all-zero, duplicate-free)"])


def strip(rec):
    """the part of a record that goes to TLC"""
    return {"scheme": rec["scheme"], "p": rec["p"], "c": rec.get("c", {}), "setup": rec["setup"], "shape": rec["shape"],
            "searches": [{"kw": s["kw"], "out": s["out"], "pos": s["pos"]} for s in rec["searches"]]}


def main(argv_tier=None, replay_path=None):
    return run(tier(argv_tier), "present", PROP, replay_path)
