"""Entry point: ./check <ID> [--tier quick|thorough] [--replay PATH]"""
import importlib
import os
import sys
import traceback

sys.path.insert(0, os.path.dirname(os.path.abspath(__file__)))


def main():
    args = sys.argv[1:]
    if not args:
        print("usage: check <ID> [--tier quick|thorough] [--replay PATH]")
        return 2
    pid = args[0].upper()
    tier = None
    replay = None
    i = 1
    while i < len(args):
        if args[i] == "--tier":
            tier = args[i + 1]
            i += 2
        elif args[i] == "--replay":
            replay = args[i + 1]
            i += 2
        else:
            print("unknown argument", args[i])
            return 2
    from common import MachineryError
    try:
        mod = importlib.import_module(pid.lower())
    except ImportError as ex:
        print("no check for %s: %s" % (pid, ex))
        return 2
    try:
        return mod.main(tier, replay)
    except MachineryError as ex:
        print("MACHINERY-ERROR property=%s %s" % (pid, ex))
        return 2
    except Exception:
        traceback.print_exc()
        print("MACHINERY-ERROR property=%s unexpected exception" % pid)
        return 2


if __name__ == "__main__":
    rc = main()
    sys.stdout.flush()
    os._exit(rc) if False else sys.exit(rc)
