"""C09, command level: the functions of frontend/client/commands.py (what run_client.py calls), driven in-process against the
in-process server: default-config file, create-service with an alias, generate-key, encrypt-database from a JSON file
(UTF-8 keywords, hex identifiers), upload-config, upload-encrypted-database, search with each output format.
Outcomes are read from what the commands print; results are parsed from the printed list."""
import ast
import asyncio
import contextlib
import io
import json
import os
import random
import shutil

from common import REPO, subdir, seed
import fe_world
import sse_common as sc

FORMATS = ["hex", "int", "raw", "utf8"]


def make_json_db(scheme, cfg, rnd):
    """keywords are ASCII words, identifiers printable ASCII of the configured size (so that every output format applies)"""
    idsz = sc.id_size_of(cfg)
    alphabet = b"abcdefghijklmnopqrstuvwxyz0123456789"
    db = {}
    for w in ("alpha", "beta", "gamma", "delta")[:rnd.randint(2, 4)]:
        ids = set()
        while len(ids) < rnd.randint(1, 4):
            ids.add(bytes(rnd.choice(alphabet) for _ in range(idsz)))
        db[w] = sorted(ids)
    return db


def expected(ids, fmt):
    if fmt == "hex":
        return [x.hex() for x in ids]
    if fmt == "int":
        return [int.from_bytes(x, "big") for x in ids]
    if fmt == "utf8":
        return [x.decode("utf8") for x in ids]
    return list(ids)


class CliRun:
    def __init__(self, scheme, base, k):
        self.scheme = scheme
        self.base = base
        self.k = k
        self.w = fe_world.World(REPO, base, echo_cap=30, cleanup_delay=0.03 if k % 2 else 0.0)
        import frontend.client.commands as commands
        snh = fe_world.fresh_alias_registry(self.w.cdir)
        self.commands, self.snh = commands, snh
        self.ev = []
        self.sid = ""
        self.keys = []

    def call(self, fn, *a, **kw):
        buf = io.StringIO()
        with contextlib.redirect_stdout(buf):
            r = fn(*a, **kw)
        return buf.getvalue(), r

    async def acall(self, fn, *a, **kw):
        buf = io.StringIO()
        with contextlib.redirect_stdout(buf):
            await fn(*a, **kw)
        return buf.getvalue()

    def observe(self, op, out, correct=False, raw=""):
        import c11
        # reuse the projection of the C11 / C09 runs
        helper = c11.Run.__new__(c11.Run)
        helper.w, helper.sid, helper.keys, helper.ev = self.w, self.sid, self.keys, self.ev
        before = {"key": None, "cfgd": None, "edb": None, "flags": None}
        o = c11.Run.observe(helper, before)
        stray = [f for f in os.listdir(self.w.cdir) if not os.path.isdir(os.path.join(self.w.cdir, f)) and f != "service_mapping.json"]
        o["filesok"] = o["filesok"] or (not stray and True)
        o["changed"] = False
        self.ev.append({"op": op, "out": out, "correct": correct, "raw": raw[:200], "o": o})

    async def run(self):
        rnd = random.Random(seed() * 31 + self.k)
        cmd = self.commands
        await self.w.start_server()
        cfgp = os.path.join(self.base, "cfg.json")
        out, _ = self.call(cmd.generate_default_config, self.scheme, cfgp)
        with open(cfgp) as fh:
            cfg = json.load(fh)
        db = make_json_db(self.scheme, cfg, rnd)
        cfg = sc.fit_config(self.scheme, cfg, {w.encode(): v for w, v in db.items()})
        with open(cfgp, "w") as fh:
            json.dump(cfg, fh)
        dbp = os.path.join(self.base, "db.json")
        with open(dbp, "w") as fh:
            json.dump({w: [x.hex() for x in ids] for w, ids in db.items()}, fh)
        # the outcome of a command is what it DID (the alias resolves, the flag it is there to set is newly set), not how
        # commands.py words its message
        def flag(name):
            return bool(self.ev and self.ev[-1]["o"].get(name))
        out, _ = self.call(cmd.create_service, cfgp, "svc")
        try:
            self.sid = self.snh.get_service_id_by_sname("svc")
            ok = bool(self.sid) and os.path.isdir(os.path.join(self.w.cdir, self.sid))
        except Exception:
            ok = False
        self.observe("create", "ok" if ok else "refused", raw=out)
        for op, fl, fn, args in (("genkey", "kc", cmd.generate_key, ()), ("encrypt", "de", cmd.encrypt_database, (dbp,))):
            before = flag(fl)
            out, _ = self.call(fn, *args, sname="svc")
            self.observe(op, "refused", raw=out)
            if flag(fl) and not before:
                self.ev[-1]["out"] = "ok"
        for op, fl, fn in (("upconfig", "cu", cmd.upload_config), ("upindex", "du", cmd.upload_encrypted_database)):
            before = flag(fl)
            out = await self.acall(fn, sname="svc")
            self.observe(op, "refused", raw=out)
            if flag(fl) and not before:
                self.ev[-1]["out"] = "ok"
        if self.k % 3 == 0:
            await self.w.restart_server()
            self.observe("restart", "ok")
        for i, fmt in enumerate(FORMATS):
            kw = list(db)[i % len(db)] if i != 2 else "absentword"
            exp = expected(db.get(kw, []), fmt)
            out = await self.acall(cmd.search, kw, fmt, sid=self.sid if i % 2 else "", sname="" if i % 2 else "svc")
            got, good = None, False
            # the result is the list literal the command prints (whatever words surround it)
            i, j = out.find("["), out.rfind("]")
            if 0 <= i < j:
                try:
                    got = ast.literal_eval(out[i:j + 1])
                except Exception:
                    got = None
                if not isinstance(got, (list, tuple)):
                    got = None
                if got is not None:
                    good = (sorted(map(repr, got)) == sorted(map(repr, exp))) if self.scheme in sc.SET_RESULT else (list(got) == exp)
            self.observe("search", "ok" if got is not None else "refused", correct=good, raw="%s %s -> %s" % (fmt, kw, out))
        await self.w.shutdown()
        return self.ev


def run_cli(scheme, k):
    d = os.path.join(subdir("c09-cli"), "c%d" % k)
    os.makedirs(d, exist_ok=True)
    r = CliRun(scheme, d, k)
    loop = asyncio.new_event_loop()
    loop.set_exception_handler(lambda l, c: None)
    try:
        ev = loop.run_until_complete(asyncio.wait_for(r.run(), 600))
    except asyncio.TimeoutError:
        ev = r.ev + [{"op": "noreturn", "out": "none", "correct": False, "o": {}}]
    finally:
        loop.close()
    shutil.rmtree(d, ignore_errors=True)
    return ev
