"""C15 — pseudo-random permutations are length-preserving bijections with inverses.

1. Model + TLC (spec/prim/Feistel.tla via MC_Feistel): the unbalanced bit Feistel network and the 3-round
   byte Feistel as the code wires them, with the round function / PRF ABSTRACT.  TLC quantifies over the
   round function (all of them at small widths, drawn ones at the code's 10 rounds) and checks the Layer A
   table predicates (complete, n bits out, one-to-one, onto, decryption inverts); instances that must fail
   (odd round count on an odd width, n = 1) are run as sensitivity controls of the model.
2. Code -> spec (Trace_Feistel): the real BitwiseFFX / BitwiseFPEPRP / LubyRackoffPRP / HmacLubyRackoffPRP are
   driven; every call (with its round()/PRF calls, recorded through instance-attribute proxies), every complete
   table for n = 2.., every sampled set is one JSON record judged by TLC:
     Layer A (the property) -> VIOLATION;  Layer B (the wiring, re-run with the recorded round function) -> DRIFT.
   Bits and bytes travel as int lists, never as a big integer.
"""
import hashlib
import json
import os
import random
import sys
import threading
import time

from common import (REPO, MachineryError, classify, finish, pmap, run_tlc, scratch, seed, tier,
                    validate_traces, write_replay, NCPU)

PROP = "C15"
FPE_MOD = "toolkit.symmetric_encryption.fpe"

_ENV = {}


def env():
    """import the code under test (HOME redirected first: toolkit modules may create ~/.sse at import)"""
    if not _ENV:
        import tempfile
        import atexit
        import shutil
        home = tempfile.mkdtemp(prefix="ssepy-home.", dir=os.environ.get("TMPDIR", "/tmp"))
        atexit.register(shutil.rmtree, home, True)
        os.environ["HOME"] = home
        if REPO not in sys.path:
            sys.path.insert(0, REPO)
        import logging
        logging.disable(logging.CRITICAL)
        import importlib
        _ENV["fpe_mod"] = importlib.import_module(FPE_MOD)
        _ENV["Bitset"] = importlib.import_module("toolkit.bits").Bitset
        _ENV["BitwiseFFX"] = _ENV["fpe_mod"].BitwiseFFX
        _ENV["BitwiseFPEPRP"] = importlib.import_module("toolkit.prp.bitwise_fpe_prp").BitwiseFPEPRP
        _ENV["LubyRackoffPRP"] = importlib.import_module("toolkit.prp.luby_rackoff_prp").LubyRackoffPRP
        _ENV["HmacLubyRackoffPRP"] = importlib.import_module("toolkit.prp.hmac_luby_rackoff_prp").HmacLubyRackoffPRP
        _ENV["HmacPRF"] = importlib.import_module("toolkit.prf.hmac_prf").HmacPRF
        _ENV["AbstractPRF"] = importlib.import_module("toolkit.prf.abstraction").AbstractPRF
    return _ENV


# ---------------------------------------------------------------------------
# projections: real values -> int lists
# ---------------------------------------------------------------------------

class BadType(Exception):
    pass


def bits_of(bs):
    """Bitset -> bit list, most significant first.  Width = max(declared length, bit length of the value):
    a value that does not fit its declared length shows up as a longer string, never silently masked."""
    if not isinstance(bs, env()["Bitset"]):
        raise BadType(type(bs).__name__)
    # through the public conversions (int(), len()): how the class stores the two is its own business
    try:
        v, ln = int(bs), len(bs)
    except Exception:
        v, ln = getattr(bs, "value", None), getattr(bs, "length", None)
    if isinstance(v, bool) or not isinstance(v, int) or not isinstance(ln, int) or v < 0 or ln < 0:
        raise BadType("Bitset(%r,%r)" % (type(v).__name__, type(ln).__name__))
    w = max(ln, v.bit_length())
    if w == 0:
        return []
    return [int(ch) for ch in bin(v)[2:].zfill(w)]


def mk_bits(bits):
    """bit list -> Bitset of exactly that width"""
    Bitset = env()["Bitset"]
    n = len(bits)
    v = int("".join(str(b) for b in bits), 2) if n else 0
    b = Bitset(v, n) if n else Bitset(0, 0)
    if len(b) != n or int(b) != v:
        raise MachineryError("cannot build a %d-bit Bitset" % n)
    return b


def bytes_of(x):
    if not isinstance(x, (bytes, bytearray)):
        raise BadType(type(x).__name__)
    return list(bytes(x))


def int_bits(v, n):
    return [(v >> (n - 1 - k)) & 1 for k in range(n)]


def small_int(x):
    if isinstance(x, bool) or not isinstance(x, int) or not (0 <= x < 2 ** 31):
        raise BadType("int %r" % (x,))
    return x


# ---------------------------------------------------------------------------
# recorders (instance-attribute / module-attribute proxies, no repo edit)
# ---------------------------------------------------------------------------

def record_rounds(fpe, sink):
    """Wrap fpe.round (looked up by the code as self.round) on the INSTANCE."""
    orig = fpe.round

    def round_proxy(key, i, s, *a, **kw):
        o = orig(key, i, s, *a, **kw)
        try:            # the recording feeds Layer B only: whatever the call looks like, it must go through unchanged
            w = a[0] if a else (list(kw.values())[0] if kw else 0)
            sink.append({"i": small_int(i), "s": bits_of(s), "w": small_int(w), "o": bits_of(o)})
        except Exception:
            pass
        return o
    fpe.round = round_proxy
    return fpe


class PrfProxy:
    """Stands in for LubyRackoffPRP.underlying_prf (an instance attribute read at call time)."""

    def __init__(self, prf, sink):
        self._prf = prf
        self._sink = sink
        self.key_length = prf.key_length
        self.message_length = prf.message_length
        self.output_length = prf.output_length

    def __call__(self, key, message):
        o = self._prf(key, message)
        self._sink.append({"k": bytes_of(key), "m": bytes_of(message), "o": bytes_of(o)})
        return o


class HmacProxy:
    """Stands in for the module attribute `hmac` of toolkit.symmetric_encryption.fpe."""

    def __init__(self, real, sink):
        self._real = real
        self._sink = sink

    def new(self, key, msg=None, digestmod=""):
        h = self._real.new(key, msg, digestmod)
        self._sink.append({"m": list(msg or b""), "d": list(self._real.new(key, msg, digestmod).digest())})
        return h

    def __getattr__(self, name):
        return getattr(self._real, name)


def outcome(fn):
    """run fn(); returns ("ok", value) | ("raised", exception class name) | ("badtype", what)"""
    try:
        return "ok", fn()
    except BadType as ex:
        return "badtype", str(ex)
    except MachineryError:
        raise
    except Exception as ex:                        # an exception of the code under test is an observation
        return "raised", type(ex).__name__


# ---------------------------------------------------------------------------
# cases -> records (executed on the real code; one record per case)
# ---------------------------------------------------------------------------

def run_ffx(c):
    E = env()
    key = bytes(c["key"])
    x = c["x"]
    er, dr = [], []
    fpe = E["BitwiseFFX"]()
    R = small_int(fpe.rounds)
    if c["rec"]:
        record_rounds(fpe, er)
    r = {"k": "ffx", "n": len(x), "x": x, "rec": bool(c["rec"]), "R": R, "eo": "ok", "do": "ok", "y": [], "z": [],
         "er": er, "dr": []}
    eo, y = outcome(lambda: fpe.encrypt(key, mk_bits(x)))
    if eo == "ok":
        eo, yb = outcome(lambda: bits_of(y))
    r["eo"] = eo
    if eo != "ok":
        r["why"] = str(yb if eo == "badtype" else y)
        return r
    r["y"] = yb
    fpe2 = E["BitwiseFFX"]()
    if c["rec"]:
        record_rounds(fpe2, dr)
    do, z = outcome(lambda: fpe2.decrypt(key, y))
    if do == "ok":
        do, zb = outcome(lambda: bits_of(z))
    r["do"] = do
    r["dr"] = dr
    if do != "ok":
        r["why"] = str(zb if do == "badtype" else z)
        return r
    r["z"] = zb
    return r


def run_table(c):
    """the complete table of one key at width n: through BitwiseFFX (with decrypt) or through BitwiseFPEPRP"""
    E = env()
    n = c["n"]
    key = bytes(c["key"])
    rows = []
    if c["src"] == "ffx":
        fpe = E["BitwiseFFX"]()
        enc = lambda xb: fpe.encrypt(key, xb)
        dec = lambda yb: fpe.decrypt(key, yb)
        for wn in c.get("warm", []):
            if wn >= 2:
                for v in range(2 ** wn):
                    try:
                        fpe.decrypt(key, fpe.encrypt(key, mk_bits(int_bits(v, wn))))
                    except Exception:
                        pass
    else:
        prp = E["BitwiseFPEPRP"](message_bit_length=n, key_bit_length=8 * len(key))
        kb = E["Bitset"](int.from_bytes(key, "big"), 8 * len(key)) if key else E["Bitset"](0, 0)
        enc = lambda xb: prp(kb, xb)
        dec = None
    for v in range(2 ** n):
        x = int_bits(v, n)
        o, y = outcome(lambda: enc(mk_bits(x)))
        if o == "ok":
            o, yb = outcome(lambda: bits_of(y))
        if o != "ok":       # a refusal inside the declared domain: reported as the single failing call
            return {"k": "ffx", "n": n, "x": x, "rec": False, "R": 0, "eo": o, "do": "ok", "y": [], "z": [],
                    "er": [], "dr": [], "why": "table(%s) x=%d" % (c["src"], v)}
        row = {"x": x, "y": yb, "z": []}
        if dec is not None:
            o, z = outcome(lambda: dec(y))
            if o == "ok":
                o, zb = outcome(lambda: bits_of(z))
            if o != "ok":
                return {"k": "ffx", "n": n, "x": x, "rec": False, "R": 0, "eo": "ok", "do": o, "y": yb, "z": [],
                        "er": [], "dr": [], "why": "table(%s) x=%d" % (c["src"], v)}
            row["z"] = zb
        rows.append(row)
    return {"k": "table", "n": n, "src": c["src"], "inv": dec is not None, "rows": rows}


def run_prp(c):
    E = env()
    er = []
    prp = E["BitwiseFPEPRP"](message_bit_length=c["mlen"], key_bit_length=c["klen"])
    if c["rec"]:
        record_rounds(prp.underlying_fpe, er)
    kb = mk_bits(c["key"])
    r = {"k": "prp", "mlen": c["mlen"], "klen": c["klen"], "kl": len(c["key"]), "x": c["x"], "rec": bool(c["rec"]),
         "R": small_int(prp.underlying_fpe.rounds), "er": er, "y": [], "out": "ok", "exc": ""}
    o, y = outcome(lambda: prp(kb, mk_bits(c["x"])))
    if o == "ok":
        o, yb = outcome(lambda: bits_of(y))
        if o == "ok":
            r["y"] = yb
        else:
            r["exc"] = str(yb)
    else:
        r["exc"] = str(y)
    r["out"] = o
    return r


class Blake2PRF:
    """A second PRF for LubyRackoffPRP (the construction must be a permutation for ANY PRF)."""

    def __init__(self, *, output_length, key_length, message_length):
        self.output_length = output_length
        self.key_length = key_length
        self.message_length = message_length

    def __call__(self, key, message):
        out = b""
        ctr = 0
        while len(out) < self.output_length:
            out += hashlib.blake2b(message + bytes([ctr]), key=key[:64], digest_size=64).digest()
            ctr += 1
        return out[:self.output_length]


def make_lr(c, sink=None):
    E = env()
    ml, kl = c["mlen"], c["klen"]
    if c["cls"] == "HmacLubyRackoffPRP":
        prp = E["HmacLubyRackoffPRP"](message_length=ml, key_length=kl, hash_func_name=c.get("hash", "sha1"))
        inner = prp.underlying_prp
    else:
        if c.get("prf") == "blake2":
            prf = Blake2PRF(output_length=ml // 2, key_length=kl // 3, message_length=ml // 2)
        else:
            prf = E["HmacPRF"](output_length=ml // 2, key_length=kl // 3, message_length=ml // 2,
                               hash_func_name=c.get("hash", "sha256"))
        prp = E["LubyRackoffPRP"](message_length=ml, key_length=kl, underlying_prf=prf)
        inner = prp
    if sink is not None:
        inner.underlying_prf = PrfProxy(inner.underlying_prf, sink)
    return prp


def run_lr(c):
    prf = []
    prp = make_lr(c, prf if c["rec"] else None)
    r = {"k": "lr", "cls": c["cls"], "mlen": c["mlen"], "klen": c["klen"], "key": c["key"], "x": c["x"],
         "rec": bool(c["rec"]), "prf": prf, "y": [], "out": "ok", "exc": ""}
    o, y = outcome(lambda: prp(bytes(c["key"]), bytes(c["x"])))
    if o == "ok":
        o, yb = outcome(lambda: bytes_of(y))
        if o == "ok":
            r["y"] = yb
        else:
            r["exc"] = str(yb)
    else:
        r["exc"] = str(y)
    r["out"] = o
    return r


def inj_inputs(c):
    if c.get("xs") == "all2":
        return [[a, b] for a in c["first"] for b in range(256)]
    return c["xs"]


def run_inj(c):
    E = env()
    xs = inj_inputs(c)
    rows = []
    if c["unit"] == "byte":
        prp = make_lr(c)
        key = bytes(c["key"])
        call = lambda x: bytes_of(prp(key, bytes(x)))
    else:
        prp = E["BitwiseFPEPRP"](message_bit_length=c["mlen"], key_bit_length=len(c["key"]))
        kb = mk_bits(c["key"])
        call = lambda x: bits_of(prp(kb, mk_bits(x)))
    for x in xs:
        o, y = outcome(lambda: call(x))
        if o != "ok":
            if c["unit"] == "byte":
                return {"k": "lr", "cls": c["cls"], "mlen": c["mlen"], "klen": c["klen"], "key": c["key"], "x": x,
                        "rec": False, "prf": [], "y": [], "out": o, "exc": str(y)}
            return {"k": "prp", "mlen": c["mlen"], "klen": len(c["key"]), "kl": len(c["key"]), "x": x, "rec": False,
                    "R": 0, "er": [], "y": [], "out": o, "exc": str(y)}
        rows.append({"x": x, "y": y})
    return {"k": "inj", "unit": c["unit"], "cls": c.get("cls", "BitwiseFPEPRP"), "mlen": c["mlen"],
            "full": bool(c.get("full")), "rows": rows}


def run_round(c):
    """one BitwiseFFX.round call with the hmac.new calls it makes (Layer B only)"""
    E = env()
    mod = E["fpe_mod"]
    hm = []
    import hmac as _hmac_module
    # the recorder sits on whatever module-level name(s) the cipher's module binds to the hmac module; a module that reaches
    # HMAC another way (from hmac import HMAC, hashlib directly) is simply not recorded: Layer B then reports drift
    names = [n for n, v in vars(mod).items() if v is _hmac_module]
    fpe = E["BitwiseFFX"]()
    proxy = HmacProxy(_hmac_module, hm)
    for n in names:
        setattr(mod, n, proxy)
    try:
        o, v = outcome(lambda: bits_of(fpe.round(bytes(c["key"]), c["i"], mk_bits(c["s"]), c["w"])))
    finally:
        for n in names:
            setattr(mod, n, _hmac_module)
    return {"k": "round", "i": c["i"], "s": c["s"], "w": c["w"], "le": sys.byteorder == "little", "hm": hm,
            "out": o, "o": v if o == "ok" else [], "ds": small_int(fpe.digest_size)}


RUN = {"ffx": run_ffx, "table": run_table, "prp": run_prp, "lr": run_lr, "inj": run_inj, "round": run_round}


def run_case(c):
    return RUN[c["k"]](c)


# ---------------------------------------------------------------------------
# case generation
# ---------------------------------------------------------------------------

def rbits(rnd, n):
    return [rnd.getrandbits(1) for _ in range(n)]


def rbytes(rnd, n):
    return [rnd.getrandbits(8) for _ in range(n)]


def gen_cases(tr):
    rnd = random.Random(seed() * 1000003 + 15)
    quick = tr == "quick"
    cases = []
    keys = [[], [0], rbytes(rnd, 16), list(b"JezaChen"), rbytes(rnd, 64), rbytes(rnd, 65), rbytes(rnd, 200)]

    # (i) single calls with their round-function calls: every small width, and widths around the digest size
    small = list(range(2, 41))
    for n in small:
        for _ in range(3 if quick else 12):
            cases.append({"k": "ffx", "key": rnd.choice(keys), "x": rbits(rnd, n), "rec": True})
        cases.append({"k": "ffx", "key": rnd.choice(keys), "x": [0] * n, "rec": True})
        cases.append({"k": "ffx", "key": rnd.choice(keys), "x": [1] * n, "rec": True})
    edge = sorted({160 * m + d for m in range(1, 14) for d in (-2, -1, 0, 1, 2)} |
                  {320 * m + d for m in range(1, 7) for d in (-3, -2, -1, 0, 1, 2, 3)} | {2099, 2100})
    edge = [n for n in edge if 2 <= n <= 2100]
    rec_edge = edge if not quick else [n for n in edge if n <= 700 or n >= 2090]
    for n in rec_edge:
        cases.append({"k": "ffx", "key": rnd.choice(keys), "x": rbits(rnd, n), "rec": True})

    # (iii) random widths up to 2100 bits, odd and even, around multiples of 160: length and inverse only
    for n in edge:
        for x in ([0] * n, [1] * n, [1] + [0] * (n - 1), [0] * (n - 1) + [1], rbits(rnd, n)):
            cases.append({"k": "ffx", "key": rnd.choice(keys), "x": x, "rec": False})
    for _ in range(150 if quick else 2500):
        n = rnd.randint(2, 2100)
        cases.append({"k": "ffx", "key": rbytes(rnd, rnd.choice([0, 1, 8, 20, 32, 64, 100])), "x": rbits(rnd, n),
                      "rec": False})

    # (ii) complete tables
    top = 9 if quick else 12
    tkeys = [[], list(b"k"), rbytes(rnd, 32)] if quick else [[], list(b"k"), rbytes(rnd, 16), rbytes(rnd, 32), rbytes(rnd, 80)]
    for n in range(2, top + 1):
        for key in tkeys:
            cases.append({"k": "table", "src": "ffx", "n": n, "key": key})
        # the same cipher OBJECT and key used at the neighbouring widths first (n+1, then n-1), then the table at n:
        # a cipher object must not carry anything over from one width to another
        cases.append({"k": "table", "src": "ffx", "n": n, "key": rbytes(rnd, 16), "warm": [n + 1, n - 1]})
        cases.append({"k": "table", "src": "prp", "n": n, "key": rbytes(rnd, 16)})

    # (iv) BitwiseFPEPRP: contract (right and wrong widths) and wiring
    for mlen in [2, 3, 4, 5, 8, 13, 16, 31, 64, 128, 159, 160, 161, 320, 321]:
        for klen in [1, 7, 8, 128, 256]:
            good_k, good_m = rbits(rnd, klen), rbits(rnd, mlen)
            cases.append({"k": "prp", "mlen": mlen, "klen": klen, "key": good_k, "x": good_m, "rec": True})
            for dk, dm in [(-1, 0), (1, 0), (0, -1), (0, 1), (8, 0), (0, mlen), (1, 1), (-klen, 0), (0, -mlen)]:
                if klen + dk < 0 or mlen + dm < 0:
                    continue
                cases.append({"k": "prp", "mlen": mlen, "klen": klen, "key": rbits(rnd, klen + dk),
                              "x": rbits(rnd, mlen + dm), "rec": False})
    for mlen in ([13, 20, 64, 161] if quick else [13, 16, 20, 33, 64, 128, 159, 160, 161, 320, 321, 1024]):
        xs = set()
        while len(xs) < (200 if quick else 1500):
            xs.add(tuple(rbits(rnd, mlen)))
        cases.append({"k": "inj", "unit": "bit", "mlen": mlen, "key": rbits(rnd, 128), "xs": [list(x) for x in sorted(xs)]})

    # (iv) byte PRPs: contract, wiring, injectivity on sampled sets for 2..64-byte messages, all 2-byte messages
    flavours = [("HmacLubyRackoffPRP", {"hash": "sha1"}), ("HmacLubyRackoffPRP", {"hash": "sha256"}),
                ("LubyRackoffPRP", {"hash": "sha256"}), ("LubyRackoffPRP", {"prf": "blake2"})]
    mlens = list(range(2, 65, 2))
    for mlen in mlens:
        for klen in ([3, 48] if quick else [3, 24, 48, 96]):
            cls, extra = flavours[(mlen // 2 + klen) % len(flavours)]
            base = dict({"k": "lr", "cls": cls, "mlen": mlen, "klen": klen}, **extra)
            for _ in range(2 if quick else 6):
                cases.append(dict(base, key=rbytes(rnd, klen), x=rbytes(rnd, mlen), rec=True))
            for dk, dm in [(-1, 0), (1, 0), (0, -1), (0, 1), (3, 0), (0, 2), (0, -2), (-klen, 0), (0, -mlen), (1, 1)]:
                if klen + dk < 0 or mlen + dm < 0:
                    continue
                cases.append(dict(base, key=rbytes(rnd, klen + dk), x=rbytes(rnd, mlen + dm), rec=False))
    for mlen in (mlens[::4] + [64] if quick else mlens):
        cls, extra = flavours[(mlen // 2) % len(flavours)]
        xs = set()
        want = min(300 if quick else 2000, 256 ** mlen)
        while len(xs) < want:
            xs.add(tuple(rbytes(rnd, mlen)))
        # near-collisions: messages that differ in one half only (the classic failure of a broken Feistel)
        h = rbytes(rnd, mlen // 2)
        for _ in range(40):
            xs.add(tuple(h + rbytes(rnd, mlen - mlen // 2)))
            xs.add(tuple(rbytes(rnd, mlen // 2) + h[:mlen - mlen // 2]))
        cases.append(dict({"k": "inj", "unit": "byte", "cls": cls, "mlen": mlen, "klen": 48, "key": rbytes(rnd, 48),
                           "xs": [list(x) for x in sorted(xs)]}, **extra))
    firsts = sorted(rnd.sample(range(256), 16)) if quick else list(range(256))
    for cls, extra in (flavours[:1] if quick else flavours[:1] + flavours[3:]):
        cases.append(dict({"k": "inj", "unit": "byte", "cls": cls, "mlen": 2, "klen": 48, "key": rbytes(rnd, 48),
                           "xs": "all2", "first": firsts, "full": not quick}, **extra))

    # Layer B only: the HMAC expansion inside round()
    for w in [0, 1, 2, 7, 8, 80, 159, 160, 161, 319, 320, 321, 481, 1050]:
        for sl in [1, 2, 5, 160]:
            cases.append({"k": "round", "key": rnd.choice(keys), "i": rnd.randrange(10), "s": rbits(rnd, sl), "w": w})
    return cases


# ---------------------------------------------------------------------------
# the model
# ---------------------------------------------------------------------------

THMS_NET = ["ThmWellFormed", "ThmComplete", "ThmLength", "ThmInjective", "ThmBijective", "ThmInverse", "ThmWidths",
            "ThmDefined"]
THMS_LR = ["ThmLRLength", "ThmLRInjective", "ThmLRBijective"]


def mc_cfg(mode, ns, R, K=0, A=2, H=1, KA=(0,), invs=()):
    return ("CONSTANTS Mode = \"%s\"\nNs = {%s}\nR = %d\nK = %d\nA = %d\nH = %d\nKA = {%s}\n"
            "SPECIFICATION Spec\nCHECK_DEADLOCK FALSE\n" % (mode, ",".join(map(str, ns)), R, K, A, H, ",".join(map(str, KA)))
            + "".join("INVARIANT %s\n" % i for i in invs))


def widths_at(n, i):
    a, b = n - (n + 1) // 2, (n + 1) // 2
    for _ in range(i):
        w = b if a == 0 else a
        a, b = b, max(a, w)
    return a, b


def expect_all(ns, R):
    """number of states of Mode = "all" (vacuity guard: the enumeration really covered every round function)"""
    tot = 0
    for n in ns:
        cnt, tot = 1, tot + 1
        for i in range(R):
            a, b = widths_at(n, i)
            w = b if a == 0 else a
            cnt *= (2 ** w) ** (2 ** b)
            tot += cnt
        tot += cnt
    return tot


def model_jobs(tr):
    quick = tr == "quick"
    jobs = []

    def job(name, what, cfg, expect_states=None, expect_violation=None, min_states=None, workers=None):
        jobs.append(dict(name=name, what=what, cfg=cfg, expect_states=expect_states, expect_violation=expect_violation,
                         min_states=min_states, workers=workers))
    ns = [2, 3, 4]
    job("all-r2", "every round function, n in {2,3,4}, 2 rounds", mc_cfg("all", ns, 2, invs=THMS_NET), expect_all(ns, 2))
    ns4 = [2] if quick else [2, 3]
    job("all-r4", "every round function, n in {%s}, 4 rounds" % ",".join(map(str, ns4)), mc_cfg("all", ns4, 4, invs=THMS_NET),
        expect_all(ns4, 4))
    sn = list(range(2, 9)) if quick else list(range(2, 11))
    sk = 40 if quick else 300
    job("sample-r10", "%d drawn round functions per n in %d..%d, 10 rounds" % (sk, sn[0], sn[-1]),
        mc_cfg("sample", sn, 10, K=sk, invs=THMS_NET), min_states=int(1.9 * sk * len(sn)))
    job("total-r10", "drawn total round functions, n in 2..5, 10 rounds (control for the failing instances)",
        mc_cfg("total", [2, 3, 4, 5], 10, K=5, invs=THMS_NET), min_states=40)
    job("round", "one round is a bijection for every g, widths wa+wb <= %d" % (4 if quick else 5),
        mc_cfg("round", [1, 2, 3], 2, K=4 if quick else 5, invs=["ThmRound"]), min_states=600 if quick else 70000)
    job("lr-all-h1", "3-round byte Feistel, every PRF graph, alphabet {0,1}, half 1, every key over 3 sub-keys",
        mc_cfg("lr", [1], 3, K=0, A=2, H=1, KA=(0, 1, 2), invs=THMS_LR), expect_states=27 * (1 + 4 + 16 + 64 + 64))
    job("lr-draw", "3-round byte Feistel, drawn PRF graphs, alphabet 0..3, half %d" % (1 if quick else 2),
        mc_cfg("lr", [1], 3, K=50 if quick else 200, A=4, H=1 if quick else 2, KA=(0, 1, 2), invs=THMS_LR),
        min_states=int(0.95 * 27 * (51 if quick else 201)))
    if not quick:
        job("lr-all-h2", "3-round byte Feistel, every PRF graph, alphabet {0,1}, half 2, every key over 2 sub-keys",
            mc_cfg("lr", [1], 3, K=0, A=2, H=2, KA=(0, 1), invs=THMS_LR), expect_states=8 * (1 + 256 + 65536 + 65536))
    # instances that MUST fail: the reason for "even round count" and for "n >= 2"
    job("neg-odd-rounds", "3 rounds on n = 3: decryption does not invert", mc_cfg("total", [3], 3, K=3, invs=["ThmInverse"]),
        expect_violation="ThmInverse")
    job("neg-odd-rounds-9", "9 rounds on n = 5: decryption does not invert", mc_cfg("total", [5], 9, K=3, invs=["ThmInverse"]),
        expect_violation="ThmInverse")
    job("neg-n1-length", "n = 1: the output is not 1 bit long", mc_cfg("total", [1], 10, K=3, invs=["ThmLength"]),
        expect_violation="ThmLength")
    job("neg-n1-widths", "n = 1: the halves do not return to their widths although R is even",
        mc_cfg("total", [1], 10, K=3, invs=["ThmWidths"]), expect_violation="ThmWidths")
    return jobs


def run_model(tr):
    jobs = model_jobs(tr)
    if os.environ.get("VERIF_C15_NO_MODEL"):        # debugging aid for mutation runs; the evidence then shows states = 0
        print("C15: model instances skipped (VERIF_C15_NO_MODEL)")
        jobs = []
    scratch()
    res = {}
    errs = []
    sem = threading.Semaphore(3)

    def work(j):
        with sem:
            try:
                r = run_tlc("MC_Feistel", j["cfg"], name="mc-" + j["name"], extra=("-seed", str(seed() + 15)),
                            allow_violation=bool(j["expect_violation"]), workers=j["workers"] or max(4, NCPU // 2),
                            timeout=1500, heap="4g")
                res[j["name"]] = r
            except Exception as ex:                 # noqa
                errs.append((j["name"], ex))
    ths = [threading.Thread(target=work, args=(j,)) for j in jobs]
    for t in ths:
        t.start()
    return jobs, ths, res, errs


def judge_model(jobs, res, errs):
    if errs:
        raise MachineryError("model run %s: %s" % (errs[0][0], errs[0][1]))
    summary = []
    states = transitions = 0
    for j in jobs:
        r = res[j["name"]]
        if j["expect_violation"]:
            if r.violated != j["expect_violation"]:
                raise MachineryError("model instance %s was expected to violate %s, TLC says %r"
                                     % (j["name"], j["expect_violation"], r.violated))
        else:
            if r.violated:
                raise MachineryError("model instance %s violates %s (the model itself is wrong)" % (j["name"], r.violated))
            if j["expect_states"] is not None and r.distinct != j["expect_states"]:
                raise MachineryError("model instance %s: %s states, expected %s" % (j["name"], r.distinct, j["expect_states"]))
            if j["min_states"] is not None and (r.distinct or 0) < j["min_states"]:
                raise MachineryError("model instance %s: only %s states (< %s)" % (j["name"], r.distinct, j["min_states"]))
            states += r.distinct or 0
            transitions += r.generated or 0
        summary.append({"instance": j["name"], "what": j["what"], "states": r.distinct, "generated": r.generated,
                        "violated": r.violated, "expected_violation": j["expect_violation"], "wall_s": round(r.wall, 1)})
    return summary, states, transitions


# ---------------------------------------------------------------------------
# validation
# ---------------------------------------------------------------------------

def weight(rec):
    if rec["k"] in ("table", "inj"):
        return len(rec["rows"]) * 3
    if rec["k"] == "ffx":
        return 1 + len(rec["x"]) // 20 * (10 if rec["rec"] else 1)
    return 1


def balanced(traces, nshards):
    """order the traces so that validate_traces' round-robin sharding spreads the heavy records"""
    order = sorted(traces, key=lambda t: -weight(t["ev"][0]))
    return order


def validate(traces, layer, nm):
    if not traces:
        return {}, {"generated": 0, "distinct": 0}
    shards = min(NCPU, max(1, len(traces) // 20))
    return validate_traces("Trace_Feistel", balanced(traces, shards), consts="CONSTANTS Layer = \"%s\"\n" % layer,
                           shards=shards, name="tv%s-%s" % (layer, nm), timeout=2400)


class _NoBase(Exception):
    """the run produced no record of the kind a fault is planted in (the code under test misbehaves)"""


def planted(recs):
    """Self-test of the trace specification: copies of real records with one planted fault each must be rejected
    with the named clause (a trace specification that accepts everything would make the whole check vacuous)."""
    import copy

    def first(pred):
        for r in recs:
            if pred(r):
                return copy.deepcopy(r)
        raise _NoBase()
    flip = lambda bits, k=-1: bits[:k] + [1 - bits[k]] + (bits[k + 1:] if k != -1 else [])
    out = []
    small = lambda r: r["k"] == "ffx" and r["rec"] and 5 <= r["n"] <= 40 and r["eo"] == "ok" and r["do"] == "ok"
    r = first(small); r["z"] = flip(r["z"]); out.append((r, "A", "ffx:inverse"))
    r = first(small); r["y"] = r["y"] + [0]; out.append((r, "A", "ffx:length"))
    r = first(small); r["eo"] = "raised"; out.append((r, "A", "ffx:encrypt-raised"))
    r = first(small); r["y"] = flip(r["y"]); out.append((r, "B", "wiring:encrypt"))
    r = first(small); r["er"] = r["er"][:-1]; out.append((r, "B", "wiring:round-count"))
    r = first(small); r["er"][0]["o"] = r["er"][0]["o"] + [1]; out.append((r, "B", "round:width"))
    tab = lambda r: r["k"] == "table" and r["n"] == 4 and r["inv"]
    r = first(tab); r["rows"][0]["y"] = r["rows"][1]["y"]; out.append((r, "A", "table:injective"))
    r = first(tab); r["rows"][0]["z"] = flip(r["rows"][0]["z"]); out.append((r, "A", "table:inverse"))
    r = first(tab); r["rows"][0]["y"] = r["rows"][0]["y"][:-1]; out.append((r, "A", "table:length"))
    r = first(lambda r: r["k"] == "prp" and r["out"] == "raised"); r["out"] = "ok"; out.append((r, "A", "prp:contract"))
    r = first(lambda r: r["k"] == "prp" and r["out"] == "ok"); r["y"] = r["y"][1:]; out.append((r, "A", "prp:length"))
    r = first(lambda r: r["k"] == "lr" and r["out"] == "raised"); r["out"] = "ok"; out.append((r, "A", "lr:contract"))
    r = first(lambda r: r["k"] == "lr" and r["out"] == "ok"); r["y"] = r["y"] + [0]; out.append((r, "A", "lr:length"))
    lrrec = lambda r: r["k"] == "lr" and r["rec"] and r["out"] == "ok" and r["klen"] >= 24
    r = first(lrrec); r["prf"][1]["k"], r["prf"][2]["k"] = r["prf"][2]["k"], r["prf"][1]["k"]
    out.append((r, "B", "wiring:lr"))
    r = first(lrrec); r["y"] = r["y"][:-1] + [r["y"][-1] ^ 1]; out.append((r, "B", "wiring:lr"))
    r = first(lambda r: r["k"] == "inj" and r["unit"] == "byte"); r["rows"][3]["y"] = r["rows"][5]["y"]
    out.append((r, "A", "inj:injective"))
    r = first(lambda r: r["k"] == "inj" and r["unit"] == "bit"); r["rows"][0]["y"] = r["rows"][0]["y"] + [1]
    out.append((r, "A", "inj:length"))
    r = first(lambda r: r["k"] == "round" and r["out"] == "ok" and r["w"] > 160); r["o"] = flip(r["o"])
    out.append((r, "B", "round:expansion"))
    return out


def check_planted(recs):
    try:
        pl = planted(recs)
    except (_NoBase, IndexError, KeyError):
        # the self-test needs well-behaved base records; when the code under test does not produce them the real
        # validation reports that - the self-test is skipped, it must not turn a violation into a machinery error
        print("note: trace-specification self-test skipped (no suitable base record in this run)")
        return -1
    for layer in ("A", "B"):
        sel = [(k, x) for k, x in enumerate(pl) if x[1] == layer]
        v, _ = validate([{"tid": "p%d" % k, "ev": [x[0]]} for k, x in sel], layer, "planted")
        for k, x in sel:
            got = v["p%d" % k]
            # the self-test is about vacuity: a record with a planted fault must not be ACCEPTED. Which clause rejects it
            # depends on the base record, which comes from the code under test (a broken tree may trip an earlier clause).
            if got["ok"]:
                raise MachineryError("trace specification self-test: planted fault %s (layer %s) was accepted" % (x[2], layer))
    return len(pl)


def has_wiring(rec):
    return rec["k"] == "round" or (rec["k"] in ("ffx", "prp", "lr") and rec.get("rec"))


def brief(case, rec):
    """a readable, bounded view of a case for messages / evidence"""
    def cut(v):
        if isinstance(v, list) and len(v) > 48:
            return v[:48] + ["...(%d)" % len(v)]
        return v
    c = {k: cut(v) for k, v in case.items()}
    r = {k: cut(v) for k, v in rec.items() if k in ("k", "n", "eo", "do", "y", "z", "out", "exc", "why", "mlen", "klen",
                                                    "kl", "R", "src", "inv", "full", "unit", "cls")}
    if "rows" in rec:
        r["rows"] = len(rec["rows"])
    return {"case": c, "observed": r}


def main(argv_tier=None, replay_path=None):
    t0 = time.time()
    tr = tier(argv_tier)
    env()
    # the trace-validation JVMs (one per shard) would each size their heap from the machine's RAM
    os.environ.setdefault("JAVA_TOOL_OPTIONS", "-Xmx3g")
    if replay_path:
        with open(replay_path) as fh:
            rp = json.load(fh)
        rec = run_case(rp["case"])
        va, _ = validate([{"tid": "replay", "ev": [rec]}], "A", "replay")
        vb, _ = validate([{"tid": "replay", "ev": [rec]}], "B", "replay")
        print(json.dumps(brief(rp["case"], rec), indent=1))
        print("layer A:", va["replay"], " layer B:", vb["replay"])
        return 0 if va["replay"]["ok"] else 1

    cases = gen_cases(tr)
    # heavy cases first so that the pool is balanced
    order = sorted(range(len(cases)), key=lambda i: -(2 ** cases[i]["n"] if cases[i]["k"] == "table" else
                                                      (len(cases[i].get("first", [])) * 256 if cases[i].get("xs") == "all2"
                                                       else len(cases[i].get("xs", [])) if cases[i]["k"] == "inj" else 1)))
    recs_o = pmap(run_case, [cases[i] for i in order], chunksize=1 if len(cases) < 4000 else 8)
    recs = [None] * len(cases)
    for i, r in zip(order, recs_o):
        recs[i] = r
    t_drive = time.time() - t0

    jobs, ths, res, errs = run_model(tr)            # TLC model instances run while the traces are validated

    traces = [{"tid": "c%d" % i, "ev": [r]} for i, r in enumerate(recs)]
    out = {}

    def tv(layer, sel):
        try:
            out[layer] = validate(sel, layer, tr)
        except Exception as ex:                     # noqa
            out[layer] = ex
    wired = [t for t in traces if has_wiring(t["ev"][0])]
    ta = threading.Thread(target=tv, args=("A", traces))
    tb = threading.Thread(target=tv, args=("B", wired))
    ta.start()
    tb.start()
    try:
        nplanted = check_planted(recs)
    finally:
        ta.join()
        tb.join()
    for t in ths:
        t.join()
    for layer in ("A", "B"):
        if isinstance(out[layer], Exception):
            raise out[layer] if isinstance(out[layer], MachineryError) else MachineryError(repr(out[layer]))
    (va, agg_a), (vb, agg_b) = out["A"], out["B"]
    summary, mstates, mtrans = judge_model(jobs, res, errs)

    rej, drift = [], []
    for i, t in enumerate(traces):
        v = va[t["tid"]]
        if not v["ok"]:
            if v["clause"].startswith("harness:"):
                raise MachineryError("case %d is outside the specification's domain (%s): %s"
                                     % (i, v["clause"], json.dumps(brief(cases[i], recs[i]))[:600]))
            rej.append({"key": v["clause"], "trace": t, "verdict": v, "i": i})
        elif t["tid"] in vb and not vb[t["tid"]]["ok"]:
            drift.append({"i": i, "clause": vb[t["tid"]]["clause"]})
    viol, seen = classify(PROP, rej)
    vio_out = []
    for x in viol[:20]:
        i = x["i"]
        p = write_replay(PROP, "%s-%d" % (x["verdict"]["clause"].replace(":", "_"), i),
                         {"case": cases[i], "observed": brief(cases[i], recs[i])["observed"], "verdict": x["verdict"],
                          "seed": seed(), "tier": tr})
        vio_out.append(("%s %s" % (x["verdict"]["clause"], json.dumps(brief(cases[i], recs[i]))[:300]), p))
    vio_out += [("", "")] * max(0, len(viol) - 20)

    drift_classes = {}
    for d in drift:
        drift_classes.setdefault(d["clause"], []).append(d["i"])
    for cl, idx in sorted(drift_classes.items()):
        print("DRIFT property=%s clause=%s cases=%d first=%s" % (PROP, cl, len(idx),
                                                               json.dumps(brief(cases[idx[0]], recs[idx[0]]))[:400]))

    # measured coverage
    kinds = {}
    for r in recs:
        kinds[r["k"]] = kinds.get(r["k"], 0) + 1
    calls = 0
    for r in recs:
        if r["k"] in ("table", "inj"):
            calls += len(r["rows"]) * (2 if r.get("inv") else 1)
        elif r["k"] == "ffx":
            calls += 2
        else:
            calls += 1
    distinct = len({json.dumps(c, sort_keys=True) for c, r in zip(cases, recs)
                    if not (r["k"] in ("prp", "lr") and r["out"] != "ok")})
    refused = sum(1 for r in recs if r["k"] in ("prp", "lr") and r["out"] == "raised")
    widths = sorted({r["n"] for r in recs if r["k"] == "ffx"})
    tables = sorted({(r["n"], r["src"]) for r in recs if r["k"] == "table"})
    pick = [i for i, r in enumerate(recs) if (r["k"] == "ffx" and r["rec"] and r["n"] <= 7)][:1] + \
           [i for i, r in enumerate(recs) if r["k"] == "lr" and r["rec"] and r["mlen"] == 4][:1] + \
           [i for i, r in enumerate(recs) if r["k"] == "prp" and r["out"] == "raised"][:1] + \
           [i for i, r in enumerate(recs) if r["k"] == "table" and r["n"] == 3][:1]
    cov = {
        "states": mstates, "transitions": mtrans,
        "model_instances": summary,
        "traces_validated_against_impl": len(traces),
        "traces_validated_layer_b": len(wired),
        "planted_faults_rejected": nplanted,
        "trace_validation_states": agg_a["distinct"] + agg_b["distinct"],
        "evaluations": len(cases), "real_calls": calls, "distinct_nontrivial": distinct,
        "records_by_kind": kinds, "refusals_observed": refused,
        "ffx_widths": {"count": len(widths), "min": widths[0] if widths else 0, "max": widths[-1] if widths else 0},
        "complete_tables": ["n=%d via %s" % t for t in tables],
        "rule": "cases are generated from VERIF_SEED: BitwiseFFX encrypt+decrypt with recorded round() calls for every width "
                "2..40 and widths around multiples of 160/320 up to 2100; encrypt+decrypt without recording for random widths "
                "2..2100; the complete table for every n in 2..%d under several keys (BitwiseFFX with decrypt, BitwiseFPEPRP); "
                "BitwiseFPEPRP / LubyRackoffPRP / HmacLubyRackoffPRP calls with right and wrong key/message lengths; sampled "
                "message sets for 2..64-byte messages and %s 2-byte messages. distinct_nontrivial = distinct cases whose call "
                "was inside the declared domain (not a refusal)" % (9 if tr == "quick" else 12,
                                                                    "all 65536" if tr != "quick" else "a 4096-message slice of the"),
        "exhaustive": True,
        "drift": [{"clause": cl, "cases": len(idx), "first": brief(cases[idx[0]], recs[idx[0]])}
                  for cl, idx in sorted(drift_classes.items())],
        "samples": [{"case": cases[i], "record": (recs[i] if recs[i]["k"] != "table" else
                                                  dict(recs[i], rows=recs[i]["rows"]))} for i in pick],
        "model": "spec/prim/Feistel.tla via MC_Feistel; trace spec Trace_Feistel (Layer A = violation, Layer B = drift)",
        "drive_wall_s": round(t_drive, 1),
    }
    return finish(PROP, tr, t0, cov, [v for v in vio_out if v[1]], seen,
                  assumptions=["HMAC (hashlib/hmac) is trusted: the round function and the PRF are abstract, their graphs are read "
                               "from the recorded calls",
                               "round() and the PRF are observed through instance-attribute proxies (fpe.round, "
                               "LubyRackoffPRP.underlying_prf) and hmac through a module-attribute proxy; a rewrite that stops "
                               "calling them shows as Layer B drift, not as a violation",
                               "Bitset values are projected to bit lists of width max(length, bit length of the value)",
                               "the drawn round functions of the model (Mode sample/total/lr-draw) depend on TLC's -seed and "
                               "worker scheduling"])
