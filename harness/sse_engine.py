"""Execution engine for the scheme-level checks (C01, C02, C05, ...): runs the real
KeyGen / EDBSetup / TokenGen / Search of a scheme on a concrete database instantiated from an abstract
length profile, and records one JSON record per case for TLC (Trace_SSE / Trace_Shape).

Nothing here decides pass/fail: the record carries the observed outcome of setup, for every search the
positions of the returned identifiers in the expected posting list, and the projected shape of the index.
"""
import copy
import math
import random

import sse_common as sc


# ----------------------------------------------------------------------------- configuration grids
def grid(scheme, tier_="quick"):
    """Small configurations (overrides of the default) that put the block / level / capacity boundaries within reach
    of short lists.  Capacity parameters that depend on the database are fitted per case (fit())."""
    d = sc.default_config(scheme)

    def v(**kw):
        c = copy.deepcopy(d)
        c.update(kw)
        return c
    if scheme == "CJJ14.PiBas":
        g = [v(), v(param_lambda=16, prf_f_output_length=16, param_identifier_size=16), v(param_lambda=24, prf_f_output_length=24), v(param_identifier_size=3)]
    elif scheme == "CJJ14.PiPack":
        g = [v(param_B=2), v(param_B=1), v(param_B=3, param_identifier_size=4), v()]
    elif scheme == "CJJ14.PiPtr":
        g = [v(param_B=2, param_b=2), v(param_B=1, param_b=1), v(param_B=3, param_b=2, param_identifier_size=4), v()]
    elif scheme == "CJJ14.Pi2Lev":
        g = [v(param_B=2, param_b=2, param_B_prime=2, param_b_prime=2),
             v(param_B=2, param_b=2, param_B_prime=2, param_b_prime=2, param_identifier_size=2),
             # pointer width (B*id)//B' = 7 does not divide the block: B'*7 = 14 < B*id = 15 bytes (padding of pointer blocks matters)
             v(param_B=3, param_b=3, param_B_prime=2, param_b_prime=2, param_identifier_size=5),
             v(param_B=3, param_b=3, param_B_prime=3, param_b_prime=3, param_identifier_size=4),
             v(param_B=4, param_b=2, param_B_prime=4, param_b_prime=2, param_identifier_size=4),
             v()]
    elif scheme == "CGKO06.SSE1":
        # third entry: identifier + key + address = 7 + 24 + 1 = 32 bytes, a node that fills whole cipher blocks
        g = [v(param_s=16, param_dictionary_size=8), v(param_s=8, param_dictionary_size=4, param_identifier_size=4),
             v(param_s=64, param_dictionary_size=16, param_identifier_size=7),
             v(param_s=64, param_dictionary_size=16, param_k=16), v(param_s=32, param_dictionary_size=8, param_k=32, param_l=16)]
    elif scheme == "CGKO06.SSE2":
        g = [v(param_dictionary_size=16), v(param_dictionary_size=16, param_identifier_size=4, param_k=16), v(param_l=16, param_k=32)]
    elif scheme == "CT14.Pi":
        g = [v(), v(param_identifier_size=16, param_l=16), v(param_k=16, param_k_prime=16), v(param_identifier_size=8)]
    elif scheme == "ANSS16.Scheme3":
        g = [v(), v(param_identifier_size=8), v(param_identifier_size=16, param_l=16, param_l_prime=16)]
    elif scheme == "DP17.Pi":
        g = [v(), v(param_L=2, param_identifier_size=16), v(param_actual_storage_level_ratio=0.5), v(param_actual_storage_level_ratio=1, param_L=2),
             v(param_lambda=16, param_identifier_size=4), v(param_L=3, param_actual_storage_level_ratio=0.5)]
    else:
        raise ValueError(scheme)
    return g if tier_ == "thorough" else g[:4 if scheme == "CJJ14.Pi2Lev" else 3]


def fit(scheme, cfg, profile, db):
    """SSE-2's param_n is a property of the database (number of distinct files) and has to be supplied by the user."""
    cfg = copy.deepcopy(cfg)
    if scheme == "CGKO06.SSE2":
        cfg["param_n"] = max(2, sc.distinct_files(db))
    return cfg


def numbers(scheme, cfg):
    """The numeric configuration record handed to the TLA+ modules (Layouts / SSEFunctional)."""
    ml = sc.load(scheme)
    co = ml.SSEConfig(cfg)
    c = {"id": int(cfg.get("param_identifier_size", 0))}

    def g(name, default=0):
        x = getattr(co, name, default)
        return int(x) if isinstance(x, (int, bool)) else default
    if scheme.startswith("CJJ14"):
        c.update(fout=g("prf_f_output_length"), B=g("param_B", 1), b=g("param_b", 1), Bp=g("param_B_prime", 1), bp=g("param_b_prime", 1),
                 idxw=g("param_index_size_of_A", 0))
    elif scheme == "CGKO06.SSE1":
        c.update(s=g("param_s"), log2s=g("param_log2_s"), log2sb=g("param_log2_s_bytes"), dsize=g("param_dictionary_size"),
                 k=g("param_k"), l=g("param_l"))
    elif scheme == "CGKO06.SSE2":
        c.update(k=g("param_k"), l=g("param_l"), n=g("param_n"))
    elif scheme == "CT14.Pi":
        c.update(k=g("param_k"), kp=g("param_k_prime"), l=g("param_l"))
    elif scheme == "ANSS16.Scheme3":
        c.update(k=g("param_k"), kp=g("param_k_prime"), l=g("param_l"), lp=g("param_l_prime"), lam=g("param_lambda"))
    elif scheme == "DP17.Pi":
        ratio = cfg["param_actual_storage_level_ratio"]
        c.update(L=g("param_L", 1), lam=g("param_lambda"), hlen=g("param_hash_h_digest_size"), clen=g("param_identifier_cipher_len"),
                 stab=[max(1, math.ceil(l * ratio)) for l in range(0, 31)])
    return c


# ----------------------------------------------------------------------------- projection of the index shape
def _lens(items):
    cnt = {}
    for x in items:
        if x is None:
            k = -1
        elif isinstance(x, (bytes, bytearray)):
            k = len(x)
        elif isinstance(x, int):
            k = -2
        else:
            k = -3
        cnt[k] = cnt.get(k, 0) + 1
    return [[k, cnt[k]] for k in sorted(cnt)]


def _table(name, obj):
    if isinstance(obj, dict):
        return {"name": name, "n": len(obj), "k": _lens(obj.keys()), "v": _lens(obj.values())}
    return {"name": name, "n": len(obj), "k": [], "v": _lens(obj)}


def shape_of(scheme, edb):
    """Per container: entry count and the (byte length, count) pairs of keys and values. Names as in Layouts.tla."""
    if scheme in ("CJJ14.PiBas", "CJJ14.PiPack"):
        return [_table("D", edb.D)]
    if scheme in ("CJJ14.PiPtr", "CJJ14.Pi2Lev"):
        return [_table("A", edb.A), _table("D", edb.D)]
    if scheme == "CGKO06.SSE1":
        return [_table("A", edb.A), _table("T", edb.T)]
    if scheme == "CGKO06.SSE2":
        return [_table("I", edb.I)]
    if scheme == "CT14.Pi":
        return [_table("HT%d" % i, h) for i, h in enumerate(edb.HT_list)]
    if scheme == "ANSS16.Scheme3":
        return [_table("HT_S", edb.HT_S)] + [_table("HT%d" % i, h) for i, h in enumerate(edb.HT_L_list)]
    if scheme == "DP17.Pi":
        return [_table("A%d" % i, edb.A_dict[i]) for i in sorted(edb.A_dict)] + [_table("HT", edb.HT)]
    raise ValueError(scheme)


# ----------------------------------------------------------------------------- absent keywords
def absent_keywords(db, rnd, scheme, cfg):
    """(class, keyword) pairs: random, and adversarially close to stored keywords; never a stored keyword."""
    kws = list(db)
    w = kws[rnd.randrange(len(kws))]
    maxlen = cfg.get("param_l", 64)
    cands = [("random", sc.rand_kw(rnd, 8)),
             ("prefix", w[:-1]), ("suffix", w[1:]), ("extended", w + b"\x01"), ("extended0", w + b"\x00"),
             ("flip", w[:-1] + bytes([w[-1] ^ 1])), ("double", (w + w)[:maxlen])]
    # arithmetic neighbours (schemes that turn the keyword into an integer and pack it next to a counter): the keyword read as
    # a big-endian integer plus / minus a small number, for the keyword above and for the one with the longest posting list
    def shift(x, d):
        v = int.from_bytes(x, "big") + d
        if v <= 0 or v >= 256 ** len(x):
            return b""
        return v.to_bytes(len(x), "big")
    wl = max(kws, key=lambda k: (len(db[k]), k))
    for tag, base in (("", w), ("-longest", wl)):
        for d in (1, 2, 3, -1, 256, -256):
            cands.append(("arith%+d%s" % (d, tag), shift(base, d)))
    cands += [("prefix-longest", wl[:-1]), ("extended0-longest", wl + b"\x00"), ("flip-longest", wl[:-1] + bytes([wl[-1] ^ 1]))]
    out = []
    seen = set()
    for cls, k in cands:
        if k and k[0] != 0 and k not in db and len(k) <= maxlen and k not in seen:
            seen.add(k)
            out.append((cls, k))
    return out


# ----------------------------------------------------------------------------- one case
def run_case(scheme, cfg, profile, seed_, present=True, absent=False, want_shape=True, max_search=6, shared_ids=False, shaped=True,
             two_indexes=True):
    rnd = random.Random(seed_)
    idsz = sc.id_size_of(cfg)
    kwlen = None
    if "param_l" in cfg and scheme.startswith("CGKO06"):
        kwlen = rnd.randint(1, min(cfg["param_l"], 10))
    # keyword-length limit: param_l where the scheme has one (SSE-1, SSE-2); the other schemes take any length
    kwmax = cfg["param_l"] if ("param_l" in cfg and scheme.startswith("CGKO06")) else 40
    db = sc.make_db(profile, idsz, rnd, kw_len=kwlen, shared_ids=shared_ids, kw_maxlen=kwmax if shaped else None, shaped_ids=shaped)
    cfg = fit(scheme, cfg, profile, db)
    rec = {"scheme": scheme, "p": list(profile), "cfg": {k: v for k, v in cfg.items()}, "seed": seed_,
           "setup": "raised", "err": "", "shape": [], "searches": []}
    try:
        rec["c"] = numbers(scheme, cfg)
    except Exception as ex:
        rec["c"] = {}
        rec["setup"] = "config-raised"
        rec["err"] = type(ex).__name__ + ": " + str(ex)[:100]
        return rec
    ml = sc.load(scheme)
    try:
        sch = ml.SSEScheme(cfg)
        key = sch.KeyGen()
        edb = sch.EDBSetup(key, db)
        rec["setup"] = "built"
    except Exception as ex:
        rec["err"] = type(ex).__name__ + ": " + str(ex)[:100]
        return rec
    if want_shape:
        try:
            rec["shape"] = shape_of(scheme, edb)
        except Exception as ex:
            rec["shape"] = [{"name": "unprojectable", "n": 0, "k": [], "v": []}]
    kws = list(db)
    todo = []
    if present:
        idx = list(range(len(kws)))
        if len(idx) > max_search:
            idx = sorted(rnd.sample(idx, max_search))
        todo += [(i + 1, "present", kws[i]) for i in idx]
    if absent:
        todo += [(0, cls, k) for cls, k in absent_keywords(db, rnd, scheme, cfg)]
    runs = [(edb, db, key, "")]
    if present and two_indexes and seed_ % 4 == 0:
        # the same scheme object serves a SECOND index (same keywords, other identifiers), under the same key or (every other
        # time) under a second key generated by the same object; it is searched too and the first one again afterwards: an
        # answer must come from the index it was asked of, with the token of the key it was built under
        db2 = {}
        for kw in db:
            ids, seen = [], set(db[kw])
            while len(ids) < len(db[kw]):
                x = sc.rand_id(idsz, rnd, shaped)
                if x not in seen:
                    seen.add(x)
                    ids.append(x)
            db2[kw] = ids
        try:
            key2 = sch.KeyGen() if seed_ % 8 == 4 else key
            edb2 = sch.EDBSetup(key2, db2)
            tag2 = ":second-key" if key2 is not key else ""
            runs = [(edb, db, key, ""), (edb2, db2, key2, ":second-index" + tag2), (edb, db, key, ":first-index-again" + tag2)]
        except Exception as ex:
            rec["setup"] = "raised"
            rec["err"] = "second setup: " + type(ex).__name__ + ": " + str(ex)[:100]
            return rec
    for edb_, db_, key_, tag in runs:
      for kwi, cls, kw in todo:
        s = {"kw": kwi, "cls": cls + tag, "out": "raised", "pos": [], "err": ""}
        try:
            tok = sch.TokenGen(key_, kw)
            res = sch.Search(edb_, tok).get_result_list()
            exp = db_[kw] if kwi else []
            s["out"] = "result"
            s["pos"] = sc.result_positions(sc.ordered(res, exp), exp)
        except Exception as ex:
            s["err"] = type(ex).__name__ + ": " + str(ex)[:100]
        rec["searches"].append(s)
    return rec


# ----------------------------------------------------------------------------- TLC side
def tla_literal(x):
    if isinstance(x, bool):
        return "TRUE" if x else "FALSE"
    if isinstance(x, int):
        return str(x)
    if isinstance(x, str):
        return '"%s"' % x
    if isinstance(x, (list, tuple)):
        return "<<" + ", ".join(tla_literal(y) for y in x) + ">>"
    if isinstance(x, dict):
        return "[" + ", ".join("%s |-> %s" % (k, tla_literal(v)) for k, v in sorted(x.items())) + "]"
    raise TypeError(x)


BOUNDS = {  # scheme -> (MaxKw, MaxN) quick, thorough
    "CJJ14.PiBas": ((3, 8), (4, 12)), "CJJ14.PiPack": ((3, 9), (4, 14)), "CJJ14.PiPtr": ((3, 10), (4, 14)),
    "CJJ14.Pi2Lev": ((3, 10), (4, 16)), "CGKO06.SSE1": ((3, 9), (4, 16)), "CGKO06.SSE2": ((3, 8), (4, 12)),
    "CT14.Pi": ((4, 17), (5, 20)), "ANSS16.Scheme3": ((4, 17), (5, 20)), "DP17.Pi": ((4, 12), (5, 18)),
}


def model_profiles(scheme, cfg, tier_, extra_inv=True):
    """Run MC_Profiles for (scheme, cfg). -> (list of dict(p, valid, outcome, pis), TLCResult)"""
    from common import run_tlc, parse_printed, tla_value
    probe_db = {b"k": [b"\x01" * sc.id_size_of(cfg)]}
    c = numbers(scheme, fit(scheme, cfg, [1], probe_db))
    maxkw, maxn = BOUNDS[scheme][1 if tier_ == "thorough" else 0]
    wrapper = ("---- MODULE MCP ----\nEXTENDS MC_Profiles\nCfgDef == %s\n====\n" % tla_literal(c))
    cfgtxt = ('CONSTANTS Scheme = "%s"\nCfg <- CfgDef\nMaxKw = %d\nMaxN = %d\nSPECIFICATION Spec\nINVARIANT Emit\n'
              'INVARIANT NoRaiseOnValid\n%sCHECK_DEADLOCK FALSE\n'
              % (scheme, maxkw, maxn, "INVARIANT ShapeFunctionOfPi\nINVARIANT UniformTables\n" if extra_inv else ""))
    r = run_tlc("MCP", cfgtxt, workers=4, extra_modules={"MCP": wrapper}, name="prof", heap="2g")
    out = []
    for raw in parse_printed(r.out, "H"):
        v = tla_value(raw)
        out.append({"p": v[1], "valid": v[2], "outcome": v[3], "pis": v[4]})
    return out, r, c


def boundary_families(tr):
    """(scheme, configuration, largest N) for which MC_Boundaries looks for layout thresholds (shared by C01 / C02 / C03)"""
    fams = [("CJJ14.PiPtr", dict(sc.default_config("CJJ14.PiPtr"), param_B=1, param_b=16), 300),
            ("CJJ14.Pi2Lev", dict(sc.default_config("CJJ14.Pi2Lev"), param_B=4, param_b=4, param_B_prime=4, param_b_prime=4), 80),
            ("ANSS16.Scheme3", sc.default_config("ANSS16.Scheme3"), 300 if tr == "quick" else 1100),
            ("CT14.Pi", sc.default_config("CT14.Pi"), 300 if tr == "quick" else 1100),
            ("DP17.Pi", sc.default_config("DP17.Pi"), 300),
            ("DP17.Pi", dict(sc.default_config("DP17.Pi"), param_L=2, param_actual_storage_level_ratio=0.5), 300),
            ("CGKO06.SSE1", dict(sc.default_config("CGKO06.SSE1"), param_s=512, param_dictionary_size=16), 300),
            ("CJJ14.PiBas", sc.default_config("CJJ14.PiBas"), 300),      # label counter passes 256
            ("CJJ14.PiPack", dict(sc.default_config("CJJ14.PiPack"), param_B=1), 300)]
    return fams


def model_boundaries(scheme, cfg, maxn=600):
    """Run MC_Boundaries for (scheme, cfg): -> list of profiles on either side of every layout threshold up to maxn."""
    from common import run_tlc, parse_printed, tla_value
    probe_db = {b"k": [b"\x01" * sc.id_size_of(cfg)]}
    c = numbers(scheme, fit(scheme, cfg, [1], probe_db))
    wrapper = ("---- MODULE MCB ----\nEXTENDS MC_Boundaries\nCfgDef == %s\n====\n" % tla_literal(c))
    cfgtxt = ('CONSTANTS Scheme = "%s"\nCfg <- CfgDef\nMaxN = %d\nSPECIFICATION Spec\nINVARIANT Emit\nCHECK_DEADLOCK FALSE\n' % (scheme, maxn))
    r = run_tlc("MCB", cfgtxt, workers=8, extra_modules={"MCB": wrapper}, name="bound", heap="2g")
    out = []
    for raw in parse_printed(r.out, "H"):
        v = tla_value(raw)
        if v[3]:
            out.append(list(v[1]))
        if v[4]:                 # the far side of a validity threshold is not a valid database: not replayed
            out.append(list(v[2]))
    uniq = []
    for p in out:
        if p not in uniq:
            uniq.append(p)
    return uniq, r
