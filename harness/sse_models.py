"""Layer B state-machine models of the scheme family (padding / placement nondeterminism), run by C01 and C05."""
import math

from common import MachineryError, run_tlc
import sse_engine as se


def levels_runs(tr):
    runs, tot = [], {"distinct": 0, "generated": 0}
    maxkw, maxn = (4, 17) if tr == "quick" else (5, 20)
    for scheme in ("CT14", "ANSS16"):
        cfg = ("CONSTANTS MaxKw = %d\nMaxN = %d\nScheme = \"%s\"\nFixed = TRUE\nSPECIFICATION Spec\nINVARIANT NoRaiseOnValid\n"
               "INVARIANT LevelFits\nINVARIANT AllStored\nCHECK_DEADLOCK FALSE\n" % (maxkw, maxn, scheme))
        r = run_tlc("Levels", cfg, coverage=True, heap="2g", name="levels")
        if r.coverage.get("Pad", 0) == 0 or r.coverage.get("Build", 0) == 0:
            raise MachineryError("Levels(%s): Pad/Build never taken" % scheme)
        runs.append({"module": "Levels", "scheme": scheme, "fixed": True, "max_kw": maxkw, "max_n": maxn, "distinct": r.distinct,
                     "generated": r.generated, "invariants": ["NoRaiseOnValid", "LevelFits", "AllStored"]})
        tot["distinct"] += r.distinct
        tot["generated"] += r.generated
        # sensitivity: the pre-fix layouts must violate
        for inv in (("NoRaiseOnValid",) if scheme == "CT14" else ("NoRaiseOnValid", "LevelFits")):
            cfg0 = ("CONSTANTS MaxKw = 3\nMaxN = 16\nScheme = \"%s\"\nFixed = FALSE\nSPECIFICATION Spec\nINVARIANT %s\nCHECK_DEADLOCK FALSE\n"
                    % (scheme, inv))
            r0 = run_tlc("Levels", cfg0, allow_violation=True, heap="2g", name="levels0")
            if r0.violated != inv:
                raise MachineryError("Levels(%s, Fixed=FALSE) no longer violates %s" % (scheme, inv))
            runs.append({"module": "Levels", "scheme": scheme, "fixed": False, "violates": inv, "as_expected": True})
    return runs, tot


def dpplace_runs(tr):
    runs, tot = [], {"distinct": 0, "generated": 0}
    insts = [(1, 0.2), (2, 0.2), (2, 0.5)] if tr == "quick" else [(1, 0.2), (2, 0.2), (1, 0.5), (2, 0.5), (3, 0.5), (2, 1)]
    maxkw, maxn = (3, 9) if tr == "quick" else (3, 11)
    for L, ratio in insts:
        stab = [max(1, math.ceil(l * ratio)) for l in range(0, 13)]
        wrapper = "---- MODULE MCDP ----\nEXTENDS DPPlace\nStabDef == %s\n====\n" % se.tla_literal(stab)
        cfg = ("CONSTANTS MaxKw = %d\nMaxN = %d\nL = %d\nStab <- StabDef\nSPECIFICATION Spec\nINVARIANT ChoiceNeverEmpty\n"
               "INVARIANT LocalityBound\nINVARIANT NoOverflow\nINVARIANT LevelsNonNegative\nCHECK_DEADLOCK FALSE\n" % (maxkw, maxn, L))
        r = run_tlc("MCDP", cfg, coverage=True, heap="2g", name="dpplace", extra_modules={"MCDP": wrapper})
        if r.coverage.get("Place", 0) == 0:
            raise MachineryError("DPPlace: Place never taken")
        runs.append({"module": "DPPlace", "L": L, "ratio": ratio, "max_kw": maxkw, "max_n": maxn, "distinct": r.distinct,
                     "generated": r.generated, "invariants": ["ChoiceNeverEmpty", "LocalityBound", "NoOverflow"]})
        tot["distinct"] += r.distinct
        tot["generated"] += r.generated
    return runs, tot
