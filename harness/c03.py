"""C03 — client/server split: search works from serialized key, token and index alone.

Layer A  spec/sse/Wire.tla: key, token, EDB, result are Live or Bytes; steps Setup, Ser, De, NewInstance (cfg' = JSON(cfg)),
         TokenGen, Search, Finish; invariants NoRaise, RoundTrip (De(Ser(x)) = x), Correct at the end of ANY pipeline.
Layer B  spec/sse/KeyTokenLayout.tla: per scheme the byte layout of key and token as the serializer writes it and as the
         fixed-offset parser reads it (widths as expressions of the length parameters), the member order of the pickled
         objects, and which configurations the scheme works with.
TLC      spec/sse/MC_Wire.tla: the whole numeric grid (every length parameter over {8,16,24,32}) x all 128 pipelines
         (2^4 crossing choices x who re-instantiates x present/absent keyword): writer = reader, and the three Layer A
         invariants in every state, with the outcome of every De computed by the layout model.  The finished pipelines are
         emitted as histories.  A second run with the transcription of the tree as shipped must find writer # reader
         (ANSS16 key: param_lambda vs param_k); those configurations are replayed on the real code like all others.
Bind     every emitted history is executed on the real objects for every scheme x configuration (sse_engine.grid() plus
         configurations whose independent length parameters differ from each other, plus configurations the model says
         are refused) x a few length profiles of MC_Profiles.  A side that re-instantiates gets ONLY json.dumps(cfg)
         text; what crosses the wire is bytes.  One extra pipeline per case runs the server in a separate process
         (cfg text + bytes on stdin).  Every execution is one trace, judged by TLC against Wire (Trace_Wire.tla).
"""
import json
import os
import random
import subprocess
import sys
import time

from common import (PY, REPO, VERIF, MachineryError, classify, finish, parse_printed, pmap, run_tlc, seed, tier,
                    tla_value, validate_traces, write_replay)
import fe_server as fs
import sse_common as sc
import sse_engine as se

PROP = "C03"
OBJ_CLASS = {"key": "SSEKey", "tok": "SSEToken", "edb": "SSEEncryptedDatabase", "res": "SSEResult"}
READER = {"key": "client", "res": "client", "tok": "server", "edb": "server"}
WIDTHS = {"quick": "{8, 16, 32}", "thorough": "{8, 16, 24, 32}"}       # the lengths every length parameter of the model grid ranges over


# ----------------------------------------------------------------------------- configurations
def extra_configs(scheme, tr):
    """(overrides of the default configuration, expectation) beyond sse_engine.grid(): independent length parameters
    that differ from each other, and a few configurations the scheme refuses (the layout model must say so)."""
    small = {"CJJ14.PiPack": dict(param_B=2), "CJJ14.PiPtr": dict(param_B=2, param_b=2),
             "CJJ14.Pi2Lev": dict(param_B=2, param_b=2, param_B_prime=2, param_b_prime=2),
             "CGKO06.SSE1": dict(param_s=16, param_dictionary_size=8), "CGKO06.SSE2": dict(param_dictionary_size=16)}.get(scheme, {})

    def v(**kw):
        return dict(small, **kw)
    if scheme.startswith("CJJ14"):
        g = [v(param_lambda=16, prf_f_output_length=16), v(param_lambda=24, prf_f_output_length=24),
             v(param_lambda=32, prf_f_output_length=16), v(param_lambda=8, prf_f_output_length=8)]       # the last two: refused
        if tr == "thorough":
            g += [v(param_lambda=16, prf_f_output_length=32), v(param_lambda=24, prf_f_output_length=16, param_identifier_size=4)]
    elif scheme == "CGKO06.SSE1":
        g = [v(param_k=16, param_l=8), v(param_k=32, param_l=24, param_s=512), v(param_k=24, param_l=16, param_identifier_size=3),
             v(param_k=8)]
        if tr == "thorough":
            g += [v(param_k=24, param_s=2 ** 17, param_dictionary_size=16), v(param_k=16, param_l=32, param_s=256), v(param_k=32, param_l=8)]
    elif scheme == "CGKO06.SSE2":
        g = [v(param_k=32, param_l=8), v(param_k=16, param_l=24), v(param_k=8)]
        if tr == "thorough":
            g += [v(param_k=24, param_l=16, param_identifier_size=3)]
    elif scheme == "CT14.Pi":
        g = [v(param_k=16, param_k_prime=32), v(param_k=32, param_k_prime=16, param_l=8), v(param_k=8, param_k_prime=24, param_l=16),
             v(param_k=24, param_k_prime=8)]
        if tr == "thorough":
            g += [v(param_k=24, param_k_prime=16, param_l=24), v(param_k=16, param_k_prime=24, param_l=32, param_identifier_size=8),
                  v(param_k=8, param_k_prime=32, param_l=8)]
    elif scheme == "ANSS16.Scheme3":
        g = [v(param_lambda=16, param_k=32, param_k_prime=32), v(param_lambda=32, param_k=16, param_k_prime=16),
             v(param_lambda=24, param_k=24, param_k_prime=24, param_l=8, param_l_prime=16),
             v(param_lambda=32, param_k=32, param_k_prime=32, param_l=16, param_l_prime=24),
             v(param_lambda=32, param_k=16, param_k_prime=32), v(param_lambda=32, param_k=8, param_k_prime=8)]
        if tr == "thorough":
            g += [v(param_lambda=8, param_k=16, param_k_prime=16, param_l=24, param_l_prime=8),
                  v(param_lambda=24, param_k=32, param_k_prime=32, param_l=8, param_l_prime=32, param_identifier_size=8),
                  v(param_lambda=16, param_k=24, param_k_prime=24, param_l=16, param_l_prime=16)]
    elif scheme == "DP17.Pi":
        g = [v(param_lambda=16), v(param_lambda=24, param_L=2), v(param_lambda=8)]
        if tr == "thorough":
            g += [v(param_lambda=16, param_actual_storage_level_ratio=0.5, param_identifier_size=4)]
    else:
        raise ValueError(scheme)
    d = sc.default_config(scheme)
    return [dict(d, **x) for x in g]


def kc_of(scheme, cfg):
    """The length parameters handed to KeyTokenLayout: the values the user supplied, plus SSE-1's derived address width."""
    def g(n):
        x = cfg.get(n, 0)
        return int(x) if isinstance(x, int) and not isinstance(x, bool) else 0
    kc = {"lam": g("param_lambda"), "k": g("param_k"), "kp": g("param_k_prime"), "l": g("param_l"), "lp": g("param_l_prime"),
          "fout": g("prf_f_output_length"), "asz": 0}
    if scheme == "CGKO06.SSE1":
        try:
            kc["asz"] = int(sc.load(scheme).SSEConfig(cfg).param_log2_s_bytes)
        except Exception:
            kc["asz"] = 0
    return kc


def cfg_from_kc(scheme, kc):
    """A configuration of the real scheme for a point of the model's grid (used for the mismatches TLC reports)."""
    names = {"lam": "param_lambda", "k": "param_k", "kp": "param_k_prime", "l": "param_l", "lp": "param_l_prime", "fout": "prf_f_output_length"}
    base = extra_configs(scheme, "quick")[0]
    for a, n in names.items():
        if n in base and kc.get(a):
            base[n] = kc[a]
    if scheme == "CGKO06.SSE1" and kc.get("asz"):
        base["param_s"] = {1: 16, 2: 512, 3: 2 ** 17}[kc["asz"]]          # address width 1, 2, 3 bytes
    return base


# ----------------------------------------------------------------------------- observations
def layout_of(x):
    """<<slot, width>> of the fields of a scheme object (width of a field that is not a byte string: -1)."""
    slots = getattr(type(x), "__slots__", None)
    if not slots or not hasattr(x, "serialize"):
        return [["?" + type(x).__name__, -2]]
    out = []
    for f in slots:
        try:
            v = getattr(x, f)
        except AttributeError:
            out.append([f, -3])
            continue
        out.append([f, len(v) if isinstance(v, (bytes, bytearray)) else -1])
    return out


def state_names(x):
    """the public fields of a scheme object: its slots (whole class hierarchy) and instance dictionary, without private
    names (caches and the like) and without the configuration it was built for"""
    names = []
    for cls in type(x).__mro__:
        sl = getattr(cls, "__slots__", ())
        names += [sl] if isinstance(sl, str) else list(sl)
    names += list(getattr(x, "__dict__", {}))
    return [n for n in dict.fromkeys(names) if not n.startswith("_") and n != "config"]


def fields_equal(a, b):
    """a: the copy, b: the original: every public field the original has is there and equal (guards against an __eq__
    that looks at less than the object holds)"""
    if type(a) is not type(b):
        return False
    try:
        for f in state_names(b):
            if not hasattr(b, f):
                continue                 # a declared slot that is not set on the original
            if not hasattr(a, f) or not (getattr(a, f) == getattr(b, f)):
                return False
        return True
    except Exception:
        return False


def has_set(x):
    try:
        return any(isinstance(getattr(x, f, None), (set, frozenset)) for f in state_names(x))
    except Exception:
        return False


def equality_bits(x2, x, b):
    """deserialize(serialize(x)) == x three ways: the objects' __eq__ (both directions), slot by slot, and byte equality of
    the re-serialization (not defined for a set-valued result, whose pickle depends on the iteration order)."""
    try:
        eq = ((x2 == x) is True) and ((x == x2) is True)
    except Exception:
        eq = False
    feq = fields_equal(x2, x)
    try:
        beq = True if has_set(x) and eq and feq else (x2.serialize() == b)
    except Exception:
        beq = False
    return eq, feq, beq


def positions(res, exp):
    return sc.result_positions(sc.ordered(res.get_result_list(), exp), exp)


def err(ex):
    return type(ex).__name__ + ": " + str(ex)[:80]


# ----------------------------------------------------------------------------- the two sides
class Inst:
    """a scheme instance with the configuration object its (de)serializers are given, as frontend/*/services/service.py holds them"""

    def __init__(self, ml, sch, co):
        self.ml, self.sch, self.co = ml, sch, co


def instance_from_dict(scheme, cfg):
    ml = sc.load(scheme)
    return Inst(ml, ml.SSEScheme(cfg), ml.SSEConfig(cfg))


def instance_from_json(text):
    """ALL a re-instantiating side gets: the JSON text of the configuration (the scheme is located by its name in it)."""
    import schemes
    d = json.loads(text)
    ml = schemes.load_sse_module(d["scheme"])
    return Inst(ml, ml.SSEScheme(d), ml.SSEConfig.from_json(text))


class Case:
    """one (scheme, configuration, profile): database, key and index built once by the client's original instance"""

    def __init__(self, scheme, cfg, profile, seed_):
        self.scheme, self.profile, self.seed = scheme, list(profile), seed_
        rnd = random.Random(seed_)
        kwlen = None
        if "param_l" in cfg and scheme.startswith("CGKO06"):
            kwlen = rnd.randint(1, min(cfg["param_l"], 10))
        self.db = sc.make_db(profile, sc.id_size_of(cfg), rnd, kw_len=kwlen)
        self.cfg = se.fit(scheme, cfg, profile, self.db)
        self.text = json.dumps(self.cfg)
        self.kc = kc_of(scheme, self.cfg)
        kws = list(self.db)
        self.kwi = rnd.randrange(len(kws)) + 1
        self.present = kws[self.kwi - 1]
        self.absent = None
        for _cls, k in se.absent_keywords(self.db, rnd, scheme, self.cfg):
            self.absent = k
            break
        self.setup = {"op": "Setup", "scheme": scheme, "p": self.profile, "kc": self.kc, "hasc": False, "c": {"id": 0}, "out": "config-raised", "err": ""}
        self.orig = self.key = self.edb = None
        try:
            self.setup["c"] = se.numbers(scheme, self.cfg)
            self.setup["hasc"] = True
            self.orig = instance_from_dict(scheme, self.cfg)
            self.setup["out"] = "raised"
            self.key = self.orig.sch.KeyGen()
            self.edb = self.orig.sch.EDBSetup(self.key, self.db)
            self.setup["out"] = "built"
        except Exception as ex:
            self.setup["err"] = err(ex)

    # ---- one pipeline = one history emitted by MC_Wire
    def run(self, labels):
        ev = [dict(self.setup)]
        if self.setup["out"] != "built":
            return ev
        inst = {"client": self.orig, "server": self.orig}
        live = {"key": self.key, "edb": self.edb, "tok": None, "res": None}
        wire = {}
        exp = []
        for lab in labels[1:]:
            op, _, arg = lab.partition(":")
            e = {"op": op, "out": "ok"}
            try:
                if op == "Ser":
                    e.update(obj=arg, lay=layout_of(live[arg]))
                    wire[arg] = (live[arg], live[arg].serialize())
                    if not isinstance(wire[arg][1], (bytes, bytearray)):
                        raise TypeError("serialize() returned %s" % type(wire[arg][1]).__name__)
                    live[arg] = None
                elif op == "New":
                    e.update(op="New", side=arg, samecfg=(json.loads(self.text) == self.cfg))
                    inst[arg] = instance_from_json(self.text)
                elif op == "De":
                    e.update(obj=arg, eq=False, feq=False, beq=False, lay=[])
                    x, b = wire.pop(arg)
                    side = inst[READER[arg]]
                    x2 = getattr(side.ml, OBJ_CLASS[arg]).deserialize(bytes(b), side.co)
                    e["eq"], e["feq"], e["beq"] = equality_bits(x2, x, b)
                    e["lay"] = layout_of(x2)
                    live[arg] = x2
                elif op == "TokenGen":
                    kwi = self.kwi if arg == "1" else 0
                    e["kw"] = kwi
                    exp = self.db[self.present] if kwi else []
                    live["tok"] = inst["client"].sch.TokenGen(live["key"], self.present if kwi else self.absent)
                elif op == "Search":
                    e["pos"] = []
                    live["res"] = inst["server"].sch.Search(live["edb"], live["tok"])
                    e["pos"] = positions(live["res"], exp)
                elif op == "Finish":
                    e["pos"] = []
                    e["pos"] = positions(live["res"], exp)
                else:
                    raise MachineryError("unknown step %s" % lab)
            except MachineryError:
                raise
            except Exception as ex:
                e["out"] = "raised"
                e["err"] = err(ex)
                ev.append(e)
                return ev
            ev.append(e)
        return ev

    # ---- the same full pipeline with the server in another process
    def run_remote(self):
        evs = {1: [dict(self.setup)], 0: [dict(self.setup)]}
        if self.setup["out"] != "built":
            return []
        toks = {}
        client = None
        for kwf in (1, 0):
            ev = evs[kwf]
            try:
                stage = {"op": "Ser", "obj": "key", "out": "ok", "lay": layout_of(self.key)}
                kb = self.key.serialize()
                ev.append(stage)
                stage = {"op": "New", "side": "client", "out": "ok", "samecfg": json.loads(self.text) == self.cfg}
                client = instance_from_json(self.text)
                ev.append(stage)
                stage = {"op": "De", "obj": "key", "out": "ok", "eq": False, "feq": False, "beq": False, "lay": []}
                k2 = client.ml.SSEKey.deserialize(kb, client.co)
                stage["eq"], stage["feq"], stage["beq"] = equality_bits(k2, self.key, kb)
                stage["lay"] = layout_of(k2)
                ev.append(stage)
                stage = {"op": "TokenGen", "kw": self.kwi if kwf else 0, "out": "ok"}
                tok = client.sch.TokenGen(k2, self.present if kwf else self.absent)
                ev.append(stage)
                stage = {"op": "Ser", "obj": "tok", "out": "ok", "lay": layout_of(tok)}
                toks[kwf] = tok.serialize()
                ev.append(stage)
            except Exception as ex:
                stage["out"] = "raised"
                stage["err"] = err(ex)
                ev.append(stage)
        if not toks:
            return [evs[1], evs[0]]
        try:
            edb_ev = {"op": "Ser", "obj": "edb", "out": "ok", "lay": layout_of(self.edb)}
            eb = self.edb.serialize()
        except Exception as ex:
            edb_ev.update(out="raised", err=err(ex))
            for kwf in toks:
                evs[kwf].append(edb_ev)
            return [evs[1], evs[0]]
        job = {"repo": REPO, "cfg": self.text, "edb": eb.hex(), "toks": {str(k): t.hex() for k, t in toks.items()}}
        p = subprocess.run([PY, "-B", os.path.abspath(__file__), "--server"], input=json.dumps(job), stdout=subprocess.PIPE,
                           stderr=subprocess.PIPE, text=True, timeout=300, env=dict(os.environ, PYTHONHASHSEED="0"))
        if p.returncode != 0:
            raise MachineryError("server process failed: %s" % p.stderr[-400:])
        ans = json.loads(p.stdout.strip().splitlines()[-1])
        for kwf in toks:
            ev = evs[kwf]
            ev.append(edb_ev)
            a = ans[str(kwf)]
            ev.extend(a["ev"])
            if a["ev"][-1]["out"] != "ok":
                continue
            exp = self.db[self.present] if kwf else []
            try:
                stage = {"op": "De", "obj": "res", "out": "ok", "eq": False, "feq": False, "beq": False, "lay": []}
                rb = bytes.fromhex(a["res"])
                r2 = client.ml.SSEResult.deserialize(rb, client.co)
                r3 = client.ml.SSEResult.deserialize(r2.serialize(), client.co)     # the original lives in the other process
                stage["eq"], stage["feq"], stage["beq"] = equality_bits(r3, r2, rb)
                stage["lay"] = layout_of(r2)
                ev.append(stage)
                # what the server saw, in the client's terms (the server has no database to compare with)
                srv = [x for x in ev if x["op"] == "Search"][0]
                srv["pos"] = positions(r2, exp)
                stage = {"op": "Finish", "out": "ok", "pos": []}
                stage["pos"] = positions(r2, exp)
                ev.append(stage)
            except Exception as ex:
                stage["out"] = "raised"
                stage["err"] = err(ex)
                ev.append(stage)
        return [evs[1], evs[0]]

    # ---- Layer B probes: what the readers do with bytes that are not theirs
    def run_foreign(self):
        ev = [dict(self.setup)]
        if self.setup["out"] != "built":
            return ev
        try:
            tok = self.orig.sch.TokenGen(self.key, self.present)
            probes = [("edb", bytes([self.edb.serialize()[0] ^ 0xFF]) + self.edb.serialize()[1:]),
                      ("key", self.key.serialize() + b"\x00"), ("tok", tok.serialize() + b"\x00")]
        except Exception:
            return None          # no bytes to tamper with: the pipelines report that failure, there is no foreign-bytes probe
        for o, b in probes:
            e = {"op": "Foreign", "obj": o, "out": "accepted"}
            try:
                getattr(self.orig.ml, OBJ_CLASS[o]).deserialize(b, self.orig.co)
            except Exception as ex:
                e["out"] = "raised"
                e["err"] = err(ex)
            ev.append(e)
        return ev


# ----------------------------------------------------------------------------- the server process
def _equal_again(cls, x2, b, co):
    """in the server process the original object does not exist: compare with a second deserialization of the re-serialization"""
    x3 = cls.deserialize(x2.serialize(), co)
    return equality_bits(x3, x2, b)


def server_main():
    job = json.loads(sys.stdin.read())
    fs.setup_env(job["repo"])
    out = {}
    text = job["cfg"]
    eb = bytes.fromhex(job["edb"])
    for kwf, th in job["toks"].items():
        ev, res = [], ""
        e = {"op": "New", "side": "server", "out": "ok", "samecfg": True}       # the server has nothing to compare the text with
        try:
            import schemes
            d = json.loads(text)
            ml = schemes.load_sse_module(d["scheme"])
            sch, co = ml.SSEScheme(d), ml.SSEConfig(d)                 # as frontend/server/services/service.py does
            ev.append(e)
            tb = bytes.fromhex(th)
            e = {"op": "De", "obj": "tok", "out": "ok", "eq": False, "feq": False, "beq": False, "lay": []}
            tok = ml.SSEToken.deserialize(tb, co)
            e["eq"], e["feq"], e["beq"] = _equal_again(ml.SSEToken, tok, tb, co)
            e["lay"] = layout_of(tok)
            ev.append(e)
            e = {"op": "De", "obj": "edb", "out": "ok", "eq": False, "feq": False, "beq": False, "lay": []}
            edb = ml.SSEEncryptedDatabase.deserialize(eb, co)
            e["eq"], e["feq"], e["beq"] = _equal_again(ml.SSEEncryptedDatabase, edb, eb, co)
            e["lay"] = layout_of(edb)
            ev.append(e)
            e = {"op": "Search", "out": "ok", "pos": []}
            r = sch.Search(edb, tok)
            ev.append(e)
            e = {"op": "Ser", "obj": "res", "out": "ok", "lay": layout_of(r)}
            res = r.serialize().hex()
            ev.append(e)
        except Exception as ex:
            e["out"] = "raised"
            e["err"] = err(ex)
            ev.append(e)
        out[kwf] = {"ev": ev, "res": res}
    sys.stdout.write("\n" + json.dumps(out) + "\n")
    sys.stdout.flush()


# ----------------------------------------------------------------------------- model
def model(tr):
    """-> (histories: list of label lists, mismatches of the as-shipped transcription, coverage dict)"""
    head = 'CONSTANTS Widths = %s\nTree = "%s"\nPipelines = %s\nSPECIFICATION MCSpec\n'
    invs = ("INVARIANT LayoutAgrees\nINVARIANT Mismatch\nINVARIANT InvNoRaise\nINVARIANT InvRoundTrip\nINVARIANT InvCorrect\n"
            "INVARIANT Completes\nINVARIANT Emit\nCHECK_DEADLOCK FALSE\n")
    r = run_tlc("MC_Wire", head % (WIDTHS[tr], "fixed", "TRUE") + invs, workers=8, heap="2g", name="wire")
    per = {}
    for raw in parse_printed(r.out, "H"):
        v = tla_value(raw)
        per.setdefault(v[1], set()).add(tuple(v[2]))
    for s in sc.SCHEMES:
        if len(per.get(s, ())) != 128:
            raise MachineryError("MC_Wire emitted %d pipelines for %s, expected 128" % (len(per.get(s, ())), s))
    hs = per[sc.SCHEMES[0]]
    if any(per[s] != hs for s in sc.SCHEMES):
        raise MachineryError("MC_Wire: the pipelines differ between schemes")
    # vacuity guard: every kind of step occurs in finished pipelines (a history is only emitted in a state with pc = "done")
    labels = sorted({x for h in hs for x in h})
    counts = {}
    for s in sc.SCHEMES:
        for h in per[s]:
            for x in h:
                counts[x.split(":")[0]] = counts.get(x.split(":")[0], 0) + 1
    for act in ("Setup", "New", "Ser", "De", "TokenGen", "Search", "Finish"):
        if not counts.get(act):
            raise MachineryError("MC_Wire: step %s never taken in a finished pipeline" % act)
    if len(labels) != 15:
        raise MachineryError("MC_Wire: expected 15 step labels, got %s" % labels)
    # the transcription of the tree as shipped: TLC must find writer # reader (the comparison is not vacuous)
    r2 = run_tlc("MC_Wire", head % (WIDTHS["thorough"], "shipped", "FALSE") + "INVARIANT Mismatch\nINVARIANT GridPoint\nCHECK_DEADLOCK FALSE\n",
                 workers=4, heap="2g", name="wire-shipped")
    mism, points = [], []
    for raw in parse_printed(r2.out, "M"):
        v = tla_value(raw)
        mism.append({"scheme": v[1], "kc": v[2], "outcome": v[3]})
    for raw in parse_printed(r2.out, "G"):
        v = tla_value(raw)
        points.append({"scheme": v[1], "kc": v[2], "refuses": v[3]})
    if len(points) != r2.distinct:
        raise MachineryError("MC_Wire printed %d grid points for %s states" % (len(points), r2.distinct))
    if not mism:
        raise MachineryError("the as-shipped layout transcription shows no writer/reader mismatch: the comparison is vacuous")
    cov = {"states": (r.distinct or 0) + (r2.distinct or 0), "transitions": (r.generated or 0) + (r2.generated or 0),
           "model": {"MC_Wire": {"distinct": r.distinct, "generated": r.generated, "depth": r.depth, "widths": WIDTHS[tr], "pipelines": len(hs),
                                 "steps_in_emitted_histories": counts,
                                 "step_labels": labels},
                     "MC_Wire_shipped": {"grid_points": r2.distinct, "writer_reader_mismatches": len(mism),
                                         "schemes": sorted({m["scheme"] for m in mism})}}}
    return sorted(hs), mism, points, cov


def profile_key(scheme, c):
    if scheme == "CGKO06.SSE1":
        return (scheme, c.get("s"), c.get("dsize"))
    if scheme == "CJJ14.Pi2Lev":
        return (scheme, c.get("B"), c.get("b"), c.get("Bp"), c.get("bp"))
    return (scheme,)


def pick_profiles(profs, rnd, tr):
    """a few of the valid profiles of the bounded MC_Profiles instance: the smallest, the one with the longest list, the one with the
    most keywords and postings, and random ones"""
    ok = [list(x["p"]) for x in profs if x["valid"] and x["outcome"] == "built"]
    if not ok:
        return []
    ok.sort(key=lambda q: (sum(q), len(q), q))
    chosen = [ok[0], max(ok, key=lambda q: (len(q), sum(q)))]
    if tr == "thorough":
        chosen += [max(ok, key=lambda q: (max(q), -len(q)))] + rnd.sample(ok, min(2, len(ok)))
    out = []
    for q in chosen:
        q = list(q)
        rnd.shuffle(q)
        if sorted(q) not in [sorted(x) for x in out]:
            out.append(q)
    return out


def build_cases(tr, mism, points, mcov):
    rnd = random.Random(seed() + 3)
    cases = []
    cache = {}
    runs = []
    for s in sc.SCHEMES:
        cfgs = [("grid%d" % i, c) for i, c in enumerate(se.grid(s, tr))] + [("extra%d" % i, c) for i, c in enumerate(extra_configs(s, tr))]
        mm = [m for m in mism if m["scheme"] == s]
        for i, m in enumerate(rnd.sample(mm, min(len(mm), 3 if tr == "quick" else 12))):
            cfgs.append(("shipped-mismatch%d" % i, cfg_from_kc(s, m["kc"])))
        for name, cfg in cfgs:
            try:
                probe_db = {b"k": [b"\x01" * sc.id_size_of(cfg)]}
                c = se.numbers(s, se.fit(s, cfg, [1], probe_db))
            except Exception:
                cases.append((s, name, cfg, [1]))           # refused by the configuration constructor: one trace, judged OutOfScope
                continue
            key = profile_key(s, c)
            if key not in cache:
                profs, r, _c = se.model_profiles(s, cfg, tr, extra_inv=False)
                cache[key] = profs
                mcov["states"] += r.distinct or 0
                mcov["transitions"] += r.generated or 0
                runs.append({"scheme": s, "cfg": name, "profiles": len(profs)})
            ps = pick_profiles(cache[key], rnd, tr)
            if not ps:
                raise MachineryError("no valid profile for %s %s" % (s, name))
            for q in ps:
                cases.append((s, name, cfg, q))
    # thorough: EVERY point of the model's numeric grid on the real code (a refused point is one trace, judged OutOfScope / drift)
    if tr == "thorough":
        for i, g in enumerate(points):
            cfg = cfg_from_kc(g["scheme"], g["kc"])
            if kc_of(g["scheme"], cfg) != g["kc"] and g["refuses"] != "config":
                raise MachineryError("no configuration for grid point %s %s (got %s)" % (g["scheme"], g["kc"], kc_of(g["scheme"], cfg)))
            q = [2, 1]
            rnd.shuffle(q)
            cases.append((g["scheme"], "model-grid%d" % i, cfg, q))
    # the default configurations with random larger databases (the sizes the repository's own tests use), as in C01
    for s in sc.SCHEMES:
        d = sc.default_config(s)
        for j in range(1 if tr == "quick" else 4):
            k = rnd.randint(5, 12 if tr == "quick" else 30)
            q = [rnd.choice([1, 2, 3, rnd.randint(1, 60), 64, 65]) for _ in range(k)]
            if s == "CGKO06.SSE1":
                d2 = dict(d, param_dictionary_size=64) if (tr == "thorough" and j == 0) else dict(d, param_s=sc.next_pow2(sum(q) + 2), param_dictionary_size=64)
            elif s == "CGKO06.SSE2":
                d2 = dict(d, param_dictionary_size=64)
                q = [min(x, 6) for x in q[:6]]          # the token has one PRP evaluation per distinct file
            else:
                d2 = d
            cases.append((s, "default%d" % j, d2, q))
    # a result of more than 255 identifiers (and with it a large index and token) for every scheme: counts and lengths that
    # no longer fit one byte
    for s in sc.SCHEMES:
        d = sc.default_config(s)
        if s == "CGKO06.SSE1":
            d = dict(d, param_s=512, param_dictionary_size=64)
        elif s == "CGKO06.SSE2":
            d = dict(d, param_dictionary_size=64)
        cases.append((s, "bigresult", d, [300, 1]))
        if s == "CGKO06.SSE2":
            # a small file-size bound makes `max` small, so that n + max needs more bytes than max alone
            cases.append((s, "bigresult-smallmax", dict(d, param_max_file_size=100), [300, 1]))
    # length profiles on either side of every layout threshold that only larger databases reach (MC_Boundaries, as in C01):
    # an index, token or result whose field widths change there has to survive the wire too
    nb = 0
    for s, cfg, maxn in se.boundary_families(tr):
        bs, r = se.model_boundaries(s, cfg, maxn)
        if len(bs) > 14 and tr == "quick":
            bs = bs[:2] + bs[2::4]
        for p in bs:
            if sum(p) <= 1200:
                cases.append((s, "boundary", cfg, p))
                nb += 1
    mcov["model"]["boundary_profiles"] = nb
    mcov["model"]["MC_Profiles_runs"] = runs
    return cases


def run_one(job, hists):
    i, (s, name, cfg, q), sd = job
    case = Case(s, cfg, q, sd)
    traces = []
    meta = {"case": i, "scheme": s, "cfgname": name, "cfg": case.cfg, "p": list(q), "seed": sd}
    if case.setup["out"] != "built":
        traces.append(dict(meta, tid="c%d.setup" % i, hist=["Setup"], ev=case.run(["Setup"])))
        return traces
    if name == "boundary":
        # the pipeline in which everything crosses the wire, the one in which nothing does, and two more
        hs = sorted(hists, key=lambda h: (len(h), h))
        sel = {0, len(hs) - 1, (7 * i + 3) % len(hs), (13 * i + 5) % len(hs)}
        use = [(hi, hs[hi]) for hi in sorted(sel)]
    else:
        use = list(enumerate(hists))
    for hi, h in use:
        traces.append(dict(meta, tid="c%d.h%d" % (i, hi), hist=list(h), ev=case.run(h)))
    for j, ev in enumerate(case.run_remote()):
        traces.append(dict(meta, tid="c%d.remote%d" % (i, j), hist=["remote"], ev=ev))
    fev = case.run_foreign()
    if fev is not None:
        traces.append(dict(meta, tid="c%d.foreign" % i, hist=["foreign"], ev=fev))
    return traces


def to_tlc(t):
    def ev(e):
        return {k: v for k, v in e.items() if k != "err"}
    return {"tid": t["tid"], "ev": [ev(e) for e in t["ev"]]}


def first_error(t):
    for e in t["ev"]:
        if e.get("err"):
            return "%s%s: %s" % (e["op"], ":" + e["obj"] if "obj" in e else "", e["err"])
    for e in t["ev"]:
        if e["op"] == "De" and not (e["eq"] and e["feq"] and e["beq"]):
            return "De:%s eq=%s fields=%s bytes=%s" % (e["obj"], e["eq"], e["feq"], e["beq"])
    pos = [e["pos"] for e in t["ev"] if "pos" in e]
    return "positions %s" % (pos[-1] if pos else "")


def replay(path):
    with open(path) as fh:
        rp = json.load(fh)
    case = Case(rp["scheme"], rp["cfg"], rp["p"], rp["seed"])
    if rp["hist"] == ["remote"]:
        evs = case.run_remote()
        ev = evs[0 if rp["tid"].endswith("remote0") else 1] if evs else [dict(case.setup)]
    elif rp["hist"] == ["foreign"]:
        ev = case.run_foreign()
    else:
        ev = case.run(rp["hist"])
    t = {"tid": "replay", "ev": ev}
    verdicts, _ = validate_traces("Trace_Wire", [to_tlc(t)])
    print(json.dumps(ev, indent=1, default=str)[:6000])
    print(verdicts)
    return 0 if verdicts["replay"]["ok"] else 1


def main(argv_tier=None, replay_path=None):
    t0 = time.time()
    tr = tier(argv_tier)
    fs.setup_env(REPO)
    if replay_path:
        return replay(replay_path)
    hists, mism, points, cov = model(tr)
    t1 = time.time()
    cases = build_cases(tr, mism, points, cov)
    t2 = time.time()
    sd = seed()
    jobs = [(i, c, sd * 1000003 + 17 * i + 1) for i, c in enumerate(cases)]
    res = pmap(lambda j: run_one(j, hists), jobs, chunksize=1)
    traces = [t for ts in res for t in ts]
    t3 = time.time()
    verdicts, agg = validate_traces("Trace_Wire", [to_tlc(t) for t in traces], shards=4, name="wire")
    t4 = time.time()
    cov["phase_seconds"] = {"model": round(t1 - t0, 1), "profiles": round(t2 - t1, 1), "replay": round(t3 - t2, 1), "trace_validation": round(t4 - t3, 1)}
    print("C03: %d cases, %d traces; model %.0fs, profiles %.0fs, replay %.0fs, trace validation %.0fs" % (len(cases), len(traces), t1 - t0, t2 - t1, t3 - t2, t4 - t3))
    rej, drift, oos, accepted = [], {}, 0, 0
    machinery = []
    for t in traces:
        v = verdicts[t["tid"]]
        if not v["ok"]:
            if v["clause"] in ("ValidDomain", "Incomplete") or v["clause"].startswith("Malformed"):
                machinery.append((t["tid"], v["clause"], t["scheme"], t["p"]))
                continue
            rej.append({"key": "%s:%s" % (t["scheme"], v["clause"]), "trace": t, "verdict": v})
        elif v["clause"] == "OutOfScope":
            oos += 1
        else:
            accepted += 1
            if v["clause"].startswith("DRIFT"):
                drift.setdefault((t["scheme"], t["cfgname"], v["clause"]), []).append(t["tid"])
    if machinery:
        raise MachineryError("harness submitted traces that are not pipelines over valid databases: %s" % machinery[:5])
    # every configuration the layout model says works must have been in scope, every scheme must have been exercised
    inscope = {}
    for t in traces:
        if verdicts[t["tid"]]["clause"] != "OutOfScope" and len(t["hist"]) > 1:
            inscope[t["scheme"]] = inscope.get(t["scheme"], 0) + 1
    for s in sc.SCHEMES:
        if inscope.get(s, 0) < 128:
            raise MachineryError("fewer than 128 in-scope pipeline executions for %s" % s)
    # the mismatches of the as-shipped transcription, replayed: did the real code show them?
    ship = {"configurations_replayed": 0, "reproduced": 0}
    bycase = {}
    for t in traces:
        if t["cfgname"].startswith("shipped-mismatch"):
            bycase.setdefault(t["case"], []).append(not verdicts[t["tid"]]["ok"])
    ship["configurations_replayed"] = len(bycase)
    ship["reproduced"] = sum(1 for v in bycase.values() if any(v))
    viol, seen = classify(PROP, rej)
    vio_out = []
    groups = {}
    for x in viol:
        t = x["trace"]
        groups.setdefault((t["scheme"], t["cfgname"], x["verdict"]["clause"]), []).append(x)
    for (s, name, clause), xs in sorted(groups.items()):
        x = min(xs, key=lambda y: (len(y["trace"]["hist"]) < 2, len(y["trace"]["hist"]), y["trace"]["tid"]))
        t = x["trace"]
        path = ""
        if len(vio_out) < 20:
            path = write_replay(PROP, "%s-%s-%d" % (s.replace(".", "_"), name, len(vio_out)),
                                {"scheme": s, "cfg": t["cfg"], "p": t["p"], "seed": t["seed"], "hist": t["hist"], "tid": t["tid"],
                                 "events": t["ev"], "verdict": x["verdict"], "pipelines_rejected_with_this_clause": len(xs)})
        lens = {k: v for k, v in t["cfg"].items() if k.startswith("param_") or k.endswith("_length")}
        vio_out.append(("%s %s clause=%s step=%d pipeline=%s (%d pipelines) %s" % (s, lens, clause, x["verdict"]["step"], "/".join(t["hist"]), len(xs), first_error(t)), path))
    for (s, name, clause), tids in sorted(drift.items())[:20]:
        print("DRIFT property=%s %s %s: %s (%d traces, e.g. %s)" % (PROP, s, name, clause, len(tids), tids[0]))
    nde = sum(1 for t in traces for e in t["ev"] if e["op"] == "De")
    sample = [t for t in traces if len(t["hist"]) == 14][:1] + [t for t in traces if t["hist"] == ["remote"]][:1]
    cov.update({
        "traces_validated_against_impl": len(traces), "trace_validation_states": agg["distinct"],
        "evaluations": len(traces),
        "distinct_nontrivial": len({(t["scheme"], json.dumps(t["cfg"], sort_keys=True), tuple(t["p"]), tuple(t["hist"]), t["tid"].rsplit(".", 1)[-1])
                                    for t in traces if any(e["op"] == "De" and e["out"] == "ok" for e in t["ev"])}),
        "rule": "one trace per pipeline execution: (scheme, configuration, length profile, pipeline); configurations = sse_engine.grid() + configurations "
                "with unequal independent length parameters + refused configurations + samples of the as-shipped model's mismatches "
                "(thorough: + every point of the model's numeric grid {8,16,24,32}^parameters); profiles from "
                "MC_Profiles; pipelines = the 128 histories MC_Wire emits + the full pipeline with the server in another process (present and absent "
                "keyword) + one foreign-bytes probe; non-trivial = distinct executions in which at least one object was deserialized successfully",
        "cases": len(cases), "pipelines_per_case": len(hists) + 3, "accepted_in_scope": accepted, "out_of_scope_refused_configurations": oos,
        "deserializations_executed": nde, "in_scope_by_scheme": inscope,
        "model_grid_points_replayed": len({t["case"] for t in traces if t["cfgname"].startswith("model-grid")}),
        "shipped_model_mismatches_replayed": ship,
        "drift": [{"scheme": s, "cfg": n, "clause": c, "traces": len(t)} for (s, n, c), t in sorted(drift.items())][:40], "drift_count": len(drift),
        "samples": [{"tid": t["tid"], "scheme": t["scheme"], "cfg": t["cfg"], "p": t["p"], "hist": t["hist"], "ev": t["ev"]} for t in sample],
    })
    return finish(PROP, tr, t0, cov, vio_out, seen,
                  assumptions=["AES / HMAC / hash / pickle trusted; the abstract content of an object is its slots",
                               "JSON round trip of a configuration keeps its integer, float and string parameters (json.dumps / json.loads)",
                               "re-serialization of an equal object is byte-identical (concatenation, or pickle of order-preserving containers); "
                               "for the set-valued DP17 result byte equality is not required",
                               "in the separate-process pipeline the server cannot hold the client's original objects: equality there is "
                               "deserialize(serialize(x2)) == x2 plus byte equality with what was received",
                               "malformed / foreign bytes are outside the property: a deserializer that accepts them is reported as DRIFT only"])


if __name__ == "__main__":
    if len(sys.argv) > 1 and sys.argv[1] == "--server":
        server_main()
        sys.exit(0)
