"""In-process harness for the real server stack (frontend.server.*) on a fake websocket.

Nothing in /repo is edited: the fake websocket implements the subset of the
websockets legacy protocol API that the server uses; the 1 s cleanup delay is
turned into a harness-controlled gate by replacing the *module attribute*
`asyncio` of services_manager with a proxy; per-case directories are selected
by assigning file_manager._PROGRAM_PATH.
"""
import asyncio
import hashlib
import json
import os
import pathlib
import pickle
import sys
import tempfile

import binding

_HOME = None


def setup_env(repo, home=None):
    """Must run before the first import of frontend.* / toolkit.logger (they create ~/.sse at import)."""
    global _HOME
    if _HOME is None:
        _HOME = home or tempfile.mkdtemp(prefix="ssepy-home.", dir=os.environ.get("TMPDIR", "/tmp"))
        if home is None:
            import atexit
            import shutil
            pid = os.getpid()
            # removed when the process that created it exits (forked pool workers leave through os._exit and keep it)
            atexit.register(lambda: shutil.rmtree(_HOME, ignore_errors=True) if os.getpid() == pid else None)
        os.environ["HOME"] = _HOME
        # the repo modules create these at import time without exist_ok: avoid a race between forked workers
        os.makedirs(os.path.join(_HOME, ".sse", "log"), exist_ok=True)
        os.makedirs(os.path.join(_HOME, ".sse", "client"), exist_ok=True)
        if repo not in sys.path:
            sys.path.insert(0, repo)
        import logging
        logging.disable(logging.CRITICAL)
    return _HOME


def cleanup_env():
    import shutil
    if _HOME:
        shutil.rmtree(_HOME, ignore_errors=True)


class ConnClosed(Exception):
    pass


FAKE_GAPS = []      # AttributeErrors raised by the fake websocket: a gap in the harness, never a property verdict


def _closed_exc(ok=True):
    from websockets.exceptions import ConnectionClosedOK, ConnectionClosedError
    from websockets.frames import Close
    if ok:
        return ConnectionClosedOK(Close(1000, ""), Close(1000, ""), True)
    return ConnectionClosedError(None, None, None)


class FakeWS:
    """Server-side protocol object. The harness plays the peer."""

    def __init__(self, loop, name="c"):
        self.name = name
        self.loop = loop
        self.inbox = []          # messages from the peer not yet consumed by the server
        self.outbox = []         # messages the server sent (peer reads them)
        self.closed = False
        self.close_ok = True
        self.closed_by = None
        self._closed_fut = loop.create_future()
        self._waiter = None
        self.n_sent_after_close = 0
        self.on_event = None     # callback(kind, ws, data): "sent" at send time, "sclosed" when the server side closes

    # ---- further attributes of websockets' protocol object that server code may consult
    @property
    def open(self):
        return not self.closed

    @property
    def close_code(self):
        return None if not self.closed else (1000 if self.close_ok else (1011 if self.closed_by == "server" else 1006))

    @property
    def close_reason(self):
        return None if not self.closed else ""

    remote_address = ("127.0.0.1", 0)
    local_address = ("127.0.0.1", 0)
    path = "/"
    request_headers = {}
    response_headers = {}
    subprotocol = None
    host = "127.0.0.1"
    port = 0
    secure = False
    max_size = None

    @property
    def id(self):
        import uuid
        if not hasattr(self, "_id"):
            self._id = uuid.uuid4()
        return self._id

    @property
    def state(self):
        from websockets.protocol import State
        return State.CLOSED if self.closed else State.OPEN

    @property
    def logger(self):
        import logging
        return logging.getLogger("websockets.server")

    async def ensure_open(self):
        if self.closed:
            raise _closed_exc(self.close_ok)

    def __getattr__(self, name):
        # only reached for attributes the fake does not have: a gap of the harness, reported as a machinery error at the end
        # of the check even when the AttributeError itself is swallowed by a fire-and-forget task
        if not name.startswith("__") and name not in ("cid", "task", "handler_exc", "_id"):
            FAKE_GAPS.append("FakeWS has no attribute %r" % name)
        raise AttributeError("FakeWS has no attribute %r" % name)

    async def ping(self, data=None):
        if self.closed:
            raise _closed_exc(self.close_ok)
        f = self.loop.create_future()
        f.set_result(None)
        return f

    async def pong(self, data=b""):
        if self.closed:
            raise _closed_exc(self.close_ok)

    # ---- API used by the server code
    async def recv(self):
        while not self.inbox:
            if self.closed:
                raise _closed_exc(self.close_ok)
            self._waiter = self.loop.create_future()
            try:
                await self._waiter
            finally:
                self._waiter = None
        return self.inbox.pop(0)

    async def send(self, data):
        if self.closed:
            self.n_sent_after_close += 1
            raise _closed_exc(self.close_ok)
        self.outbox.append(data)
        if self.on_event:
            self.on_event("sent", self, data)

    def __aiter__(self):
        return self._iter()

    async def _iter(self):
        from websockets.exceptions import ConnectionClosedOK
        try:
            while True:
                yield await self.recv()
        except ConnectionClosedOK:
            return

    async def wait_closed(self):
        await asyncio.shield(self._closed_fut)

    async def close(self, code=1000, reason=""):
        self._do_close("server", code == 1000)

    # ---- peer / harness side
    def _do_close(self, who, ok=True):
        if self.closed:
            return
        self.closed = True
        self.close_ok = ok
        self.closed_by = who
        if not self._closed_fut.done():
            self._closed_fut.set_result(None)
        if self._waiter is not None and not self._waiter.done():
            self._waiter.set_result(None)
        if who == "server" and self.on_event:
            self.on_event("sclosed", self, None)

    def peer_send(self, data):
        if self.closed:
            return False
        self.inbox.append(data)
        if self._waiter is not None and not self._waiter.done():
            self._waiter.set_result(None)
        return True

    def peer_close(self, ok=True):
        self._do_close("peer", ok)

    def take_outbox(self):
        out, self.outbox = self.outbox, []
        return out


class AsyncioProxy:
    """Stands in for the `asyncio` module inside services_manager: sleep() waits on a harness gate."""

    def __init__(self):
        self.gates = []      # pending gate futures, in call order
        self.auto = False    # auto mode: sleeps return at the next loop iteration
        self.n_sleeps = 0

    def __getattr__(self, name):
        return getattr(asyncio, name)

    async def sleep(self, delay, result=None):
        if not delay or delay <= 0:
            return await asyncio.sleep(0, result)      # a plain yield to the loop is not a timer
        self.n_sleeps += 1
        if self.auto:
            await asyncio.sleep(0)
            return result
        fut = asyncio.get_running_loop().create_future()
        self.gates.append(fut)
        await fut
        return result

    def fire(self):
        """Release the oldest pending sleep. Returns False if none is pending."""
        while self.gates:
            f = self.gates.pop(0)
            if not f.done():
                f.set_result(None)
                return True
        return False

    def pending(self):
        return sum(1 for f in self.gates if not f.done())


WATCH_TIMERS = True  # off while a world runs on real sockets (the websockets library keeps its own keep-alive timers there)
REAL_TIMERS = []    # timers of the server code that run on the wall clock (the delay seam did not take): machinery error


def _note_real_timers(loop):
    now = loop.time()
    for h in getattr(loop, "_scheduled", ()):
        if not h.cancelled() and 0 < h.when() - now < 30:
            cb = getattr(h, "_callback", None)
            REAL_TIMERS.append("a timer due in %.2f s is pending (%r)" % (h.when() - now, getattr(cb, "__qualname__", cb)))
            return


async def settle(limit=2000):
    """Let the loop run until nothing but the caller is runnable (no real I/O or timers are in play)."""
    loop = asyncio.get_running_loop()
    quiet = 0
    for _ in range(limit):
        await asyncio.sleep(0)
        if len(loop._ready) == 0:
            quiet += 1
            if quiet >= 2:
                if WATCH_TIMERS and not REAL_TIMERS:
                    _note_real_timers(loop)
                return True
        else:
            quiet = 0
    return False


async def spin(k):
    for _ in range(k):
        await asyncio.sleep(0)


class ServerWorld:
    """One server 'installation': a data directory, a ServicesManager, the connection handler."""

    def __init__(self, repo, datadir):
        global WATCH_TIMERS
        WATCH_TIMERS = type(self) is ServerWorld
        setup_env(repo)
        import frontend.server.services.file_manager as sfm
        import frontend.server.services.services_manager as sm
        import frontend.server.connector as connector
        self.sfm, self.sm, self.connector = sfm, sm, connector
        self.datadir = pathlib.Path(datadir)
        self.datadir.mkdir(parents=True, exist_ok=True)
        binding.set_data_dir(sfm, self.datadir)
        self.proxy = AsyncioProxy()
        # every name of services_manager bound to the asyncio module (whatever it is called) or to asyncio.sleep
        self._amap = {asyncio: self.proxy, asyncio.sleep: self.proxy.sleep}
        binding.rebind(sm, self._amap)
        self.restart()
        self.tasks = []
        self.handler_errors = []
        self.on_event = None

    def restart(self):
        """Server process restart: all in-memory objects are dropped, the directory stays."""
        binding.set_data_dir(self.sfm, self.datadir)
        self.manager = self.sm.ServicesManager()
        names = binding.find_instances(self.connector, self.sm.ServicesManager)
        if not names:
            raise binding.BindingError("frontend.server.connector holds no ServicesManager instance at module level")
        for n in names:
            setattr(self.connector, n, self.manager)
        self.proxy.gates = []

    def open(self, sid, name="c", cid=None):
        """Open a connection: returns the FakeWS; the INIT message is already delivered."""
        loop = asyncio.get_running_loop()
        ws = FakeWS(loop, name)
        ws.on_event = self.on_event
        ws.cid = cid
        ws.peer_send(pickle.dumps({"type": "init", "sid": sid}))

        async def run():
            try:
                await binding.call_handler(self.connector.handler, ws, "/")
            except BaseException as ex:  # the websockets server wrapper closes with 1011 on handler failure
                ws.handler_exc = ex
                if isinstance(ex, AttributeError) and "FakeWS" in str(ex):
                    FAKE_GAPS.append(str(ex))      # the server code uses a part of the protocol API the fake does not have
                self.handler_errors.append((name, repr(ex)))
                ws._do_close("server", False)
                if isinstance(ex, (KeyboardInterrupt, SystemExit, asyncio.CancelledError)):
                    raise
            else:
                ws.handler_exc = None
                ws._do_close("server", True)

        ws.handler_exc = "running"
        t = loop.create_task(run())
        ws.task = t
        self.tasks.append(t)
        return ws

    async def kill(self):
        """The server process dies: every task is gone, nothing more is written."""
        for t in self.tasks:
            if not t.done():
                t.cancel()
        for f in self.proxy.gates:
            if not f.done():
                f.cancel()
        self.proxy.gates = []
        await settle()
        self.tasks = []

    async def shutdown(self):
        """End of a case: let pending cleanups finish, then drop everything and unpatch."""
        self.proxy.auto = True
        while self.proxy.fire():
            pass
        await settle()
        await self.kill()
        self.proxy.auto = False
        binding.restore(self.sm, self._amap)

    # ---- projection of the durable state
    def project(self, sid, cfgs=(), edbs=()):
        """-> dict(st, cfg, idx, dir). cfg/idx are 1-based positions in cfgs/edbs, 0 = absent, 9 = other/unreadable."""
        d = self.datadir / sid
        if not d.exists():
            return {"dir": False, "st": 0, "cfg": 0, "idx": 0}
        r = {"dir": True}
        try:
            r["st"] = int(pickle.loads((d / "service_meta").read_bytes())["state"])
        except FileNotFoundError:
            r["st"] = -1
        except Exception:
            r["st"] = -2
        try:
            c = json.loads((d / "config.json").read_text(encoding="utf8"))
            r["cfg"] = 9
            for i, x in enumerate(cfgs):
                if c == x:
                    r["cfg"] = i + 1
        except FileNotFoundError:
            r["cfg"] = 0
        except Exception:
            r["cfg"] = 9
        try:
            b = (d / "edb").read_bytes()
            r["idx"] = 9
            for i, x in enumerate(edbs):
                if b == x:
                    r["idx"] = i + 1
        except FileNotFoundError:
            r["idx"] = 0
        return r


def decode_server_msgs(raw_msgs):
    """Decode the server->client messages into small dicts."""
    out = []
    for raw in raw_msgs:
        try:
            m = pickle.loads(raw)
        except Exception:
            out.append({"type": "garbage"})
            continue
        t = m.get("type")
        d = {"type": t, "sid": m.get("sid")}
        c = m.get("content")
        if t in ("init", "config", "upload_edb"):
            try:
                cc = pickle.loads(c)
                d["ok"] = bool(cc.get("ok"))
                if "state" in cc:
                    d["state"] = cc["state"]
            except Exception:
                d["ok"] = None
        elif t == "result":
            d["content"] = c
            d["token_digest"] = m.get("token_digest")
            try:
                cc = pickle.loads(c)
                if isinstance(cc, dict) and "ok" in cc and cc.get("ok") is False:
                    d["ok"] = False
            except Exception:
                pass
        elif t == "control":
            pass
        else:
            # a reply of a type the protocol does not know (e.g. the echo of an unknown request type): an explicit refusal is
            # a refusal whatever type it is sent under
            try:
                cc = pickle.loads(c)
                if isinstance(cc, dict) and "ok" in cc:
                    d["ok"] = bool(cc.get("ok"))
            except Exception:
                pass
        out.append(d)
    return out


def msg(sid, typ, content, **extra):
    d = {"type": typ, "sid": sid, "content": content}
    d.update(extra)
    return pickle.dumps(d)
