"""wrapper for one real `run_client.py` process: argv = <repo> <server uri> <run_client.py arguments...>.
HOME is set by the parent.  The only thing done before the program runs: the server address (a class attribute of
global_config.ClientConfig, for which the command line has no option) is pointed at the server of this run."""
import runpy
import sys

repo, uri = sys.argv[1], sys.argv[2]
sys.path.insert(0, repo)
import global_config
for name in dir(global_config):
    obj = getattr(global_config, name)
    if isinstance(obj, type) and isinstance(getattr(obj, "SERVER_URI", None), str):
        obj.SERVER_URI = uri
for name in dir(global_config):
    if isinstance(getattr(global_config, name), str) and getattr(global_config, name).startswith("ws://"):
        setattr(global_config, name, uri)
sys.argv = [repo + "/run_client.py"] + sys.argv[3:]
runpy.run_path(repo + "/run_client.py", run_name="__main__")
