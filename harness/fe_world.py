"""Integrated in-process world: the real client Service talking to the real server handler over a real
loopback websocket. Used by C09, C11, C13.

- server data dir and client data dir are per world (file_manager._PROGRAM_PATH of both sides);
- the server's cleanup delay is an immediate yield (module-attribute proxy), the client's 60 s echo wait is
  capped (proxy) so that a lost echo is an observation, not a stall;
- restart_server(): listening socket and every server-side object dropped, same directory;
- every client operation runs on a freshly loaded Service(sid) and is closed like commands.py does
  (unless keep=True: the same object is reused for the next operation).
"""
import asyncio
import os
import pathlib
import pickle
import sys

import binding
import fe_server as fs


class ClientAsyncioProxy:
    def __init__(self, cap):
        self.cap = cap

    def __getattr__(self, name):
        return getattr(asyncio, name)

    async def wait_for(self, fut, timeout=None):
        t = self.cap if timeout is None else min(timeout, self.cap)
        return await asyncio.wait_for(fut, t)


class ServerAsyncioProxy:
    """sleep() yields once instead of waiting; tasks created by the services manager are tracked."""

    def __init__(self, delay=0.0):
        self.tasks = []
        self.delay = delay        # 0: one loop iteration; > 0: a (short) real delay, so that a client that reconnects at once
                                  # arrives while the previous connection is still being cleaned up and has to wait for its turn

    def __getattr__(self, name):
        return getattr(asyncio, name)

    async def sleep(self, delay, result=None):
        await asyncio.sleep(self.delay)
        return result

    def create_task(self, coro, **kw):
        t = asyncio.create_task(coro, **kw)
        self.tasks.append(t)
        return t

    def ensure_future(self, coro_or_future, **kw):
        t = asyncio.ensure_future(coro_or_future, **kw)
        self.tasks.append(t)
        return t


class _ClientNS:
    def __init__(self, outer):
        self._outer = outer

    def __getattr__(self, name):
        return getattr(self._outer._real.client, name)

    def connect(self, uri, **kw):
        w = self._outer._world
        if w.use_tcp:
            return self._outer._real.client.connect(uri, **kw)
        return self._outer._real.unix_connect(w.sock, **kw)


class WebsocketsProxy:
    """Stands in for the name `websockets` inside the client service module: connect() goes to the world's UNIX-domain
    socket (same websocket protocol, but no TCP ports: thousands of short connections per run would otherwise pile up in
    TIME_WAIT and exhaust the ephemeral port range), everything else is the real package."""

    def __init__(self, real, world):
        self._real, self._world = real, world
        self.client = _ClientNS(self)

    def __getattr__(self, name):
        return getattr(self._real, name)

    def connect(self, uri, **kw):           # websockets.connect is the same thing as websockets.client.connect
        return self.client.connect(uri, **kw)


class _ServeCtx:
    """what `websockets.serve(...)` returns inside the server's connector module: the real unix_serve(...) object, usable with
    `async with` or `await` like the real one; the World learns the server object when it is up."""

    def __init__(self, inner, world):
        self._inner, self._world = inner, world

    def _up(self, srv):
        self._world.server = srv
        self._world._server_up.set()
        return srv

    async def __aenter__(self):
        return self._up(await self._inner.__aenter__())

    async def __aexit__(self, *a):
        return await self._inner.__aexit__(*a)

    def __await__(self):
        async def go():
            return self._up(await self._inner)
        return go().__await__()


class ServerWebsocketsProxy:
    """Stands in for the name `websockets` inside frontend.server.connector: serve(handler, host, port, **kw) listens on the
    world's UNIX-domain socket instead, with exactly the keyword arguments the connector passes (max_size, ...)."""

    def __init__(self, real, world):
        self._real, self._world = real, world

    def __getattr__(self, name):
        return getattr(self._real, name)

    def serve(self, handler, host=None, port=None, **kw):
        self._world.serve_kwargs = dict(kw)
        return _ServeCtx(self._real.unix_serve(handler, self._world.sock, **kw), self._world)

    @property
    def server(self):                       # websockets.server.serve
        outer = self

        class _NS:
            def __getattr__(self, name):
                return getattr(outer._real.server, name)

            def serve(self, *a, **kw):
                return outer.serve(*a, **kw)
        return _NS()


class World:
    def __init__(self, repo, base, echo_cap=1.5, cleanup_delay=0.0):
        fs.setup_env(repo)
        import websockets
        import frontend.server.services.file_manager as sfm
        import frontend.server.services.services_manager as sm
        import frontend.server.connector as connector
        import frontend.client.services.file_manager as cfm
        import frontend.client.services.service as cservice
        import global_config
        self.websockets = websockets
        self.sfm, self.sm, self.connector, self.cfm, self.cservice = sfm, sm, connector, cfm, cservice
        self.global_config = global_config
        self.base = pathlib.Path(base)
        self.sdir = self.base / "server"
        self.cdir = self.base / "client"
        self.sdir.mkdir(parents=True, exist_ok=True)
        self.cdir.mkdir(parents=True, exist_ok=True)
        binding.set_data_dir(sfm, self.sdir)
        binding.set_data_dir(cfm, self.cdir)
        # the seams are found by value: whatever name a module gives to asyncio / websockets or to the functions it imported
        # from them is rebound (binding.rebind), and restored at shutdown
        import websockets.client
        import websockets.server
        self.sproxy = ServerAsyncioProxy(cleanup_delay)
        self.cproxy = ClientAsyncioProxy(echo_cap)
        self.sock = str(self.base / "ws.sock")
        self.use_tcp = False
        self.wproxy = WebsocketsProxy(websockets, self)
        self.swproxy = ServerWebsocketsProxy(websockets, self)
        self._maps = [
            (sm, {asyncio: self.sproxy, asyncio.sleep: self.sproxy.sleep, asyncio.create_task: self.sproxy.create_task,
                  asyncio.ensure_future: self.sproxy.ensure_future}),
            (cservice, {asyncio: self.cproxy, asyncio.wait_for: self.cproxy.wait_for,
                        websockets: self.wproxy, websockets.client: self.wproxy.client,
                        websockets.client.connect: self.wproxy.connect}),
            (connector, {websockets: self.swproxy, websockets.server: self.swproxy.server,
                         websockets.server.serve: self.swproxy.serve}),
        ]
        for mod, mp in self._maps:
            binding.rebind(mod, mp)
        self.server = None
        self.port = None
        self.service = None       # client Service object kept between operations (keep=True)

    # ------------------------------------------------------------------ server
    async def start_server(self):
        binding.set_data_dir(self.sfm, self.sdir)
        names = binding.find_instances(self.connector, self.sm.ServicesManager)
        if not names:
            raise binding.BindingError("frontend.server.connector holds no ServicesManager instance at module level")
        mgr = self.sm.ServicesManager()
        for n in names:
            setattr(self.connector, n, mgr)
        try:
            os.unlink(self.sock)
        except OSError:
            pass
        # the server is started by the connector's own run_server() (its `websockets` is the proxy above), so that the
        # options it passes to serve() are the ones in force; only if that entry point is gone the harness serves itself
        self._server_up = asyncio.Event()
        self.server_task = None
        if hasattr(self.connector, "run_server"):
            self.server_task = asyncio.get_running_loop().create_task(self.connector.run_server("127.0.0.1", 0))
            waiter = asyncio.get_running_loop().create_task(self._server_up.wait())
            await asyncio.wait({waiter, self.server_task}, timeout=10, return_when=asyncio.FIRST_COMPLETED)
            waiter.cancel()
            if not self._server_up.is_set():
                exc = self.server_task.exception() if self.server_task.done() and not self.server_task.cancelled() else None
                raise RuntimeError("connector.run_server did not bring a server up: %r" % (exc,))
        else:
            self.server = await self.websockets.unix_serve(self.connector.handler, self.sock, max_size=None)
        self.port = 0
        self.global_config.ClientConfig.SERVER_URI = "ws://127.0.0.1:%d" % self.port

    async def stop_server(self, graceful=True):
        if self.server is not None:
            if graceful:
                await asyncio.sleep(0.01)
                for _ in range(50):
                    if all(t.done() for t in self.sproxy.tasks):
                        break
                    await asyncio.sleep(0.005)
            self.server.close()
            try:
                await asyncio.wait_for(self.server.wait_closed(), 5)
            except asyncio.TimeoutError:
                pass
            self.server = None
        if getattr(self, "server_task", None) is not None:
            # run_server leaves its `async with serve(...)` through wait_closed(), which does not return while a connection
            # lingers (websockets 10.4 on Python 3.12): bounded wait, then the task is left to the loop's teardown
            self.server_task.cancel()
            await asyncio.wait({self.server_task}, timeout=2)
            self.server_task = None
        for t in self.sproxy.tasks:
            if not t.done():
                t.cancel()
        await asyncio.sleep(0)
        self.sproxy.tasks = []

    async def restart_server(self, graceful=True):
        await self.stop_server(graceful)
        await self.start_server()

    # ------------------------------------------------------------------ client
    def new_service(self, sid=""):
        binding.set_data_dir(self.cfm, self.cdir)
        return self.cservice.Service(sid)

    async def drop_client(self, persist=True):
        """Discard the client object. persist=True: like commands.py (close_service); False: process death."""
        s, self.service = self.service, None
        if s is None:
            return
        try:
            if persist:
                await s.close_service()
        except BaseException:
            pass
        try:
            # process exit: whatever is still open is dropped by the OS
            if s.websocket is not None and not s.websocket.closed:
                s.websocket.transport.abort()
        except BaseException:
            pass
        await asyncio.sleep(0)

    async def client_op(self, op, sid, arg=None, keep=False):
        """Run one client operation; -> dict(out, err, sid, result). Never raises ordinary exceptions."""
        r = {"out": "ok", "err": "", "sid": sid, "result": None}
        try:
            if self.service is None or not keep:
                await self.drop_client()
                self.service = self.new_service(sid)
            s = self.service
            if op == "create":
                r["sid"] = s.handle_create_config(arg)
            elif op == "genkey":
                s.handle_create_key()
            elif op == "encrypt":
                s.handle_encrypt_database(arg)
            elif op == "upconfig":
                box = []
                await s.handle_upload_config(wait=True, wait_callback_func=lambda f: box.append(_res(f)))
                r["result"] = box[0] if box else None
                if box and isinstance(box[0], dict) and not box[0].get("ok"):
                    r["out"] = "refused"
            elif op == "upindex":
                box = []
                await s.handle_upload_encrypted_database(wait=True, wait_callback_func=lambda f: box.append(_res(f)))
                r["result"] = box[0] if box else None
                if box and isinstance(box[0], dict) and not box[0].get("ok"):
                    r["out"] = "refused"
            elif op == "search":
                box = []
                await s.handle_keyword_search(arg, wait=True, wait_callback_func=lambda f: box.append(_raw(f)))
                if box and box[0] is not None:
                    res = s.sse_module_loader.SSEResult.deserialize(box[0], s.config_object)
                    r["result"] = res.get_result_list() if hasattr(res, "get_result_list") else res
                else:
                    r["out"] = "noresult"
            else:
                raise ValueError(op)
        except asyncio.CancelledError:
            raise
        except Exception as ex:
            r["out"] = "raised"
            r["err"] = type(ex).__name__
            r["mro"] = [c.__name__ for c in type(ex).__mro__]
            r["msg"] = str(ex)[:200]
        finally:
            if not keep:
                try:
                    # commands.py closes the service (which persists the flags) only after the commands that connect
                    await self.drop_client(persist=op in ("upconfig", "upindex", "search"))
                except Exception:
                    pass
        return r

    async def shutdown(self):
        await self.drop_client()
        await self.stop_server()
        for mod, mp in self._maps:
            binding.restore(mod, mp)

    # ------------------------------------------------------------------ projections
    def client_state(self, sid):
        """-> dict(exists, flags(5 bits as list), files(sorted), key(hex digest or ''))"""
        import hashlib
        d = self.cdir / sid if sid else None
        if not sid or not d.exists():
            return {"exists": False, "flags": -1, "files": [], "key": "", "cfgd": "", "edb": ""}
        files = sorted(p.name for p in d.iterdir())
        try:
            flags = int(pickle.loads((d / "service_meta").read_bytes())["state"])
        except FileNotFoundError:
            flags = -1
        except Exception:
            flags = -2

        def dig(n):
            try:
                return hashlib.sha256((d / n).read_bytes()).hexdigest()[:16]
            except FileNotFoundError:
                return ""
        return {"exists": True, "flags": flags, "files": files, "key": dig("key"), "cfgd": dig("config.json"), "edb": dig("edb")}

    def client_dirs(self):
        return sorted(p.name for p in self.cdir.iterdir() if p.is_dir())

    def server_state(self, sid):
        d = self.sdir / sid
        if not d.exists():
            return {"dir": False, "st": 0, "files": []}
        try:
            st = int(pickle.loads((d / "service_meta").read_bytes())["state"])
        except FileNotFoundError:
            st = -1
        except Exception:
            st = -2
        return {"dir": True, "st": st, "files": sorted(p.name for p in d.iterdir())}


def _res(fut):
    try:
        return pickle.loads(fut.result())
    except BaseException as ex:
        return {"ok": False, "exc": type(ex).__name__}


def _raw(fut):
    try:
        return fut.result()
    except BaseException:
        return None



def fresh_alias_registry(client_dir):
    """A new process' view of the alias registry (service_name_handler) stored in `client_dir`: the module is re-executed
    with HOME pointing at a directory whose .sse/client is a link to client_dir.  Nothing of the module's internals is
    touched (the cache, however it is kept, starts empty as in a new process)."""
    import importlib
    import os
    import pathlib
    import frontend.client.services.service_name_handler as snh
    client_dir = pathlib.Path(client_dir)
    client_dir.mkdir(parents=True, exist_ok=True)
    home = client_dir.parent / ("_home_" + client_dir.name)
    (home / ".sse").mkdir(parents=True, exist_ok=True)
    link = home / ".sse" / "client"
    if not link.is_symlink():
        link.symlink_to(client_dir.resolve(), target_is_directory=True)
    old = os.environ.get("HOME")
    os.environ["HOME"] = str(home)
    try:
        importlib.reload(snh)
    finally:
        if old is None:
            os.environ.pop("HOME", None)
        else:
            os.environ["HOME"] = old
    return snh
