"""C09 — end to end: results delivered through client and server equal the local answer.

TLC enumerates (MC_Workflow over ClientSM) every placement of client re-creation / server restart in the
gaps of the documented workflow; each placement is executed for each scheme with the real client Service and
the real server over a loopback websocket; the recorded run (outcomes, persisted flags, key version, server
state, correctness of each delivered result) is validated by TLC against Trace_ClientSM.
"""
import asyncio
import copy
import os
import random
import shutil
import time

from common import (REPO, MachineryError, classify, finish, parse_printed, pmap, run_tlc, seed, subdir, tier,
                    tla_value, validate_traces, write_replay)
import fe_server as fs
import fe_world
import sse_common as sc
import c11

PROP = "C09"
NSEARCH = 3
BIG_SCHEME = "CJJ14.PiBas"


def fixtures():
    fs.setup_env(REPO)
    fx = {}
    rnd = random.Random(seed() + 9)
    for s in sc.SCHEMES:
        cfg0 = sc.default_config(s)
        profile = [rnd.randint(1, 6) for _ in range(rnd.randint(2, 5))]
        db = sc.make_db(profile, sc.id_size_of(cfg0), rnd)
        # a second service of the SAME scheme with other parameters, served by the same server process
        cfg1 = dict(cfg0, param_identifier_size=4 if sc.id_size_of(cfg0) != 4 else 8)
        db1 = sc.make_db([2, 1, 3], sc.id_size_of(cfg1), rnd)
        fx[s] = {"cfg": sc.workflow_config(s, db), "db": db, "absent": sc.rand_kw(rnd, 7),
                 "decoy_cfg": sc.fit_config(s, cfg1, db1), "decoy_db": db1}
    # one service whose index (upload) and whose largest result (download) are both above 16 MiB (1 MiB is the default
    # frame limit of the websockets library; 2, 4, 8, 16 MiB are what somebody "bounding" it would write): 17000 postings
    # of 1 KiB identifiers under one keyword
    cfgb = dict(sc.default_config(BIG_SCHEME), param_identifier_size=1024)
    dbb = sc.make_db([17000, 2], 1024, rnd)
    fx["BIG"] = {"cfg": sc.workflow_config(BIG_SCHEME, dbb) | {"param_identifier_size": 1024}, "db": dbb, "absent": sc.rand_kw(rnd, 7),
                 "decoy_cfg": None, "decoy_db": None, "scheme": BIG_SCHEME}
    fx["BIG"]["cfg"] = sc.fit_config(BIG_SCHEME, cfgb, dbb)
    return fx


class Run(c11.Run):
    def __init__(self, fx, base, scheme, k=0):
        # odd cases: the server's cleanup takes a little real time, so every immediate reconnect has to wait for its turn
        super().__init__({"cfg": fx["cfg"], "db": fx["db"], "bad": [fx["cfg"]]}, base, cleanup_delay=0.03 if k % 2 else 0.0)
        self.decoy = (fx["decoy_cfg"], fx["decoy_db"]) if k % 3 == 0 and fx["decoy_cfg"] is not None else None
        self.scheme = scheme
        self.absent = fx["absent"]
        self.nsearch = 0
        self.keep = False

    async def step(self, sym):
        before = self.snapshot()
        if sym == "recreate":
            await self.w.drop_client(persist=self.w.service is not None and getattr(self.w.service, "websocket", True) is not None)
            self.ev.append({"op": "recreate", "out": "ok", "correct": False, "raw": "", "o": self.observe(before)})
            return
        if sym == "restart":
            await self.w.drop_client(persist=self.w.service is not None and getattr(self.w.service, "websocket", True) is not None)
            await self.w.restart_server()
            self.ev.append({"op": "restart", "out": "ok", "correct": False, "raw": "", "o": self.observe(before)})
            return
        sid = self.sid or c11.NOSID
        if sym == "create":
            r = await self.w.client_op("create", "", copy.deepcopy(self.fx["cfg"]), keep=True)
            if r["out"] == "ok":
                self.sid = r["sid"]
        elif sym == "encrypt":
            r = await self.w.client_op("encrypt", sid, copy.deepcopy(self.fx["db"]), keep=True)
        elif sym == "search":
            kws = list(self.fx["db"])
            self.nsearch += 1
            if self.nsearch % 2 == 0:
                kw, exp = self.absent, []
            else:
                kw = kws[(self.nsearch * 7) % len(kws)] if len(self.fx["db"][kws[0]]) < 1000 or self.nsearch > 1 else kws[0]
                exp = self.fx["db"][kw]
            r = await self.w.client_op("search", sid, kw, keep=True)
            r["correct"] = r["out"] == "ok" and r["result"] is not None and sc.same_result(self.scheme, r["result"], exp)
        else:
            r = await self.w.client_op(sym, sid, keep=True)
        out = "ok" if r["out"] == "ok" else "refused"
        o = self.observe(before)
        o["live"] = self.w.service is not None       # kept and not closed: the upload flags may not be on disk yet
        self.ev.append({"op": sym, "out": out, "correct": bool(r.get("correct", False)),
                        "raw": r["out"] + ":" + r.get("err", "") + ":" + r.get("msg", "")[:100], "o": o})

    async def run_decoy(self):
        """another service of the same scheme, with other parameters, goes through the workflow on the same server first"""
        cfg, db = self.decoy
        r = await self.w.client_op("create", "", copy.deepcopy(cfg))
        sid = r.get("sid", "")
        outs = [r["out"]]
        for op, arg in (("genkey", None), ("encrypt", copy.deepcopy(db)), ("upconfig", None), ("upindex", None)):
            outs.append((await self.w.client_op(op, sid, arg))["out"])
        kw = next(iter(db))
        r = await self.w.client_op("search", sid, kw)
        ok = all(o == "ok" for o in outs) and r["out"] == "ok" and sc.same_result(self.scheme, r["result"], db[kw])
        self.decoy_ok = ok
        self.decoy_sid = sid

    async def run(self, hist):
        await self.w.start_server()
        if self.decoy is not None:
            await self.run_decoy()
        for s in hist:
            await self.step(s)
        await self.w.shutdown()
        return self.ev


def replay(fx, scheme, hist, k):
    d = os.path.join(subdir("c09-data"), "h%d" % k)
    r = Run(fx[scheme], d, fx[scheme].get("scheme", scheme), k)
    loop = asyncio.new_event_loop()
    loop.set_exception_handler(lambda l, c: None)
    try:
        ev = loop.run_until_complete(asyncio.wait_for(r.run(hist), 600))
    except asyncio.TimeoutError:
        ev = r.ev + [{"op": "noreturn", "out": "none", "correct": False, "o": {}}]
    finally:
        loop.close()
    shutil.rmtree(d, ignore_errors=True)
    return ev


def main(argv_tier=None, replay_path=None):
    t0 = time.time()
    tr = tier(argv_tier)
    fx = fixtures()
    if replay_path:
        import json
        with open(replay_path) as fh:
            rp = json.load(fh)
        if rp["history"][:1] == ["commands.py"]:
            import c09_cli
            ev = c09_cli.run_cli(rp["scheme"], rp.get("cli_k") or 0)
        elif rp["history"][:1] == ["run_client.py"]:
            import c09_proc
            ev = c09_proc.run_proc(rp["scheme"], rp.get("cli_k") or 0)
        else:
            ev = replay(fx, rp["scheme"], rp["history"], 0)
        verdicts, _ = validate_traces("Trace_ClientSM", [{"tid": "replay", "ev": ev}])
        for e in ev:
            print(e)
        print(verdicts)
        return 0 if verdicts["replay"]["ok"] else 1

    cfg = ("CONSTANT NSearch = %d\nSPECIFICATION MCSpec\nINVARIANT Emit\nINVARIANT NoStuck\nINVARIANT Prereq\nINVARIANT Searchable\n"
           "PROPERTY KeyWriteOnce\nCHECK_DEADLOCK FALSE\n" % NSEARCH)
    r = run_tlc("MC_Workflow", cfg, workers=4)
    hists = sorted({tuple(tla_value(x)[1]) for x in parse_printed(r.out, "H")})
    expected = (2 ** 4) * (3 ** NSEARCH)
    if len(hists) != expected:
        raise MachineryError("expected %d placements from TLC, got %d" % (expected, len(hists)))
    rnd = random.Random(seed())
    cases = []
    per = 60 if tr == "quick" else len(hists)
    for s in sc.SCHEMES:
        hs = hists if per >= len(hists) else rnd.sample(hists, per)
        # always include the no-gap run and the everything-recreated, restart-everywhere runs
        extremes = [min(hists, key=len), max(hists, key=lambda h: (h.count("restart"), len(h))), max(hists, key=lambda h: (h.count("recreate"), len(h)))]
        for h in list(dict.fromkeys(list(hs) + extremes)):
            cases.append((s, h))
    # the big service: the plain workflow and the one with every re-creation / restart
    for h in (min(hists, key=len), max(hists, key=lambda h: (h.count("restart") + h.count("recreate"), len(h)))):
        cases.append(("BIG", h))
    evs = pmap(lambda a: replay(fx, a[1][0], list(a[1][1]), a[0]), list(enumerate(cases)))
    traces = [{"tid": "w%d" % k, "ev": ev, "scheme": s, "history": list(h)} for (k, (s, h)), ev in zip(enumerate(cases), evs)]
    # ---- command level: the functions run_client.py calls (aliases, JSON database with hex identifiers, output formats)
    import c09_cli
    ncli = 2 if tr == "quick" else 12
    cli_cases = [(s, j) for s in sc.SCHEMES for j in range(ncli)]
    cevs = pmap(lambda a: c09_cli.run_cli(a[1][0], a[0] * 7 + a[1][1]), list(enumerate(cli_cases)), nproc=8)
    for (i, (s, j)), ev in zip(enumerate(cli_cases), cevs):
        traces.append({"tid": "cli%d" % i, "ev": ev, "scheme": s, "history": ["commands.py"] + [e["op"] for e in ev], "cli_k": i * 7 + j})
    # ---- process level: run_server.py and one run_client.py process per step, the server killed and restarted (c09_proc)
    import c09_proc
    if tr == "quick":
        off = seed() % len(sc.SCHEMES)
        proc_cases = [(sc.SCHEMES[(off + 4 * j) % len(sc.SCHEMES)], j) for j in range(3)]
    else:
        proc_cases = [(s, j) for s in sc.SCHEMES for j in range(3)]
    pevs = pmap(lambda a: c09_proc.run_proc(a[1][0], a[1][1], a[0]), list(enumerate(proc_cases)), nproc=6)
    for (i, (s, j)), ev in zip(enumerate(proc_cases), pevs):
        traces.append({"tid": "proc%d" % i, "ev": ev, "scheme": s, "history": ["run_client.py"] + [e["op"] for e in ev], "cli_k": j})
    verdicts, agg = validate_traces("Trace_ClientSM", [{"tid": t["tid"], "ev": t["ev"]} for t in traces])
    rej = []
    for t in traces:
        v = verdicts[t["tid"]]
        if not v["ok"]:
            rej.append({"key": t["scheme"] + ":" + v["clause"], "trace": t, "verdict": v})
    viol, seen = classify(PROP, rej)
    vio_out = []
    for x in viol:
        p = ""
        if len(vio_out) < 20:
            p = write_replay(PROP, x["trace"]["tid"], {"scheme": x["trace"]["scheme"], "history": x["trace"]["history"], "cli_k": x["trace"].get("cli_k"),
                                                       "events": x["trace"]["ev"], "verdict": x["verdict"], "seed": seed()})
        vio_out.append(("%s step %d %s history=%s" % (x["trace"]["scheme"], x["verdict"]["step"], x["verdict"]["clause"],
                                                       ",".join(x["trace"]["history"])), p))
    import growth
    g = growth.routing(fx)
    for o in g["observations"]:
        print("OBSERVATION (outside the listed properties) %s" % o)
    cov = {
        "growth": {"client_routing": g},
        "states": r.distinct, "transitions": r.generated,
        "traces_validated_against_impl": len(traces), "trace_validation_states": agg["distinct"],
        "evaluations": len(traces),
        "distinct_nontrivial": len({(t["scheme"], tuple(t["history"])) for t in traces if any(e["op"] == "search" and e["correct"] for e in t["ev"])}),
        "command_level_runs": len(cli_cases),
        "process_level_runs": {"n": len(proc_cases), "what": "run_server.py + one run_client.py process per step over TCP loopback, real cleanup delay, "
                               "server SIGKILLed and restarted before the first / third search; judged by Trace_ClientSM",
                               "cases": ["%s/%d" % c for c in proc_cases]},
        "placements_in_model": len(hists), "placements_per_scheme": per, "schemes": sc.SCHEMES,
        "rule": "placements of client re-creation (any gap) and server restart (gaps after the index upload) over the documented workflow "
                "with %d searches (present / absent / present), all %d emitted by TLC from MC_Workflow; %s per scheme, nine schemes; "
                "non-trivial = at least one search delivered the correct result" % (NSEARCH, len(hists), "all" if per >= len(hists) else "a seeded sample of %d" % per),
        "exhaustive": per >= len(hists),
        "samples": [{"scheme": t["scheme"], "history": t["history"], "events": t["ev"]} for t in traces[:1] + traces[-1:]],
        "model": "spec/fe/ClientSM.tla via MC_Workflow; Trace_ClientSM",
    }
    return finish(PROP, tr, t0, cov, vio_out, seen,
                  assumptions=["real client Service and real server handler in one process over a loopback websocket",
                               "capacity parameters of SSE-1/SSE-2 fitted to the database (param_s, dictionary size, param_n)",
                               "server cleanup delay shortened to one loop iteration"])
