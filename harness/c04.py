"""C04 — the stored index and the tokens never expose keywords or identifiers; encryption of index entries is randomized.

1. TLC checks the term-level constructions of the nine schemes (spec/sse/Terms.tla, Layer B) on the bounded instance
   MC_Terms for every scheme x grid configuration at once: NoPlainLeaf, EntriesDistinct, TwoSetupsDisjoint (Layer A) and
   NoncesFresh, ClassesAllowed, AllKeyed (Layer B) in every state of every behaviour (valid length profiles, one
   identifier under every keyword or not, every split of the CT14 / ANSS16 dummy keywords, two consecutive setups under
   one key, tokens of stored and absent keywords).  A few perturbed views show that each invariant can fail.
2. Every (scheme, configuration, profile, shared) TLC reached is replayed on the real scheme (identifiers >= 8 random
   bytes, keywords 10 random bytes), plus larger random profiles: KeyGen, EDBSetup twice with the same key, TokenGen for
   every stored and some absent keywords.  Recorded per case (nothing is decided here):
     (ii-a) every occurrence of a stored keyword / identifier as a byte substring of EDB.serialize() / Token.serialize()
     (ii-b, ii-c) the ciphertext-bearing items of both indexes (generic walk of the deserialized index)
     (i)   Layer B: the origin class of every byte string of the index and the tokens, from recording proxies put on the
           primitive attributes of the scheme's config object and on os / random as seen from the construction module.
3. TLC judges every case against Trace_Leak: Layer A = the property (violation), Layer B = origin classes / fresh IVs
   (DRIFT only).  No edit of /repo.
"""
import json
import math
import random
import sys
import time

from common import (REPO, MachineryError, b2s, classify, finish, parse_printed, pmap, run_tlc, seed, tier,
                    tla_value, write_replay)
import fe_server as fs
import sse_common as sc
import sse_engine as se

PROP = "C04"
KWLEN = 10              # keyword length used by the driver (bytes)
MIN_ID = 8              # identifiers of at least 8 random bytes
MIN_CT = 32             # the shortest AES-CBC ciphertext: IV + one block (C14)
MIN_ITEM = 16           # a stored entry value of at least one cipher block is compared within / across setups (a randomized
                        # encryption cannot be shorter; on the current tree every such value is an AES-CBC ciphertext >= MIN_CT)
# containers whose values are not ciphertext entries (look-up / hash tables whose values are masks, SSE-2's clear identifiers)
NOT_CT = {"CGKO06.SSE1": {"T"}, "CGKO06.SSE2": {"I"}, "DP17.Pi": {"HT"}}
MC_INVS_A = ["NoPlainLeafInv", "EntriesDistinctInv", "TwoSetupsDisjointInv"]
MC_INVS_B = ["NoncesFreshInv", "ClassesAllowedInv", "AllKeyedInv", "TypeOK"]
VARIANTS = [("const_nonce", "TwoSetupsDisjointInv"), ("zero_padding", "EntriesDistinctInv"), ("debug_field", "NoPlainLeafInv"),
            ("keyword_in_token", "NoPlainLeafInv"), ("bare_hash_label", "AllKeyedInv")]


# ---------------------------------------------------------------------------
# primitive recorders (module-attribute / object-attribute proxies; no edit of /repo)
# ---------------------------------------------------------------------------

class Rec:
    def __init__(self):
        self.calls = []
        self.on = False
        self.placement = 0

    def start(self):
        self.calls = []
        self.placement = 0
        self.on = True

    def stop(self):
        self.on = False
        return self.calls


REC = Rec()


def _tb(x):
    if x is None:
        return b""
    if isinstance(x, (bytes, bytearray)):
        return bytes(x)
    try:
        return bytes(x)             # Bitset
    except Exception:
        return repr(x).encode()


class _FnProxy:
    """prf / prp / hash object of a config: callable, other attributes forwarded"""

    def __init__(self, real, kind, attr):
        object.__setattr__(self, "_real", real)
        object.__setattr__(self, "_kind", kind)
        object.__setattr__(self, "_attr", attr)

    def __call__(self, *a, **kw):
        out = self._real(*a, **kw)
        if REC.on:
            r = {"kind": self._kind, "attr": self._attr, "key": _tb(a[0]) if self._kind != "hash" and a else b"",
                 "inp": _tb(a[-1]) if a else b"", "out": _tb(out), "int": None}
            if self._kind == "prp":
                try:
                    r["int"] = int(out)
                except Exception:
                    pass
            REC.calls.append(r)
        return out

    def __getattr__(self, name):
        return getattr(self._real, name)


class _SkeProxy:
    def __init__(self, real, attr):
        object.__setattr__(self, "_real", real)
        object.__setattr__(self, "_attr", attr)

    def Encrypt(self, key, message, *a, **kw):
        out = self._real.Encrypt(key, message, *a, **kw)
        if REC.on:
            REC.calls.append({"kind": "enc", "attr": self._attr, "key": _tb(key), "inp": _tb(message), "out": _tb(out), "int": None})
        return out

    def KeyGen(self, *a, **kw):
        out = self._real.KeyGen(*a, **kw)
        if REC.on:
            REC.calls.append({"kind": "rand", "attr": self._attr + ".KeyGen", "key": b"", "inp": b"", "out": _tb(out), "int": None})
        return out

    def __getattr__(self, name):
        return getattr(self._real, name)


class _OsProxy:
    """`os` as seen from a construction module"""

    def __init__(self, real):
        self._real = real

    def urandom(self, n):
        out = self._real.urandom(n)
        if REC.on:
            REC.calls.append({"kind": "rand", "attr": "os.urandom", "key": b"", "inp": b"", "out": bytes(out), "int": None})
        return out

    def __getattr__(self, name):
        return getattr(self._real, name)


class _RandomProxy:
    """`random` as seen from a construction module: placement draws are counted, byte strings are recorded"""

    def __init__(self, real):
        self._real = real

    def __getattr__(self, name):
        f = getattr(self._real, name)
        if not callable(f):
            return f

        def g(*a, **kw):
            out = f(*a, **kw)
            if REC.on:
                if isinstance(out, (bytes, bytearray)):
                    REC.calls.append({"kind": "rand", "attr": "random." + name, "key": b"", "inp": b"", "out": bytes(out), "int": None})
                else:
                    REC.placement += 1
            return out
        return g


def _kind_of(name, obj):
    from toolkit.prf.abstraction import AbstractPRF
    from toolkit.prp.abstraction import AbstractPRP, AbstractBitwisePRP
    from toolkit.symmetric_encryption.abstraction import AbstractSymmetricEncryption
    from toolkit.hash import AbstractHash
    if isinstance(obj, AbstractSymmetricEncryption) or (hasattr(obj, "Encrypt") and hasattr(obj, "Decrypt")):
        return "ske"
    if isinstance(obj, AbstractPRF):
        return "prf"
    if isinstance(obj, (AbstractPRP, AbstractBitwisePRP)):
        return "prp"
    if isinstance(obj, AbstractHash):
        return "hash"
    if callable(obj) and not isinstance(obj, type):
        for pre, k in (("prf", "prf"), ("prp", "prp"), ("hash", "hash")):
            if name.startswith(pre):
                return k
    return None


def install(sch):
    """Wrap the primitive attributes of sch.config and os / random of the construction module. -> list of wrapped attrs"""
    cfg = sch.config
    names = list(getattr(type(cfg), "__slots__", ())) + list(getattr(cfg, "__dict__", {}))
    wrapped = []
    for n in dict.fromkeys(names):
        try:
            obj = getattr(cfg, n)
        except AttributeError:
            continue
        if isinstance(obj, (_FnProxy, _SkeProxy)):
            wrapped.append(n)
            continue
        k = _kind_of(n, obj)
        if k == "ske":
            setattr(cfg, n, _SkeProxy(obj, n))
            wrapped.append(n)
        elif k:
            setattr(cfg, n, _FnProxy(obj, k, n))
            wrapped.append(n)
    # (the recorders feed Layer B only: a construction that reaches its primitives or its randomness another way is not a
    # reason to stop; unexplained leaves then show up as DRIFT)
    mod = sys.modules[type(sch).__module__]
    seen = False
    if hasattr(mod, "os"):
        seen = True
        if not isinstance(mod.os, _OsProxy):
            mod.os = _OsProxy(mod.os)
    if hasattr(mod, "random") and not isinstance(mod.random, _RandomProxy):
        mod.random = _RandomProxy(mod.random)
    if hasattr(mod, "urandom"):
        seen = True
        if not getattr(mod.urandom, "_c04", False):
            real = mod.urandom

            def ur(n, _real=real):
                out = _real(n)
                if REC.on:
                    REC.calls.append({"kind": "rand", "attr": "urandom", "key": b"", "inp": b"", "out": bytes(out), "int": None})
                return out
            ur._c04 = True
            mod.urandom = ur
    return wrapped


# ---------------------------------------------------------------------------
# generic walk of an index / token object
# ---------------------------------------------------------------------------

def _slots(obj):
    names = []
    for cls in type(obj).__mro__:
        names += list(getattr(cls, "__slots__", ()))
    names += list(getattr(obj, "__dict__", {}))
    return [n for n in dict.fromkeys(names) if n != "config"]


def _walk(x, tab, role, out, depth=0):
    if isinstance(x, dict):
        for k, v in x.items():
            _walk(k, tab, "k", out, depth + 1)
            _walk(v, tab, "v", out, depth + 1)
    elif isinstance(x, (list, tuple, set, frozenset)):
        for y in x:
            _walk(y, tab, role, out, depth + 1)
    else:
        out.append((tab, role, x))


def walk_obj(obj, tab=None):
    """-> [(container attribute, "k" | "v", leaf)] ; leaves are bytes / int / None / anything else"""
    out = []
    for n in _slots(obj):
        try:
            v = getattr(obj, n)
        except AttributeError:
            continue
        _walk(v, tab or n, "v", out)
    return out


def scalar_attrs(obj):
    """attributes of an index object that hold ONE value (a header, a constant, a counter): not index entries"""
    out = set()
    for n in _slots(obj):
        try:
            v = getattr(obj, n)
        except AttributeError:
            continue
        if not isinstance(v, (dict, list, tuple, set, frozenset)):
            out.add(n)
    return out


def enc_len(m):
    return 16 + 16 * (m // 16 + 1)


def ct_items(scheme, leaves, ctlen, scalars=()):
    """ciphertext-bearing items: every bytes value / element long enough to be a ciphertext, in the containers that hold
    ciphertexts; blocks that concatenate ciphertexts are cut at the ciphertext length."""
    items = []
    skip = set(NOT_CT.get(scheme, set())) | set(scalars)
    for tab, role, x in leaves:
        if role != "v" or tab in skip or not isinstance(x, (bytes, bytearray)) or len(x) < MIN_ITEM:
            continue
        x = bytes(x)
        if ctlen and len(x) > ctlen and len(x) % ctlen == 0:
            items += [x[i:i + ctlen] for i in range(0, len(x), ctlen)]
        else:
            items.append(x)
    return items


# ---------------------------------------------------------------------------
# origin classification (Layer B)
# ---------------------------------------------------------------------------

def _contains_any(hay, needles):
    return any(n in hay for n in needles)


class Origins:
    def __init__(self, calls, key_parts, plain):
        self.plain = [x for x in plain if x]
        self.exact = {}          # output bytes -> (kind, keyed)
        self.ints = {}           # int(prp output) -> keyed
        self.prf_outs = []       # (bytes, keyed)
        self.mask_outs = []      # prf / hash outputs usable as masks: (bytes, keyed)
        keyed_material = [k for k in key_parts if len(k) >= 16]
        keyed_exact = set(keyed_material)

        def key_ok(k):
            if not k:
                return False
            if k in keyed_exact:
                return True
            if len(k) >= 16 and any(k in m for m in keyed_material):
                return True
            return False
        for c in calls:
            kind, out = c["kind"], c["out"]
            if kind == "rand":
                ok = True
            elif kind == "hash":
                ok = any(len(m) >= 16 and m in c["inp"] for m in keyed_material)
            else:
                ok = key_ok(c["key"])
            if ok and len(out) >= 16 and kind in ("prf", "rand"):
                keyed_material.append(out)
                keyed_exact.add(out)
            elif ok and kind in ("prf", "rand"):
                keyed_exact.add(out)
            cls = {"prf": "prf", "prp": "prp", "enc": "enc", "hash": "hash", "rand": "rand"}[kind]
            self.exact.setdefault(out, (cls, ok))
            if c.get("int") is not None:
                self.ints.setdefault(c["int"], ok)
            if kind == "prf":
                self.prf_outs.append((out, ok))
            if kind in ("prf", "hash"):
                self.mask_outs.append((out, ok))
        self.piece_lens = sorted({len(o) for o, (k, _ok) in self.exact.items() if k in ("enc", "rand", "prp") and o}, reverse=True)

    def _parse(self, v, kinds):
        """v as a concatenation of recorded outputs of the given kinds -> list of (kind, keyed) or None"""
        n = len(v)
        # nxt[pos] = (piece length, hit) of the first piece of some complete parse of v[pos:], computed from the end
        # (iteratively: a bucket may be the concatenation of thousands of pieces)
        nxt = {n: None}
        starts = {n}
        for pos in range(n - 1, -1, -1):
            for L in self.piece_lens:
                if pos + L in starts:
                    hit = self.exact.get(v[pos:pos + L])
                    if hit and hit[0] in kinds:
                        nxt[pos] = (L, hit)
                        starts.add(pos)
                        break
        if 0 not in starts:
            return None
        out, pos = [], 0
        while pos != n:
            L, hit = nxt[pos]
            out.append(hit)
            pos += L
        return out

    def classify(self, x):
        if x is None:
            return "none"
        if isinstance(x, bool):
            return "unknown"
        if isinstance(x, int):
            if x in self.ints:
                return "prp" if self.ints[x] else "unkeyed"
            if 0 <= x < 65536:
                return "const"
            try:
                be = x.to_bytes((x.bit_length() + 7) // 8, "big")
            except OverflowError:
                return "unknown"
            if _contains_any(be, self.plain) or _contains_any(be[::-1], self.plain):
                return "plain"
            return "unknown"
        if not isinstance(x, (bytes, bytearray)):
            return "unknown"
        x = bytes(x)
        if _contains_any(x, self.plain):
            return "plain"
        hit = self.exact.get(x)
        if hit:
            return hit[0] if hit[1] else "unkeyed"
        if len(x) >= 8:
            for o, ok in self.prf_outs:
                if len(x) < len(o) and x in o:
                    return "prfpart" if ok else "unkeyed"
        ps = self._parse(x, ("enc", "rand"))
        if ps and len(ps) >= 2:
            return "cat" if all(ok for _k, ok in ps) else "unkeyed"
        for o, ok in self.mask_outs:
            if len(o) == len(x):
                y = bytes(a ^ b for a, b in zip(x, o))
                if y.count(0) * 2 >= len(y) or self._parse(y, ("prp", "rand", "enc")):
                    return "xor" if ok else "unkeyed"
        return "unknown"


# ---------------------------------------------------------------------------
# one case
# ---------------------------------------------------------------------------

def force_ids(cfg):
    cfg = dict(cfg)
    if "param_identifier_size" in cfg and cfg["param_identifier_size"] < MIN_ID:
        cfg["param_identifier_size"] = MIN_ID
    return cfg


def grid(scheme, tr):
    """sse_engine.grid() with identifiers of at least 8 bytes; configurations that coincide after that are kept once"""
    out, seen = [], set()
    for cfg in se.grid(scheme, tr):
        cfg = force_ids(cfg)
        k = json.dumps(cfg, sort_keys=True)
        if k not in seen:
            seen.add(k)
            out.append(cfg)
    return out


def model_ctlen(scheme, sch, idsz):
    if scheme in ("CT14.Pi", "ANSS16.Scheme3"):
        return enc_len(idsz)
    if scheme == "DP17.Pi":
        return enc_len(idsz + sch.config.param_lambda)
    return 0


def run_case(job):
    scheme, cfg, p, sh, seed_ = job["scheme"], job["cfg"], job["p"], job["sh"], job["seed"]
    rnd = random.Random(seed_)
    idsz = job.get("idsz") or sc.id_size_of(cfg)
    kwlen = min(KWLEN, cfg.get("param_l", KWLEN)) if scheme.startswith("CGKO06") else KWLEN
    db = sc.make_db(p, idsz, rnd, kw_len=kwlen, shared_ids=sh)
    cfg = se.fit(scheme, cfg, p, db)
    kws = list(db)
    ids = list(dict.fromkeys(x for v in db.values() for x in v))
    rec = {"scheme": scheme, "p": list(p), "sh": bool(sh), "c": {}, "kwlens": [len(k) for k in kws], "idlen": min(len(x) for x in ids),
           "neglog2": 0, "setup1": "raised", "setup2": "raised", "nkw": len(kws), "nid": len(ids), "ntok": 0, "hits": [],
           "ct1": [], "ct2": [], "ctlen": 0, "leaves": [], "ivs": [], "qhits": 0}
    info = {"cfg": cfg, "seed": seed_, "err": "", "wrapped": [], "unknown": [], "ser_len": 0, "placement": 0, "ncalls": 0,
            "shared_id_entries": 0}
    rec["c"] = se.numbers(scheme, cfg)
    ml = sc.load(scheme)
    sch = ml.SSEScheme(cfg)
    info["wrapped"] = install(sch)
    key = sch.KeyGen()
    key_parts = [v for _t, _r, v in walk_obj(key) if isinstance(v, (bytes, bytearray))]
    edbs, sers, calls = [], [], []
    # "encrypting the same database twice under the same key": every other case does the second setup with a scheme
    # object of its own (same configuration, same key), as a second run of the program would
    fresh2 = job.get("fresh2", seed_ % 2 == 1)
    info["fresh2"] = bool(fresh2)
    reseed = seed_ % 3 == 0
    info["reseed"] = reseed
    for i in (1, 2):
        if i == 2 and fresh2:
            sch = ml.SSEScheme(cfg)
            install(sch)
        if reseed:
            # a caller that wants reproducible runs seeds the GLOBAL generator of the random module before every setup:
            # whatever draws placement from it repeats itself - the encryption must not
            random.seed(20240607)
        REC.start()
        try:
            edb = sch.EDBSetup(key, db)
            ser = edb.serialize()
            rec["setup%d" % i] = "built"
        except Exception as ex:      # an observation (the trace spec calls it "not observable")
            info["err"] = "%s: %s" % (type(ex).__name__, str(ex)[:100])
            REC.stop()
            return rec, info
        finally:
            calls += REC.stop()
        info["placement"] += REC.placement
        try:
            edb_u = type(edb).deserialize(ser, sch.config)      # what is stored / sent is what is looked at
        except Exception:
            edb_u = edb
        edbs.append(edb_u)
        sers.append(ser)
    # tokens of every stored keyword and of a few absent ones
    toks = []
    REC.start()
    try:
        for w in kws:
            toks.append(("present", w, sch.TokenGen(key, w)))
        for cls, w in se.absent_keywords(db, rnd, scheme, cfg)[:4]:
            toks.append((cls, w, sch.TokenGen(key, w)))
    except Exception as ex:
        info["err"] = "TokenGen %s: %s" % (type(ex).__name__, str(ex)[:100])
        rec["setup2"] = "token-raised"
        REC.stop()
        return rec, info
    tcalls = REC.stop()
    tsers = [(cls, w, t.serialize()) for cls, w, t in toks]
    rec["ntok"] = len(tsers)
    # (ii-a) substring occurrences
    hay = [("edb1", 0, sers[0]), ("edb2", 0, sers[1])] + [("token", i + 1, s) for i, (_c, _w, s) in enumerate(tsers)]
    bound = 0.0
    exempt_id = scheme == "CGKO06.SSE2"
    for what, needles in (("kw", kws), ("id", ids)):
        for j, nd in enumerate(needles):
            for wh, t, h in hay:
                if nd in h:
                    rec["hits"].append({"what": what, "i": j + 1, "wh": wh, "t": t})
                if not (what == "id" and exempt_id):
                    bound += max(0, len(h) - len(nd) + 1) * 256.0 ** (-len(nd))
    rec["neglog2"] = int(math.floor(-math.log2(bound))) if bound > 0 else 999
    rec["qhits"] = sum(1 for cls, w, s in tsers if cls != "present" and w in s)
    info["ser_len"] = len(sers[0])
    # (ii-b), (ii-c) ciphertext-bearing items
    ctlen = model_ctlen(scheme, sch, idsz)
    rec["ctlen"] = ctlen
    leaves = [walk_obj(e) for e in edbs]
    rec["ct1"] = [b2s(x) for x in ct_items(scheme, leaves[0], ctlen, scalar_attrs(edbs[0]))]
    rec["ct2"] = [b2s(x) for x in ct_items(scheme, leaves[1], ctlen, scalar_attrs(edbs[1]))]
    # (i) origin classes, Layer B
    org = Origins(calls + tcalls, key_parts, kws + ids + [w for c_, w, _s in tsers if c_ != "present"])
    cnt = {}
    for lv in leaves:
        for tab, role, x in lv:
            cl = org.classify(x)
            cnt[(tab, role, cl)] = cnt.get((tab, role, cl), 0) + 1
            if cl in ("unknown", "unkeyed") and len(info["unknown"]) < 5:
                info["unknown"].append({"tab": tab, "role": role, "cls": cl, "leaf": _tb(x).hex()[:96] if not isinstance(x, int) else str(x)[:96]})
    for _cls, _w, t in toks:
        for _tab, role, x in walk_obj(t, "token"):
            cl = org.classify(x)
            cnt[("token", "v", cl)] = cnt.get(("token", "v", cl), 0) + 1
            if cl in ("unknown", "unkeyed") and len(info["unknown"]) < 5:
                info["unknown"].append({"tab": "token", "role": "v", "cls": cl, "leaf": _tb(x).hex()[:96] if not isinstance(x, int) else str(x)[:96]})
    rec["leaves"] = [{"tab": a, "role": b, "cls": c, "n": n} for (a, b, c), n in sorted(cnt.items())]
    rec["ivs"] = [b2s(c["out"][:16]) for c in calls if c["kind"] == "enc"]
    info["ncalls"] = len(calls) + len(tcalls)
    if sh:
        info["shared_id_entries"] = sum(len(v) for v in db.values()) - len(ids)
    return rec, info


# ---------------------------------------------------------------------------
# model
# ---------------------------------------------------------------------------

def cfg_wrapper(grids):
    pairs = []
    for s, g in grids.items():
        for gi, cfg in enumerate(g):
            probe_db = {b"k": [b"\x01" * sc.id_size_of(cfg)]}
            c = se.numbers(s, se.fit(s, cfg, [1], probe_db))
            pairs.append('<<"%s", %d>> :> %s' % (s, gi, se.tla_literal(c)))
    return "---- MODULE MCT ----\nEXTENDS MC_Terms\nCfgDef == " + "\n @@ ".join(pairs) + "\n====\n"


def run_model(grids, maxkw, maxn, variant="code", invs=None, allow_violation=False, name="terms"):
    invs = invs or (MC_INVS_A + MC_INVS_B + ["Emit"])
    cfgtxt = ('CONSTANTS Cfgs <- CfgDef\nMaxKw = %d\nMaxN = %d\nVariant = "%s"\nSPECIFICATION Spec\n%sCHECK_DEADLOCK FALSE\n'
              % (maxkw, maxn, variant, "".join("INVARIANT %s\n" % i for i in invs)))
    return run_tlc("MCT", cfgtxt, workers=4, extra_modules={"MCT": cfg_wrapper(grids)}, name=name, heap="2g",
                   coverage=(variant == "code"), allow_violation=allow_violation, timeout=1500)


def model(tr, grids):
    # N = 9 would give CT14 / ANSS16 a gap of 7 dummy postings: 64 splits per setup, squared over the two setups
    maxkw, maxn = (3, 7) if tr == "quick" else (4, 8)
    r = run_model(grids, maxkw, maxn)
    for a in ("Init", "Dummy", "StartEnc", "EncKeyword", "Pad", "NextSetup", "Tokens"):
        if not r.coverage.get(a):
            raise MachineryError("MC_Terms: action %s never taken (%s)" % (a, r.coverage))
    emitted, classes = {}, {}
    for raw in parse_printed(r.out, "H"):
        v = tla_value(raw)
        s, gi, p, sh = v[1], v[2], tuple(v[3]), bool(v[4])
        emitted[(s, gi, p, sh)] = {"nct": v[6], "nonces": v[8]}
        classes.setdefault(s, set()).update(tuple(x) for x in v[5])
    for s in grids:
        if not classes.get(s):
            raise MachineryError("MC_Terms emitted nothing for %s" % s)
        if not any(k[0] == s and k[3] for k in emitted) or not any(k[0] == s and not k[3] for k in emitted):
            raise MachineryError("MC_Terms: shared / unshared profiles missing for %s" % s)
    # sensitivity of the invariants: each perturbed view must violate the invariant it targets
    sens = []
    small = {s: g[:1] for s, g in grids.items()}
    for variant, inv in (VARIANTS if tr == "thorough" else VARIANTS[:3]):
        rv = run_model(small, 2, 4, variant=variant, invs=[inv], allow_violation=True, name="terms-" + variant)
        if rv.violated != inv:
            raise MachineryError("MC_Terms variant %s does not violate %s (violated: %s)" % (variant, inv, rv.violated))
        sens.append({"variant": variant, "violates": inv})
    return r, emitted, classes, sens, (maxkw, maxn)


# ---------------------------------------------------------------------------
# main
# ---------------------------------------------------------------------------

def validate_layers(traces, name, shards):
    """prim_common.validate_layers with a bounded number of concurrent JVMs: Layer B first; traces rejected only by a
    "B:" clause are judged again against Layer A alone.  -> (rejA, drift, agg)"""
    from common import validate_traces
    vb, agg = validate_traces("Trace_Leak", traces, consts='CONSTANT Layer = "B"\n', name=name + "-B", shards=shards)
    rej_a, drift, again = {}, {}, []
    by_tid = {t["tid"]: t for t in traces}
    for tid, v in vb.items():
        if v["ok"]:
            continue
        if v["clause"].startswith("B:"):
            again.append(by_tid[tid])
            drift[tid] = v
        else:
            rej_a[tid] = v
    if again:
        va, agg2 = validate_traces("Trace_Leak", again, consts='CONSTANT Layer = "A"\n', name=name + "-A", shards=shards)
        agg["generated"] += agg2["generated"]
        agg["distinct"] += agg2["distinct"]
        for tid, v in va.items():
            if not v["ok"]:
                rej_a[tid] = v
                drift.pop(tid, None)
    return rej_a, drift, agg



def random_profiles(s, cfg, rnd, tr):
    """larger profiles than the model instance: many keywords sharing one identifier pool"""
    out = []
    reps = 2 if tr == "quick" else 10
    for _ in range(reps):
        k = rnd.randint(4, 9)
        p = [rnd.choice([1, 2, 3, 4, 5, rnd.randint(1, 12)]) for _ in range(k)]
        if s == "CGKO06.SSE1":
            while sum(p) >= cfg["param_s"] or len(p) > cfg["param_dictionary_size"]:
                p.pop()
                if not p:
                    break
        if s == "CJJ14.Pi2Lev":
            lim = cfg["param_B"] * cfg["param_B_prime"] * cfg["param_b_prime"]
            p = [min(x, lim - 1) for x in p]
        if p:
            out.append((p, True))
            out.append((list(reversed(p)), False))
    return out


def describe(rec, info):
    return "%s cfg=%s profile=%s shared=%s seed=%s" % (rec["scheme"], {k: v for k, v in info["cfg"].items() if k.startswith("param")},
                                                    rec["p"], rec["sh"], info["seed"])


def main(argv_tier=None, replay_path=None):
    t0 = time.time()
    tr = tier(argv_tier)
    fs.setup_env(REPO)
    if replay_path:
        with open(replay_path) as fh:
            rp = json.load(fh)
        rec, info = run_case({"scheme": rp["scheme"], "cfg": rp["cfg"], "p": rp["p"], "sh": rp["sh"], "seed": rp["seed"],
                              "idsz": rp.get("idsz"), **({"fresh2": rp["fresh2"]} if "fresh2" in rp else {})})
        rej, drift, _ = validate_layers([{"tid": "replay", "ev": [rec]}], "c04-replay", 1)
        small = dict(rec, ct1=len(rec["ct1"]), ct2=len(rec["ct2"]), ivs=len(rec["ivs"]))
        print(json.dumps(small, indent=1)[:3000])
        print(json.dumps(info, indent=1, default=str)[:1500])
        print("verdict:", rej or "ACCEPT", "drift:", drift or "none")
        return 1 if rej else 0

    grids = {s: grid(s, tr) for s in sc.SCHEMES}
    r, emitted, classes, sens, bounds = model(tr, grids)
    rnd = random.Random(seed() * 1000003 + 4)
    jobs = []
    for (s, gi, p, sh) in sorted(emitted):
        jobs.append({"scheme": s, "gi": gi, "cfg": grids[s][gi], "p": list(p), "sh": sh, "src": "model"})
        if len(set(p)) > 1 and sh:
            q = list(p)
            rnd.shuffle(q)
            jobs.append({"scheme": s, "gi": gi, "cfg": grids[s][gi], "p": q, "sh": sh, "src": "model-shuffled"})
    for s in sc.SCHEMES:
        for gi, cfg in enumerate(grids[s]):
            for p, sh in random_profiles(s, cfg, rnd, tr):
                jobs.append({"scheme": s, "gi": gi, "cfg": cfg, "p": p, "sh": sh, "src": "random"})
        # the default configuration (as the repository's tests use it), identifiers >= 8 bytes
        d = force_ids(sc.default_config(s))
        if s == "CGKO06.SSE1":
            d = dict(d, param_s=64, param_dictionary_size=16)
        elif s == "CGKO06.SSE2":
            d = dict(d, param_dictionary_size=16)
        for p, sh in ([([3, 3, 2, 1], True), ([5, 1, 4], False)] if tr == "quick" else random_profiles(s, dict(d), rnd, tr)[:6]):
            jobs.append({"scheme": s, "gi": -1, "cfg": d, "p": p, "sh": sh, "src": "default"})
    # a randomness source that hands out a recycled pool of IVs repeats itself between two setups exactly when the number of
    # encryptions of one setup is a multiple of the pool size: databases with 2^10 (thorough: 2^12) postings, second setup
    # with the same scheme object and with a fresh one
    npool = 1024 if tr == "quick" else 4096
    for s in ("CJJ14.PiBas", "CJJ14.PiPack", "CJJ14.PiPtr", "CT14.Pi", "ANSS16.Scheme3", "DP17.Pi"):
        d = dict(force_ids(sc.default_config(s)))
        if "param_B" in d:
            d["param_B"] = 1
        if "param_identifier_size" in d:
            d["param_identifier_size"] = 16         # keeps the chance-occurrence bound below 2^-40 with this many identifiers
        # (CT14 / ANSS16 / DP17 store long concatenations: at 2^12 postings one record is 25 - 47 MB and TLC needs minutes
        # for it; they stay at 2^10 in both tiers)
        np_s = npool if s.startswith("CJJ14") else 1024
        for fresh2 in (False, True):
            jobs.append({"scheme": s, "gi": -3, "cfg": d, "p": [np_s // 16] * 16, "sh": False, "src": "pool", "fresh2": fresh2,
                         "idsz": 16})
    if tr == "thorough":
        # larger databases (the sizes of the repository's own tests, scaled down), 16-byte identifiers to keep the chance bound
        for s in sc.SCHEMES:
            d = dict(force_ids(sc.default_config(s)))
            if "param_identifier_size" in d:
                d["param_identifier_size"] = 16
            if s == "CGKO06.SSE1":
                d.update(param_s=512, param_dictionary_size=32)
            elif s == "CGKO06.SSE2":
                d.update(param_dictionary_size=32)
            elif s.startswith("CJJ14") and "param_B" in d:
                d.update({k: 4 for k in ("param_B", "param_b", "param_B_prime", "param_b_prime") if k in d})
            for r_ in range(6):
                k = rnd.randint(10, 20)
                p = [rnd.choice([1, 2, 3, 7, 8, 9, rnd.randint(1, 24)]) for _ in range(k)]
                jobs.append({"scheme": s, "gi": -2, "cfg": d, "p": p, "sh": r_ % 2 == 0, "src": "large"})
    sd = seed()
    for i, j in enumerate(jobs):
        j["seed"] = sd * 1000003 + i
    res = pmap(run_case, jobs)
    traces = [{"tid": "k%d" % i, "ev": [rec]} for i, (rec, _info) in enumerate(res)]
    rej_a, drift, agg = validate_layers(traces, "c04", 2 if tr == "quick" else 3)      # few JVMs at a time: the machine is shared
    # cases outside the property's domain or unobservable are machinery failures, not verdicts
    for tid, v in rej_a.items():
        i = int(tid[1:])
        if v["clause"] in ("ValidDomain", "NonVacuous"):
            raise MachineryError("case %s rejected by %s: %s neglog2=%s nct=%s/%s" % (
                tid, v["clause"], describe(*res[i]), res[i][0]["neglog2"], len(res[i][0]["ct1"]), len(res[i][0]["ct2"])))
    # a setup that raises on a valid database is C01's finding; here it only means that nothing could be observed
    unobs = sorted((tid for tid, v in rej_a.items() if v["clause"] == "Observable"), key=lambda t: int(t[1:]))
    for tid in unobs[:5]:
        print("UNOBSERVABLE property=%s %s: %s" % (PROP, describe(*res[int(tid[1:])]), res[int(tid[1:])][1]["err"]))
    for s in sc.SCHEMES:
        if not any(rec["scheme"] == s and rec["setup1"] == "built" and rec["setup2"] == "built" for rec, _i in res):
            raise MachineryError("no observable case for %s (every setup / token generation raised): %s" % (
                s, next((i["err"] for r_, i in res if r_["scheme"] == s), "")))
    rej = []
    for tid, v in sorted(rej_a.items(), key=lambda kv: int(kv[0][1:])):
        i = int(tid[1:])
        if v["clause"] == "Observable":
            continue
        rec, info = res[i]
        rej.append({"key": "%s:%s" % (rec["scheme"], v["clause"]), "i": i, "verdict": v})
    viol, seen = classify(PROP, rej)
    vio_out = []
    for x in viol:
        rec, info = res[x["i"]]
        path = ""
        if len(vio_out) < 20:
            path = write_replay(PROP, "%s-%d" % (rec["scheme"].replace(".", "_"), len(vio_out)),
                                {"scheme": rec["scheme"], "cfg": info["cfg"], "p": rec["p"], "sh": rec["sh"], "seed": info["seed"],
                                 "idsz": rec["idlen"], "fresh2": info.get("fresh2", False),
                                 "verdict": x["verdict"], "hits": rec["hits"][:20], "err": info["err"],
                                 "n_ct": [len(rec["ct1"]), len(rec["ct2"])]})
        vio_out.append(("%s clause=%s %s" % (describe(rec, info), x["verdict"]["clause"], info["err"]), path))
    dl = []
    for tid, v in sorted(drift.items()):
        rec, info = res[int(tid[1:])]
        dl.append({"tid": tid, "clause": v["clause"], "case": describe(rec, info), "leaves": info["unknown"]})
    for d in dl[:10]:
        print("DRIFT property=%s clause=%s %s %s" % (PROP, d["clause"], d["case"], d["leaves"][:2]))
    if len(dl) > 10:
        print("DRIFT property=%s ... %d more" % (PROP, len(dl) - 10))
    # measured coverage
    ok = [(rec, info) for rec, info in res if rec["setup1"] == "built" and rec["setup2"] == "built"]
    if not ok:
        raise MachineryError("no case built an index")
    seen_classes = {}
    for rec, _info in ok:
        for lf in rec["leaves"]:
            seen_classes.setdefault(rec["scheme"], set()).add((lf["tab"], lf["role"], lf["cls"]))
    missing = {s: sorted(classes[s] - seen_classes.get(s, set())) for s in classes if classes[s] - seen_classes.get(s, set())}
    if missing and not dl and not vio_out:
        raise MachineryError("origin classes of the model never observed on the real code: %s" % missing)
    worst = min(rec["neglog2"] for rec, _ in ok)
    nct = sum(len(rec["ct1"]) + len(rec["ct2"]) for rec, _ in ok)
    sample = next((rec for rec, info in ok if rec["sh"] and len(rec["p"]) >= 2), ok[0][0])
    sample_small = dict(sample, ct1=sample["ct1"][:2], ct2=sample["ct2"][:2], ivs=sample["ivs"][:2])
    cov = {
        "states": r.distinct, "transitions": r.generated, "model_actions": r.coverage,
        "model_bounds": {"MaxKw": bounds[0], "MaxN": bounds[1], "configurations": sum(len(g) for g in grids.values())},
        "model_invariants": MC_INVS_A + MC_INVS_B, "model_sensitivity": sens,
        "model_behaviours_emitted": len(emitted),
        "traces_validated_against_impl": len(traces), "trace_validation_states": agg["distinct"],
        "evaluations": len(res),
        "distinct_nontrivial": len({(rec["scheme"], json.dumps(info["cfg"], sort_keys=True), tuple(rec["p"]), rec["sh"]) for rec, info in ok
                                    if rec["nkw"] >= 1 and (rec["ct1"] or rec["scheme"] == "CGKO06.SSE2")}),
        "rule": "cases = (scheme, grid configuration with identifiers >= 8 bytes, length profile, shared identifiers or not): every case the bounded "
                "MC_Terms instance reaches (plus one shuffled keyword order), random larger profiles, and the default configurations; per case two "
                "setups under one key and tokens of all stored and up to four absent keywords; evaluations = cases run; non-trivial = distinct cases "
                "in which both setups built an index with at least one ciphertext-bearing item (SSE-2: at least one entry)",
        "cases_by_source": {k: sum(1 for j in jobs if j["src"] == k) for k in ("model", "model-shuffled", "random", "default", "large")},
        "cases_shared_identifier": sum(1 for rec, _ in ok if rec["sh"] and len(rec["p"]) >= 2),
        "unobservable_cases": len(unobs),
        "needles_searched": sum(rec["nkw"] + rec["nid"] for rec, _ in ok),
        "tokens_searched": sum(rec["ntok"] for rec, _ in ok),
        "ciphertext_items_compared": nct,
        "primitive_calls_recorded": sum(info["ncalls"] for _r, info in ok),
        "chance_bound": {"worst_case_neglog2": worst,
                         "formula": "sum over searched keywords and identifiers x, over the two serialized indexes and all serialized tokens h, of "
                                    "max(0, |h| - |x| + 1) * 256^-|x| (keywords %d bytes, identifiers >= %d bytes); every case has a bound below 2^-40 "
                                    "(checked by Trace_Leak!InDomain); two random 16-byte IVs / 32-byte paddings coincide with probability < 2^-100 per case"
                                    % (KWLEN, MIN_ID)},
        "origin_classes_observed": {s: sorted("%s.%s=%s" % x for x in v) for s, v in sorted(seen_classes.items())},
        "drift": dl[:20], "drift_count": len(dl),
        "samples": [sample_small],
        "exhaustive": False,
        "model": "spec/sse/Terms.tla (Layer A: Visible, NoPlainLeaf, EntriesDistinct, TwoSetupsDisjoint; Layer B: nine term-level constructions, "
                 "AllowedClass, Keyed) via MC_Terms; trace spec Trace_Leak",
    }
    return finish(PROP, tr, t0, cov, vio_out, seen, assumptions=[
        "'no leak' is decided at the level of byte occurrence (real runs) and of term structure (model), not computational indistinguishability; "
        "PRF, PRP, hash and encryption are ideal in the model",
        "ciphertext-bearing items = every bytes value / element of at least 16 bytes (one cipher block) in the deserialized index, except the containers whose values are "
        "masks or clear identifiers by design (SSE-1 T, DP17 HT, SSE-2 I); CT14 / ANSS16 / DP17 blocks are cut at the ciphertext length",
        "keys come from the real KeyGen; both setups use the same key object and the same database; keywords and identifiers are random bytes "
        "(first byte non-zero)",
        "origin classification (Layer B, drift only) relies on the config object holding its primitives as attributes and the construction module "
        "reaching randomness through its module attributes os / random",
    ])
