"""File-system interposition for crash-point enumeration (C13) and FS-operation recording.

Wraps builtins.open (write modes), os.mkdir, os.unlink, os.replace/rename, shutil.rmtree for paths below
registered component roots. Every mutation gets a sequence number per component. A crash plan
(component, k, when, resolution) makes the component "die" immediately before or after its k-th
mutation: a CrashNow (BaseException) is raised and from then on every mutation of that component is
refused (a dead process writes nothing) until revive(). Files open for writing buffer their data in
memory until close (as Python's buffered writers do for small files); at a crash such a file is left as
the plan's resolution says: "empty" (only the truncating open happened), "partial" (a strict prefix
reached the disk) or "full" (everything written so far reached the disk).
"""
import builtins
import io
import os
import shutil

_real_open = builtins.open
_real_io_open = io.open
_real_fsync = os.fsync
_real_fdatasync = getattr(os, "fdatasync", None)
_real_mkdir = os.mkdir
_real_unlink = os.unlink
_real_replace = os.replace
_real_rename = os.rename
_real_rmtree = shutil.rmtree


class CrashNow(BaseException):
    pass


class Component:
    def __init__(self, name, root):
        self.name = name
        self.root = os.path.realpath(str(root))
        self.count = 0
        self.log = []            # (k, op, relpath)
        self.plan = None         # (k, when, resolution)
        self.dead = False
        self.crashed_at = None
        self.open_files = []


_components = []
_installed = False
EXIT_MODE = False       # child-process mode: a crash is os._exit(137) and files are real (really buffered) file objects


def register(name, root):
    c = Component(name, root)
    _components.append(c)
    return c


def clear():
    del _components[:]


def _comp(path):
    try:
        p = os.path.realpath(os.fspath(path))
    except TypeError:
        return None, None
    for c in _components:
        if p == c.root or p.startswith(c.root + os.sep):
            return c, os.path.relpath(p, c.root)
    return None, None


def _crash(c, k, when):
    if EXIT_MODE:
        os._exit(137)           # the process is gone: buffered data that was not flushed never reaches the disk
    c.dead = True
    c.crashed_at = (k, when)
    res = c.plan[2] if c.plan else "empty"
    for f in list(c.open_files):
        f._resolve(res)
    c.open_files = []
    raise CrashNow("%s crashed %s op %d" % (c.name, when, k))


def _mutation(c, op, rel, do):
    """Run one FS mutation `do()` of component c with crash-plan handling."""
    if c.dead:
        raise CrashNow("%s is dead" % c.name)
    c.count += 1
    k = c.count
    c.log.append((k, op, rel))
    if c.plan and c.plan[0] == k and c.plan[1] == "before":
        _crash(c, k, "before")
    r = do()
    if c.plan and c.plan[0] == k and c.plan[1] == "after":
        _crash(c, k, "after")
    return r


class BufferedWriteFile:
    """Write-mode file whose data reaches the disk at close (or, at a crash, as the plan resolves)."""

    def __init__(self, comp, rel, path, mode, kwargs):
        self.c = comp
        self.rel = rel
        self.path = path
        self.binary = "b" in mode
        self.kwargs = kwargs
        self.buf = []
        self.closed = False
        self.mode = mode
        self.name = path
        self.real = _real_open(path, "wb")     # the truncating / creating open is visible at once; kept open like a real descriptor
        self.synced = 0                        # bytes already forced to the disk by an fsync

    def write(self, data):
        if self.c.dead:
            raise CrashNow("%s is dead" % self.c.name)
        n = len(data)

        def do():
            self.buf.append(data)
        _mutation(self.c, "write", self.rel, do)
        return n

    def _data(self):
        if self.binary:
            return b"".join(bytes(x) for x in self.buf)
        return "".join(self.buf).encode(self.kwargs.get("encoding") or "utf8")

    def _resolve(self, res):
        data = self._data()
        if res == "empty":
            data = b""
        elif res == "partial":
            data = data[:max(0, len(data) // 2)]
        # through the descriptor opened at open time: the data goes to the INODE, wherever it has been renamed to meanwhile
        self.real.write(data)
        self.real.close()
        self.closed = True

    def flush(self):
        pass

    def writelines(self, lines):
        for x in lines:
            self.write(x)

    def tell(self):
        return len(self._data()) + self.synced

    def _fsync(self):
        """flush + os.fsync(fileno()): what has been written so far is on the disk and stays there whatever happens next"""
        def do():
            data = self._data()
            self.real.write(data)
            self.real.flush()
            self.synced += len(data)
            self.buf = []
        _mutation(self.c, "fsync", self.rel, do)

    def close(self):
        if self.closed:
            return
        if self.c.dead:          # unwinding after the crash: nothing more reaches the disk
            self.closed = True
            try:
                self.real.close()
            except Exception:
                pass
            return

        def do():
            self.real.write(self._data())
            self.real.close()
            # the file is complete and closed now: a crash right AFTER the close must not touch it any more
            self.closed = True
            if self in self.c.open_files:
                self.c.open_files.remove(self)
        try:
            _mutation(self.c, "close", self.rel, do)
        finally:
            self.closed = True
            if self in self.c.open_files:
                self.c.open_files.remove(self)

    def __enter__(self):
        return self

    def __exit__(self, *a):
        self.close()
        return False

    def writable(self):
        return True

    def readable(self):
        return False

    def fileno(self):
        return self.real.fileno()


def _fsync(fd):
    for c in _components:
        for f in c.open_files:
            if not f.closed and f.real.fileno() == fd:
                return f._fsync()
    return _real_fsync(fd)


class CountingRealFile:
    """child-process mode: the real (buffered) file object; write and close are counted as mutations"""

    def __init__(self, comp, rel, f):
        self.c, self.rel, self.f = comp, rel, f

    def write(self, data):
        return _mutation(self.c, "write", self.rel, lambda: self.f.write(data))

    def close(self):
        if not self.f.closed:
            _mutation(self.c, "close", self.rel, self.f.close)

    def flush(self):
        self.f.flush()

    def __enter__(self):
        return self

    def __exit__(self, *a):
        self.close()
        return False

    def __getattr__(self, name):
        return getattr(self.f, name)


def _open(file, mode="r", *args, **kwargs):
    if isinstance(file, int) or not any(ch in mode for ch in "wax+"):
        return _real_open(file, mode, *args, **kwargs)
    c, rel = _comp(file)
    if c is None:
        return _real_open(file, mode, *args, **kwargs)
    if "w" not in mode or "+" in mode:
        # append / exclusive / update modes are not used by the persisting handlers; count them as one mutation
        return _mutation(c, "open:" + mode, rel, lambda: _real_open(file, mode, *args, **kwargs))
    path = os.fspath(file)
    if len(args) >= 2 and "encoding" not in kwargs:
        kwargs["encoding"] = args[1]

    def do():
        if EXIT_MODE:
            return CountingRealFile(c, rel, _real_open(file, mode, *args, **kwargs))
        f = BufferedWriteFile(c, rel, path, mode, kwargs)
        c.open_files.append(f)
        return f
    return _mutation(c, "open_w", rel, do)


def _wrap1(op, real):
    def f(path, *a, **kw):
        c, rel = _comp(path)
        if c is None:
            return real(path, *a, **kw)
        return _mutation(c, op, rel, lambda: real(path, *a, **kw))
    return f


def _wrap2(op, real):
    def f(src, dst, *a, **kw):
        c, rel = _comp(dst)
        if c is None:
            return real(src, dst, *a, **kw)
        return _mutation(c, op, rel, lambda: real(src, dst, *a, **kw))
    return f


def install():
    global _installed
    if _installed:
        return
    builtins.open = _open
    io.open = _open              # pathlib's Path.open / write_bytes / write_text go through io.open
    os.fsync = _fsync
    if _real_fdatasync:
        os.fdatasync = _fsync
    os.mkdir = _wrap1("mkdir", _real_mkdir)
    os.unlink = _wrap1("unlink", _real_unlink)
    os.remove = _wrap1("unlink", _real_unlink)
    os.replace = _wrap2("replace", _real_replace)
    os.rename = _wrap2("rename", _real_rename)
    shutil.rmtree = _wrap1("rmtree", _real_rmtree)
    _installed = True


def uninstall():
    global _installed
    builtins.open = _real_open
    io.open = _real_io_open
    os.fsync = _real_fsync
    if _real_fdatasync:
        os.fdatasync = _real_fdatasync
    os.mkdir = _real_mkdir
    os.unlink = _real_unlink
    os.remove = _real_unlink
    os.replace = _real_replace
    os.rename = _real_rename
    shutil.rmtree = _real_rmtree
    _installed = False


def revive(c):
    """Process restart: the component may write again; counters continue, the plan is consumed."""
    c.dead = False
    c.plan = None
    c.open_files = []
