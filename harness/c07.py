"""C07 — setup and search leave their inputs intact; searches repeat in any order.

Layer A: spec/sse/History.tla (over SSEFunctional): Construct / Setup have db' = db, cfg' = cfg, key' = key; Search has
edb' = edb, token' = token; result(w) is a function of w alone (correct, equal to the single-search answer, equal at every
occurrence).  MC_History: TLC enumerates every sequence of <= 4 (quick) / 6 (thorough) searches over {two stored keywords,
an absent one, a proper prefix of a stored one} as histories, checks LayerA / Consequence on the pure model implementation
and that History rejects the consuming / caching / token-mutating / caller-popping ones.
Binding: for every scheme x sse_engine.grid() configuration x a few profiles of the bounded MC_Profiles instance x emitted
sequence, the real constructor, KeyGen, EDBSetup, TokenGen, Search run once; deep copies of the database, of the
configuration dict and of the module's DEFAULT_CONFIG, and K.serialize(), are taken before and digested after every step
next to the live objects; EDB.serialize() and Token.serialize() are digested before / after every search.  One trace per
(case, sequence); TLC (Trace_History) judges.
"""
import copy
import hashlib
import json
import random
import time

from common import (REPO, MachineryError, classify, finish, parse_printed, pmap, run_tlc, seed, tier, tla_value,
                    validate_traces, write_replay)
import fe_server as fs
import sse_common as sc
import sse_engine as se

PROP = "C07"
SYMS = ["p1", "p2", "ab", "near"]


# ----------------------------------------------------------------------------- canonical values
def _canon(x, h):
    """order-insensitive for dicts and sets (deep EQUALITY is what the property asks for), exact for everything else"""
    if isinstance(x, dict):
        items = []
        for k, v in x.items():
            hk, hv = hashlib.sha256(), hashlib.sha256()
            _canon(k, hk)
            _canon(v, hv)
            items.append(hk.digest() + hv.digest())
        h.update(b"D%d:" % len(items))
        for it in sorted(items):
            h.update(it)
    elif isinstance(x, (set, frozenset)):
        items = []
        for v in x:
            hv = hashlib.sha256()
            _canon(v, hv)
            items.append(hv.digest())
        h.update(b"S%d:" % len(items))
        for it in sorted(items):
            h.update(it)
    elif isinstance(x, (list, tuple)):
        h.update((b"L%d:" if isinstance(x, list) else b"T%d:") % len(x))
        for v in x:
            _canon(v, h)
    elif isinstance(x, (bytes, bytearray)):
        h.update(b"B%d:" % len(x))
        h.update(bytes(x))
    else:
        r = (type(x).__name__ + ":" + repr(x)).encode()
        h.update(b"O%d:" % len(r))
        h.update(r)


def dg(x):
    h = hashlib.sha256()
    try:
        _canon(x, h)
    except Exception as ex:       # an object that cannot even be walked any more is a different value
        return "ERR:" + type(ex).__name__
    return h.hexdigest()[:20]


def dgcall(f):
    try:
        return dg(f())
    except Exception as ex:
        return "ERR:" + type(ex).__name__


# ----------------------------------------------------------------------------- one (case, sequence)
def make_case_db(scheme, cfg, profile, rnd):
    idsz = sc.id_size_of(cfg)
    kwlen = None
    if "param_l" in cfg and scheme.startswith("CGKO06"):
        kwlen = rnd.randint(2, max(2, min(cfg["param_l"], 10)))
    for _ in range(50):
        db = sc.make_db(profile, idsz, rnd, kw_len=kwlen)
        kws = list(db)
        i1, i2 = rnd.sample(range(len(kws)), 2)
        if sum(profile) > 500:
            # a large database: the keyword with the longest list and the one with the shortest are the two that are searched
            i1 = max(range(len(kws)), key=lambda i: (profile[i], -i))
            i2 = min(range(len(kws)), key=lambda i: (profile[i], i))
        near = kws[i1][:-1]
        if not near or near in db:
            continue
        while True:
            ab = sc.rand_kw(rnd, len(kws[i1]))
            if ab not in db and ab != near:
                break
        return db, {"p1": kws[i1], "p2": kws[i2], "ab": ab, "near": near}, {"p1": profile[i1], "p2": profile[i2], "ab": 0, "near": 0}
    raise MachineryError("could not build a database with a usable near-absent keyword")


def positions(res, exp):
    return sc.result_positions(sc.ordered(res, exp), exp)


def run_history(job):
    scheme, gi, cfg0, profile, seq, sd, byref = job
    rnd = random.Random(sd)
    ml = sc.load(scheme)
    defobj = ml.SSEConfig.get_default_config()            # the module's shared DEFAULT_CONFIG object itself
    if byref:
        cfg = defobj                                        # the caller passes the shared default by reference
        db, kw, nlen = make_case_db(scheme, dict(defobj), profile, rnd)
    else:
        db, kw, nlen = make_case_db(scheme, cfg0, profile, rnd)
        cfg = se.fit(scheme, cfg0, profile, db)             # the caller's own dictionary
        if scheme == "CGKO06.SSE2" and sd % 3 == 0:
            cfg["param_n"] += 1 + sd % 2                     # a valid upper bound on the number of files, not the exact number
    meta = {"scheme": scheme, "gi": gi, "cfg": copy.deepcopy(cfg0), "p": list(profile), "seq": list(seq), "seed": sd, "byref": byref}
    cfg_copy, def_copy = copy.deepcopy(cfg), copy.deepcopy(defobj)
    ev = [{"e": "case", "scheme": scheme, "p": list(profile), "c": {}, "n": nlen,
           "pre": {"cfg": dg(cfg_copy), "defcfg": dg(def_copy)}}]
    tr = {"ev": ev, "meta": meta, "err": ""}
    try:
        ev[0]["c"] = se.numbers(scheme, cfg_copy)
    except Exception as ex:
        tr["err"] = "numbers: %s: %s" % (type(ex).__name__, str(ex)[:100])

    def live_cfgs():
        return {"cfg": dg(cfg), "defcfg": dg(defobj)}
    try:
        sch = ml.SSEScheme() if byref else ml.SSEScheme(cfg)
        key = sch.KeyGen()
        ev.append({"e": "construct", "out": "ok", "post": live_cfgs()})
    except Exception as ex:
        tr["err"] = "%s: %s" % (type(ex).__name__, str(ex)[:100])
        ev.append({"e": "construct", "out": "raised", "post": live_cfgs()})
        return tr
    db_copy = copy.deepcopy(db)
    key_ser = key.serialize()
    ev.append({"e": "provide", "db": dg(db_copy), "key": dg(key_ser)})

    def live_inputs():
        d = live_cfgs()
        d["db"] = dg(db)
        d["key"] = dgcall(key.serialize)
        return d
    try:
        edb = sch.EDBSetup(key, db)
    except Exception as ex:
        tr["err"] = "%s: %s" % (type(ex).__name__, str(ex)[:100])
        ev.append({"e": "setup", "out": "raised", "post": live_inputs(), "edb": "-", "single": {}})
        return tr
    setup_ev = {"e": "setup", "out": "built", "post": live_inputs(), "edb": dgcall(edb.serialize), "single": {}}
    ev.append(setup_ev)
    # the single-search answers: one lone search per keyword on a private deep copy of the freshly built index, by a
    # scheme object of its own (state kept in the scheme object must not leak into the reference either)
    for w in SYMS:
        exp = db_copy.get(kw[w], [])
        try:
            e2 = copy.deepcopy(edb)
            s2 = ml.SSEScheme() if byref else ml.SSEScheme(copy.deepcopy(cfg_copy))
            r = s2.Search(e2, s2.TokenGen(key, kw[w])).get_result_list()
            setup_ev["single"][w] = positions(r, exp)
        except Exception as ex:
            setup_ev["single"][w] = [-1]
            tr["err"] = "single %s: %s: %s" % (w, type(ex).__name__, str(ex)[:100])
    # every other case keeps ONE token object per keyword and uses it for every search of that keyword, without
    # serializing it before its first use ("the token unchanged ... any repetition")
    reuse, toks = sd % 2 == 1, {}
    for w in seq:
        exp = db_copy.get(kw[w], [])
        o = {"edbPre": dgcall(edb.serialize), "edbPost": "-", "tokPre": "-", "tokPost": "-", "inp": {}, "out": "raised", "pos": []}
        try:
            if reuse and w in toks:
                tok = toks[w]                      # the token object of the earlier search for this keyword, used again
                o["tokPre"] = dgcall(tok.serialize)
                lazy = False
            else:
                tok = sch.TokenGen(key, kw[w])
                toks[w] = tok
                lazy = reuse                       # not looked at (serialized) before its first use: a caller need not
                if not lazy:
                    o["tokPre"] = dgcall(tok.serialize)
            r = sch.Search(edb, tok).get_result_list()
            o["pos"] = positions(r, exp)
            o["out"] = "result"
            o["tokPost"] = dgcall(tok.serialize)
            if lazy:
                o["tokPre"] = o["tokPost"]
        except Exception as ex:
            tr["err"] = "search %s: %s: %s" % (w, type(ex).__name__, str(ex)[:100])
        o["edbPost"] = dgcall(edb.serialize)
        o["inp"] = live_inputs()
        ev.append({"e": "search", "w": w, "o": o})
    return tr


# ----------------------------------------------------------------------------- model
def model_histories(tr):
    d = 6 if tr == "thorough" else 4
    cfgtxt = ("CONSTANTS D = %d\nDNeg = 3\nSPECIFICATION MCSpec\nINVARIANT LayerA\nINVARIANT Consequence\nINVARIANT Emit\n"
              "INVARIANT Teeth\nCHECK_DEADLOCK FALSE\n" % d)
    r = run_tlc("MC_History", cfgtxt, workers=4, heap="2g", coverage=True, name="hist")
    seqs = [tla_value(raw)[1] for raw in parse_printed(r.out, "H")]
    expect = sum(4 ** k for k in range(1, d + 1))
    if len(seqs) != expect or len({tuple(s) for s in seqs}) != expect:
        raise MachineryError("MC_History emitted %d histories, expected %d" % (len(seqs), expect))
    teeth = {}
    for raw in parse_printed(r.out, "T"):
        v = tla_value(raw)
        teeth.setdefault(v[1], set()).add(v[2])
    for var in ("consume", "cache", "tokmut", "popdb", "hidden"):
        if not teeth.get(var):
            raise MachineryError("History does not reject the '%s' model implementation (vacuous Layer A)" % var)
    if "pure" in teeth:
        raise MachineryError("History rejects the pure model implementation")
    if not r.coverage.get("MCNext"):
        raise MachineryError("MC_History: MCNext never fired")
    return sorted(seqs, key=lambda s: (len(s), s)), r, {k: sorted(v) for k, v in teeth.items()}


def pick_profiles(profs, rnd, k=3):
    ok = [list(pr["p"]) for pr in profs if pr["valid"] and pr["outcome"] == "built" and len(pr["p"]) >= 2]
    if not ok:
        return []
    ok.sort(key=lambda p: (sum(p), len(p), p))
    chosen = [ok[0], ok[-1]]                     # smallest and largest database of the instance
    rest = [p for p in ok if p not in chosen]
    rnd.shuffle(rest)
    for p in rest:
        if len(chosen) >= k:
            break
        chosen.append(p)
    out = []
    for p in chosen:
        if p not in out:
            out.append(p)
    return out


def strip(t):
    return {"tid": t["tid"], "ev": t["ev"]}


def main(argv_tier=None, replay_path=None):
    t0 = time.time()
    tr = tier(argv_tier)
    fs.setup_env(REPO)
    if replay_path:
        with open(replay_path) as fh:
            rp = json.load(fh)
        m = rp["meta"]
        t = run_history((m["scheme"], m["gi"], m["cfg"], m["p"], m["seq"], m["seed"], m["byref"]))
        t["tid"] = "replay"
        verdicts, _ = validate_traces("Trace_History", [strip(t)])
        print(json.dumps(t, indent=1, default=str)[:6000])
        print(verdicts)
        return 0 if verdicts["replay"]["ok"] else 1
    rnd = random.Random(seed() + 7)
    seqs, mr, teeth = model_histories(tr)
    model = {"distinct": mr.distinct or 0, "generated": mr.generated or 0, "runs": []}
    short = [s for s in seqs if len(s) <= 2]
    jobs = []
    ncases = 0
    sd = seed() * 1000003
    for s in sc.SCHEMES:
        cases = []
        for gi, cfg in enumerate(se.grid(s, tr)):
            profs, r, c = se.model_profiles(s, cfg, tr, extra_inv=False)
            model["distinct"] += r.distinct or 0
            model["generated"] += r.generated or 0
            ps = pick_profiles(profs, rnd)
            if not ps:
                raise MachineryError("no valid profile with two keywords for %s cfg %d" % (s, gi))
            model["runs"].append({"scheme": s, "cfg": gi, "profiles": len(profs), "picked": ps})
            cases += [(gi, cfg, p, False) for p in ps]
        if s != "CGKO06.SSE2" and (s != "CGKO06.SSE1" or tr == "thorough"):
            # the constructor's default argument: the shared DEFAULT_CONFIG object is the configuration
            cases.append((-1, sc.default_config(s), [3, 1] if s != "CGKO06.SSE1" else [2, 1], True))
        ncases += len(cases)
        per_case = [[] for _ in cases]
        if tr == "thorough":
            for ci in range(len(cases)):
                per_case[ci] += [q for q in seqs if len(q) <= 4]          # every case x every sequence of length <= 4
            for k, q in enumerate([q for q in seqs if len(q) > 4]):       # every longer sequence on some case of every scheme
                per_case[k % len(cases)].append(q)
        else:
            for ci in range(len(cases)):
                per_case[ci] += short                                       # every case x every sequence of length <= 2
            longer = [q for q in seqs if len(q) > 2]
            rnd.shuffle(longer)
            for k, q in enumerate(longer):                                  # every emitted sequence on some case of every scheme
                per_case[k % len(cases)].append(q)
        # one large database per scheme (size thresholds of caches / batching / in-place slicing are above the model's bounds)
        if s != "CGKO06.SSE2":
            big = sc.default_config(s)
            if s == "CGKO06.SSE1":
                big = dict(big, param_s=4096, param_dictionary_size=16)
            cases.append((-5, big, [130, 260, 640, 1, 2], False))
            longest = max((q for q in seqs if "p1" in q and "p2" in q), key=lambda q: (len(q), len(set(q))))
            per_case.append([longest, ["p1"], ["p2", "p1"]] + ([q for q in seqs if len(q) == 3][:6] if tr == "thorough" else []))
            ncases += 1
        for ci, (gi, cfg, p, byref) in enumerate(cases):
            n = len(per_case[ci])
            if byref and s == "CGKO06.SSE1":
                per_case[ci] = per_case[ci][:: max(1, n // 12)]           # 65536-slot default array: a handful is enough
            for q in per_case[ci]:
                jobs.append((s, gi, cfg, p, q, sd + len(jobs), byref))
    traces = pmap(run_history, jobs)
    for i, t in enumerate(traces):
        t["tid"] = "h%d" % i
    verdicts, agg = validate_traces("Trace_History", [strip(t) for t in traces], shards=12)
    rej = []
    for t in traces:
        v = verdicts[t["tid"]]
        if not v["ok"]:
            if v["clause"] in ("ValidDomain", "unknown-event"):
                raise MachineryError("trace %s: %s (%s)" % (t["tid"], v["clause"], t["meta"]))
            rej.append({"key": "%s:%s" % (t["meta"]["scheme"], v["clause"]), "trace": t, "verdict": v})
    viol, seen = classify(PROP, rej)
    vio_out, per_key = [], {}
    for x in viol:
        t = x["trace"]
        p = ""
        per_key[x["key"]] = per_key.get(x["key"], 0) + 1
        if per_key[x["key"]] <= 2 and len(vio_out) < 40:
            p = write_replay(PROP, "%s-%s-%d" % (t["meta"]["scheme"].replace(".", "_"), x["verdict"]["clause"].replace(":", "_"), per_key[x["key"]]),
                             {"meta": t["meta"], "verdict": x["verdict"], "err": t["err"], "ev": t["ev"]})
        vio_out.append(("%s cfg=%s p=%s seq=%s step=%s clause=%s %s" % (t["meta"]["scheme"], t["meta"]["gi"], t["meta"]["p"], t["meta"]["seq"],
                                                                      x["verdict"]["step"], x["verdict"]["clause"], t["err"]), p))
    vio_out.sort(key=lambda a: a[1] == "")
    nsearch = sum(len(t["meta"]["seq"]) for t in traces)
    cov = {
        "states": model["distinct"], "transitions": model["generated"],
        "model": "Layer A spec/sse/History.tla; MC_History: all %d search sequences of length <= %d over 4 keyword symbols, invariants LayerA, Consequence "
                 "(Repeats, SingleAnswer); rejected model implementations: %s; profiles from MC_Profiles per scheme x grid configuration"
                 % (len(seqs), 6 if tr == "thorough" else 4, teeth),
        "model_runs": model["runs"], "histories_emitted": len(seqs), "cases": ncases,
        "traces_validated_against_impl": len(traces), "trace_validation_states": agg["distinct"],
        "evaluations": nsearch,
        "distinct_nontrivial": len({(t["meta"]["scheme"], t["meta"]["gi"], tuple(t["meta"]["p"]), tuple(t["meta"]["seq"])) for t in traces
                                    if len(set(t["meta"]["seq"])) < len(t["meta"]["seq"])}),
        "rule": "one trace per (scheme, grid configuration or DEFAULT_CONFIG by reference, profile, search sequence): "
                + ("every case x every emitted sequence of length <= 4, every emitted sequence of length 5-6 on one case of every scheme"
                   if tr == "thorough" else
                   "every case x every emitted sequence of length <= 2, every emitted sequence of length 3-4 on one case of every scheme")
                + "; evaluations = searches executed inside histories (single-search references not counted); "
                  "non-trivial = distinct (case, sequence) in which some keyword is searched more than once",
        "samples": [strip(traces[0]), strip(traces[len(traces) // 2])],
    }
    return finish(PROP, tr, t0, cov, vio_out, seen,
                  assumptions=["values are compared through SHA-256 digests (80 bits kept) of a canonical encoding: dicts and sets order-insensitive, lists ordered",
                               "the single-search answer is taken on copy.deepcopy() of the index object right after EDBSetup, with a scheme object of its own",
                               "identifiers and keywords random, valid by construction; the near-absent keyword is a stored keyword minus its last byte"])
