"""C05 — index size and layout reveal only the scheme's public size parameter.

TLC (MC_Profiles over Layouts.tla) checks ShapeFunctionOfPi / UniformTables on the layout model for every
scheme x grid configuration and lists the profiles with their pi_S; the harness groups them into equivalence
classes, builds every member with the real EDBSetup (fresh key, fresh random contents), projects the shape of
each index and lets TLC judge every class against Trace_Shape (SamePi, ShapeEqual, UniformPadding). Random
larger classes are added per scheme.
"""
import random
import time

from common import (REPO, MachineryError, classify, finish, pmap, seed, tier, validate_traces, write_replay)
import fe_server as fs
import sse_common as sc
import sse_engine as se

PROP = "C05"


def compositions(rnd, n, k):
    """random composition of n into k positive parts"""
    if k >= n:
        return [1] * n
    cuts = sorted(rnd.sample(range(1, n), k - 1))
    return [b - a for a, b in zip([0] + cuts, cuts + [n])]


def random_classes(s, cfg, rnd, tr):
    """-> list of member lists (profiles believed to share pi_S), bigger than the model instance."""
    out = []
    reps = 2 if tr == "quick" else 8
    for _ in range(reps):
        if s in ("CJJ14.PiBas", "CGKO06.SSE2", "DP17.Pi"):
            n = rnd.randint(20, 60)
            out.append([compositions(rnd, n, rnd.randint(1, min(n, 15))) for _ in range(4)] + [[n], [1] * n])
        elif s in ("CT14.Pi", "ANSS16.Scheme3"):
            t = rnd.randint(4, 7)
            ms = []
            for _ in range(5):
                n = rnd.randint(2 ** (t - 1) + 1, 2 ** t)
                ms.append(compositions(rnd, n, rnd.randint(1, min(n, 12))))
            ms += [[2 ** t], [1] * (2 ** (t - 1) + 1), [3] * ((2 ** t) // 3)]
            out.append(ms)
        elif s == "CGKO06.SSE1":
            out.append([compositions(rnd, rnd.randint(1, 14), rnd.randint(1, 4)) for _ in range(5)] + [[1], [15]])
        elif s in ("CJJ14.Pi2Lev", "CJJ14.PiPtr"):
            # classes that MIX case kinds (small / medium / large lists) at equal pi_S: sample profiles, group by pi_S
            # (computed here only to form candidate groups - Trace_Shape recomputes it and rejects a wrong grouping)
            import math
            B, b = cfg["param_B"], cfg["param_b"]
            Bp, bp = cfg.get("param_B_prime", 1), cfg.get("param_b_prime", 1)
            top = (B * Bp * bp - 1) if s == "CJJ14.Pi2Lev" else 4 * B * b

            def pi(p):
                if s == "CJJ14.PiPtr":
                    return (sum(math.ceil(n / B) for n in p), sum(math.ceil(math.ceil(n / B) / b) for n in p))
                return (len(p), 1 + sum((math.ceil(n / B) if n > b else 0) + (math.ceil(n / (B * Bp)) if n > bp * B else 0) for n in p))
            groups = {}
            for _ in range(4000):
                p = [rnd.randint(1, max(1, min(top, 40))) for _ in range(rnd.randint(1, 6))]
                groups.setdefault(pi(p), []).append(p)
            mixed = [g for g in groups.values() if len({tuple(sorted(x)) for x in g}) >= 3]
            rnd.shuffle(mixed)
            for g in mixed[:6]:
                uniq = list({tuple(sorted(x)): x for x in g}.values())
                out.append(uniq[:6])
            break
        elif s == "CJJ14.PiPack":
            B = cfg["param_B"]
            blocks = rnd.randint(4, 10)
            ms = []
            for _ in range(5):
                bl = compositions(rnd, blocks, rnd.randint(1, blocks))
                ms.append([rnd.randint((x - 1) * B + 1, x * B) for x in bl])
            out.append(ms)
    return out


def run_member(s, cfg, p, sd):
    r = se.run_case(s, cfg, p, sd, present=False, absent=False, want_shape=True)
    return {"p": list(p), "setup": r["setup"], "shape": r["shape"], "err": r["err"], "c": r.get("c", {})}


def main(argv_tier=None, replay_path=None):
    t0 = time.time()
    tr = tier(argv_tier)
    fs.setup_env(REPO)
    rnd = random.Random(seed() + 5)
    if replay_path:
        import json
        with open(replay_path) as fh:
            rp = json.load(fh)
        ms = [run_member(rp["scheme"], rp["cfg"], m["p"], rp["seed"] + i) for i, m in enumerate(rp["members"])]
        rec = {"scheme": rp["scheme"], "c": ms[0]["c"], "members": [{"p": m["p"], "setup": m["setup"], "shape": m["shape"]} for m in ms]}
        verdicts, _ = validate_traces("Trace_Shape", [{"tid": "replay", "ev": [rec]}])
        print(json.dumps(rec, indent=1)[:3000])
        print(verdicts)
        return 0 if verdicts["replay"]["ok"] else 1
    classes = []          # (scheme, gi, cfg, [profiles])
    model = {"distinct": 0, "generated": 0, "runs": []}
    for s in sc.SCHEMES:
        for gi, cfg in enumerate(se.grid(s, tr)):
            profs, r, c = se.model_profiles(s, cfg, tr)
            model["distinct"] += r.distinct or 0
            model["generated"] += r.generated or 0
            groups = {}
            for pr in profs:
                if pr["valid"] and pr["outcome"] == "built":
                    groups.setdefault(repr(pr["pis"]), []).append(list(pr["p"]))
            n2 = 0
            for key, members in sorted(groups.items()):
                if len(members) < 2:
                    # a singleton still says something together with a second build of the same multiset in another order
                    members = members + [list(reversed(members[0]))]
                if len(members) > 8:
                    members = rnd.sample(members, 8)
                classes.append((s, gi, cfg, members))
                n2 += 1
            model["runs"].append({"scheme": s, "cfg": gi, "profiles": len(profs), "classes": n2, "distinct": r.distinct})
            for members in random_classes(s, cfg, rnd, tr):
                classes.append((s, gi, cfg, members))
    # large classes (17 000 .. 32 768 postings: thresholds of batching, caches and counter widths lie far above the model's bounds)
    for s in sc.SCHEMES:
        d = sc.default_config(s)
        base = [100] * 170
        if s in ("CJJ14.PiBas", "DP17.Pi"):
            ms = [base, [17000], compositions(rnd, 17000, 40), [50] * 340]
        elif s in ("CT14.Pi", "ANSS16.Scheme3"):
            ms = [base, [20000], compositions(rnd, 30000, 60), [32768], [41] * 400]
        elif s == "CJJ14.PiPack":
            B = d["param_B"]
            nb = sum(-(-x // B) for x in base)
            ms = [base, [B * nb], [1] * nb]
        elif s == "CGKO06.SSE1":
            d = dict(d, param_s=32768, param_dictionary_size=256)
            ms = [base, [17000], [1], [5] * 200]
        elif s in ("CJJ14.PiPtr", "CJJ14.Pi2Lev"):
            ms = [base, list(base)]            # the same multiset with other keywords and identifiers
        else:
            continue
        classes.append((s, -6, d, ms))
    import sse_models
    lruns, ltot = sse_models.levels_runs(tr)      # LevelFits for every choice of the random dummy keywords
    model["runs"] += lruns
    model["distinct"] += ltot["distinct"]
    model["generated"] += ltot["generated"]
    sd = seed()
    jobs = []
    for ci, (s, gi, cfg, members) in enumerate(classes):
        if s == "CGKO06.SSE1" and gi >= 0:
            members = [m for m in members if sum(m) < cfg["param_s"] and len(m) <= cfg["param_dictionary_size"]]
        classes[ci] = (s, gi, cfg, members)
        for mi, p in enumerate(members):
            jobs.append((ci, mi, s, cfg, p))
    res = pmap(lambda j: run_member(j[2], j[3], j[4], sd * 7919 + j[0] * 101 + j[1]), jobs)
    byclass = {}
    for j, m in zip(jobs, res):
        byclass.setdefault(j[0], []).append(m)
    traces = []
    for ci, (s, gi, cfg, members) in enumerate(classes):
        ms = byclass.get(ci, [])
        if len(ms) < 2:
            continue
        traces.append({"tid": "c%d" % ci, "ev": [{"scheme": s, "c": ms[0]["c"], "members": [{"p": m["p"], "setup": m["setup"], "shape": m["shape"]} for m in ms]}],
                       "cfg": cfg, "errs": [m["err"] for m in ms if m["err"]]})
    verdicts, agg = validate_traces("Trace_Shape", [{"tid": t["tid"], "ev": t["ev"]} for t in traces], shards=8)
    rej = []
    for t in traces:
        v = verdicts[t["tid"]]
        if not v["ok"]:
            if v["clause"] in ("ValidDomain", "SamePi"):
                raise MachineryError("class %s is not a class of valid databases with equal pi_S (%s): %s" % (t["tid"], v["clause"], [m["p"] for m in t["ev"][0]["members"]]))
            rej.append({"key": "%s:%s" % (t["ev"][0]["scheme"], v["clause"]), "trace": t, "verdict": v})
    viol, seen = classify(PROP, rej)
    vio_out = []
    for x in viol:
        p = ""
        t = x["trace"]
        if len(vio_out) < 20:
            p = write_replay(PROP, t["tid"], {"scheme": t["ev"][0]["scheme"], "cfg": t["cfg"], "members": t["ev"][0]["members"],
                                              "seed": sd, "verdict": x["verdict"], "errs": t["errs"]})
        vio_out.append(("%s clause=%s profiles=%s" % (t["ev"][0]["scheme"], x["verdict"]["clause"], [m["p"] for m in t["ev"][0]["members"]][:4]), p))
    nmembers = sum(len(t["ev"][0]["members"]) for t in traces)
    cov = {
        "states": model["distinct"], "transitions": model["generated"], "model_runs": model["runs"],
        "traces_validated_against_impl": len(traces), "trace_validation_states": agg["distinct"],
        "evaluations": nmembers,
        "distinct_nontrivial": sum(1 for t in traces if len({tuple(sorted(m["p"])) for m in t["ev"][0]["members"]}) >= 2),
        "rule": "one record per equivalence class of valid profiles with equal pi_S (classes of the bounded MC_Profiles instance for every scheme x grid "
                "configuration, plus random larger classes); evaluations = indexes built; non-trivial = classes with at least two different multisets of list lengths",
        "samples": [traces[0]["ev"][0], traces[len(traces) // 2]["ev"][0]],
        "model": "Layer B spec/sse/Layouts.tla via MC_Profiles (ShapeFunctionOfPi, UniformTables); Layer A Trace_Shape (SamePi, ShapeEqual, UniformPadding)",
    }
    return finish(PROP, tr, t0, cov, vio_out, seen,
                  assumptions=["shape = per container entry count and (byte length, count) pairs of keys and values; integers counted as one width",
                               "every member is built with a fresh key and fresh random keywords / identifiers"])
