"""C12 — overlapping connections to one service are serialised and cannot roll state back.

Generator: TLC on MC_OverlapEnv (exhaustive for small bounds, -simulate for larger ones) emits
schedules of external events (open / send / close / timer / tick / settle).
Layer B: TLC checks ServerImpl (the implementation-shaped model) against the Layer A invariants.
Binding: every schedule is executed on the real ServicesManager via the fake websocket; every
reply, server-side closure and external event is logged in true order with the projected durable
record; TLC validates each trace against Trace_Overlap (Layer A).
"""
import asyncio
import hashlib
import os
import pickle
import random
import shutil
import time

from common import (REPO, pmap, MachineryError, classify, finish, parse_printed, run_tlc, seed, subdir, tier,
                    tla_value, validate_traces, write_replay)
import fe_server as fs
import c10

PROP = "C12"
CONSTS = "CONSTANTS Conns = {1,2,3}\nCfgs = {1,2}\nIdxs = {1,2}\n"


class Runner:
    def __init__(self, fx, datadir):
        self.fx = fx
        self.world = fs.ServerWorld(REPO, datadir)
        self.world.on_event = self.on_event
        self.sid = hashlib.sha256(os.path.basename(datadir).encode()).hexdigest()
        self.ws = {}
        self.ev = []
        self.digest = hashlib.sha256(fx["tok"]).digest()

    def proj(self):
        p = self.world.project(self.sid, (self.fx["c1"], self.fx["c2"]), (self.fx["e1"], self.fx["e2"]))
        return {"st": p["st"], "cfg": p["cfg"], "idx": p["idx"]}

    def internal(self):
        """projection of the manager's in-memory objects (Layer B drift detection only)"""
        m = self.world.manager
        try:
            svc = m._service_dict.get(self.sid)
            reg = svc.websocket.cid if svc is not None else 0
            snap = int(svc.service_meta["state"]) if svc is not None else 0
            waiting = [x[0].websocket.cid for x in getattr(m, "_waiting_dict", {}).get(self.sid, [])]
            if not isinstance(reg, int) or not all(isinstance(x, int) for x in waiting):
                return None
            return {"reg": reg, "snap": snap, "waiting": waiting}
        except Exception:
            return None

    def tick(self):
        e = {"e": "tick", "d": self.proj()}
        i = self.internal()
        if i is not None:
            e["i"] = i
        else:
            self.no_internal = True
        self.ev.append(e)

    def on_event(self, kind, ws, data):
        c = ws.cid
        if c == "x":          # the connection of the other service id: not part of this service's trace
            return
        if kind == "sclosed":
            self.ev.append({"e": "sclosed", "c": c, "d": self.proj()})
            return
        m = fs.decode_server_msgs([data])[0]
        t = m["type"]
        if t == "init":
            rep = m.get("state") if m.get("ok") and isinstance(m.get("state"), int) else 99
            self.ev.append({"e": "init", "c": c, "rep": rep, "d": self.proj()})
        elif t == "control":
            self.ev.append({"e": "control", "c": c, "d": self.proj()})
        elif t in ("config", "upload_edb"):
            self.ev.append({"e": "reply", "c": c, "kind": "config" if t == "config" else "upload",
                            "out": "ok" if m.get("ok") else "refused", "res": 0, "d": self.proj()})
        elif t == "result":
            out, res = self.result_of(m)
            self.ev.append({"e": "reply", "c": c, "kind": "result", "out": out, "res": res, "d": self.proj()})
        else:
            self.ev.append({"e": "reply", "c": c, "kind": "garbage", "out": "garbage", "res": 0, "d": self.proj()})

    def result_of(self, m):
        if m.get("ok") is False:
            return "refused", 0
        try:
            r = self.fx["ml"].SSEResult.deserialize(m["content"], self.fx["cfgobj"]).get_result_list()
        except Exception:
            return "garbage", 0
        if r == self.fx["r1"]:
            return "result", 1
        if r == self.fx["r2"]:
            return "result", 2
        return "result", 9

    def payload(self, req):
        fx, sid = self.fx, self.sid
        if req in ("cfg1", "cfg2"):
            return fs.msg(sid, "config", pickle.dumps(fx["c1" if req == "cfg1" else "c2"]))
        if req in ("up1", "up2"):
            return fs.msg(sid, "upload_edb", fx["e1" if req == "up1" else "e2"])
        return fs.msg(sid, "token", fx["tok"], token_digest=self.digest)

    async def step(self, sym, fine):
        k = sym[0]
        if k == "open":
            c = sym[1]
            # the external event is logged first: everything the server does in reaction comes after it
            self.ev.append({"e": "open", "c": c, "d": self.proj()})
            ws = self.world.open(self.sid, "c%d" % c, cid=c)
            self.ws[c] = ws
        elif k == "send":
            c, req = sym[1], sym[2]
            ws = self.ws.get(c)
            if ws is None or ws.closed:
                return
            self.ev.append({"e": "send", "c": c, "req": req, "d": self.proj()})
            ws.peer_send(self.payload(req))
        elif k == "close":
            c = sym[1]
            ws = self.ws.get(c)
            if ws is None or ws.closed:
                return
            self.ev.append({"e": "pclose", "c": c, "d": self.proj()})
            ws.peer_close()
        elif k == "openx":
            self.ev.append({"e": "xopen", "d": self.proj()})
            self.ws["x"] = self.world.open("f" * 64, "cx", cid="x")
        elif k == "closex":
            ws = self.ws.get("x")
            if ws is None or ws.closed:
                return
            self.ev.append({"e": "xclose", "d": self.proj()})
            ws.peer_close()
        elif k == "timer":
            if self.world.proxy.pending():
                self.ev.append({"e": "timer", "d": self.proj()})
                self.world.proxy.fire()
            else:
                return
        elif k == "tick":
            await fs.spin(1)
            self.ev.append({"e": "spin", "d": self.proj()})
            return
        elif k == "settle":
            await fs.settle()
            self.tick()
            return
        if not fine:
            await fs.settle()
            self.tick()

    async def finish(self):
        await fs.settle()
        for c in sorted(self.ws, key=str):
            ws = self.ws[c]
            if c == "x":
                ws.peer_close()
                await fs.settle()
                continue
            if not ws.closed:
                self.ev.append({"e": "pclose", "c": c, "d": self.proj()})
                ws.peer_close()
                await fs.settle()
        for _ in range(20):
            await fs.settle()
            if not self.world.proxy.pending():
                break
            self.ev.append({"e": "timer", "d": self.proj()})
            self.world.proxy.fire()
        await fs.settle()
        self.tick()
        await self.world.kill()
        self.world.restart()
        self.world.on_event = None
        self.ev.append({"e": "restart", "d": self.proj()})
        ws = self.world.open(self.sid, "probe", cid=0)
        await fs.settle()
        msgs = fs.decode_server_msgs(ws.take_outbox())
        inits = [m for m in msgs if m["type"] == "init"]
        rep = inits[-1]["state"] if inits and all(m.get("ok") for m in inits) and isinstance(inits[-1].get("state"), int) else 99
        self.ev.append({"e": "probe", "rep": rep, "d": self.proj()})
        if rep == 2:
            ws.peer_send(self.payload("search"))
            await fs.settle()
            rs = [m for m in fs.decode_server_msgs(ws.take_outbox()) if m["type"] == "result"]
            if len(rs) == 1:
                out, res = self.result_of(rs[0])
            else:
                out, res = "none", 0
            self.ev.append({"e": "psearch", "out": out, "res": res, "d": self.proj()})
        ws.peer_close()
        await fs.settle()
        await self.world.shutdown()

    async def run(self, sched, fine):
        for sym in sched:
            await self.step(sym, fine)
        await self.finish()
        if fs.FAKE_GAPS or fs.REAL_TIMERS:
            self.ev.append({"e": "fakegap", "what": (fs.FAKE_GAPS or fs.REAL_TIMERS)[-1], "d": {"st": 0, "cfg": 0, "idx": 0}})
        return self.ev


def execute(fx, sched, fine, k):
    d = os.path.join(subdir("c12-data"), "s%d" % k)
    rn = Runner(fx, d)
    loop = asyncio.new_event_loop()
    loop.set_exception_handler(lambda l, c: None)
    try:
        ev = loop.run_until_complete(asyncio.wait_for(rn.run(sched, fine), 600))
    except asyncio.TimeoutError:
        ev = rn.ev + [{"e": "noreturn", "d": {"st": 0, "cfg": 0, "idx": 0}}]
    finally:
        loop.close()
    shutil.rmtree(d, ignore_errors=True)
    return ev


def gen_cfg(nconn, maxsend, maxticks, fine, depth, reqs, withx=False):
    return ("CONSTANTS NConn = %d\nMaxSend = %d\nMaxTicks = %d\nFine = %s\nD = %d\nReqSet = {%s}\nWithX = %s\n"
            "SPECIFICATION Spec\nINVARIANT Emit\nCHECK_DEADLOCK FALSE\n"
            % (nconn, maxsend, maxticks, "TRUE" if fine else "FALSE", depth, ", ".join('"%s"' % r for r in reqs),
               "TRUE" if withx else "FALSE"))


def generate(tr):
    """-> list of (schedule, fine)"""
    out = []
    stats = {"generated": 0, "distinct": 0}

    def run(nconn, maxsend, maxticks, fine, depth, reqs, simulate=None, cap=None, name="", withx=False):
        r = run_tlc("MC_OverlapEnv", gen_cfg(nconn, maxsend, maxticks, fine, depth, reqs, withx), workers=1 if simulate else 8,
                    simulate=simulate, depth=depth + 1 if simulate else None, name="gen" + name,
                    extra=(["-seed", str(seed() + 1)] if simulate else []))
        hs = sorted({repr(tla_value(x)[1]) for x in parse_printed(r.out, "H")})
        hs = [eval(h) for h in hs]
        if not simulate:
            stats["generated"] += r.generated or 0
            stats["distinct"] += r.distinct or 0
        rnd = random.Random(seed() + len(out))
        if cap and len(hs) > cap:
            hs = rnd.sample(hs, cap)
        for h in hs:
            out.append((h, fine))

    allreq = ["cfg1", "cfg2", "up1", "up2", "search"]
    if tr == "quick":
        # exhaustive: 2 connections x <=2 requests over the three state-changing requests, coarse scheduling
        # exhaustive, not sampled: 2 connections x at most one request each over the state-changing requests
        run(2, 1, 0, False, 8, ["cfg1", "up1", "up2"], name="a0")
        # 2 connections x <= 2 requests: seeded sample of the 17.7k schedules (thorough takes more)
        run(2, 2, 0, False, 9, ["cfg1", "up1", "up2"], cap=2000, name="a")
        # sampled: 3 connections, fine scheduling with explicit loop iterations
        run(3, 2, 6, True, 16, allreq, simulate="num=1500", cap=2000, name="b")
        run(3, 1, 0, False, 10, ["cfg1", "up1", "search"], cap=1500, name="c")
        # a connection of ANOTHER service id whose cleanup holds the manager's global lock
        run(2, 1, 0, False, 9, ["cfg1", "up1", "up2"], cap=1500, name="x", withx=True)
        run(2, 2, 4, True, 14, ["cfg1", "up1", "up2"], simulate="num=800", cap=1000, name="y", withx=True)
    else:
        run(2, 1, 0, False, 8, ["cfg1", "up1", "up2"], name="a0")
        run(3, 1, 0, False, 9, ["cfg1", "up1"], name="c0")          # exhaustive: 3 connections x at most one request
        run(2, 2, 0, False, 9, allreq, cap=20000, name="a")
        run(3, 2, 8, True, 20, allreq, simulate="num=20000", cap=15000, name="b")
        run(3, 1, 0, False, 11, allreq, cap=12000, name="c")
        run(2, 3, 4, True, 14, ["cfg1", "up1", "up2", "search"], simulate="num=10000", cap=8000, name="d")
        run(2, 2, 0, False, 11, ["cfg1", "up1", "up2"], cap=10000, name="x", withx=True)
        run(3, 2, 6, True, 18, allreq, simulate="num=10000", cap=8000, name="y", withx=True)
    return out, stats


# regression schedules: the three histories of DESIGN.md section 5/C12 (as-written code fails all three)
REGRESSION = [
    ([["open", 1], ["send", 1, "cfg1"], ["open", 2], ["send", 1, "up1"], ["close", 1], ["timer"], ["send", 2, "up2"]], False),
    ([["open", 1], ["open", 2], ["send", 1, "cfg1"], ["send", 1, "up1"], ["close", 1], ["timer"], ["send", 2, "cfg2"], ["timer"]], False),
    ([["open", 1], ["open", 2], ["open", 3], ["send", 1, "cfg1"], ["close", 1], ["timer"], ["send", 2, "up1"], ["send", 3, "up2"]], False),
    ([["open", 1], ["send", 1, "cfg1"], ["send", 1, "up1"], ["close", 1], ["open", 2], ["send", 2, "search"], ["timer"]], False),
    # another sid's cleanup holds the global lock while two connections of this sid open
    ([["openx"], ["closex"], ["open", 1], ["open", 2], ["timer"], ["send", 1, "cfg1"], ["send", 2, "cfg2"], ["send", 1, "up1"], ["send", 2, "up2"]], False),
]


def main(argv_tier=None, replay_path=None):
    t0 = time.time()
    tr = tier(argv_tier)
    fx = c10.fixtures()
    if replay_path:
        import json
        with open(replay_path) as fh:
            rp = json.load(fh)
        ev = execute(fx, rp["schedule"], rp["fine"], 0)
        verdicts, _ = validate_traces("Trace_Overlap", [{"tid": "replay", "ev": ev}], consts=CONSTS)
        for e in ev:
            print(e)
        print(verdicts)
        return 0 if verdicts["replay"]["ok"] else 1

    import c12_model
    model = c12_model.check(tr)

    scheds, gstats = generate(tr)
    scheds = REGRESSION + scheds
    evs = pmap(lambda a: execute(fx, a[1][0], a[1][1], a[0]), list(enumerate(scheds)))
    traces = [{"tid": "s%d" % k, "ev": ev, "schedule": sched, "fine": fine}
              for (k, (sched, fine)), ev in zip(enumerate(scheds), evs)]
    verdicts, agg = validate_traces("Trace_Overlap", [{"tid": t["tid"], "ev": t["ev"]} for t in traces], consts=CONSTS)
    gaps = [e["what"] for t in traces for e in t["ev"] if e.get("e") == "fakegap"]
    if gaps:
        raise MachineryError("a harness seam is ineffective on this tree (fake websocket API gap or a timer on the wall clock): %s" % gaps[0])
    rej = []
    for t in traces:
        v = verdicts[t["tid"]]
        if not v["ok"]:
            rej.append({"key": v["clause"], "trace": t, "verdict": v})
    # ---- Layer B: the same executions against the implementation-shaped model (drift only)
    drift = []
    btr = []
    for t in traces:
        if t["fine"] or any(e["e"] in ("xopen", "xclose", "noreturn") for e in t["ev"]) or not verdicts[t["tid"]]["ok"]:
            continue
        evs = []
        for e in t["ev"]:
            if e["e"] == "restart":
                break
            evs.append(e)
        if any(e["e"] == "tick" and "i" not in e for e in evs):
            continue
        btr.append({"tid": t["tid"], "ev": evs})
    nb = 600 if tr == "quick" else 6000
    if len(btr) > nb:
        btr = random.Random(seed()).sample(btr, nb)
    bver, bagg = validate_traces("Trace_ServerImpl", btr, dfs=True, name="implB",
                                 consts='CONSTANTS Conn = {1,2,3}\nMaxSend = 99\nReq = {"cfg1","cfg2","up1","up2","search"}\n')
    bysid = {t["tid"]: t for t in traces}
    for b in btr:
        v = bver[b["tid"]]
        if not v["ok"]:
            drift.append({"schedule": bysid[b["tid"]]["schedule"], "step": v["step"], "event": v["clause"]})
    for d in drift[:10]:
        print("DRIFT property=C12 execution is not a behaviour of ServerImpl (Layer B): step %d event %s schedule=%s" % (d["step"], d["event"], d["schedule"]))
    viol, seen = classify(PROP, rej)
    vio_out = []
    for x in viol:
        if len(vio_out) < 20:
            p = write_replay(PROP, x["trace"]["tid"], {"schedule": x["trace"]["schedule"], "fine": x["trace"]["fine"],
                                                       "events": x["trace"]["ev"], "verdict": x["verdict"], "seed": seed()})
        vio_out.append(("step %d clause=%s schedule=%s" % (x["verdict"]["step"], x["verdict"]["clause"],
                                                           x["trace"]["schedule"]), p))
    overlapping = 0
    for t in traces:
        if any(e["e"] == "control" for e in t["ev"]) and any(e["e"] == "reply" and e["out"] == "ok" for e in t["ev"]):
            overlapping += 1
    cov = {
        "states": model["distinct"], "transitions": model["generated"],
        "model_runs": model["runs"],
        "generator_states": gstats["distinct"],
        "traces_validated_against_impl": len(traces),
        "trace_validation_states": agg["distinct"],
        "evaluations": len(traces), "distinct_nontrivial": overlapping,
        "rule": "schedules of external events (open/send/close/timer, optionally explicit loop iterations) for up to 3 connections "
                "emitted by TLC from MC_OverlapEnv (exhaustive small bounds + -simulate), plus 4 regression schedules; "
                "non-trivial = a later connection was told to wait AND some request was acknowledged",
        "layerB_traces_validated": len(btr), "layerB_trace_states": bagg.get("distinct", 0),
        "drift": drift[:20], "drift_count": len(drift),
        "samples": [{"schedule": t["schedule"], "fine": t["fine"], "events": t["ev"]} for t in traces[4:6]],
        "model": "Layer B spec/fe/ServerImpl.tla checked against Serialised/NoRollback/WriteOnce/AckDurable; "
                 "Layer A spec/fe/Overlap.tla via Trace_Overlap",
    }
    return finish(PROP, tr, t0, cov, vio_out, seen,
                  assumptions=["fake websocket + stock asyncio loop; task scheduling among woken tasks is asyncio's own FIFO order",
                               "cleanup delay is a harness gate; loop iterations are injected between external events",
                               "Layer B over-approximates scheduling (any runnable task may step)"])
