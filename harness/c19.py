"""C19 - persistent fixed-length byte array (SPFLBArray) behaves like a list, on disk and after reopen.

1. TLC checks the transcription of Python's slice/range semantics (PySlice.tla) against the running
   CPython (Trace_PySlice) - a rejection there is a machinery error, the specification would be wrong.
2. TLC explores MC_PArray (Layer A = PArray.tla with a history variable hidden by a VIEW): the model's
   own invariants are checked and a transition-covering set of histories is emitted (for every reachable
   abstract state its shortest history, extended by every operation of the alphabet).
3. TLC model-checks PArrayImpl (Layer B: chunk files, lazy handle cache indexed by a possibly negative
   file id, divmod addressing, create-on-miss, slice assignment with rollback) against the Layer A
   step relation: the variant with index normalisation in reads must satisfy it, the variant without
   (the code as first published) must violate it (sensitivity of the model-level check).
4. Every emitted history is replayed on the real SPFLBArray in a scratch directory, twice:
     full - after EVERY operation a full read (arr[:] through the same handle, or through a fresh handle
            when the user's handle is closed) and a directory listing are recorded;
     lazy - no intermediate reads (a full read through the same handle opens every chunk file, i.e. it
            hides the lazily-opened-files situations), directory listing after every operation, and a
            final close + reopen + full read.
   Seeded random histories of length 40 (array_len 1..40, item_size 1..9, items_per_file 1..len+2,
   close+reopen anywhere, failing operations included) are run the same way.
5. TLC validates every recorded trace against Trace_PArray (Layer A): outcome class, results, the full
   contents after the step and the file set.  Exception classes other than the list's are DRIFT only.
"""
import json
import os
import random
import re
import shutil
import sys
import time

from common import (REPO, VERIF, MachineryError, classify, finish, parse_printed, pmap, run_tlc, seed, subdir, tier,
                    tla_value, validate_traces, write_replay)

PROP = "C19"
NOSL = [[], [], []]
_SP = None


def impl():
    """The class under test, imported from common.REPO (HOME is pointed at scratch first)."""
    global _SP
    if _SP is None:
        os.environ["HOME"] = subdir("home")
        if REPO not in sys.path:
            sys.path.insert(0, REPO)
        from data_persistence.persistent_array import SPFLBArray
        _SP = SPFLBArray
    return _SP


# ---------------------------------------------------------------------------
# abstract operation -> Python call
# ---------------------------------------------------------------------------

def py_value(x):
    k = x["k"]
    if k == "b":
        return bytes(x["v"])
    if k == "ba":
        return bytearray(x["v"])
    if k == "int":
        return 7
    if k == "str":
        return "ab"
    if k == "none":
        return None
    if k == "list":
        return [1, 2]
    raise MachineryError("unknown value kind %r" % (k,))


def py_slice(sl):
    return slice(*[(c[0] if c else None) for c in sl])


def op(name, i=0, sl=None, xs=None):
    return {"op": name, "i": i, "sl": sl if sl is not None else NOSL, "xs": xs if xs is not None else []}


def _items(v):
    """list of byte strings -> list of lists of ints, or None when the shape is not that"""
    if not isinstance(v, list):
        return None
    out = []
    for it in v:
        if not isinstance(it, (bytes, bytearray)):
            return None
        out.append(list(it))
    return out


def _ok(res=None, num=0):
    return {"cls": "ok", "kind": "", "res": res if res is not None else [], "num": num}


_CHUNK = re.compile(r"0|[1-9][0-9]{0,8}")
OP_TIMEOUT_S = 30            # an operation that does not return within this wall time ...
OP_CPU_S = 2                 # ... or burns this much CPU (operations on <= 40 items take microseconds) is "noreturn"
ITER_SLACK = 64              # an iteration that yields more than n + ITER_SLACK items is cut off ("garbled")
WORKER_AS_LIMIT = 1024 << 20  # address space a forked replay worker may add (a mutant must not eat the machine)


_LIMITED = False


class _NoReturn(BaseException):
    pass


def _alarm(_sig, _frm):
    raise _NoReturn()


def _limit_worker():
    """In a forked pmap worker (never in the main process, whose children are JVMs): cap the address space."""
    import multiprocessing
    import resource
    global _LIMITED
    if not _LIMITED and multiprocessing.current_process().name != "MainProcess":
        _LIMITED = True
        try:
            with open("/proc/self/statm") as fh:
                cur = int(fh.read().split()[0]) * os.sysconf("SC_PAGE_SIZE")
        except Exception:
            cur = 1 << 30
        soft, hard = resource.getrlimit(resource.RLIMIT_AS)
        want = cur + WORKER_AS_LIMIT          # what the worker inherited from the parent + its own allowance
        if soft == resource.RLIM_INFINITY or soft > want:
            resource.setrlimit(resource.RLIMIT_AS, (want, hard))


class Runner:
    """Drives one real SPFLBArray in its own directory and records one trace record per operation."""

    def __init__(self, par, directory):
        self.par = par
        self.dir = directory
        self.path = os.path.join(directory, "arr")
        self.obj = None
        self.expect_open = False
        self.dead = False

    def listing(self):
        meta, chunks, other = False, [], []
        for name in sorted(os.listdir(self.dir)):
            if name == "arr_meta":
                meta = True
            elif name.startswith("arr_") and _CHUNK.fullmatch(name[4:]):
                chunks.append(int(name[4:]))
            else:
                other.append(name)
        return {"meta": meta, "chunks": sorted(chunks), "other": other}

    def call(self, o):
        SP = impl()
        name = o["op"]
        try:
            if name == "create":
                self.obj = SP.create(self.path, item_size=self.par["isz"], array_len=self.par["n"],
                                     item_num_in_one_file=self.par["pf"])
                self.expect_open = True
                return _ok()
            if name == "reopen":
                self.obj = SP.open(self.path)
                self.expect_open = True
                return _ok()
            if name == "recreate":
                # release() gives the array's files up (it needs a live object: a closed one is opened first), then a
                # new array of the same geometry is created under the same path
                if not self.expect_open:
                    self.obj = SP.open(self.path)
                self.obj.release()
                self.obj = SP.create(self.path, item_size=self.par["isz"], array_len=self.par["n"],
                                     item_num_in_one_file=self.par["pf"])
                self.expect_open = True
                return _ok()
            a = self.obj
            if name == "get":
                r = _items([a[o["i"]]])
                return _ok(r) if r is not None else {"cls": "garbled", "kind": "type", "res": [], "num": 0}
            if name == "getslice":
                r = _items(a[py_slice(o["sl"])])
                return _ok(r) if r is not None else {"cls": "garbled", "kind": "type", "res": [], "num": 0}
            if name == "iter":
                got = []
                for x in a:
                    got.append(x)
                    if len(got) > self.par["n"] + ITER_SLACK:      # safety cap, not a judgement: TLC sees "garbled"
                        return {"cls": "garbled", "kind": "unbounded-iteration", "res": [], "num": 0}
                r = _items(got)
                return _ok(r) if r is not None else {"cls": "garbled", "kind": "type", "res": [], "num": 0}
            if name == "set":
                a[o["i"]] = py_value(o["xs"][0])
                return _ok()
            if name == "setslice":
                a[py_slice(o["sl"])] = [py_value(x) for x in o["xs"]]
                return _ok()
            if name == "del":
                del a[o["i"]]
                return _ok()
            if name == "delslice":
                del a[py_slice(o["sl"])]
                return _ok()
            if name == "clear":
                a.clear()
                return _ok()
            if name == "contains":
                return _ok(num=1 if (py_value(o["xs"][0]) in a) else 0)
            if name == "len":
                n = len(a)
                return _ok(num=n) if isinstance(n, int) and 0 <= n < 2 ** 31 else \
                    {"cls": "garbled", "kind": "len", "res": [], "num": 0}
            if name == "close":
                a.close()
                self.expect_open = False
                return _ok()
        except MachineryError:
            raise
        except Exception as ex:                                  # the observation "raised"
            if name == "close":
                self.expect_open = False
            return {"cls": "raised", "kind": type(ex).__name__, "res": [], "num": 0}
        raise MachineryError("unknown operation %r" % (name,))

    def full_read(self):
        """The whole array as the user sees it now: through the handle the user holds while that is open,
        through a fresh handle (what is on disk) while it is closed.  None = the read itself failed."""
        SP = impl()
        try:
            if self.expect_open:
                return _items(self.obj[:])
            ob = SP.open(self.path)
            try:
                return _items(ob[:])
            finally:
                ob.close()
        except Exception:
            return None

    def step(self, o, chk):
        import signal
        after, note = [], ""
        old = signal.signal(signal.SIGALRM, _alarm)
        oldp = signal.signal(signal.SIGPROF, _alarm)
        signal.setitimer(signal.ITIMER_REAL, OP_TIMEOUT_S)
        signal.setitimer(signal.ITIMER_PROF, OP_CPU_S)
        try:
            try:
                out = self.call(o)
            except (_NoReturn, MemoryError):
                out = {"cls": "noreturn", "kind": "", "res": [], "num": 0}
                self.dead = True
                note = "operation did not return within %ds / %ds CPU (or exhausted memory); trace ends here" % (
                    OP_TIMEOUT_S, OP_CPU_S)
            if chk and not self.dead:
                try:
                    r = self.full_read()
                except (_NoReturn, MemoryError):
                    r = None
                    self.dead = True
                if r is None:
                    note = "full read failed"
                else:
                    after = r
        finally:
            signal.setitimer(signal.ITIMER_REAL, 0)
            signal.setitimer(signal.ITIMER_PROF, 0)
            signal.signal(signal.SIGALRM, old)
            signal.signal(signal.SIGPROF, oldp)
        return {"o": o, "out": out, "chk": bool(chk), "after": after, "files": self.listing(), "note": note}

    def shutdown(self):
        try:
            if self.obj is not None:
                self.obj.close()
        except Exception:
            pass


def finishing_ops(ops):
    """lazy mode: what is on disk in the end is read after a close and a reopen"""
    is_open = True
    for o in ops:
        if o["op"] == "close":
            is_open = False
        elif o["op"] in ("reopen", "recreate"):
            is_open = True
    return ([op("close")] if is_open else []) + [op("reopen")]


_DATA = None


def datadir():
    """Scratch directory for the arrays: a RAM-backed file system when there is one (tens of thousands of
    directories are created and removed), else the common scratch.  VERIF_C19_DATA overrides."""
    global _DATA
    if _DATA is None:
        base = os.environ.get("VERIF_C19_DATA")
        if not base and os.path.isdir("/dev/shm") and os.access("/dev/shm", os.W_OK):
            base = "/dev/shm"
        if base:
            import atexit
            import tempfile
            _DATA = tempfile.mkdtemp(prefix="ssepy-verif-c19.%d." % os.getpid(), dir=base)
            atexit.register(shutil.rmtree, _DATA, True)
        else:
            _DATA = subdir("c19-data")
    return _DATA


def run_case(case):
    """case: {tid, par, ops, mode}; returns the trace {tid, par, ev}.

    mode full: full read after every operation.
    mode lazy: no intermediate reads; finally close + reopen + full read.
    mode last: no reads before the last operation (the one under test in a transition-covering history);
               full read through the handle after it, then close + reopen + full read."""
    _limit_worker()
    d = os.path.join(datadir(), "%s-%d" % (case["tid"], os.getpid()))
    shutil.rmtree(d, ignore_errors=True)
    os.makedirs(d)
    rn = Runner(case["par"], d)
    ev = []
    try:
        mode = case["mode"]
        ops = case["ops"]
        plan = [(op("create"), mode == "full")]
        plan += [(o, mode == "full" or (mode == "last" and k == len(ops) - 1)) for k, o in enumerate(ops)]
        if mode != "full":
            fin = finishing_ops(ops)
            plan += [(o, k == len(fin) - 1) for k, o in enumerate(fin)]
        for o, chk in plan:
            ev.append(rn.step(o, chk))
            if rn.dead:           # the state of the object is unknown after an operation that did not return
                break
    finally:
        rn.shutdown()
        shutil.rmtree(d, ignore_errors=True)
    return {"tid": case["tid"], "par": case["par"], "ev": ev}


# ---------------------------------------------------------------------------
# generators
# ---------------------------------------------------------------------------

INVARIANTS = ["Emit", "TypeOK", "ClosedRaises", "FailKeeps", "SliceSetBound", "PadLeft", "SlicesSane", "ReadsKeep"]


def tlc_histories(tr):
    """Transition-covering histories from MC_PArray; returns (cases, TLCResult, info)."""
    if tr == "quick":
        k = dict(maxlen=3, base="SL_small", wide="SL_mid", lists="VL_small", wlists="WVL_small", wfresh="FALSE")
    else:
        k = dict(maxlen=4, base="SL_small", wide="SL_full", lists="VL_full", wlists="WVL_full", wfresh="TRUE")
    cfg = ("CONSTANTS MaxLen = %(maxlen)d\nBaseSl <- %(base)s\nWideSl <- %(wide)s\nBaseLists <- %(lists)s\n"
           "WideLists <- %(wlists)s\nWideFresh = %(wfresh)s\nEmitOn = TRUE\nSPECIFICATION MCSpec\nVIEW MCView\n" % k
           + "".join("INVARIANT %s\n" % i for i in INVARIANTS) + "PROPERTY LenConst\nCHECK_DEADLOCK FALSE\n")
    r = run_tlc("MC_PArray", cfg, workers=min(8, os.cpu_count() or 4), coverage=True, timeout=900, heap="2g",
                env=LONG_RUN_ENV if tr != "quick" else None)
    alpha = {}

    def tv(raw):        # TLC's pretty printer may break the line after "|->"; tla_value expects one space
        return tla_value(re.sub(r"\|->\s+", "|-> ", raw))
    for raw in parse_printed(r.out, "A"):       # printed once per initial state: parse one per (n, kind)
        m = re.match(r'<<\s*"A",\s*(\d+),\s*"(\w+)"', raw)
        if not m:
            raise MachineryError("MC_PArray: cannot read alphabet header %r" % raw[:60])
        key = (int(m.group(1)), m.group(2))
        if key not in alpha:
            alpha[key] = tv(raw)[3]
    states = [tv(raw) for raw in parse_printed(r.out, "S")]
    if len(states) != r.distinct:
        raise MachineryError("MC_PArray: %d states emitted, TLC reports %d distinct" % (len(states), r.distinct))
    hists = []
    ninit = 0
    for _tag, par, hist, kind in states:
        ninit += 0 if hist else 1
        for o in alpha[(par["n"], kind)]:
            hists.append((par, hist + [o]))
    if len(hists) != r.generated - ninit:
        raise MachineryError("MC_PArray: %d histories composed, TLC generated %d transitions"
                             % (len(hists), r.generated - ninit))
    # vacuity guard: every kind of operation occurs, from every kind of state
    kinds = {h[-1]["op"] for _p, h in hists}
    need = {"get", "set", "getslice", "setslice", "del", "delslice", "clear", "iter", "contains", "len", "close", "reopen"}
    if kinds != need:
        raise MachineryError("MC_PArray: operations never generated: %s" % sorted(need - kinds))
    if not action_counts(r.out).get("MCNext", [0, 0])[1]:
        raise MachineryError("MC_PArray: MCNext never taken")
    per_op = {}
    for _p, h in hists:
        per_op[h[-1]["op"]] = per_op.get(h[-1]["op"], 0) + 1
    info = {"constants": k, "histories_per_last_operation": per_op,
            "abstract_states": len(states), "max_history": max(len(h) for _p, h in hists)}
    return hists, r, info


_NONB = ["int", "str", "none", "list"]


def rand_history(rnd, length=40):
    n = rnd.randint(1, 6) if rnd.random() < 0.4 else rnd.randint(1, 40)
    isz = rnd.randint(1, 9)
    pf = rnd.randint(1, n + 2)
    par = {"n": n, "isz": isz, "pf": pf}
    written = []

    def good():
        v = [rnd.randrange(256) for _ in range(rnd.randint(0, isz))]
        if rnd.random() < 0.5:
            v = [rnd.randrange(1, 256) for _ in range(isz)]
        written.append(v)
        return {"k": "ba" if rnd.random() < 0.1 else "b", "v": v}

    def bad():
        if rnd.random() < 0.5:
            return {"k": "b", "v": [rnd.randrange(256) for _ in range(isz + rnd.randint(1, 3))]}
        return {"k": rnd.choice(_NONB), "v": []}

    def index():
        r = rnd.random()
        if r < 0.4:
            return rnd.randrange(n)
        if r < 0.8:
            return -rnd.randint(1, n)
        return rnd.choice([n, n + 1, n + 3, -n - 1, -n - 2, -n - 4])

    def comp():
        return [] if rnd.random() < 0.35 else [rnd.randint(-n - 3, n + 3)]

    def slc():
        r = rnd.random()
        st = [] if r < 0.4 else ([0] if r < 0.44 else [rnd.choice([-3, -2, -1, 1, 2, 3])])
        return [comp(), comp(), st]

    def probe():
        r = rnd.random()
        if written and r < 0.35:
            v = rnd.choice(written)
            return {"k": "b", "v": [0] * (isz - len(v)) + v}
        if written and r < 0.5:
            return {"k": "b", "v": rnd.choice(written)}
        if r < 0.65:
            return {"k": "b", "v": [0] * isz}
        if r < 0.8:
            return bad()
        return good()

    kinds = ["get"] * 6 + ["set"] * 8 + ["getslice"] * 4 + ["setslice"] * 8 + ["del"] * 3 + ["delslice"] * 2 + \
            ["clear", "iter", "len"] + ["contains"] * 2 + ["close"] * 3 + ["recreate"]
    ops = []
    is_open = True
    while len(ops) < length:
        if not is_open and rnd.random() < 0.6:
            ops.append(op("reopen"))
            is_open = True
            continue
        k = rnd.choice(kinds)
        if k == "get":
            ops.append(op("get", index()))
        elif k == "set":
            ops.append(op("set", index(), xs=[bad() if rnd.random() < 0.2 else good()]))
        elif k == "getslice":
            ops.append(op("getslice", sl=slc()))
        elif k == "setslice":
            xs = [good() for _ in range(rnd.randint(0, min(n + 2, 8)))]
            if xs and rnd.random() < 0.35:
                xs[rnd.randrange(len(xs))] = bad()
            ops.append(op("setslice", sl=slc(), xs=xs))
        elif k == "del":
            ops.append(op("del", index()))
        elif k == "delslice":
            ops.append(op("delslice", sl=slc()))
        elif k == "contains":
            ops.append(op("contains", xs=[probe()]))
        else:
            ops.append(op(k))
            if k == "close":
                is_open = False
            elif k == "recreate":
                is_open = True
    return par, ops


def pyslice_traces(tr, rnd):
    """Calls of the running CPython's slice.indices / range, to validate PySlice.tla."""
    lo = 6 if tr == "quick" else 8
    comps = [None] + list(range(-lo, lo + 1))
    traces = []
    total = 0

    def rec(a, b, c, n):
        sl = [[] if x is None else [x] for x in (a, b, c)]
        try:
            ind = list(slice(a, b, c).indices(n))
        except ValueError:
            return {"sl": sl, "n": n, "ok": False, "ind": [0, 0, 0], "idx": []}
        return {"sl": sl, "n": n, "ok": True, "ind": ind, "idx": list(range(*ind))}
    for n in ([0, 1, 2, 3, 5] if tr == "quick" else [0, 1, 2, 3, 4, 5, 7]):
        ev = [rec(a, b, c, n) for a in comps for b in comps for c in comps]
        total += len(ev)
        traces.append({"tid": "sl-n%d" % n, "ev": ev})
    ev = []
    for _ in range(2000 if tr == "quick" else 10000):
        n = rnd.randint(0, 45)

        def c():
            return None if rnd.random() < 0.3 else rnd.randint(-50, 50)
        ev.append(rec(c(), c(), c(), n))
    total += len(ev)
    traces.append({"tid": "sl-rand", "ev": ev})
    return traces, total


def check_pyslice(traces):
    verdicts, _agg = validate_traces("Trace_PySlice", traces, shards=len(traces), name="pyslice")
    bad = [(t["tid"], verdicts[t["tid"]]) for t in traces if not verdicts[t["tid"]]["ok"]]
    if bad:
        tid, v = bad[0]
        ev = [t for t in traces if t["tid"] == tid][0]["ev"][v["step"] - 1]
        raise MachineryError("PySlice.tla disagrees with CPython on %r (trace %s step %d)" % (ev, tid, v["step"]))
    return True


# ---------------------------------------------------------------------------
# Layer B
# ---------------------------------------------------------------------------

LAYERB_INV = ["TypeOKB", "Refines", "FilesInv", "CacheSane"]
# a TLC run of more than a few seconds is better off with the optimising compiler (the default set in main() is
# tuned for the many short trace-validation JVMs)
LONG_RUN_ENV = {"JAVA_TOOL_OPTIONS": "-XX:ParallelGCThreads=4"}
_RE_ACT = re.compile(r"^<(\w+) line \d+, col \d+ to line \d+, col \d+ of module (\w+)>: (\d+):(\d+)", re.M)


def action_counts(out):
    """per action: [distinct states found by it, states generated by it] from TLC's -coverage output"""
    res = {}
    for m in _RE_ACT.finditer(out):        # a long run prints the table more than once: the last one is final
        res[m.group(1)] = [int(m.group(3)), int(m.group(4))]
    return res


def check_layer_b(tr):
    """PArrayImpl against the Layer A step relation.  NormaliseReads = TRUE (reads normalise a negative index,
    as writes always did) must pass; FALSE (as first published) must violate every one of Refines, FilesInv and
    CacheSane: the model-level check is sensitive to exactly the defect class the property is about."""
    maxlen = 3 if tr == "quick" else 4
    nw = min(8, os.cpu_count() or 4)

    def cfg(ml, variant, invs):
        return ("CONSTANTS MaxLenB = %d\nNormaliseReads = %s\nSPECIFICATION SpecB\n" % (ml, variant)
                + "".join("INVARIANT %s\n" % i for i in invs) + "CHECK_DEADLOCK FALSE\n")
    good = run_tlc("PArrayImpl", cfg(maxlen, "TRUE", LAYERB_INV), workers=nw, coverage=True, allow_violation=True,
                   timeout=1500, name="PArrayImpl-fixed", heap="2g", env=LONG_RUN_ENV)
    if good.violated:
        raise MachineryError("Layer B (reads normalised) violates Layer A at model level: %s\n%s"
                             % (good.violated, "\n".join(l for l in good.out.splitlines() if "|" not in l[:12])[-6000:]))
    acts = action_counts(good.out)
    for act in ("DoOp", "DoClose", "DoReopen"):
        if not acts.get(act, [0, 0])[1]:
            raise MachineryError("PArrayImpl: action %s never taken" % act)
    old = {}
    for inv in ("Refines", "FilesInv", "CacheSane"):
        r = run_tlc("PArrayImpl", cfg(3, "FALSE", [inv]), workers=nw, allow_violation=True, timeout=600,
                    name="PArrayImpl-old-" + inv, heap="1g")
        if r.violated != inv:
            raise MachineryError("Layer B without read normalisation was expected to violate %s (sensitivity of the "
                                 "model-level check), TLC says: %s" % (inv, r.violated))
        m = re.search(r'viol = "([^"]+)"', r.out)
        old[inv] = {"states_until_violation": r.distinct, "clause": m.group(1) if m else ""}
    return good, acts, old


# ---------------------------------------------------------------------------
# main
# ---------------------------------------------------------------------------

def canon(par, ops):
    def o1(o):
        n = o["op"]
        sl = ":".join("" if not c else str(c[0]) for c in o["sl"])
        xs = ",".join((bytes(x["v"]).hex() or "''") if x["k"] in ("b", "ba") else x["k"] for x in o["xs"])
        if n in ("get", "del"):
            return "%s(%d)" % (n, o["i"])
        if n == "set":
            return "set(%d,%s)" % (o["i"], xs)
        if n in ("getslice", "delslice"):
            return "%s(%s)" % (n, sl)
        if n == "setslice":
            return "setslice(%s,[%s])" % (sl, xs)
        if n == "contains":
            return "contains(%s)" % xs
        return n
    return "n=%d isz=%d pf=%d: " % (par["n"], par["isz"], par["pf"]) + ";".join(o1(o) for o in ops)


def validate(traces):
    # many short-lived JVMs: a few thousand traces per JVM amortise the start-up; more shards only add load
    nrec = sum(len(t["ev"]) for t in traces)
    shards = max(1, min(4, os.cpu_count() or 4, nrec // 10000))
    return validate_traces("Trace_PArray", [{"tid": t["tid"], "par": t["par"], "ev": t["ev"]} for t in traces],
                           timeout=3000, shards=shards)


BATCH = 8000          # cases replayed and validated at a time: bounds what is held in memory
NPROC = 8


def sample_histories(hists, cap, rnd):
    """Quick tier: a stratified, seeded sample of the transition-covering set - the same number (as far as
    possible) from every (n, pf, kind of state, last operation) class."""
    groups = {}
    for par, h in hists:
        st = "closed" if finishing_ops(h[:-1])[0]["op"] == "reopen" else "open"
        groups.setdefault((par["n"], par["pf"], st, h[-1]["op"]), []).append((par, h))
    keys = sorted(groups)
    for k in keys:
        rnd.shuffle(groups[k])
    out = []
    level = 0
    while len(out) < cap:
        took = False
        for k in keys:
            if level < len(groups[k]) and len(out) < cap:
                out.append(groups[k][level])
                took = True
        if not took:
            break
        level += 1
    return out


def nontrivial(t):
    wrote = any(e["o"]["op"] in ("set", "setslice") and e["out"]["cls"] == "ok" and e["o"]["xs"] for e in t["ev"])
    read = any(e["o"]["op"] in ("get", "getslice", "iter", "contains") and e["out"]["cls"] == "ok" for e in t["ev"])
    return wrote and (read or any(e["chk"] for e in t["ev"][1:]))


def main(argv_tier=None, replay_path=None):
    import hashlib
    t0 = time.time()
    tr = tier(argv_tier)
    impl()
    # the TLC runs of this check are many and short: C1-only compilation and few GC threads cut their CPU cost
    # several times (measured: 16k traces 130 s -> 20 s of CPU) and the heap is kept small; an explicit
    # JAVA_TOOL_OPTIONS wins.  (run_tlc passes its own -Xmx, which overrides the one here.)
    os.environ.setdefault("JAVA_TOOL_OPTIONS", "-XX:TieredStopAtLevel=1 -XX:ParallelGCThreads=2 -Xmx1500m")
    if replay_path:
        with open(replay_path) as fh:
            rp = json.load(fh)
        t = run_case({"tid": "replay", "par": rp["par"], "ops": rp["ops"], "mode": rp["mode"]})
        verdicts, _ = validate([t])
        print(canon(rp["par"], rp["ops"]), "mode=" + rp["mode"])
        for k, e in enumerate(t["ev"]):
            print(" %2d %s" % (k + 1, json.dumps(e)))
        print(verdicts)
        return 0 if verdicts["replay"]["ok"] else 1

    rdir = os.path.join(VERIF, "replays")
    for f in (os.listdir(rdir) if os.path.isdir(rdir) else []):
        if f.startswith(PROP + "-"):        # replays written by an earlier run of this check are stale
            os.unlink(os.path.join(rdir, f))
    rnd = random.Random(seed() * 7919 + 19)

    # 1. the specification's own footing: PySlice.tla against the running CPython
    sl_traces, n_slice_calls = pyslice_traces(tr, rnd)
    check_pyslice(sl_traces)
    del sl_traces
    ta = time.time()
    # 2. Layer A bounded instance: invariants + transition-covering histories
    hists, r, info = tlc_histories(tr)
    n_emitted = len(hists)
    r_counts = action_counts(r.out)
    r = {"distinct": r.distinct, "generated": r.generated, "depth": r.depth}
    if tr == "quick":
        hists = sample_histories(hists, 8000, random.Random(seed() + 19))
    tb = time.time()
    # 3. Layer B against Layer A
    lb_good, lb_acts, lb_old = check_layer_b(tr)
    lb = {"distinct": lb_good.distinct, "generated": lb_good.generated, "depth": lb_good.depth}
    del lb_good
    t1 = time.time()

    # 4./5. replay on the real class and validate, in bounded batches
    cases = [{"tid": "t%d" % k, "par": par, "ops": ops, "mode": "last", "src": "tlc"} for k, (par, ops) in enumerate(hists)]
    n_tlc = len(cases)
    del hists
    nrand = 400 if tr == "quick" else 4000
    for k in range(nrand):
        par, ops = rand_history(rnd)
        for mode in ("full", "lazy"):
            cases.append({"tid": "r%d%s" % (k, mode[0]), "par": par, "ops": ops, "mode": mode, "src": "random"})
    datadir()                      # created (and removed at exit) by the parent, shared by the forked workers
    rej, drift, distinct, samples = [], {}, set(), []
    nrec = raised = ntraces = tv_states = 0
    t_replay = t_valid = 0.0
    sample_tids = {"t%d" % (n_tlc // 3 * 2), "r%df" % (nrand - 1), "r%dl" % (nrand - 1)}
    batches, cur, wt = [], [], 0
    for c in cases:                 # a random history (40 steps, arrays up to 40 x 9 bytes) weighs about 8 short ones
        w = 1 if c["src"] == "tlc" else 8
        if cur and wt + w > BATCH:
            batches.append(cur)
            cur, wt = [], 0
        cur.append(c)
        wt += w
    if cur:
        batches.append(cur)
    del cases
    for chunk in batches:
        tx = time.time()
        traces = pmap(run_case, chunk, nproc=NPROC)
        ty = time.time()
        verdicts, agg = validate(traces)
        t_replay += ty - tx
        t_valid += time.time() - ty
        tv_states += agg["distinct"]
        ntraces += len(traces)
        for c, t in zip(chunk, traces):
            v = verdicts[t["tid"]]
            nrec += len(t["ev"])
            raised += sum(1 for e in t["ev"] if e["out"]["cls"] == "raised")
            if nontrivial(t):
                distinct.add(hashlib.md5((canon(c["par"], c["ops"]) + c["mode"]).encode()).digest())
            if c["tid"] in sample_tids:
                samples.append({"history": canon(c["par"], c["ops"]), "mode": c["mode"], "events": t["ev"][:6]})
            if not v["ok"]:
                keep = len(rej) < 400
                rej.append({"key": v["clause"], "case": c, "trace": t if keep else None, "verdict": v})
            elif v["clause"]:
                drift.setdefault(v["clause"].split("@")[0], []).append(c["tid"])
        del traces, verdicts
    t3 = time.time()

    for key, tids in sorted(drift.items()):
        print("DRIFT property=%s %s: exception class differs from the list's in %d trace(s), e.g. %s"
              % (PROP, key, len(tids), tids[0]))
    viol, seen = classify(PROP, rej)
    # shortest failing history first, and one of every (clause, mode) class before the second of any
    viol.sort(key=lambda x: (len(x["case"]["ops"]), x["case"]["par"]["n"], x["case"]["tid"]))
    firsts, rest, keys = [], [], set()
    for x in viol:
        kk = (x["verdict"]["clause"], x["case"]["mode"])
        (rest if kk in keys else firsts).append(x)
        keys.add(kk)
    vio_out = []
    for x in [y for y in firsts + rest if y["trace"] is not None][:20]:
        c = x["case"]
        h = canon(c["par"], c["ops"])
        p = write_replay(PROP, c["tid"], {"par": c["par"], "ops": c["ops"], "mode": c["mode"], "events": x["trace"]["ev"],
                                         "verdict": x["verdict"], "seed": seed(), "history": h})
        vio_out.append(("step %d %s mode=%s %s" % (x["verdict"]["step"], x["verdict"]["clause"], c["mode"],
                                                   h if len(h) < 240 else h[:240] + " ..."), p))
    n_viol = len(viol)
    by_clause = {}
    for x in viol:
        by_clause[x["verdict"]["clause"]] = by_clause.get(x["verdict"]["clause"], 0) + 1

    k = info["constants"]
    cov = {
        "states": r["distinct"] + lb["distinct"], "transitions": r["generated"] + lb["generated"],
        "layer_a": {"states": r["distinct"], "transitions": r["generated"], "depth": r["depth"],
                    "action_counts_distinct_generated": r_counts,
                    "invariants": INVARIANTS[1:] + ["LenConst"], "generator": info},
        "layer_b": {"states": lb["distinct"], "transitions": lb["generated"], "depth": lb["depth"],
                    "action_counts_distinct_generated": lb_acts, "invariants": LAYERB_INV,
                    "variant_without_read_normalisation_violates": lb_old},
        "pyslice_calls_checked_against_cpython": n_slice_calls,
        "traces_validated_against_impl": ntraces,
        "trace_records": nrec, "records_with_raised_outcome": raised,
        "trace_validation_states": tv_states,
        "tlc_histories_emitted": n_emitted, "tlc_histories_replayed": n_tlc, "random_histories": nrand,
        "evaluations": ntraces, "distinct_nontrivial": len(distinct),
        "rule": "transitions of MC_PArray (n<=%d, pf in 1..n+2, item size 2, values A/B/Z/oversized/non-bytes, indices -n-1..n, "
                "slices %s x lists %s at every state and %s x %s at the seed states), each as shortest history + operation, run "
                "in mode last (%s); plus %d seeded random histories of length 40 (n 1..40, item size 1..9, pf 1..n+2) run in "
                "mode full and in mode lazy; non-trivial = at least one successful write of a value and a successful read or "
                "full read after it; distinct by (parameters, operations, mode)"
                % (k["maxlen"], k["base"], k["lists"], k["wide"], k["wlists"],
                   "all %d" % n_emitted if n_tlc == n_emitted else
                   "stratified seeded sample of %d of the %d: equal shares per (n, pf, open/closed, last operation)" % (n_tlc, n_emitted),
                   nrand),
        "exhaustive": n_tlc == n_emitted,
        "samples": samples,
        "drift": {kk: len(v) for kk, v in drift.items()},
        "rejections_by_clause": by_clause,
        "timing_s": {"pyslice": round(ta - t0, 1), "tlc_generator": round(tb - ta, 1), "layer_b": round(t1 - tb, 1),
                     "replay": round(t_replay, 1), "trace_validation": round(t_valid, 1)},
        "model": "spec/store/PArray.tla via MC_PArray; PArrayImpl (Layer B); trace spec Trace_PArray; PySlice via Trace_PySlice",
    }
    out = finish(PROP, tr, t0, cov, vio_out, seen, assumptions=[
        "the full read after a step goes through the handle under test (arr[:]) and therefore opens / creates every "
        "chunk file; modes last and lazy take no reads before the point of interest (directory listing only) and end with "
        "close + reopen + full read",
        "while the user's handle is closed the full read is taken through a fresh SPFLBArray.open() that is closed again",
        "exception classes are not part of the property (reported as DRIFT); closing a closed array may or may not raise",
        "CPython's slice.indices and range as transcribed in PySlice.tla (checked against the running interpreter each run)",
        "scratch directory on a local (RAM-backed when available) file system; no concurrent access; no crash between "
        "operations (C13 covers crashes)",
        "an operation that does not return within %d s (%d s of CPU) is recorded as outcome noreturn and rejected"
        % (OP_TIMEOUT_S, OP_CPU_S)])
    if n_viol > len(vio_out):
        print("%s: %d rejected traces in total (%s)" % (PROP, n_viol, ", ".join("%s x%d" % kv for kv in sorted(by_clause.items()))))
    return out
