"""Binding the harness to /repo modules without depending on how they spell things.

The checks steer the real code through a few seams: the data directory of the file managers, the `asyncio` /
`websockets` names inside the modules that sleep, time out, connect and serve, the ServicesManager instance of the
connector.  A harmless refactoring (a renamed private attribute, `from asyncio import sleep`, `websockets.connect`
for `websockets.client.connect`) must not be able to turn a seam off SILENTLY: a seam that does nothing makes the
real code run against the wrong directory or the wall clock and the check would then report nonsense as a
violation.  The helpers here find the seams by VALUE (the object bound, not the name it is bound to), and the
guards turn an ineffective seam into a MachineryError (exit 2), never into a verdict.
"""
import os
import pathlib
import types


class BindingError(Exception):
    pass


def rebind(module, mapping):
    """mapping: {original object: replacement}.  Every module-level name of `module` bound to one of the originals is bound
    to its replacement.  -> list of names rebound (the caller decides whether an empty list is acceptable)."""
    done = []
    for name, val in list(vars(module).items()):
        for orig, repl in mapping.items():
            if val is orig:
                setattr(module, name, repl)
                done.append(name)
    return done


def restore(module, mapping):
    """undo rebind(): names bound to a replacement get the original back"""
    for name, val in list(vars(module).items()):
        for orig, repl in mapping.items():
            if val is repl:
                setattr(module, name, orig)


def data_dir_attrs(fm_module, home=None):
    """names of the module-level pathlib paths of a file manager that point into ~/.sse (its data directory)"""
    home = pathlib.Path(home or os.environ.get("HOME", "~")).expanduser()
    root = home / ".sse"
    names = []
    for name, val in vars(fm_module).items():
        # a pathlib path or a plain string (os.path style) - the value is replaced by one of the same type
        if isinstance(val, pathlib.PurePath) or (isinstance(val, str) and val.startswith(str(root)) and not name.startswith("__")):
            try:
                pathlib.PurePath(val).relative_to(root)
            except ValueError:
                continue
            names.append(name)
    return names


_DATA_ATTRS = {}


def set_data_dir(fm_module, newdir):
    """Point a file manager (server or client) at `newdir`: every module-level path that lies in ~/.sse is rebased.  The
    names are discovered once per module (while they still point into ~/.sse) and remembered."""
    key = fm_module.__name__
    if key not in _DATA_ATTRS:
        names = data_dir_attrs(fm_module)
        if not names:
            raise BindingError("%s has no module-level path below ~/.sse: the harness cannot select a data directory" % key)
        _DATA_ATTRS[key] = names
    for n in _DATA_ATTRS[key]:
        setattr(fm_module, n, str(newdir) if isinstance(getattr(fm_module, n, None), str) else pathlib.Path(newdir))
    return _DATA_ATTRS[key]


def leaked_data(home=None):
    """entries the code wrote below the process' own ~/.sse instead of a case directory (a seam that did not take)"""
    home = pathlib.Path(home or os.environ.get("HOME", "/nonexistent"))
    root = home / ".sse"
    out = []
    if root.is_dir():
        for p in root.iterdir():
            if p.name in ("log", "client"):
                if p.name == "client":
                    out += [str(q) for q in p.iterdir() if not q.name.startswith("_home_")]
                continue
            out.append(str(p))
    return out


def find_instances(module, cls):
    """module-level names bound to an instance of cls"""
    return [n for n, v in vars(module).items() if isinstance(v, cls) and not isinstance(v, type)]


def call_handler(handler, ws, path="/"):
    """websockets accepts connection handlers with (websocket) or (websocket, path)"""
    import inspect
    try:
        params = [p for p in inspect.signature(handler).parameters.values()
                  if p.kind in (p.POSITIONAL_ONLY, p.POSITIONAL_OR_KEYWORD)]
        var = any(p.kind == p.VAR_POSITIONAL for p in inspect.signature(handler).parameters.values())
    except (TypeError, ValueError):
        params, var = [None, None], False
    if var or len(params) >= 2:
        return handler(ws, path)
    return handler(ws)


def asyncio_aliases(real_asyncio, proxy):
    """mapping for rebind(): the module object itself and the functions a module may have imported by name"""
    m = {real_asyncio: proxy}
    for fn in ("sleep", "create_task", "ensure_future", "wait_for"):
        if hasattr(type(proxy), fn) or fn in getattr(proxy, "__dict__", {}):
            m[getattr(real_asyncio, fn)] = getattr(proxy, fn)
    return m


def is_module(x):
    return isinstance(x, types.ModuleType)
