"""C18 — bit strings behave like fixed-width big-endian bit vectors.

1. TLC runs MC_BitVec: the domain (every bit string of length <= W, pairs with the second of length <= WP)
   is the state space; the invariants are algebraic laws of the list-of-bits MODEL (spec/prim/BitVec.tla)
   tying it to integer arithmetic, so the oracle itself is checked.  TLC emits the domain.
2. The driver evaluates the real toolkit.bits.Bitset / toolkit.bits_utils on exactly that domain
   (exhaustively), on the boundary values 0, 2^k-1, 2^k, 2^k+1 for k <= 300 and on random values of length
   up to 300; every call is one JSON record (integers as bit lists).
3. TLC (Trace_BitVec) evaluates the model on the same arguments and judges every call independently.
"""
import json
import os
import random
import sys
import time

from common import (REPO, MachineryError, classify, finish, parse_printed, pmap, run_tlc, seed, subdir, tier,
                    tla_value, write_replay)
from calls import BadType, key_of, limit_jvm, retry, run_call, validate_calls, want_bool, want_int

PROP = "C18"
MAXLEN = 300
DRIFT_OPS = {"setitem", "repr"}  # not named in the property text (conversion to int, str and bytes is): drift, never a violation

_IMPL = None


def impl():
    global _IMPL
    if _IMPL is None:
        os.environ["HOME"] = subdir("home")
        if REPO not in sys.path:
            sys.path.insert(0, REPO)
        from toolkit.bits import Bitset
        from toolkit import bits_utils
        _IMPL = (Bitset, bits_utils)
    return _IMPL


# --------------------------------------------------------------------------- conversions (harness, trusted)

def b2i(bits):
    v = 0
    for x in bits:
        v = (v << 1) | x
    return v


def i2b(v, n=0):
    """non-negative int -> MSB-first bit list, left-padded with zeros to at least n bits (0 -> [])"""
    if isinstance(v, bool) or not isinstance(v, int) or v < 0:
        raise BadType(type(v).__name__)
    s = format(v, "b") if v else ""
    s = "0" * max(0, n - len(s)) + s
    return [1 if c == "1" else 0 for c in s]


def width(bits):
    return len(bits) - bits.index(1) if 1 in bits else 0


def mk0(bits):
    """the real Bitset with these bits: value and explicit length (length 0 can only be Bitset(0))"""
    Bitset, _ = impl()
    return Bitset(b2i(bits), len(bits))


# Provenance of the operands.  For the model an operand is its bits; the real object may carry more (cached masks, widths
# set after the fact).  A call spec with "via" gets its operands not from the constructor but as the RESULT of another
# public operation that yields exactly these bits; the call recorded for TLC is the same call on the same bits.
VIAS = ("and1", "or0", "xor0", "notnot", "concat", "higher", "lower", "shl0", "from_seq", "new_bits", "half", "xorxor", "shr0")
_VIA = [None]


def _via(bits, how):
    Bitset, bu = impl()
    n = len(bits)
    ones, zeros = [1] * n, [0] * n
    if how == "and1":
        return mk0(bits) & mk0(ones)
    if how == "or0":
        return mk0(bits) | mk0(zeros)
    if how == "xor0":
        return mk0(bits) ^ mk0(zeros)
    if how == "notnot":
        return ~(~mk0(bits))
    if how == "xorxor":
        return (mk0(bits) ^ mk0(ones)) ^ mk0(ones)
    if how == "concat":
        return mk0(bits[:n // 2]).concat(mk0(bits[n // 2:]))
    if how == "higher":
        return mk0(list(bits) + [1, 0, 1]).get_higher_bits(n)
    if how == "lower":
        return mk0([1, 0, 1] + list(bits)).get_lower_bits(n)
    if how == "shl0":
        return mk0(bits) << 0
    if how == "shr0":
        return mk0(bits) >> 0
    if how == "from_seq":
        return Bitset.from_sequence(list(bits))
    if how == "new_bits":
        return Bitset(mk0(bits), n) if n else mk0(bits)
    if how == "half":
        r = bu.half_bits_not_padding(mk0(list(bits) + list(bits)))
        return r[0]
    raise MachineryError("unknown provenance " + how)


def mk(bits):
    how = _VIA[0]
    if how is None:
        return mk0(bits)
    try:
        x = _via(bits, how)
        p = proj(x)
        if p["n"] == len(bits) and p["v"] == list(bits):
            return x
    except MachineryError:
        raise
    except Exception:
        pass
    # the producing operation itself does not deliver these bits (its own direct test says so): fall back to the constructor
    return mk0(bits)


def proj(x):
    """real Bitset -> {n: len(x), v: bits of int(x) padded to len(x)} (public observers only)"""
    Bitset, _ = impl()
    if not isinstance(x, Bitset):
        raise BadType(type(x).__name__)
    n = want_int(len(x))
    return {"n": n, "v": i2b(int(x), n)}


def opt(x):
    return x[0] if x else None


def _slice(c):
    s = c["s"]
    return slice(opt(s["start"]), opt(s["stop"]), opt(s["step"]))


def _new(arg, n):
    Bitset, _ = impl()
    return proj(Bitset(arg, n) if n else Bitset(arg))


def _setitem(c):
    x = mk(c["a"])
    x[c["i"]] = c["t"]
    return proj(x)


def _half(fn, arg):
    _, bu = impl()
    r = getattr(bu, fn)(arg)
    if not isinstance(r, (tuple, list)) or len(r) != 2:
        raise BadType(type(r).__name__)
    return [proj(r[0]), proj(r[1])]


TABLE = {
    "new_int":     lambda c: _new(b2i(c["v"]), c["n"]),
    "new_bytes":   lambda c: _new(bytes(c["bs"]), c["n"]),
    "new_bits":    lambda c: _new(mk(c["a"]), c["n"]),
    "from_seq":    lambda c: proj(impl()[0].from_sequence([bool(x) for x in c["s"]] if c.get("as_bool") else list(c["s"]))),
    "and":         lambda c: proj(mk(c["a"]) & mk(c["b"])),
    "or":          lambda c: proj(mk(c["a"]) | mk(c["b"])),
    "xor":         lambda c: proj(mk(c["a"]) ^ mk(c["b"])),
    "not":         lambda c: proj(~mk(c["a"])),
    "shl":         lambda c: proj(mk(c["a"]) << c["k"]),
    "shr":         lambda c: proj(mk(c["a"]) >> c["k"]),
    "concat":      lambda c: proj(mk(c["a"]).concat(mk(c["b"]))),
    "add":         lambda c: proj(mk(c["a"]) + mk(c["b"])),
    "higher":      lambda c: proj(mk(c["a"]).get_higher_bits(c["k"])),
    "lower":       lambda c: proj(mk(c["a"]).get_lower_bits(c["k"])),
    "half":        lambda c: _half("half_bits", mk(c["a"])),
    "half_np":     lambda c: _half("half_bits_not_padding", mk(c["a"])),
    "half_int":    lambda c: _half("half_bits", b2i(c["v"])),
    "half_np_int": lambda c: _half("half_bits_not_padding", b2i(c["v"])),
    "eq":          lambda c: want_bool(mk(c["a"]) == mk(c["b"])),
    "ne":          lambda c: want_bool(mk(c["a"]) != mk(c["b"])),
    "int":         lambda c: i2b(int(mk(c["a"]))),
    "len":         lambda c: want_int(len(mk(c["a"]))),
    "bit_length":  lambda c: want_int(mk(c["a"]).bit_length()),
    "bytes":       lambda c: list(bytes(mk(c["a"]))),
    "str":         lambda c: list(str(mk(c["a"]))),
    "repr":        lambda c: list(repr(mk(c["a"]))),
    "iter":        lambda c: [want_bool(x) for x in mk(c["a"])],
    "getitem":     lambda c: want_bool(mk(c["a"])[c["i"]]),
    "slice":       lambda c: [want_bool(x) for x in mk(c["a"])[_slice(c)]],
    "reversed":    lambda c: [want_bool(x) for x in reversed(mk(c["a"]))],
    "contains":    lambda c: want_bool(c["t"] in mk(c["a"])),
    "count":       lambda c: want_int(mk(c["a"]).count(c["t"])),
    "index":       lambda c: want_int(mk(c["a"]).index(c["t"])),
    "setitem":     _setitem,
}


def execute(spec):
    _VIA[0] = spec.get("via")
    try:
        return run_call(TABLE, spec)
    finally:
        _VIA[0] = None


# --------------------------------------------------------------------------- the domain

def all_slices(n):
    bounds = [[]] + [[i] for i in range(-n - 2, n + 3)]
    steps = [[]] + [[i] for i in range(-3, 4)]
    return [{"start": x, "stop": y, "step": z} for x in bounds for y in bounds for z in steps]


def rand_slice(n, rnd):
    def bound():
        return [] if rnd.random() < 0.2 else [rnd.randint(-n - 2, n + 2)]
    st = rnd.choice([[], [], [1], [-1], [2], [-2], [3], [-3], [0], [rnd.randint(1, n + 2)], [-rnd.randint(1, n + 2)]])
    return {"start": bound(), "stop": bound(), "step": st}


def value_specs(a, rnd, *, small, W, slices):
    """every unary operation and every construction for the value/length given by the bit list a"""
    n, w = len(a), width(a)
    val = b2i(a)
    S = []
    # construction from an integer / bytes / another bit string / a sequence
    lens = list(range(0, W + 2)) if small else sorted({0, w, w + 1, max(w - 1, 0), n, n + 1, MAXLEN, 8 * ((w + 7) // 8)})
    for m in lens:
        S.append({"op": "new_int", "v": a, "n": m})
    bs = list(val.to_bytes((w + 7) // 8, "big"))
    for b in (bs, [0] + bs):
        for m in sorted({0, w, max(w - 1, 0), n, 8 * len(b)}):
            S.append({"op": "new_bytes", "bs": b, "n": m})
    for m in sorted({0, n, n + 1, max(w - 1, 0), w}):
        S.append({"op": "new_bits", "a": a, "n": m})
    S.append({"op": "from_seq", "s": a})
    S.append({"op": "from_seq", "s": a, "as_bool": True})
    S.append({"op": "half_int", "v": a})
    S.append({"op": "half_np_int", "v": a})
    # observers and unary operators
    for op in ("not", "int", "len", "bit_length", "bytes", "str", "repr", "iter", "reversed", "half", "half_np"):
        S.append({"op": op, "a": a})
    idxs = range(n) if small else sorted({i for i in (0, 1, 7, 8, n // 2, n - 2, n - 1, rnd.randrange(max(n, 1))) if 0 <= i < n})
    for i in idxs:
        S.append({"op": "getitem", "a": a, "i": i})
        for t in ((False, True) if small else (not bool(a[i]),)):
            S.append({"op": "setitem", "a": a, "i": i, "t": t})
    for t in (False, True):
        S.append({"op": "contains", "a": a, "t": t})
        S.append({"op": "count", "a": a, "t": t})
        if (1 if t else 0) in a:
            S.append({"op": "index", "a": a, "t": t})
    ks = range(0, n + 3) if small else sorted({k for k in (0, 1, 7, 8, 9, n // 2, n - 1, n, n + 1, rnd.randint(0, n + 2)) if k >= 0})
    for k in ks:
        S.append({"op": "shl", "a": a, "k": k})
        S.append({"op": "shr", "a": a, "k": k})
    kh = range(-1, n + 3) if small else sorted({-1, 0, 1, 8, n // 2, (n + 1) // 2, max(n - 1, 0), n, n + 1, rnd.randint(0, n + 2)})
    for k in kh:
        S.append({"op": "higher", "a": a, "k": k})
        S.append({"op": "lower", "a": a, "k": k})
    if slices == "all":
        sl = all_slices(n)
    else:
        sl = [rand_slice(n, rnd) for _ in range(slices)]
        sl += [{"start": [], "stop": [], "step": []}, {"start": [], "stop": [], "step": [-1]}]
    for s in sl:
        S.append({"op": "slice", "a": a, "s": s})
    return S


PAIR_OPS_FULL = ("and", "or", "xor", "concat", "add", "eq", "ne")
PAIR_OPS_CORE = ("and", "or", "xor", "concat", "eq")


def pair_specs(a, b, ops=PAIR_OPS_FULL):
    return [{"op": op, "a": a, "b": b} for op in ops]


def boundary_values(ks):
    """0, 2^k-1, 2^k, 2^k+1 as (label, minimal bit list)"""
    out = [("0", [])]
    seen = {0}
    for k in ks:
        for lab, v in (("2^%d-1" % k, 2 ** k - 1), ("2^%d" % k, 2 ** k), ("2^%d+1" % k, 2 ** k + 1)):
            if v not in seen:
                seen.add(v)
                out.append((lab, i2b(v)))
    return out


def pad(bits, n):
    return [0] * max(0, n - len(bits)) + list(bits)


# --------------------------------------------------------------------------- work units (run in forked workers)

def run_unit(u):
    kind = u[0]
    rnd = random.Random("%d:%s" % (seed(), u[1]))
    specs = []
    if kind == "small":         # one emitted value: everything unary, exhaustively
        _k, _uid, a, W, slices = u
        specs = value_specs(a, rnd, small=True, W=W, slices=slices)
    elif kind == "pairs":       # one emitted value against every emitted value of length <= WP
        _k, _uid, a, bs, ops = u
        for b in bs:
            specs += pair_specs(a, b, ops)
    elif kind == "big":         # a boundary / random value: as minimal-length string and as padded string
        _k, _uid, a, others, nsl = u
        specs = value_specs(a, rnd, small=False, W=0, slices=nsl)
        if len(a) < MAXLEN:
            p = pad(a, min(MAXLEN, len(a) + rnd.choice((1, 3, 8, 9))))
            specs += [s for s in value_specs(p, rnd, small=False, W=0, slices=2) if s["op"] not in ("new_int", "new_bytes")]
        for b in others:
            specs += pair_specs(a, b)
            specs += pair_specs(b, a, PAIR_OPS_CORE)
            m = max(len(a), len(b))
            specs += pair_specs(pad(a, m), pad(b, m), PAIR_OPS_CORE)
    else:
        raise MachineryError("unknown unit " + kind)
    # every call once more (small / big units; every fourth of the pairs) with operands that are results of other operations
    salt = rnd.randrange(len(VIAS))
    step = 4 if kind == "pairs" else 1
    specs += [dict(s, via=VIAS[(i + salt) % len(VIAS)]) for i, s in enumerate(specs) if "a" in s and i % step == 0]
    return [execute(s) for s in specs]


def show(bits):
    if len(bits) <= 24:
        return "0b" + "".join(map(str, bits)) + "/%d" % len(bits)
    return "0x%x/%d" % (b2i(bits), len(bits))


def describe(r):
    parts = []
    for k in ("a", "b", "v", "s"):
        if k in r and isinstance(r[k], list):
            parts.append("%s=%s" % (k, show(r[k])))
        elif k in r:
            parts.append("%s=%s" % (k, json.dumps(r[k], sort_keys=True)))
    if r.get("via"):
        parts.append("operands-via=%s" % r["via"])
    for k in ("bs", "n", "k", "i", "t"):
        if k in r:
            parts.append("%s=%s" % (k, r[k]))
    got = r.get("res")
    if isinstance(got, dict):
        got = "len %d value %s" % (got["n"], show(got["v"]))
    elif isinstance(got, list) and len(got) > 40:
        got = "list of %d" % len(got)
    return "%s(%s) -> %s %s" % (r["op"], ", ".join(parts), r["out"], "" if got is None else got)


def nontrivial(r):
    """a call is non-trivial when some bit-string / integer / bytes argument has a non-zero bit"""
    return any(any(r.get(k) or []) for k in ("a", "b", "v", "bs", "s") if isinstance(r.get(k), list))


def main(argv_tier=None, replay_path=None):
    t0 = time.time()
    tr = tier(argv_tier)
    limit_jvm()
    impl()
    if replay_path:
        with open(replay_path) as fh:
            rp = json.load(fh)
        recs = [execute(s) for s in rp["calls"]]
        fails, _ = retry(validate_calls, "Trace_BitVec", recs, group=50)
        bad = {f["index"]: f for f in fails}
        for i, r in enumerate(recs):
            print(("REJECT %s: " % bad[i]["why"] if i in bad else "accept: ") + describe(r))
        return 1 if [f for f in fails if f["op"] not in DRIFT_OPS] else 0

    quick = tr == "quick"
    W = 8
    WP = 5 if quick else 8
    src = open(os.path.join(os.path.dirname(os.path.dirname(os.path.abspath(__file__))), "spec", "prim", "MC_BitVec.tla")).read()
    import re
    laws = re.findall(r"^(L_\w+)\s*==", src, re.M)
    if len(laws) < 40:
        raise MachineryError("law list of MC_BitVec not found")
    cfg = ("CONSTANTS W = %d\nWP = %d\nSPECIFICATION MCSpec\nINVARIANT Emit\nINVARIANT TypeOK\n" % (W, WP)
           + "".join("INVARIANT %s\n" % x for x in laws) + "CHECK_DEADLOCK FALSE\n")
    r = retry(run_tlc, "MC_BitVec", cfg)
    dom = sorted({tuple(tla_value(x)[1]) for x in parse_printed(r.out, "H")}, key=lambda b: (len(b), b))
    nvals, npair = 2 ** (W + 1) - 1, 2 ** (WP + 1) - 1
    if len(dom) != nvals or r.distinct != nvals + nvals * npair:
        raise MachineryError("MC_BitVec: expected %d values / %d states, got %d / %s" % (nvals, nvals + nvals * npair, len(dom), r.distinct))
    dom = [list(b) for b in dom]
    domP = [b for b in dom if len(b) <= WP]

    # ---- work units
    SL = 3 if quick else 5                      # all slices for lengths <= SL, a random sample above
    NS = 24 if quick else 200
    units = []
    for a in dom:
        uid = "".join(map(str, a))
        units.append(("small", "s" + uid, a, W, "all" if len(a) <= SL else NS))
    for a in domP:
        uid = "".join(map(str, a))
        units.append(("pairs", "p" + uid, a, domP, PAIR_OPS_FULL if len(a) <= 5 else PAIR_OPS_CORE))
    rnd = random.Random(seed() + 18)
    if quick:
        ks = sorted(set(range(0, 73)) | {k + d for k in range(72, MAXLEN, 8) for d in (-1, 0, 1)} | {MAXLEN - 1, MAXLEN}
                    | {rnd.randint(73, MAXLEN) for _ in range(20)})
        ks = [k for k in ks if k <= MAXLEN]
    else:
        ks = list(range(0, MAXLEN + 1))
    bvals = boundary_values(ks)
    bvals = [(lab, b) for lab, b in bvals if len(b) <= MAXLEN]       # 2^300 and 2^300+1 need 301 bits: out of the domain
    for j, (lab, b) in enumerate(bvals):
        others = [bvals[j - 1][1]] if j else []
        if j >= 2:
            others.append(bvals[j - 2][1])
        others.append(bvals[rnd.randrange(len(bvals))][1])
        units.append(("big", "b" + lab, b, others, 4))
    nrand = 200 if quick else 3000
    rvals = []
    for j in range(nrand):
        n = rnd.choice((rnd.randint(9, 64), rnd.randint(9, MAXLEN), rnd.randint(9, MAXLEN), rnd.choice((47, 48, 49, 53, 54, 63, 64, 65, 127, 128, 255, 256, MAXLEN))))
        v = rnd.getrandbits(n)
        if rnd.random() < 0.15:
            v |= (1 << n) - (1 << (n // 2))          # long runs of ones: close to a power of two from below
        rvals.append(i2b(v, n if rnd.random() < 0.5 else 0))
    for j, b in enumerate(rvals):
        units.append(("big", "r%d" % j, b, [rvals[j - 1], rvals[rnd.randrange(len(rvals))]], 6))

    # ---- execute on the real code, validate in batches (bounded memory)
    consts = ""
    fails_all, agg_all = [], {"generated": 0, "distinct": 0}
    ncalls = 0
    keys = set()
    ntriv = 0
    per_op = {}
    samples = []
    viol_records = []
    # cheap units first would starve the pool at the end: interleave by sorting on a hash
    order = list(range(len(units)))
    random.Random(seed()).shuffle(order)
    def est(u):
        if u[0] == "pairs":
            return len(u[3]) * len(u[4])
        if u[0] == "small":
            return 150 + (len(all_slices(len(u[2]))) if u[4] == "all" else u[4])
        return 400
    batches, cur, size = [], [], 0
    for i in order:
        cur.append(units[i])
        size += est(units[i])
        if size >= 250000:
            batches.append(cur)
            cur, size = [], 0
    if cur:
        batches.append(cur)
    for us in batches:
        recs = []
        for rr in pmap(run_unit, us):
            recs += rr
        big = any(u[0] == "big" for u in us)
        fails, agg = retry(validate_calls, "Trace_BitVec", recs, group=60 if big else 150, consts=consts, name="c18")
        agg_all["generated"] += agg["generated"]
        agg_all["distinct"] += agg["distinct"]
        ncalls += len(recs)
        for x in recs:
            per_op[x["op"]] = per_op.get(x["op"], 0) + 1
            k = hash(key_of(x))
            if k not in keys:
                keys.add(k)
                if nontrivial(x):
                    ntriv += 1
        if len(samples) < 6:
            samples += [recs[0], recs[len(recs) // 2]]
        for f in fails:
            viol_records.append((f, recs[f["index"]]))

    missing = [op for op in TABLE if not per_op.get(op)]
    if missing:
        raise MachineryError("operations never exercised: %s" % missing)
    # ---- verdict
    drift = [(f, x) for f, x in viol_records if f["op"] in DRIFT_OPS]
    rej, dup = [], set()
    for f, x in viol_records:
        if f["op"] in DRIFT_OPS or key_of(x) in dup:      # the same call generated twice: one violation
            continue
        dup.add(key_of(x))
        rej.append({"key": "%s:%s" % (f["op"], f["why"]), "trace": x, "verdict": f})
    viol, seen = classify(PROP, rej)
    for f, x in drift[:10]:
        print("DRIFT property=%s %s  # %s" % (PROP, f["why"], describe(x)))
    vio_out = []
    # one replay per (operation, clause) class first, then further instances, 20 at most
    viol.sort(key=lambda v: (len(json.dumps(v["trace"])),))
    classes = {}
    for v in viol:
        classes.setdefault(v["key"], []).append(v)
    picked = []
    for kq in sorted(classes):
        picked.append(classes[kq][0])
    depth = 1
    while len(picked) < 20 and any(len(v) > depth for v in classes.values()):
        for kq in sorted(classes):
            picked += classes[kq][depth:depth + 1]
        depth += 1
    for j, v in enumerate(picked[:20]):
        spec = {k: val for k, val in v["trace"].items() if k not in ("out", "res")}
        p = write_replay(PROP, "%s-%d" % (v["trace"]["op"], j), {"calls": [spec], "records": [v["trace"]], "verdict": v["verdict"], "seed": seed()})
        vio_out.append(("%s: %s" % (v["verdict"]["why"], describe(v["trace"])), p))
    vio_out += [("", "more")] * max(0, len(viol) - len(vio_out))
    cov = {
        "states": r.distinct, "transitions": r.generated,
        "model_laws_checked": len(laws),
        "traces_validated_against_impl": ncalls,
        "trace_validation_states": agg_all["distinct"],
        "evaluations": ncalls, "distinct_nontrivial": ntriv,
        "calls_per_operation": per_op,
        "rule": "every public operation on every bit string of length <= %d emitted by TLC from MC_BitVec (all slices with bounds in "
                "-(n+2)..n+2 and steps None,-3..3 for n <= %d, %d random slices above), binary operators on all pairs with both lengths <= %d, "
                "boundary values 0, 2^k-1, 2^k, 2^k+1 for %d values of k in 0..%d and %d random values of length 9..%d (each also zero-padded, "
                "paired with neighbours); distinct = distinct (operation, arguments); non-trivial = some argument has a 1 bit"
                % (W, SL, NS, WP, len(ks), MAXLEN, nrand, MAXLEN),
        "exhaustive": False,
        "exhaustive_subdomain": "every bit string of length <= %d for the unary operations and constructions, every pair with both "
                                "lengths <= %d for the binary operators; lengths 9..%d are boundary values and random samples" % (W, WP, MAXLEN),
        "violating_calls": len(viol),
        "violation_classes": {k: len(v) for k, v in classes.items()},
        "drift": [{"why": f["why"], "call": describe(x)} for f, x in drift[:20]],
        "samples": samples[:6],
        "model": "spec/prim/BitVec.tla; laws in MC_BitVec (W=%d, WP=%d); trace spec Trace_BitVec" % (W, WP),
    }
    return finish(PROP, tr, t0, cov, vio_out, seen,
                  assumptions=["operands are built with Bitset(int, explicit length) (itself validated as new_int on the same domain)",
                               "results are observed through len(x) and int(x); harness conversions int <-> bit list are trusted",
                               "negative integers, non-Bitset operands of the binary operators, out-of-range indices and negative shift "
                               "counts are outside the property's domain and are not exercised"])
