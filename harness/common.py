"""Common machinery for the SSEPy model-based checks.

- scratch directories (removed at exit)
- TLC runner (exhaustive runs, emitted behaviours, -simulate)
- batched trace validation against a Trace_* module (total verdicts)
- known-findings classification, VIOLATION / KNOWN-FINDING lines, evidence
"""
import atexit
import json
import os
import re
import shutil
import subprocess
import sys
import tempfile
import time

VERIF = os.path.dirname(os.path.dirname(os.path.abspath(__file__)))
REPO = os.environ.get("SSEPY_REPO", "/repo")
SPEC = os.path.join(VERIF, "spec")
PY = os.environ.get("SSEPY_PY", "/venv/bin/python")
NCPU = os.cpu_count() or 4
TLA_JAR = "/opt/veriftools/tla/tla2tools.jar:/opt/veriftools/tla/CommunityModules-deps.jar"

_SCRATCH = None


class MachineryError(Exception):
    """Something in the checking machinery itself failed (exit code 2)."""


def scratch():
    """One scratch directory per process, removed at exit."""
    global _SCRATCH
    if _SCRATCH is None:
        base = os.environ.get("TMPDIR", "/tmp")
        _SCRATCH = tempfile.mkdtemp(prefix="ssepy-verif.%d." % os.getpid(), dir=base)
        atexit.register(shutil.rmtree, _SCRATCH, True)
    return _SCRATCH


def subdir(name):
    p = os.path.join(scratch(), name)
    os.makedirs(p, exist_ok=True)
    return p


def seed():
    try:
        return int(os.environ.get("VERIF_SEED", "0"))
    except ValueError:
        return 0


def tier(argv_tier=None):
    t = argv_tier or os.environ.get("VERIF_TIER") or "quick"
    return "thorough" if t == "thorough" else "quick"


# ---------------------------------------------------------------------------
# TLC
# ---------------------------------------------------------------------------

_SPEC_DIRS = None


def spec_dirs():
    global _SPEC_DIRS
    if _SPEC_DIRS is None:
        ds = []
        for root, _dirs, files in os.walk(SPEC):
            if any(f.endswith(".tla") for f in files):
                ds.append(root)
        _SPEC_DIRS = sorted(ds)
    return _SPEC_DIRS


def _stage(module_path, cfg_text, workdir):
    """Copy every .tla under spec/ flat into workdir (module names are unique) and write the cfg."""
    os.makedirs(workdir, exist_ok=True)
    for d in spec_dirs():
        for f in os.listdir(d):
            if f.endswith(".tla"):
                shutil.copyfile(os.path.join(d, f), os.path.join(workdir, f))
    mod = os.path.splitext(os.path.basename(module_path))[0]
    with open(os.path.join(workdir, mod + ".cfg"), "w") as fh:
        fh.write(cfg_text)
    return mod


_RE_STATES = re.compile(r"(\d+) states generated, (\d+) distinct states found, (\d+) states left on queue")
_RE_DEPTH = re.compile(r"The depth of the complete state graph search is (\d+)")
_RE_COV = re.compile(r"^<(\w+) line (\d+), col \d+ to line \d+, col \d+ of module (\w+)>: (\d+):(\d+)", re.M)


class TLCResult(dict):
    __getattr__ = dict.get


def run_tlc(module, cfg_text, *, workers=None, timeout=1200, env=None, extra=(), coverage=False,
            name=None, simulate=None, depth=None, allow_violation=False, heap=None, dfs=False, extra_modules=None):
    """Run TLC on spec/<...>/<module>.tla with the given cfg text.

    Returns TLCResult(generated, distinct, depth, out, violated=<name or None>, coverage={action: count}).
    Raises MachineryError on TLC failure that is not a property violation.
    """
    wd = subdir("tlc-" + (name or module) + "-%d" % int(time.time() * 1000 % 10**9))
    mod = _stage(module, cfg_text, wd)
    for mname, mtext in (extra_modules or {}).items():     # generated wrapper modules (e.g. constants given as definitions)
        with open(os.path.join(wd, mname + ".tla"), "w") as fh:
            fh.write(mtext)
    cmd = ["java", "-XX:+UseParallelGC", "-Xmx" + (heap or "8g"), "-Djava.io.tmpdir=" + wd]
    if dfs:
        cmd.append("-Dtlc2.tool.queue.IStateQueue=StateDeque")
    cmd += ["-cp", TLA_JAR, "tlc2.TLC", "-metadir", os.path.join(wd, "meta"), "-noGenerateSpecTE",
            "-workers", str(workers or NCPU)]
    if coverage:
        cmd += ["-coverage", "1"]
    if simulate:
        cmd += ["-simulate", simulate]
    if depth:
        cmd += ["-depth", str(depth)]
    cmd += list(extra)
    cmd.append(mod)
    e = dict(os.environ)
    e.update(env or {})
    t0 = time.time()
    try:
        p = subprocess.run(cmd, cwd=wd, env=e, stdout=subprocess.PIPE, stderr=subprocess.STDOUT,
                           timeout=timeout, text=True, errors="replace")
    except subprocess.TimeoutExpired as ex:
        raise MachineryError("TLC timeout after %ss on %s" % (timeout, module)) from ex
    out = p.stdout
    r = TLCResult(out=out, wall=time.time() - t0, workdir=wd, rc=p.returncode)
    m = None
    for m in _RE_STATES.finditer(out):
        pass
    if m:
        r["generated"], r["distinct"], r["left"] = int(m.group(1)), int(m.group(2)), int(m.group(3))
    m = _RE_DEPTH.search(out)
    if m:
        r["depth"] = int(m.group(1))
    cov = {}
    for m in _RE_COV.finditer(out):
        cov[m.group(1)] = cov.get(m.group(1), 0) + int(m.group(5))      # "<distinct>:<taken>": how often the action was taken
    r["coverage"] = cov
    viol = None
    m = re.search(r"Error: Invariant (\w+) is violated", out)
    if m:
        viol = m.group(1)
    m2 = re.search(r"Error: Action property (\w+) is violated", out)
    if m2:
        viol = m2.group(1)
    m3 = re.search(r"Error: Temporal property (\w+) was violated", out)
    if m3:
        viol = viol or m3.group(1)
    if re.search(r"Error: Temporal properties were violated", out):
        viol = viol or "temporal"
    r["violated"] = viol
    ok = ("Model checking completed. No error has been found." in out) or (simulate and p.returncode == 0)
    if not ok and not (viol and allow_violation):
        tail = "\n".join(out.splitlines()[-40:])
        raise MachineryError("TLC failed on %s (rc=%s):\n%s" % (module, p.returncode, tail))
    return r


def parse_printed(out, tag):
    """Extract TLA+ tuples printed with PrintT(<<tag, ...>>) ; returns list of raw strings (bracket matched)."""
    res = []
    key = re.compile(r'<<\s*"%s"' % re.escape(tag))
    i = 0
    n = len(out)
    while True:
        m = key.search(out, i)
        if not m:
            break
        i = m.start()
        depth = 0
        j = i
        instr = False
        while j < n:
            c = out[j]
            if instr:
                if c == "\\":
                    j += 1
                elif c == '"':
                    instr = False
            else:
                if c == '"':
                    instr = True
                elif out.startswith("<<", j):
                    depth += 1
                    j += 1
                elif out.startswith(">>", j):
                    depth -= 1
                    j += 1
                    if depth == 0:
                        break
            j += 1
        res.append(out[i:j + 1])
        i = j + 1
    return res


def tla_value(s):
    """Parse a printed TLA+ value (tuples, records, sets, strings, ints, booleans, functions over 1..n) to Python."""
    pos = [0]

    def ws():
        while pos[0] < len(s) and s[pos[0]] in " \n\r\t":
            pos[0] += 1

    def val():
        ws()
        if s.startswith("<<", pos[0]):
            pos[0] += 2
            items = []
            ws()
            if s.startswith(">>", pos[0]):
                pos[0] += 2
                return items
            while True:
                items.append(val())
                ws()
                if s.startswith(">>", pos[0]):
                    pos[0] += 2
                    return items
                assert s[pos[0]] == ",", s[pos[0]:pos[0] + 20]
                pos[0] += 1
        if s[pos[0]] == "[":
            pos[0] += 1
            d = {}
            while True:
                ws()
                m = re.match(r"(\w+) \|-> ", s[pos[0]:])
                assert m, s[pos[0]:pos[0] + 30]
                pos[0] += m.end()
                d[m.group(1)] = val()
                ws()
                if s[pos[0]] == "]":
                    pos[0] += 1
                    return d
                assert s[pos[0]] == ",", s[pos[0]:pos[0] + 20]
                pos[0] += 1
        if s[pos[0]] == "{":
            pos[0] += 1
            items = []
            ws()
            if s[pos[0]] == "}":
                pos[0] += 1
                return items
            while True:
                items.append(val())
                ws()
                if s[pos[0]] == "}":
                    pos[0] += 1
                    return items
                assert s[pos[0]] == ","
                pos[0] += 1
        if s[pos[0]] == '"':
            j = pos[0] + 1
            buf = []
            while s[j] != '"':
                if s[j] == "\\":
                    j += 1
                buf.append(s[j])
                j += 1
            pos[0] = j + 1
            return "".join(buf)
        m = re.match(r"-?\d+", s[pos[0]:])
        if m:
            pos[0] += m.end()
            return int(m.group(0))
        m = re.match(r"TRUE|FALSE", s[pos[0]:])
        if m:
            pos[0] += m.end()
            return m.group(0) == "TRUE"
        m = re.match(r"\w+", s[pos[0]:])
        if m:
            pos[0] += m.end()
            return m.group(0)
        raise ValueError("cannot parse TLA+ value at %r" % s[pos[0]:pos[0] + 40])

    return val()


# ---------------------------------------------------------------------------
# Trace validation
# ---------------------------------------------------------------------------

def validate_traces(trace_module, traces, *, cfg_extra="", shards=None, timeout=1800, name=None,
                    consts="", dfs=False):
    """Validate traces (list of {"tid": str, "ev": [records...], ...}) against spec module `trace_module`.

    The module must define Spec, the invariant Done which prints
    <<"V", tidString, verdict, l, clause>> for every finished trace state (see spec/lib/TraceBase.tla).
    Returns {tid: {"ok": bool, "step": int, "clause": str}} and aggregate TLC counts.
    A trace is accepted iff some branch consumed every event.
    """
    if not traces:
        return {}, {"generated": 0, "distinct": 0}
    shards = shards or min(NCPU, max(1, len(traces) // 50))
    chunks = [traces[i::shards] for i in range(shards)]
    procs = []
    cfg = "SPECIFICATION TraceSpec\nINVARIANT Done\nCHECK_DEADLOCK FALSE\n" + consts + cfg_extra
    for k, ch in enumerate(chunks):
        if not ch:
            continue
        wd = subdir("tv-%s-%d-%d" % (name or trace_module, k, int(time.time() * 1000 % 10**9)))
        mod = _stage(trace_module, cfg, wd)
        tf = os.path.join(wd, "traces.json")
        with open(tf, "w") as fh:
            json.dump(ch, fh)
        cmd = ["java", "-XX:+UseParallelGC", "-Xss512m", "-Xmx3g", "-Djava.io.tmpdir=" + wd]
        if dfs:
            cmd.append("-Dtlc2.tool.queue.IStateQueue=StateDeque")
        cmd += ["-cp", TLA_JAR, "tlc2.TLC", "-metadir", os.path.join(wd, "meta"),
                "-noGenerateSpecTE", "-workers", "1", mod]
        e = dict(os.environ)
        e["TRACE_FILE"] = tf
        procs.append((ch, wd, subprocess.Popen(cmd, cwd=wd, env=e, stdout=subprocess.PIPE,
                                               stderr=subprocess.STDOUT, text=True, errors="replace")))
    verdicts = {}
    agg = {"generated": 0, "distinct": 0}
    deadline = time.time() + timeout
    for ch, wd, p in procs:
        try:
            out, _ = p.communicate(timeout=max(1, deadline - time.time()))
        except subprocess.TimeoutExpired:
            p.kill()
            raise MachineryError("trace validation timeout (%s)" % trace_module)
        if "Model checking completed. No error has been found." not in out:
            tail = "\n".join(out.splitlines()[-40:])
            raise MachineryError("trace validation TLC failed (%s):\n%s" % (trace_module, tail))
        m = None
        for m in _RE_STATES.finditer(out):
            pass
        if m:
            agg["generated"] += int(m.group(1))
            agg["distinct"] += int(m.group(2))
        best = {}
        for raw in parse_printed(out, "V"):
            v = tla_value(raw)
            _tag, tid, verdict, l, clause = v[0], v[1], v[2], v[3], v[4] if len(v) > 4 else ""
            cur = best.get(tid)
            cand = {"ok": verdict == "ACCEPT", "step": l, "clause": clause}
            if cur is None or (cand["ok"] and not cur["ok"]) or (not cur["ok"] and not cand["ok"] and l > cur["step"]):
                best[tid] = cand
        for t in ch:
            tid = t["tid"]
            if tid not in best:
                raise MachineryError("no verdict for trace %s from %s" % (tid, trace_module))
            verdicts[tid] = best[tid]
        shutil.rmtree(wd, ignore_errors=True)
    return verdicts, agg


# ---------------------------------------------------------------------------
# Findings, verdict lines, evidence
# ---------------------------------------------------------------------------

def load_known_findings(prop):
    p = os.path.join(VERIF, "known_findings.json")
    if not os.path.exists(p):
        return []
    with open(p) as fh:
        allf = json.load(fh)
    return [f for f in allf if f.get("property") == prop and f.get("status") == "open"]


def classify(prop, rejections):
    """rejections: list of dicts with at least 'key' (canonical finding key string) and 'trace' (the trace dict).

    Returns (violations, known_seen) where known_seen maps finding id -> count."""
    known = load_known_findings(prop)
    viol, seen = [], {}
    for r in rejections:
        hit = None
        for f in known:
            if r.get("key") in f.get("match", {}).get("keys", []):
                hit = f
                break
        if hit:
            seen.setdefault(hit["id"], [hit, 0])[1] += 1
        else:
            viol.append(r)
    return viol, seen


def write_replay(prop, name, payload):
    d = os.path.join(VERIF, "replays")
    os.makedirs(d, exist_ok=True)
    p = os.path.join(d, "%s-%s.json" % (prop, name))
    with open(p, "w") as fh:
        json.dump(payload, fh, indent=1, default=_jd)
    return p


def _jd(o):
    if isinstance(o, (bytes, bytearray)):
        return {"__bytes__": bytes(o).hex()}
    if isinstance(o, (set, frozenset)):
        return sorted(o, key=repr)
    return repr(o)


def write_evidence(prop, tier_, t0, coverage, *, violations=0, assumptions=(), level="model_checking"):
    d = os.path.join(VERIF, "evidence")
    os.makedirs(d, exist_ok=True)
    ev = {
        "property_id": prop,
        "tier": tier_,
        "seed": seed(),
        "level": level,
        "coverage": coverage,
        "assumptions": list(assumptions),
        "wall_s": round(time.time() - t0, 2),
        "violations": violations,
    }
    with open(os.path.join(d, prop + ".json"), "w") as fh:
        json.dump(ev, fh, indent=1, default=_jd)
    return ev


def finish(prop, tier_, t0, coverage, violations, known_seen, *, assumptions=()):
    """Print verdict lines, write evidence, return exit code. violations: list of (description, replay_path)."""
    # a check that steers the front end through per-case data directories must never find data in the process' own ~/.sse:
    # that would mean a seam did not take and whatever was observed was observed in the wrong place
    import binding
    if "ssepy-home." in os.environ.get("HOME", ""):
        leaked = binding.leaked_data()
        if leaked:
            raise MachineryError("the code under test wrote below the harness' own ~/.sse (%s ...): the data-directory seam is "
                                 "ineffective, nothing observed in this run can be trusted" % leaked[0])
    for fid, (f, n) in sorted(known_seen.items()):
        print("KNOWN-FINDING: property=%s %s [%s, reproduced %d time(s)]" % (prop, f["what"], fid, n))
    coverage = dict(coverage)
    coverage["known_findings_seen"] = {fid: n for fid, (f, n) in known_seen.items()}
    write_evidence(prop, tier_, t0, coverage, violations=len(violations), assumptions=assumptions)
    first = next((p for _d, p in violations if p), "")
    for desc, path in violations[:20]:
        if not path and not desc:
            continue
        # (a violation that got no replay file of its own - there is a cap per clause - points at the first one written)
        print("VIOLATION property=%s replay=%s  # %s" % (prop, path or first, desc[:600]))
    if violations:
        print("%s: %d violation(s)" % (prop, len(violations)))
        return 1
    print("%s: OK (%s tier, %.1fs)" % (prop, tier_, time.time() - t0))
    return 0


def b2s(b):
    """bytes -> list of ints (TLA+ Seq(0..255))."""
    return list(b)


# ---------------------------------------------------------------------------
# process pool (fork): replays are CPU bound and independent
# ---------------------------------------------------------------------------

_PM_FUNC = None


def _pm_call(arg):
    return _PM_FUNC(arg)


def _pm_init():
    # a runaway worker gets MemoryError instead of starving the machine
    try:
        import resource
        lim = int(os.environ.get("VERIF_WORKER_MEM_GB", "3")) * (1 << 30)
        resource.setrlimit(resource.RLIMIT_AS, (lim, lim))
    except Exception:
        pass


def pmap(func, items, nproc=None, chunksize=None):
    """Map func over items in forked workers (func may be a closure; it is inherited by fork)."""
    global _PM_FUNC
    items = list(items)
    nproc = min(nproc or NCPU, max(1, len(items)))
    if nproc <= 1 or len(items) < 4 or os.environ.get("VERIF_NOFORK"):
        return [func(x) for x in items]
    import multiprocessing as mp
    _PM_FUNC = func
    ctx = mp.get_context("fork")
    with ctx.Pool(nproc, initializer=_pm_init) as pool:
        return pool.map(_pm_call, items, chunksize or max(1, len(items) // (nproc * 8)))


# ---------------------------------------------------------------------------
# helpers added for C20
# ---------------------------------------------------------------------------

_FAST = None


def fast_subdir(name):
    """Like subdir(), but on tmpfs (/dev/shm) when that is available: for checks that create and remove a
    directory per case (file-system metadata operations on the scratch disk cost ~1 ms each under load).
    Removed at exit.  Falls back to subdir()."""
    global _FAST
    if _FAST is None:
        _FAST = ""
        shm = "/dev/shm"
        if os.path.isdir(shm) and os.access(shm, os.W_OK) and not os.environ.get("VERIF_NO_SHM"):
            try:
                _FAST = tempfile.mkdtemp(prefix="ssepy-verif.%d." % os.getpid(), dir=shm)
                atexit.register(shutil.rmtree, _FAST, True)
            except OSError:
                _FAST = ""
    if not _FAST:
        return subdir(name)
    p = os.path.join(_FAST, name)
    os.makedirs(p, exist_ok=True)
    return p


# ---------------------------------------------------------------------------
# Apalache: inductive invariants (unbounded safety of the small Layer A machines)
# ---------------------------------------------------------------------------

def tlaps_prove(module, timeout=900):
    """Check the TLAPS proofs of spec/proofs/<module>.tla with tlapm (all back ends it needs are installed).
    -> dict(tool, module, obligations, proved, theorems, wall_s).  An unproved obligation is a machinery failure: the
    proofs are part of the specification, not a judgement about the code."""
    wd = subdir("tlaps-" + module)
    for d in spec_dirs():
        for f in os.listdir(d):
            if f.endswith(".tla"):
                shutil.copyfile(os.path.join(d, f), os.path.join(wd, f))
    t0 = time.time()
    try:
        p = subprocess.run(["tlapm", "--cleanfp", "--threads", "4", module + ".tla"], cwd=wd, stdout=subprocess.PIPE, stderr=subprocess.STDOUT,
                           timeout=timeout, text=True, env=dict(os.environ, TMPDIR=wd))
    except (subprocess.TimeoutExpired, FileNotFoundError) as ex:
        raise MachineryError("tlapm failed on %s: %r" % (module, ex))
    m = re.search(r"All (\d+) obligations? proved", p.stdout)
    if not m:
        tail = "\n".join(l for l in p.stdout.splitlines() if not l.startswith(("Called from", "Raised")))[-1500:]
        raise MachineryError("tlapm: unproved obligations in %s:\n%s" % (module, tail))
    with open(os.path.join(wd, module + ".tla")) as fh:
        thms = re.findall(r"^THEOREM (\w+)", fh.read(), re.M)
    shutil.rmtree(os.path.join(wd, ".tlacache"), ignore_errors=True)
    return {"tool": "tlapm (TLAPS)", "module": "spec/proofs/%s.tla" % module, "obligations": int(m.group(1)), "proved": int(m.group(1)),
            "theorems": thms, "wall_s": round(time.time() - t0, 1)}


def apalache_inductive(module, init, nxt, indinit, inv, timeout=600):
    """Discharge  init => inv  and  inv /\\ next => inv'  with apalache-mc. Returns dict(obligations, discharged, wall)."""
    wd = subdir("apa-" + module)
    for d in spec_dirs():
        for f in os.listdir(d):
            if f.endswith(".tla"):
                shutil.copyfile(os.path.join(d, f), os.path.join(wd, f))
    t0 = time.time()
    done = 0
    for i0, length in ((init, 0), (indinit, 1)):
        cmd = ["apalache-mc", "check", "--init=" + i0, "--next=" + nxt, "--inv=" + inv, "--length=%d" % length,
               "--out-dir=" + os.path.join(wd, "out"), module + ".tla"]
        try:
            p = subprocess.run(cmd, cwd=wd, stdout=subprocess.PIPE, stderr=subprocess.STDOUT, timeout=timeout, text=True,
                               env=dict(os.environ, JVM_ARGS="-Xmx2g -Djava.io.tmpdir=" + wd, TMPDIR=wd, JAVA_TOOL_OPTIONS="-Djava.io.tmpdir=" + wd))
        except (subprocess.TimeoutExpired, FileNotFoundError) as ex:
            raise MachineryError("apalache failed on %s: %r" % (module, ex))
        if "The outcome is: NoError" in p.stdout:
            done += 1
        elif "violat" in p.stdout.lower() or "The outcome is: Error" in p.stdout:
            raise MachineryError("apalache: %s is not inductive for %s (obligation %s)" % (inv, module, i0))
        else:
            raise MachineryError("apalache failed on %s:\n%s" % (module, "\n".join(p.stdout.splitlines()[-15:])))
    return {"tool": "apalache-mc", "module": module, "invariant": inv, "obligations": 2, "discharged": done,
            "wall_s": round(time.time() - t0, 1)}
