"""C02 — searching a keyword that is not in the database returns an empty result (same engine as C01;
the searched keywords are absent ones: random, prefix, suffix, extension, one-bit flip, doubled)."""
from common import tier
import c01

PROP = "C02"


def main(argv_tier=None, replay_path=None):
    return c01.run(tier(argv_tier), "absent", PROP, replay_path)
