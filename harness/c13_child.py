"""Child process for the real-kill validation of C13's crash emulation.

usage: c13_child.py <repo> <home> <mode> <datadir> <k> <when> [<op> <sid>]
  mode "client": run ONE client command (genkey | encrypt) on <datadir> and die at file operation k (os._exit(137))
  mode "server": serve <datadir> on a free port (printed as "PORT n") and die at file operation k of whatever it handles
"""
import asyncio
import os
import sys


def main():
    repo, home, mode, datadir, k, when = sys.argv[1:7]
    os.environ["HOME"] = home
    sys.path.insert(0, repo)
    sys.path.insert(0, os.path.dirname(os.path.abspath(__file__)))
    import logging
    logging.disable(logging.CRITICAL)
    import fsx
    fsx.EXIT_MODE = True
    comp = fsx.register(mode, datadir)
    comp.plan = (int(k), when, "real")
    fsx.install()
    import pathlib
    if mode == "client":
        op, sid, payload = sys.argv[7], sys.argv[8], sys.argv[9]
        import frontend.client.services.file_manager as cfm
        import frontend.client.services.service as cs
        import binding
        binding.set_data_dir(cfm, datadir)
        s = cs.Service(sid)
        if op == "genkey":
            s.handle_create_key()
        elif op == "encrypt":
            import pickle
            with fsx._real_open(payload, "rb") as fh:
                db = pickle.load(fh)
            s.handle_encrypt_database(db)
        os._exit(0)
    else:
        import websockets
        import frontend.server.services.file_manager as sfm
        import frontend.server.services.services_manager as sm
        import frontend.server.connector as connector
        import binding
        binding.set_data_dir(sfm, datadir)

        class P:
            def __getattr__(self, n):
                return getattr(asyncio, n)

            async def sleep(self, d, result=None):
                await asyncio.sleep(0)
                return result
        _p = P()
        binding.rebind(sm, {asyncio: _p, asyncio.sleep: _p.sleep})

        async def serve():
            srv = await websockets.serve(connector.handler, "127.0.0.1", 0, max_size=None)
            print("PORT %d" % srv.sockets[0].getsockname()[1], flush=True)
            await asyncio.sleep(30)
        asyncio.run(serve())
        os._exit(0)


main()
