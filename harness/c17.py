"""C17 — byte-level encodings round-trip: identifier blocks, splits, integers, hex database.

1. TLC runs MC_Codec: the round-trip laws of the MODEL (spec/prim/Codec.tla) are checked exhaustively on a small
   domain (sizes 1..3, capacities 1..4, up to N identifiers over a 2-symbol byte alphabet, not all zero, ...);
   two further runs must FAIL (all-zero identifiers; parsing by count when block // cap != size): they show why
   the property excludes those cases, and that the laws are not vacuous.
2. The driver calls the real toolkit.database_utils / bytes_utils / list_utils functions over the property's
   ranges (sizes 1..40, capacities 1..70, list lengths 0..300, integers up to 64 bytes, ...); each call is one
   JSON record.
3. TLC (Trace_Codec) evaluates Codec.tla on the same arguments and judges every call independently.
"""
import json
import os
import random
import re
import sys
import time

from common import REPO, VERIF, MachineryError, classify, finish, pmap, run_tlc, seed, subdir, tier, write_replay
from calls import BadType, key_of, limit_jvm, retry, run_call, validate_calls, want_int

PROP = "C17"
# operations whose expected behaviour is in the code but not in the property text: drift, never a violation
DRIFT_OPS = {"partition_refusal", "xor_prefix", "chunks",
             # the property states the round trip int_from_bytes(int_to_bytes(x, w)) == x (op int_rt), not the byte order or the
             # width chosen for w = -1; add_leading_zeros is a helper the property does not mention
             "int_to_bytes", "int_to_bytes_small", "int_from_bytes", "int_from_bytes_small", "add_leading_zeros"}

_IMPL = None


def impl():
    global _IMPL
    if _IMPL is None:
        os.environ["HOME"] = subdir("home")
        if REPO not in sys.path:
            sys.path.insert(0, REPO)
        from toolkit import database_utils, bytes_utils, list_utils
        _IMPL = (database_utils, bytes_utils, list_utils)
    return _IMPL


# --------------------------------------------------------------------------- conversions (harness, trusted)

def b2i(bits):
    v = 0
    for x in bits:
        v = (v << 1) | x
    return v


def i2b(v):
    if isinstance(v, bool) or not isinstance(v, int) or v < 0:
        raise BadType(type(v).__name__)
    return [1 if ch == "1" else 0 for ch in (format(v, "b") if v else "")]


def bl(x):
    """bytes -> list of ints"""
    if not isinstance(x, (bytes, bytearray)):
        raise BadType(type(x).__name__)
    return list(x)


def bll(xs):
    if not isinstance(xs, (list, tuple)):        # "the same list": a sequence with the same items in the same order
        raise BadType(type(xs).__name__)
    return [bl(x) for x in xs]


def chars(s):
    if not isinstance(s, str):
        raise BadType(type(s).__name__)
    return list(s)


def cps(s):
    if not isinstance(s, str):
        raise BadType(type(s).__name__)
    return [ord(ch) for ch in s]


def text(cp_list):
    return "".join(chr(x) for x in cp_list)


def _ids(c):
    return [bytes(x) for x in c["ids"]]


def _partition(c):
    du = impl()[0]
    return list(du.partition_identifiers_to_blocks(_ids(c), c["cap"], c["size"], c["block"]))


def _rt(c, by_size):
    du = impl()[0]
    blocks = _partition(c)
    got = []
    for b in blocks:
        if by_size:
            got += du.parse_identifiers_from_block_given_identifier_size(b, c["size"])
        else:
            got += du.parse_identifiers_from_block_given_entry_count_in_one_block(b, c["cap"])
    return {"ids": bll(got), "nblocks": len(blocks), "blens": sorted({len(b) for b in blocks})}


def _db_obj(c):
    """the JSON database as the client reads it: json.load of the file text"""
    obj = {text(kw): ["".join(h) for h in hs] for kw, hs in c["db"]}
    if len(obj) != len(c["db"]):
        raise MachineryError("duplicate keywords in a generated database")
    return json.loads(json.dumps(obj))


def _convert_db(c):
    du = impl()[0]
    obj = _db_obj(c)
    r = du.convert_database_keyword_to_bytes(obj)
    if not isinstance(r, dict):
        raise BadType(type(r).__name__)
    # a dict: the order of its keys is not part of the answer; reported in the order of the JSON object
    want = []
    for k in obj:
        try:
            want.append(k.encode("utf8"))
        except Exception:
            pass
    pos = {k: i for i, k in enumerate(want)}
    items = sorted(r.items(), key=lambda kv: pos.get(kv[0], len(pos)))
    return [[bl(k), bll(v)] for k, v in items]


def _convert(x, fmt):
    """BytesConverter.convert_bytes in the encoding of the trace for the given format"""
    bu = impl()[1]
    r = bu.BytesConverter.convert_bytes(x, fmt)
    if fmt == "hex":
        return chars(r)
    if fmt == "int":
        return i2b(r)
    if fmt == "raw":
        return bl(r)
    if fmt == "utf8":
        return cps(r)
    raise MachineryError("format " + fmt)


def _db_format(c):
    """one identifier through the client's path: JSON database -> bytes -> chosen output format"""
    du = impl()[0]
    db = du.convert_database_keyword_to_bytes(json.loads(json.dumps({"kw": ["".join(c["h"])]})))
    (ident,) = db[b"kw"]
    return _convert(ident, c["fmt"])


def _xor(a, b):
    return impl()[1].bytes_xor(bytes(a), bytes(b))


TABLE = {
    "partition":         lambda c: bll(_partition(c)),
    "partition_refusal": lambda c: bll(_partition(c)),
    "parse_size":        lambda c: bll(impl()[0].parse_identifiers_from_block_given_identifier_size(bytes(c["x"]), c["size"])),
    "parse_count":       lambda c: bll(impl()[0].parse_identifiers_from_block_given_entry_count_in_one_block(bytes(c["x"]), c["cap"])),
    "rt_size":           lambda c: _rt(c, True),
    "rt_count":          lambda c: _rt(c, False),
    "split":             lambda c: bll(impl()[1].split_bytes_given_slice_len(bytes(c["x"]), list(c["ls"]))),
    "split_join":        lambda c: bl(b"".join(impl()[1].split_bytes_given_slice_len(bytes(c["x"]), list(c["ls"])))),
    "chunks":            lambda c: [list(p) for p in impl()[2].chunks(list(c["x"]), c["n"])],
    "int_to_bytes":      lambda c: bl(impl()[1].int_to_bytes(b2i(c["v"]), c["w"]) if c["w"] != -1 else impl()[1].int_to_bytes(b2i(c["v"]))),
    "int_to_bytes_small": lambda c: bl(impl()[1].int_to_bytes(c["i"], c["w"])),
    "int_from_bytes":    lambda c: i2b(impl()[1].int_from_bytes(bytes(c["x"]))),
    "int_from_bytes_small": lambda c: want_int(impl()[1].int_from_bytes(bytes(c["x"]))),
    "int_rt":            lambda c: i2b(impl()[1].int_from_bytes(impl()[1].int_to_bytes(b2i(c["v"]), c["w"]) if c["w"] != -1
                                                             else impl()[1].int_to_bytes(b2i(c["v"])))),
    "add_leading_zeros": lambda c: bl(impl()[1].add_leading_zeros(bytes(c["x"]), c["n"])),
    "xor":               lambda c: bl(_xor(c["a"], c["b"])),
    "xor_prefix":        lambda c: bl(_xor(c["a"], c["b"])),
    "xor_twice":         lambda c: bl(_xor(_xor(c["a"], c["b"]), c["b"])),
    "xor_twice_prefix":  lambda c: bl(_xor(_xor(c["a"], c["b"]), c["b"])),
    "to_hex":            lambda c: chars(impl()[1].BytesConverter.bytes_to_hex(bytes(c["x"]))),
    "from_hex":          lambda c: _convert_db({"db": [[[107], [c["h"]]]]})[0][1][0],
    "hex_rt":            lambda c: chars(impl()[1].BytesConverter.bytes_to_hex(bytes.fromhex("".join(c["h"])))),
    "convert":           lambda c: _convert(bytes(c["x"]), c["fmt"]),
    "convert_utf8":      lambda c: _convert(bytes(c["x"]), "utf8"),
    "convert_db":        _convert_db,
    "db_format":         _db_format,
    "db_format_utf8":    lambda c: _db_format(dict(c, fmt="utf8")),
}


def execute(spec):
    return run_call(TABLE, spec)


# --------------------------------------------------------------------------- generators

def rand_id(size, rnd):
    """a fixed-size identifier that is not all zero, with many zero bytes in awkward places"""
    while True:
        mode = rnd.random()
        if mode < 0.25:
            x = [0] * size
            x[rnd.randrange(size)] = rnd.choice((1, 255, rnd.randrange(1, 256)))
        elif mode < 0.5:
            x = [rnd.choice((0, 0, 1, 255)) for _ in range(size)]
        else:
            x = [rnd.randrange(256) for _ in range(size)]
        if any(x):
            return x


def block_choices(cap, size, rnd):
    cs = cap * size
    return sorted({0, cs, cs + 1, cs + 2, cs + cap - 1, cs + cap, cs + size, cs + rnd.randint(0, 64)})


def part_specs(size, cap, n, block, rnd, nparse=3):
    """partition + both round trips for one parameter choice (block >= cap*size or 0)"""
    ids = [rand_id(size, rnd) for _ in range(n)]
    base = {"ids": ids, "cap": cap, "size": size, "block": block}
    S = [dict(base, op="partition"), dict(base, op="rt_size")]
    bsz = block or cap * size
    if bsz // cap == size:
        S.append(dict(base, op="rt_count"))
    S.append(("parse", base, nparse))      # expanded by the worker: parse some of the blocks the real code produced
    return S


def compositions(total, k, rnd):
    """k non-negative lengths adding up to total (zeros on purpose)"""
    if k == 0:
        return []
    cuts = sorted(rnd.choice((0, total, rnd.randint(0, total))) if rnd.random() < 0.3 else rnd.randint(0, total) for _ in range(k - 1))
    pts = [0] + cuts + [total]
    return [pts[i + 1] - pts[i] for i in range(k)]


def rbytes(n, rnd):
    return [rnd.randrange(256) for _ in range(n)]


HEXCH = "0123456789abcdefABCDEF"
CP_POOLS = [(32, 126), (160, 255), (256, 2047), (2048, 55295), (57344, 65535), (65536, 131071), (0x1F300, 0x1F6FF), (0x10FFF0, 0x10FFFF),
            (0, 31), (127, 128), (0x4E00, 0x9FFF)]


def rtext(n, rnd):
    out = []
    for _ in range(n):
        lo, hi = rnd.choice(CP_POOLS)
        out.append(rnd.randint(lo, hi))
    return out


def rhex(nbytes, rnd):
    return [rnd.choice(HEXCH) for _ in range(2 * nbytes)]


def gen_small():
    """the 'all small ones' part of the domain (deterministic shapes, random contents)"""
    rnd = random.Random("%d:small" % seed())
    S = []
    for size in range(1, 5):
        for cap in range(1, 6):
            for n in range(0, 13):
                for block in sorted({0, cap * size, cap * size + 1, cap * size + cap - 1, cap * size + cap, cap * size + 2}):
                    S += part_specs(size, cap, n, block, rnd, nparse=2)
            if cap * size > 1:
                S.append({"op": "partition_refusal", "ids": [rand_id(size, rnd) for _ in range(3)], "cap": cap, "size": size,
                          "block": cap * size - 1})
    # every length vector over 0..3 with at most 4 entries: matching data, and data one byte too long / short
    vecs = [[]]
    for k in range(1, 5):
        vecs += [list(map(int, base4(i, k))) for i in range(4 ** k)]
    for ls in vecs:
        x = rbytes(sum(ls), rnd)
        S += [{"op": "split", "x": x, "ls": ls}, {"op": "split_join", "x": x, "ls": ls},
              {"op": "split", "x": x + [7], "ls": ls}]
        if x:
            S.append({"op": "split", "x": x[1:], "ls": ls})
    # every integer below 2^10 at widths -1..3; every byte; every pair of hex digits
    for v in range(0, 1024):
        bits = i2b(v)
        for w in (-1, 0, 1, 2, 3):
            S.append({"op": "int_to_bytes", "v": bits, "w": w})
            S.append({"op": "int_rt", "v": bits, "w": w})          # the round trip, also at the minimal width (w = -1)
            if w >= 0:
                S.append({"op": "int_to_bytes_small", "i": v, "w": w})
    for b in range(256):
        S += [{"op": "to_hex", "x": [b]}, {"op": "int_from_bytes_small", "x": [b]}, {"op": "int_from_bytes", "x": [0, b]},
              {"op": "convert", "x": [b, 255 - b], "fmt": "hex"}, {"op": "convert", "x": [b], "fmt": "int"}]
    for c1 in HEXCH:
        for c2 in HEXCH:
            S += [{"op": "from_hex", "h": [c1, c2]}, {"op": "hex_rt", "h": [c1, c2]}, {"op": "db_format", "h": [c1, c2, c2, c1], "fmt": "hex"}]
    alpha = (0, 1, 170, 255)
    strs = [[]] + [[x] for x in alpha] + [[x, y] for x in alpha for y in alpha]
    for a in strs:
        for b in strs:
            if len(a) == len(b):
                S += [{"op": "xor", "a": a, "b": b}, {"op": "xor_twice", "a": a, "b": b}]
            elif len(a) > len(b):
                S.append({"op": "xor_prefix", "a": a, "b": b})
                S.append({"op": "xor_twice_prefix", "a": a, "b": b})
    for n in range(0, 10):
        for k in range(1, 5):
            S.append({"op": "chunks", "x": list(range(n)), "n": k})
    for cp in (0, 65, 127, 128, 255, 2047, 2048, 8364, 55295, 57344, 65535, 65536, 128512, 1114111):
        enc = list(chr(cp).encode("utf-8"))
        S += [{"op": "convert_utf8", "x": enc}, {"op": "db_format_utf8", "h": list(bytes(enc).hex())},
              {"op": "convert_db", "db": [[[cp, 65, cp], [list("00ff"), list("AbCd")]]]}]
    return S


def base4(i, k):
    s = ""
    for _ in range(k):
        s = str(i % 4) + s
        i //= 4
    return s


def gen_unit(u):
    """sampled part of the domain; one unit = a handful of calls around one random parameter choice"""
    kind, j = u
    rnd = random.Random("%d:%s:%d" % (seed(), kind, j))
    S = []
    if kind == "part":
        size = rnd.choice((rnd.randint(1, 40), rnd.randint(1, 40), rnd.choice((1, 2, 8, 16, 32, 40))))
        cap = rnd.choice((rnd.randint(1, 70), rnd.randint(1, 70), rnd.choice((1, 2, 64, 70))))
        nmode = rnd.random()
        if nmode < 0.2:
            n = cap * rnd.randint(0, max(1, 300 // cap))            # last block exactly full
        elif nmode < 0.3:
            n = rnd.choice((0, 1, cap - 1, cap + 1, 299, 300))
        else:
            n = rnd.randint(0, 300)
        n = max(0, min(300, n))
        for block in rnd.sample(block_choices(cap, size, rnd), 2):
            S += part_specs(size, cap, n, block, rnd)
        if cap * size > 1 and rnd.random() < 0.2:
            S.append({"op": "partition_refusal", "ids": [rand_id(size, rnd) for _ in range(min(n, 5))], "cap": cap, "size": size,
                      "block": rnd.randint(1, cap * size - 1)})
    elif kind == "split":
        n = rnd.choice((rnd.randint(0, 300), rnd.randint(0, 40), 0, 300))
        x = rbytes(n, rnd)
        ls = compositions(n, rnd.randint(0, 9), rnd)
        if not ls and n:
            ls = [n]
        S += [{"op": "split", "x": x, "ls": ls}, {"op": "split_join", "x": x, "ls": ls}]
        bad = list(ls) + [rnd.randint(1, 3)] if rnd.random() < 0.5 or not ls else ls[:-1] + [ls[-1] + 1]
        S.append({"op": "split", "x": x, "ls": bad})
        S.append({"op": "split_join", "x": x, "ls": bad})
        S.append({"op": "chunks", "x": [rnd.randrange(1000) for _ in range(n)], "n": rnd.randint(1, 70)})
    elif kind == "int":
        nb = rnd.choice((rnd.randint(0, 512), rnd.randint(0, 64), 8 * rnd.randint(0, 64), 8 * rnd.randint(1, 64) - 1, 8 * rnd.randint(0, 63) + 1))
        form = rnd.random()
        if form < 0.2 and nb:
            v = 2 ** nb - 1
        elif form < 0.4:
            v = 2 ** nb
        elif form < 0.5:
            v = 2 ** nb + 1
        else:
            v = rnd.getrandbits(nb) if nb else 0
        bits = i2b(v)
        need = (len(bits) + 7) // 8
        for w in sorted({-1, need, need + 1, max(need - 1, 0), 64, rnd.randint(0, 70)}):
            S.append({"op": "int_to_bytes", "v": bits, "w": w})
            S.append({"op": "int_rt", "v": bits, "w": w})
        sm = rnd.choice((rnd.getrandbits(31), rnd.getrandbits(16), 255, 256, 65535, 65536, 2 ** 24 - 1, 2 ** 24, 2 ** 31 - 1))
        for w in (rnd.randint(0, 6), 4):
            S.append({"op": "int_to_bytes_small", "i": sm, "w": w})
        x = [0] * rnd.randint(0, 3) + rbytes(rnd.randint(0, 64), rnd)
        S.append({"op": "int_from_bytes", "x": x})
        S.append({"op": "convert", "x": x, "fmt": "int"})
        xs = [0] * rnd.randint(0, 2) + rbytes(rnd.randint(0, 3), rnd)
        S.append({"op": "int_from_bytes_small", "x": xs})
        y = rbytes(rnd.randint(0, 40), rnd)
        S.append({"op": "add_leading_zeros", "x": y, "n": rnd.choice((0, len(y), len(y) + 1, max(len(y) - 1, 0), rnd.randint(0, 50)))})
    elif kind == "xor":
        n = rnd.choice((rnd.randint(0, 300), rnd.randint(0, 32), 16, 32))
        a = rbytes(n, rnd)
        b = rnd.choice((rbytes(n, rnd), list(a), [0] * n, [255] * n))
        S += [{"op": "xor", "a": a, "b": b}, {"op": "xor_twice", "a": a, "b": b}]
        if n:
            S.append({"op": "xor_prefix", "a": a, "b": b[:rnd.randrange(n)]})
            S.append({"op": "xor_twice_prefix", "a": a, "b": b[:rnd.randrange(n)]})
    elif kind == "hex":
        x = rbytes(rnd.randint(0, 64), rnd)
        h = rhex(rnd.randint(0, 40), rnd)
        S += [{"op": "to_hex", "x": x}, {"op": "from_hex", "h": h}, {"op": "hex_rt", "h": h}]
        for fmt in ("hex", "int", "raw"):
            S.append({"op": "convert", "x": x, "fmt": fmt})
            S.append({"op": "db_format", "h": h, "fmt": fmt})
        t = rtext(rnd.randint(0, 12), rnd)
        enc = list(text(t).encode("utf-8"))
        S.append({"op": "convert_utf8", "x": enc})
        S.append({"op": "db_format_utf8", "h": [rnd.choice((ch, ch.upper())) for ch in bytes(enc).hex()]})
        db, used = [], set()
        for _ in range(rnd.randint(0, 5)):
            kw = tuple(rtext(rnd.randint(0, 8), rnd))
            if kw in used:
                continue
            used.add(kw)
            idlen = rnd.randint(0, 12)
            db.append([list(kw), [rhex(idlen, rnd) for _ in range(rnd.randint(0, 6))]])
        S.append({"op": "convert_db", "db": db})
    else:
        raise MachineryError("unknown unit " + kind)
    return S


def run_specs(specs):
    """execute call specs; ("parse", base, k) items are expanded into parse calls on blocks the real code produced"""
    out = []
    for s in specs:
        if isinstance(s, tuple):
            _tag, base, k = s
            try:
                blocks = _partition(base)
            except Exception:
                continue                       # the partition record next to it already shows the failure
            if not blocks:
                continue
            rnd = random.Random(len(blocks) * 7919 + base["cap"])
            picks = sorted({0, len(blocks) - 1} | {rnd.randrange(len(blocks)) for _ in range(max(0, k - 2))})
            bsz = base["block"] or base["cap"] * base["size"]
            for i in picks:
                out.append(execute({"op": "parse_size", "x": list(blocks[i]), "size": base["size"]}))
                if bsz // base["cap"] == base["size"]:
                    out.append(execute({"op": "parse_count", "x": list(blocks[i]), "cap": base["cap"]}))
        else:
            out.append(execute(s))
    return out


def run_unit(u):
    return run_specs(gen_unit(u))


def short(x, n=48):
    s = json.dumps(x)
    return s if len(s) <= n else s[:n] + "...(%d)" % len(s)


def describe(r):
    args = ", ".join("%s=%s" % (k, short(v)) for k, v in r.items() if k not in ("op", "out", "res"))
    return "%s(%s) -> %s %s" % (r["op"], args, r["out"], short(r.get("res"), 100) if "res" in r else "")


def input_class(r):
    """class of the arguments (never of the expected result) used to key known findings"""
    if r["op"] in ("split", "split_join") and r["ls"] and r["ls"][-1] == 0 and sum(r["ls"]) == len(r["x"]):
        return "trailing-zero-length"
    return ""


def nontrivial(r):
    def nz(v):
        if isinstance(v, list):
            return any(nz(x) for x in v)
        return bool(v) and not isinstance(v, bool)
    return any(nz(r.get(k)) for k in ("ids", "x", "v", "a", "h", "db", "i"))


def mc_cfg(N, allow_zero, invs):
    return ("CONSTANTS Sizes = {1,2,3}\nCaps = {1,2,3,4}\nN = %d\nExtra = 2\nAlpha = {0,1}\nAllowZero = %s\nIntBits = 10\nMaxW = 3\n"
            "SPECIFICATION MCSpec\n" % (N, "TRUE" if allow_zero else "FALSE")
            + "".join("INVARIANT %s\n" % x for x in invs) + "CHECK_DEADLOCK FALSE\n")


def main(argv_tier=None, replay_path=None):
    t0 = time.time()
    tr = tier(argv_tier)
    limit_jvm()
    impl()
    if replay_path:
        with open(replay_path) as fh:
            rp = json.load(fh)
        recs = [execute(s) for s in rp["calls"]]
        fails, _ = retry(validate_calls, "Trace_Codec", recs, group=50)
        bad = {f["index"]: f for f in fails}
        for i, r in enumerate(recs):
            print(("REJECT %s: " % bad[i]["why"] if i in bad else "accept: ") + describe(r))
        return 1 if [f for f in fails if f["op"] not in DRIFT_OPS] else 0

    quick = tr == "quick"
    # ---- the model's own laws
    src = open(os.path.join(VERIF, "spec", "prim", "MC_Codec.tla")).read()
    laws = re.findall(r"^(L_\w+)\s*==", src, re.M)
    if len(laws) < 20:
        raise MachineryError("law list of MC_Codec not found")
    N = 4 if quick else 6
    r = retry(run_tlc, "MC_Codec", mc_cfg(N, False, laws), timeout=1500)
    if not r.distinct or r.distinct < 40000:
        raise MachineryError("MC_Codec explored only %s states" % r.distinct)
    # the two exclusions of the property, exhibited by TLC (must fail)
    neg = {}
    for name, az, inv in (("all-zero identifier", True, "L_RoundTripSize"), ("count parse with block//cap != size", False, "X_RoundTripCountAny")):
        rn = retry(run_tlc, "MC_Codec", mc_cfg(2, az, [inv]), allow_violation=True, workers=4, name="MC_Codec_neg")
        if rn.violated != inv:
            raise MachineryError("expected %s to fail for %s; TLC says %s" % (inv, name, rn.violated))
        neg[name] = inv

    # ---- the calls
    small = gen_small()
    counts = {"part": 250, "split": 400, "int": 400, "xor": 300, "hex": 300} if quick else \
             {"part": 4000, "split": 6000, "int": 6000, "xor": 3000, "hex": 4000}
    units = [(k, j) for k, n in counts.items() for j in range(n)]
    random.Random(seed()).shuffle(units)
    chunks_small = [small[i:i + 200] for i in range(0, len(small), 200)]
    recs = []
    for rr in pmap(run_specs, chunks_small):
        recs += rr
    nsmall = len(recs)
    for rr in pmap(run_unit, units):
        recs += rr
    per_op = {}
    for x in recs:
        per_op[x["op"]] = per_op.get(x["op"], 0) + 1
    missing = [op for op in TABLE if not per_op.get(op)]
    if missing:
        raise MachineryError("operations never exercised: %s" % missing)
    # heavy records (long identifier lists) in small groups
    heavy = [i for i, x in enumerate(recs) if len(json.dumps(x)) > 4000]
    hset = set(heavy)
    light = [i for i in range(len(recs)) if i not in hset]
    fails = []
    agg_all = {"generated": 0, "distinct": 0}
    for idxs, group in ((light, 100), (heavy, 8)):
        sub = [recs[i] for i in idxs]
        f, agg = retry(validate_calls, "Trace_Codec", sub, group=group, name="c17")
        for x in f:
            x["index"] = idxs[x["index"]]
        fails += f
        agg_all["generated"] += agg["generated"]
        agg_all["distinct"] += agg["distinct"]

    keys, ntriv = set(), 0
    for x in recs:
        k = hash(key_of(x))
        if k not in keys:
            keys.add(k)
            if nontrivial(x):
                ntriv += 1
    # ---- verdict
    drift = [(f, recs[f["index"]]) for f in fails if f["op"] in DRIFT_OPS]
    rej, dup = [], set()
    for f in fails:
        if f["op"] in DRIFT_OPS:
            continue
        x = recs[f["index"]]
        if key_of(x) in dup:                # the same call generated twice: one violation
            continue
        dup.add(key_of(x))
        ic = input_class(x)
        rej.append({"key": "%s:%s%s" % (f["op"], f["why"], ":" + ic if ic else ""), "trace": x, "verdict": f})
    viol, seen = classify(PROP, rej)
    for f, x in drift[:10]:
        print("DRIFT property=%s %s  # %s" % (PROP, f["why"], describe(x)))
    viol.sort(key=lambda v: len(json.dumps(v["trace"])))
    classes = {}
    for v in viol:
        classes.setdefault(v["key"], []).append(v)
    picked = [classes[k][0] for k in sorted(classes)]
    depth = 1
    while len(picked) < 20 and any(len(v) > depth for v in classes.values()):
        for k in sorted(classes):
            picked += classes[k][depth:depth + 1]
        depth += 1
    vio_out = []
    for j, v in enumerate(picked[:20]):
        spec = {k: val for k, val in v["trace"].items() if k not in ("out", "res")}
        p = write_replay(PROP, "%s-%d" % (v["trace"]["op"], j), {"calls": [spec], "records": [v["trace"]], "verdict": v["verdict"],
                                                              "key": v["key"], "seed": seed()})
        vio_out.append(("%s: %s" % (v["key"], describe(v["trace"])), p))
    vio_out += [("", "more")] * max(0, len(viol) - len(vio_out))
    cov = {
        "states": r.distinct, "transitions": r.generated,
        "model_laws_checked": len(laws),
        "model_exclusions_exhibited": neg,
        "traces_validated_against_impl": len(recs),
        "trace_validation_states": agg_all["distinct"],
        "evaluations": len(recs), "distinct_nontrivial": ntriv,
        "calls_per_operation": per_op,
        "rule": "all small cases (sizes 1..4 x capacities 1..5 x 0..12 identifiers x 6 block sizes; every length vector over 0..3 with <= 4 "
                "entries; every integer < 1024 at widths -1..3; every byte; every pair of hex digits; xor over a 4-byte alphabet) = %d calls, "
                "plus sampled units %s over sizes 1..40, capacities 1..70, list lengths 0..300, integers up to 512 bits, strings up to 300 "
                "bytes; distinct = distinct (operation, arguments); non-trivial = some argument has a non-zero element" % (nsmall, counts),
        "exhaustive": False,
        "violating_calls": len(viol),
        "violation_classes": {k: len(v) for k, v in classes.items()},
        "drift": [{"why": f["why"], "call": describe(x)} for f, x in drift[:20]],
        "samples": [recs[0], recs[nsmall // 2], recs[nsmall + 1], recs[-1]],
        "model": "spec/prim/Codec.tla; laws in MC_Codec (sizes 1..3, capacities 1..4, N=%d, 2-symbol alphabet); trace spec Trace_Codec" % N,
    }
    return finish(PROP, tr, t0, cov, vio_out, seen,
                  assumptions=["harness conversions (int <-> bit list, bytes <-> list, str <-> characters / code points) are trusted",
                               "identifiers are generated inside the property's domain (exact size, not all zero); block sizes >= cap*size",
                               "utf8 output is judged relationally: the returned text must be valid and encode (Codec.Utf8Enc) to the input bytes",
                               "JSON parsing itself (json.load) is trusted; the database is passed through json.dumps/json.loads as the client does"])
