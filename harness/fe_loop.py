"""The same server harness as fe_server.ServerWorld, but over REAL loopback websockets (websockets.serve +
websockets.connect). Used to check that the fake websocket is a faithful stand-in: a sample of the C10
histories is replayed both ways and must give the same observable trace.
"""
import asyncio
import pathlib
import pickle

import fe_server as fs


class LoopWS:
    """Peer-side handle with the interface of fe_server.FakeWS that the replayers use."""

    def __init__(self, world, sid):
        self.world = world
        self.outbox = []
        self.closed = False
        self.closed_by = None
        self.close_ok = True
        self.peer_closing = False
        self.q = asyncio.Queue()
        self.q.put_nowait(("send", pickle.dumps({"type": "init", "sid": sid})))
        self.task = asyncio.ensure_future(self._run())

    async def _run(self):
        import websockets
        try:
            conn = await websockets.connect("ws://127.0.0.1:%d" % self.world.port, max_size=None)
        except Exception:
            self._closed("server", False)
            return
        self.world.activity += 1
        reader = asyncio.ensure_future(self._reader(conn))
        while True:
            kind, data = await self.q.get()
            self.world.activity += 1
            try:
                if kind == "send":
                    await conn.send(data)
                else:
                    self.peer_closing = True
                    await conn.close()
                    break
            except Exception:
                break
        await reader

    async def _reader(self, conn):
        from websockets.exceptions import ConnectionClosedError
        try:
            async for m in conn:
                self.outbox.append(m)
                self.world.activity += 1
            self._closed("peer" if self.peer_closing else "server", conn.close_code == 1000)
        except ConnectionClosedError:
            self._closed("peer" if self.peer_closing else "server", False)
        except Exception:
            self._closed("server", False)

    def _closed(self, who, ok):
        if not self.closed:
            self.closed, self.closed_by, self.close_ok = True, who, ok
            self.world.activity += 1

    def peer_send(self, data):
        if self.closed:
            return False
        self.q.put_nowait(("send", data))
        return True

    def peer_close(self, ok=True):
        if not self.closed:
            self.q.put_nowait(("close", None))

    def take_outbox(self):
        out, self.outbox = self.outbox, []
        return out


class LoopWorld(fs.ServerWorld):
    def __init__(self, repo, datadir):
        super().__init__(repo, datadir)
        self.server = None
        self.port = None
        self.activity = 0
        self.conns = []

    async def start(self):
        import websockets
        for attempt in range(50):
            try:
                self.server = await websockets.serve(self.connector.handler, "127.0.0.1", 0, max_size=None)
                break
            except OSError:
                if attempt == 49:
                    raise
                await asyncio.sleep(0.2)
        self.port = self.server.sockets[0].getsockname()[1]

    def open(self, sid, name="c", cid=None):
        ws = LoopWS(self, sid)
        ws.cid = cid
        self.conns.append(ws)
        return ws

    async def settle(self, quiet_polls=6, poll=0.01, limit=5.0):
        """real I/O: wait until nothing has happened for a few polls"""
        last, quiet, waited = self.activity, 0, 0.0
        while quiet < quiet_polls and waited < limit:
            await asyncio.sleep(poll)
            waited += poll
            if self.activity == last and len(asyncio.get_running_loop()._ready) == 0:
                quiet += 1
            else:
                quiet, last = 0, self.activity

    async def kill(self):
        if self.server is not None:
            self.server.close()
            try:
                await asyncio.wait_for(self.server.wait_closed(), 3)
            except Exception:
                pass
            self.server = None
        await super().kill()

    async def restart_async(self):
        self.restart()
        await self.start()
