"""C16 — HMAC-based PRF (TLS P_hash, RFC 5246) and the variable-length hash wrapper: exact output
length, determinism, equal to the documented construction over the standard core, distinct outputs
for distinct inputs, declared key / message lengths enforced.

1. TLC checks the model-level theorems of spec/prim/PHash.tla on MC_PHash (toy core): the assembly
   is defined on exactly the calls of the construction and undefined when one is missing, has exactly
   n bytes on both sides of every digest-size multiple, prefix consistency, the counter encoding.
2. A driver calls the real classes (get_prf_implementation('HmacPRF'), get_hash_implementation(name))
   with `hmac` as seen from toolkit.prf.hmac_prf and `hashlib` as seen from toolkit.hash replaced by
   recording proxies (module attributes; no edit of /repo): every HMAC / hash object created during a
   judged call is recorded with key, input, result and whether its digest was taken.
3. TLC validates every call against Trace_PHash: the output must be the specification's assembly of
   the recorded core values (Layer A); the exact set of core calls is Layer B (drift only).
   Each core record carries `ref`, the standard library's value on the recorded input computed
   directly by the harness, and the specification requires core = ref (standard conformance).
"""
import hashlib as real_hashlib
import hmac as real_hmac
import random
import sys
import time

from common import (MachineryError, b2s, finish, pmap, run_tlc, seed, tier)
import prim_common as pc

PROP = "C16"
DIGESTS = ("sha1", "sha256", "sha512", "md5")
XOFS = ("shake_128", "shake_256")
DSIZE = {"md5": 16, "sha1": 20, "sha256": 32, "sha512": 64}
UNL = -1

# ---------------------------------------------------------------------------
# recorders
# ---------------------------------------------------------------------------


class Rec:
    def __init__(self):
        self.log = []
        self.on = False


REC = Rec()
_INSTALLED = {}


def _digname(name):
    name = (name or "").lower()
    return name[5:] if name.startswith("hmac-") else name


class _HmacObj:
    def __init__(self, real, key, msg):
        self._real = real
        self._rec = {"dig": _digname(real.name), "k": bytes(key), "inp": bytes(msg or b""), "res": b"", "used": False}
        if REC.on:
            REC.log.append(self._rec)

    def update(self, data):
        self._rec["inp"] += bytes(data)
        return self._real.update(data)

    def digest(self):
        out = self._real.digest()
        self._rec["res"] = bytes(out)
        self._rec["used"] = True
        return out

    def hexdigest(self):
        return self.digest().hex()

    def copy(self):
        c = _HmacObj.__new__(_HmacObj)
        c._real = self._real.copy()
        c._rec = dict(self._rec, res=b"", used=False)
        if REC.on:
            REC.log.append(c._rec)
        return c

    def __getattr__(self, name):
        return getattr(self._real, name)


class _HmacProxy:
    """`hmac` as seen from toolkit.prf.hmac_prf."""

    def new(self, key, msg=None, digestmod=""):
        return _HmacObj(real_hmac.new(key, msg, digestmod), key, msg)

    HMAC = new

    def digest(self, key, msg, digest):
        o = _HmacObj(real_hmac.new(key, msg, digest), key, msg)
        return o.digest()

    def __getattr__(self, name):
        return getattr(real_hmac, name)


class _HashObj:
    def __init__(self, real, data):
        self._real = real
        self._rec = {"name": real.name.lower(), "inp": bytes(data or b""), "n": -1, "res": b"", "used": False}
        if REC.on:
            REC.log.append(self._rec)

    def update(self, data):
        self._rec["inp"] += bytes(data)
        return self._real.update(data)

    def digest(self, *a, **kw):
        out = self._real.digest(*a, **kw)
        n = a[0] if a else kw.get("length", -1)
        if self._rec["used"] and REC.on:        # a second digest of the same object is a second core value
            self._rec = dict(self._rec)
            REC.log.append(self._rec)
        self._rec.update(n=int(n), res=bytes(out), used=True)
        return out

    def hexdigest(self, *a, **kw):
        return self.digest(*a, **kw).hex()

    def copy(self):
        c = _HashObj.__new__(_HashObj)
        c._real = self._real.copy()
        c._rec = dict(self._rec, res=b"", used=False, n=-1)
        if REC.on:
            REC.log.append(c._rec)
        return c

    def __getattr__(self, name):
        return getattr(self._real, name)


class _HashlibProxy:
    """`hashlib` as seen from toolkit.hash."""

    def new(self, name, data=b"", **kw):
        return _HashObj(real_hashlib.new(name, data, **kw), data)

    def __getattr__(self, name):
        attr = getattr(real_hashlib, name)
        if name in real_hashlib.algorithms_guaranteed and callable(attr):
            def ctor(data=b"", **kw):
                return _HashObj(attr(data, **kw), data)
            return ctor
        return attr


def install():
    pc.setup_env()
    from toolkit.prf import get_prf_implementation
    from toolkit.hash import get_hash_implementation
    prf_cls = get_prf_implementation("HmacPRF")
    if not _INSTALLED:
        pm = sys.modules[prf_cls.__module__]
        if hasattr(pm, "hmac"):          # (a module that reaches HMAC some other way is only invisible to Layer B)
            pm.hmac = _HmacProxy()
        hm = sys.modules[get_hash_implementation.__module__]
        if hasattr(hm, "hashlib"):
            hm.hashlib = _HashlibProxy()
        # get_hash_implementation caches partials of the wrapper class: nothing bound to hashlib yet
        _INSTALLED["ok"] = True
    return prf_cls, get_hash_implementation


def _hmac_core_json():
    out = []
    for c in REC.log:
        try:
            ref = b2s(real_hmac.new(c["k"], c["inp"], c["dig"]).digest())
        except Exception:
            ref = [-1]
        out.append({"dig": c["dig"], "k": b2s(c["k"]), "inp": b2s(c["inp"]), "res": b2s(c["res"]), "used": c["used"], "ref": ref})
    return out


def _hash_core_json():
    out = []
    for c in REC.log:
        try:
            h = real_hashlib.new(c["name"], c["inp"])
            ref = b2s(h.digest(c["n"]) if c["n"] >= 0 else h.digest())
        except Exception:
            ref = [-1]
        out.append({"name": c["name"], "inp": b2s(c["inp"]), "n": c["n"], "res": b2s(c["res"]), "used": c["used"], "ref": ref})
    return out


# ---------------------------------------------------------------------------
# judged calls
# ---------------------------------------------------------------------------

def _oracle_prf(dig, k, m, n):
    """standard-library HMAC values every P_hash-style chaining of (k, m) up to n bytes can need: the chain
    a_0 = m, a_i = HMAC(k, a_{i-1}) and HMAC(k, a_i + m). Independent of how the code under test computes."""
    out = []
    try:
        h = real_hmac.new(k, b"", dig).digest_size
    except Exception:
        return out
    blocks = (max(n, 1) + h - 1) // h + 2
    a = bytes(m)
    for _ in range(blocks):
        nxt = real_hmac.new(k, a, dig).digest()
        out.append({"dig": dig, "k": b2s(k), "inp": b2s(a), "res": b2s(nxt), "used": True, "ref": b2s(nxt)})
        blk = real_hmac.new(k, nxt + bytes(m), dig).digest()
        out.append({"dig": dig, "k": b2s(k), "inp": b2s(nxt + bytes(m)), "res": b2s(blk), "used": True, "ref": b2s(blk)})
        a = nxt
    return out


def _oracle_hash(name, m, n):
    """standard-library hash values of m followed by a counter, for the counters 0..blocks+1 in every plausible byte encoding
    (the specification picks the documented one), or the XOF output of n bytes."""
    out = []
    try:
        h0 = real_hashlib.new(name)
    except Exception:
        return out
    if h0.digest_size == 0:          # XOF
        r = real_hashlib.new(name, bytes(m)).digest(n)
        return [{"name": name, "inp": b2s(m), "n": n, "res": b2s(r), "used": True, "ref": b2s(r)}]
    blocks = (max(n, 1) + h0.digest_size - 1) // h0.digest_size + 2
    seen = set()
    for i in range(0, blocks + 1):
        encs = {i.to_bytes(max(1, (i.bit_length() + 7) // 8), "big")}
        for w in (1, 2, 4, 8):
            if i < 256 ** w:
                encs.add(i.to_bytes(w, "big"))
        for c in encs:
            for inp in (bytes(m) + c, c + bytes(m)):
                if inp in seen:
                    continue
                seen.add(inp)
                r = real_hashlib.new(name, inp).digest()
                out.append({"name": name, "inp": b2s(inp), "n": -1, "res": b2s(r), "used": True, "ref": b2s(r)})
    return out


def _bytes_or_bad(out, res):
    if out == "ok" and not isinstance(res, (bytes, bytearray)):
        return "badtype:" + type(res).__name__, None
    return out, res


def call_prf(decl, k, m):
    prf_cls, _ = install()
    e = {"op": "prf", "decl": decl, "k": b2s(k), "m": b2s(m), "out": "", "res": [], "again": [], "core": [], "oracle": []}
    try:
        f = prf_cls(output_length=decl["out"], key_length=decl["key"], message_length=decl["msg"], hash_func_name=decl["dig"])
    except Exception as ex:
        e["out"] = "ctor:" + pc.outcome_of(ex)
        return e
    REC.log = []
    REC.on = True
    try:
        res = f(k, m)
        out = "ok"
    except Exception as ex:
        res, out = None, pc.outcome_of(ex)
    finally:
        REC.on = False
    out, res = _bytes_or_bad(out, res)
    e["out"] = out
    e["res"] = b2s(res or b"")
    e["core"] = _hmac_core_json()
    e["oracle"] = _oracle_prf(decl["dig"], k, m, len(res) if out == "ok" and res is not None else 0) if out == "ok" else []
    if out == "ok":
        # determinism: the same instance again, and a fresh instance
        for g in (f, prf_cls(output_length=decl["out"], key_length=decl["key"], message_length=decl["msg"], hash_func_name=decl["dig"])):
            try:
                r2 = g(bytes(k), bytes(m))
                e["again"].append(b2s(r2) if isinstance(r2, (bytes, bytearray)) else [-1])
            except Exception:
                e["again"].append([-1])
    return e


def call_hash(decl, m):
    _, get_hash = install()
    e = {"op": "hash", "decl": decl, "m": b2s(m), "out": "", "res": [], "again": [], "core": [], "oracle": []}
    try:
        f = get_hash(decl["name"])(output_length=decl["out"])
    except Exception as ex:
        e["out"] = "ctor:" + pc.outcome_of(ex)
        return e
    REC.log = []
    REC.on = True
    try:
        res = f(m)
        out = "ok"
    except Exception as ex:
        res, out = None, pc.outcome_of(ex)
    finally:
        REC.on = False
    out, res = _bytes_or_bad(out, res)
    e["out"] = out
    e["res"] = b2s(res or b"")
    e["core"] = _hash_core_json()
    e["oracle"] = _oracle_hash(decl["name"], m, len(res)) if out == "ok" and res is not None else []
    if out == "ok":
        for g in (f, get_hash(decl["name"])(output_length=decl["out"])):
            try:
                r2 = g(bytes(m))
                e["again"].append(b2s(r2) if isinstance(r2, (bytes, bytearray)) else [-1])
            except Exception:
                e["again"].append([-1])
    return e


def run_script(s):
    """One script = one trace.  kind prf / hash: a single judged call; prf-distinct / hash-distinct: the
    sampled set, every member judged as a call, then the pairwise-distinctness event."""
    kind = s["kind"]
    if kind == "prf":
        return [call_prf(s["decl"], pc.unhx(s["k"]), pc.unhx(s["m"]))]
    if kind == "hash":
        return [call_hash(s["decl"], pc.unhx(s["m"]))]
    if kind == "prf-distinct":
        ev = [call_prf(s["decl"], pc.unhx(k), pc.unhx(m)) for k, m in s["pairs"]]
        ev.append({"op": "distinct", "items": [{"k": e["k"], "m": e["m"], "res": e["res"]} for e in ev]})
        return ev
    if kind == "hash-distinct":
        ev = [call_hash(s["decl"], pc.unhx(m)) for m in s["msgs"]]
        ev.append({"op": "distinct", "items": [{"k": [], "m": e["m"], "res": e["res"]} for e in ev]})
        return ev
    raise MachineryError("unknown script kind " + kind)


# ---------------------------------------------------------------------------
# generation
# ---------------------------------------------------------------------------

def _rb(rnd, n):
    return bytes(rnd.getrandbits(8) for _ in range(n))


def boundaries(h):
    """output lengths on both sides of every multiple of the digest size up to 200, plus the ends"""
    b = {1, 2, 199, 200}
    j = 1
    while j * h <= 201:
        b.update({j * h - 1, j * h, j * h + 1})
        j += 1
    return sorted(x for x in b if 1 <= x <= 200)


def PD(dig, out, key=UNL, msg=UNL):
    return {"out": out, "key": key, "msg": msg, "dig": dig}


def s_prf(tid, rnd, decl, kl, ml):
    return {"tid": tid, "kind": "prf", "decl": decl, "k": pc.hx(_rb(rnd, kl)), "m": pc.hx(_rb(rnd, ml))}


def s_hash(tid, rnd, name, n, ml):
    return {"tid": tid, "kind": "hash", "decl": {"name": name, "out": n}, "m": pc.hx(_rb(rnd, ml))}


def near_inputs(rnd, kl, base_ml=24):
    """A sampled set of (key, message) pairs of one key length containing the near-collisions a wrong
    construction would confuse: one-bit / one-byte differences, appended / prepended bytes, prefixes,
    empty message, key and message swapped in content."""
    k0 = _rb(rnd, kl)
    m0 = _rb(rnd, base_ml)
    ks = [k0]
    if kl:
        ks += [k0[:-1] + bytes([k0[-1] ^ 1]), bytes([k0[0] ^ 0x80]) + k0[1:], bytes(kl), bytes([255]) * kl,
               (m0 * 8)[:kl]]
    ms = [m0, m0 + b"\x00", m0 + b"\x01", m0 + b"\x01\x00", b"\x00" + m0, m0[:-1], m0[1:], m0[:-1] + bytes([m0[-1] ^ 1]),
          b"", b"\x00", b"\x01", b"\x00\x01", m0 + m0, (k0 * 4)[:base_ml] if kl else b"\x02"]
    pairs = []
    for k in ks[:3]:
        for m in ms:
            pairs.append((k, m))
    for k in ks[3:]:
        pairs.append((k, m0))
        pairs.append((k, b""))
    for _ in range(12):
        pairs.append((_rb(rnd, kl), _rb(rnd, rnd.randint(0, 200))))
    seen, out = set(), []
    for p in pairs:
        if p not in seen:
            seen.add(p)
            out.append(p)
    return out


def gen_scripts(tr, rnd):
    S = []
    thorough = tr == "thorough"
    reps = 10 if thorough else 1
    keygrid = [0, 1, 16, 20, 32, 63, 64, 65, 80]
    msggrid = [0, 1, 19, 20, 21, 55, 56, 64, 100, 200]
    for dig in DIGESTS:
        B = boundaries(DSIZE[dig])
        for r in range(reps):
            # every key length 0..80, every message length 0..200, every output length 1..200, each at least once
            for kl in range(0, 81):
                S.append(s_prf("prf-%s-k%d-r%d" % (dig, kl, r), rnd, PD(dig, rnd.choice(B) if r % 2 == 0 else rnd.randint(1, 200)),
                               kl, rnd.choice(msggrid) if r % 2 == 0 else rnd.randint(0, 200)))
            for ml in range(0, 201):
                S.append(s_prf("prf-%s-m%d-r%d" % (dig, ml, r), rnd, PD(dig, rnd.choice(B) if r % 2 == 0 else rnd.randint(1, 200)),
                               rnd.choice(keygrid) if r % 2 == 0 else rnd.randint(0, 80), ml))
            for n in range(1, 201):
                S.append(s_prf("prf-%s-n%d-r%d" % (dig, n, r), rnd, PD(dig, n), rnd.choice(keygrid) if r % 2 == 0 else rnd.randint(0, 80),
                               rnd.choice(msggrid) if r % 2 == 0 else rnd.randint(0, 200)))
        # boundary grid: key grid x output boundaries (message short / empty / long)
        for kl in (keygrid if thorough else [0, 16, 64, 65, 80]):
            for n in B:
                S.append(s_prf("prf-%s-grid-k%d-n%d" % (dig, kl, n), rnd, PD(dig, n), kl, rnd.choice([0, 1, 32, 200])))
        # keys longer than the HMAC block (hashed by HMAC), outside 0..80 but the same contract
        for kl in (127, 128, 129, 200):
            S.append(s_prf("prf-%s-longkey%d" % (dig, kl), rnd, PD(dig, rnd.choice(B)), kl, 33))
        # default output length (LENGTH_NOT_GIVEN -> digest size)
        S.append(s_prf("prf-%s-default-out" % dig, rnd, PD(dig, 0), 16, 10))
        # declared key / message lengths
        for dk in (0, 1, 16, 32, 80):
            for kl in sorted({0, 1, dk - 1, dk, dk + 1, 2 * dk, 81} - {-1}):
                S.append(s_prf("prf-%s-declkey%d-k%d" % (dig, dk, kl), rnd, PD(dig, 32, key=dk), kl, 12))
        for dm in (0, 1, 8, 64, 200):
            for ml in sorted({0, 1, dm - 1, dm, dm + 1, 2 * dm} - {-1}):
                S.append(s_prf("prf-%s-declmsg%d-m%d" % (dig, dm, ml), rnd, PD(dig, 20, msg=dm), 16, ml))
        for (dk, dm, kl, ml) in ((16, 8, 16, 8), (16, 8, 15, 8), (16, 8, 16, 9), (16, 8, 17, 7), (0, 0, 0, 0), (0, 0, 1, 0), (0, 0, 0, 1)):
            S.append(s_prf("prf-%s-declboth-%d-%d-k%d-m%d" % (dig, dk, dm, kl, ml), rnd, PD(dig, 48, key=dk, msg=dm), kl, ml))
        # pairwise distinctness over sampled sets (n >= 16, one key length per set)
        for kl, n in ((16, 16), (32, 20), (0, 64), (64, 100)) if thorough else ((16, 16), (32, 64)):
            pairs = near_inputs(rnd, kl)
            S.append({"tid": "prf-%s-distinct-k%d-n%d" % (dig, kl, n), "kind": "prf-distinct", "decl": PD(dig, n),
                      "pairs": [(pc.hx(k), pc.hx(m)) for k, m in pairs]})
    for name in DIGESTS + XOFS:
        B = boundaries(DSIZE.get(name, 32))
        for r in range(reps):
            for ml in range(0, 201):
                S.append(s_hash("hash-%s-m%d-r%d" % (name, ml, r), rnd, name, rnd.choice(B) if r % 2 == 0 else rnd.randint(1, 200), ml))
            for n in range(1, 201):
                S.append(s_hash("hash-%s-n%d-r%d" % (name, n, r), rnd, name, n, rnd.choice(msggrid) if r % 2 == 0 else rnd.randint(0, 200)))
        for n in B:
            for ml in (0, 1, 64):
                S.append(s_hash("hash-%s-grid-n%d-m%d" % (name, n, ml), rnd, name, n, ml))
        if name in DSIZE:
            S.append(s_hash("hash-%s-default-out" % name, rnd, name, 0, 10))
            # more than 255 blocks: the counter needs two bytes (outside 1..200, same documented construction)
            S.append(s_hash("hash-%s-n%d-2byte-counter" % (name, 256 * DSIZE[name] + 5), rnd, name, 256 * DSIZE[name] + 5, 3))
        for n in ((16, 20, 64, 150) if thorough else (16, 64)):
            msgs = sorted({m for _, m in near_inputs(rnd, 0)} | {m for _, m in near_inputs(rnd, 0, 5)})
            S.append({"tid": "hash-%s-distinct-n%d" % (name, n), "kind": "hash-distinct", "decl": {"name": name, "out": n},
                      "msgs": [pc.hx(m) for m in msgs]})
    return S


# ---------------------------------------------------------------------------
# main
# ---------------------------------------------------------------------------

def describe(e):
    if not e:
        return ""
    d = e.get("decl") or {}
    if e.get("op") == "prf":
        return "prf declared(dig=%s,out=%s,key=%s,msg=%s) |k|=%d |m|=%d out=%s |res|=%d k=%s m=%s" % (
            d.get("dig"), d.get("out"), d.get("key"), d.get("msg"), len(e["k"]), len(e["m"]), e["out"], len(e["res"]),
            bytes(e["k"]).hex(), bytes(e["m"]).hex()[:128])
    if e.get("op") == "hash":
        return "hash declared(name=%s,out=%s) |m|=%d out=%s |res|=%d m=%s" % (
            d.get("name"), d.get("out"), len(e["m"]), e["out"], len(e["res"]), bytes(e["m"]).hex()[:128])
    if e.get("op") == "distinct":
        return "distinct over %d items" % len(e.get("items", []))
    return str(e)[:200]


MC_INVS = ["PrfDefined", "PrfPrefix", "PrfNeedIsGraph", "PrfNeedsAll", "PrfFirstBlock", "PrfSecondBlock",
           "HashDefined", "HashPrefix", "HashNeedsAll", "HashFirstBlock"]


def model(tr):
    consts = "KeyLens = {0, 1, 3, 20}\nMsgLens = {0, 1, 2, 5, 40}\n" if tr == "thorough" else "KeyLens = {0, 2}\nMsgLens = {0, 1, 3}\n"
    cfg = "CONSTANTS " + consts + "SPECIFICATION Spec\n" + "".join("INVARIANT %s\n" % i for i in MC_INVS) + "CHECK_DEADLOCK FALSE\n"
    r = run_tlc("MC_PHash", cfg, workers=4, heap="3g", timeout=900, env={"JAVA_TOOL_OPTIONS": "-Xss16m"})
    if not r.distinct or r.distinct < 100:
        raise MachineryError("MC_PHash explored only %s states" % r.distinct)
    return r, consts.replace("\n", " ")


def validate(traces, name):
    return pc.validate_layers("Trace_PHash", [{"tid": t["tid"], "ev": t["ev"]} for t in traces], name)


def main(argv_tier=None, replay_path=None):
    t0 = time.time()
    tr = tier(argv_tier)
    install()
    if replay_path:
        rp = pc.load_replay(replay_path)
        ev = run_script(rp["script"])
        rej, drift, _ = validate([{"tid": rp["script"]["tid"], "ev": ev}], "c16-replay")
        for e in ev:
            print(describe(e))
        print("verdict:", rej or "ACCEPT", "drift:", drift or "none")
        return 1 if rej else 0

    r, consts = model(tr)
    rnd = random.Random(seed() * 1000003 + 16)
    scripts = gen_scripts(tr, rnd)
    evs = pmap(run_script, scripts)
    traces = [{"tid": s["tid"], "ev": ev} for s, ev in zip(scripts, evs)]
    rej, drift, agg = validate(traces, "c16")
    by_tid = {s["tid"]: s for s in scripts}
    viol, seen, dl = pc.report(PROP, by_tid, traces, rej, drift, describe)

    calls = [e for t in traces for e in t["ev"] if e["op"] in ("prf", "hash")]
    kinds = {}
    for e in calls:
        key = "%s:%s" % (e["op"], e["out"])
        kinds[key] = kinds.get(key, 0) + 1
    distinct = {(e["op"], e["decl"].get("dig") or e["decl"].get("name"), e["decl"]["out"], len(e.get("k", [])), len(e["m"]), e["out"])
                for e in calls}
    ncore = sum(len(e["core"]) for e in calls)
    cover = {
        "prf_key_lengths": len({len(e["k"]) for e in calls if e["op"] == "prf" and e["out"] == "ok"}),
        "prf_msg_lengths": len({len(e["m"]) for e in calls if e["op"] == "prf" and e["out"] == "ok"}),
        "prf_out_lengths": len({len(e["res"]) for e in calls if e["op"] == "prf" and e["out"] == "ok"}),
        "hash_msg_lengths": len({len(e["m"]) for e in calls if e["op"] == "hash" and e["out"] == "ok"}),
        "hash_out_lengths": len({len(e["res"]) for e in calls if e["op"] == "hash" and e["out"] == "ok"}),
        "distinct_sets": sum(1 for t in traces for e in t["ev"] if e["op"] == "distinct"),
        "distinct_items": sum(len(e["items"]) for t in traces for e in t["ev"] if e["op"] == "distinct"),
    }
    if not rej and (kinds.get("prf:ok", 0) < 1500 or kinds.get("hash:ok", 0) < 1500 or kinds.get("prf:ValueError", 0) < 40
                    or cover["prf_key_lengths"] < 81 or cover["prf_msg_lengths"] < 201 or cover["prf_out_lengths"] < 200):
        raise MachineryError("driver did not exercise the implementation as planned: %s %s" % (kinds, cover))
    sample = next(t for t in traces if t["tid"].startswith("prf-sha1-n41-"))
    sample2 = next(t for t in traces if t["tid"].startswith("hash-md5-n17-"))
    cov = {
        "states": r.distinct, "transitions": r.generated,
        "traces_validated_against_impl": len(traces),
        "trace_validation_states": agg["distinct"],
        "evaluations": len(calls),
        "distinct_nontrivial": len(distinct),
        "core_calls_recorded_and_cross_checked": ncore,
        "rule": "judged calls of the real HmacPRF over {sha1,sha256,sha512,md5} and of the hash wrapper over those + {shake_128,shake_256}: "
                "every key length 0..80, message length 0..200 and output length 1..200 at least once per digest (the other two "
                "coordinates from grids / random), output lengths on both sides of every digest-size multiple x key grid, "
                "default output length, declared key/message lengths with every violation, sampled near-collision sets for pairwise "
                "distinctness; distinct_nontrivial = distinct (op, digest, n, |k|, |m|, outcome)",
        "calls_by_outcome": kinds,
        "ranges_covered": cover,
        "exhaustive": False,
        "model": "spec/prim/PHash.tla via MC_PHash (%s; invariants %s); trace spec Trace_PHash over lib/Bytes" % (consts.strip(), ", ".join(MC_INVS)),
        "drift": dl,
        "samples": [{"script": by_tid[sample["tid"]], "events": sample["ev"]}, {"script": by_tid[sample2["tid"]], "events": sample2["ev"]}],
    }
    return finish(PROP, tr, t0, cov, [v for v in viol if v[1] != "-"] if viol else [], seen, assumptions=[
        "HMAC and the hash functions of the standard library (OpenSSL) are trusted; they are the abstract core whose graph is the recorded "
        "hmac.new / hashlib.new objects of each call, and each recorded value is compared with a direct standard-library call on the recorded input",
        "the documented hash expansion is the one in toolkit/hash.py: counter from 1, minimal big-endian bytes (int_to_bytes), appended to the message; "
        "P_hash is RFC 5246 section 5 with secret = key, seed = message",
        "pairwise distinctness is observed over the sampled sets (keys of one length per set, n >= 16), not proved",
    ])
