"""Layer B model checking for C12: ServerImpl (the code as it is) must satisfy the Layer A clauses;
ServerImplOld (the code before the fix) must violate them (model sensitivity regression)."""
from common import MachineryError, run_tlc

INV = ("INVARIANT Serialised\nINVARIANT OneServed\nINVARIANT AckDurable\nINVARIANT WellFormed\nINVARIANT SnapFresh\n"
       "INVARIANT RegIsServed\nPROPERTY NoRollback\nPROPERTY WriteOnce\nPROPERTY RefinesServerSM\n")


def cfg(conn, maxsend, req, body, spec="Spec"):
    return ("CONSTANTS Conn = {%s}\nMaxSend = %d\nReq = {%s}\nSPECIFICATION %s\n%sCHECK_DEADLOCK FALSE\n"
            % (",".join(map(str, conn)), maxsend, ",".join('"%s"' % r for r in req), spec, body))


def check(tr):
    runs = []
    tot = {"distinct": 0, "generated": 0}
    if tr == "quick":
        insts = [([1, 2], 2, ["cfg1", "up1", "up2", "search"]), ([1, 2, 3], 1, ["cfg1", "up1", "up2"])]
    else:
        insts = [([1, 2], 3, ["cfg1", "cfg2", "up1", "up2", "search"]), ([1, 2, 3], 2, ["cfg1", "up1", "up2", "search"])]
    for conn, ms, req in insts:
        r = run_tlc("ServerImpl", cfg(conn, ms, req, INV), coverage=True, timeout=3000, name="implB")
        never = [a for a in ("Open", "PeerSend", "PeerClose", "TurnWake", "Recv", "Deliver", "RecvEnd", "CleanWake", "CleanGotLock", "TimerFire", "ForeignAcquire")
                 if r.coverage.get(a, 0) == 0]
        if never:
            raise MachineryError("ServerImpl: actions never taken (vacuous run): %s" % never)
        runs.append({"module": "ServerImpl", "conn": conn, "max_send": ms, "req": req, "distinct": r.distinct,
                     "generated": r.generated, "depth": r.depth, "wall_s": round(r.wall, 1),
                     "action_counts": {k: v for k, v in r.coverage.items() if k[0].isupper()}})
        tot["distinct"] += r.distinct
        tot["generated"] += r.generated
    # liveness on the small instance
    r = run_tlc("ServerImpl", cfg([1, 2], 1, ["cfg1", "up1"], "PROPERTY EventuallyServed\n", spec="FairSpec"), timeout=1200, name="implLive")
    runs.append({"module": "ServerImpl", "property": "EventuallyServed (FairSpec)", "distinct": r.distinct, "generated": r.generated})
    # sensitivity: the pre-fix model must violate each clause
    for inv, kind, conn in (("Serialised", "INVARIANT", [1, 2, 3]), ("AckDurable", "INVARIANT", [1, 2]),
                            ("NoRollback", "PROPERTY", [1, 2]), ("WriteOnce", "PROPERTY", [1, 2])):
        r = run_tlc("ServerImplOld", cfg(conn, 2, ["cfg1", "up1", "up2"], "%s %s\n" % (kind, inv)),
                    allow_violation=True, timeout=600, name="implOld")
        if r.violated != inv:
            raise MachineryError("ServerImplOld no longer violates %s: the Layer B model cannot see defect D9" % inv)
        runs.append({"module": "ServerImplOld", "violates": inv, "as_expected": True})
    tot["runs"] = runs
    return tot
