"""C11 — client workflow: steps out of order are refused and the key is write-once.

TLC enumerates every operation history of ClientSM up to depth D (MC_ClientSM) and checks KeyWriteOnce,
FlagsMonotone, Prereq, Searchable on the model; every history is replayed with the real client Service
(fresh object per operation, as commands.py does) against the real server over a loopback websocket;
after every operation the persisted flags, key version, directories and server state are projected and
TLC validates the trace against Trace_ClientSM.
"""
import asyncio
import copy
import hashlib
import os
import random
import shutil
import time

from common import (REPO, MachineryError, classify, finish, parse_printed, pmap, run_tlc, seed, subdir, tier,
                    tla_value, validate_traces, write_replay)
import fe_server as fs
import fe_world

PROP = "C11"
SYMS = ["create", "createbad", "createsame", "genkey", "encrypt", "upconfig", "upindex", "search"]
NOSID = "e" * 64
OKFILES = {"config.json", "key", "edb", "service_meta"}


def fixtures(scheme="CJJ14.PiBas"):
    fs.setup_env(REPO)
    import schemes
    ml = schemes.load_sse_module(scheme)
    cfg = copy.deepcopy(ml.SSEConfig.get_default_config())
    rnd = random.Random(seed() + 11)

    def ident(n=8):
        return bytes(rnd.randrange(1, 256) for _ in range(n))
    db = {b"alpha": [ident() for _ in range(3)], b"beta": [ident()]}
    bad = []
    b1 = copy.deepcopy(cfg)
    b1["param_lambda"] = 20                # AES has no 20-byte key
    bad.append(b1)
    b2 = copy.deepcopy(cfg)
    b2["scheme"] = "CJJ14.NoSuchScheme"
    bad.append(b2)
    b3 = copy.deepcopy(cfg)
    del b3["ske"]
    bad.append(b3)
    return {"cfg": cfg, "db": db, "bad": bad}


class Run:
    def __init__(self, fx, base, variant=0, cleanup_delay=0.0):
        self.fx = fx
        self.w = fe_world.World(REPO, base, echo_cap=30, cleanup_delay=cleanup_delay)
        self.sid = ""
        self.keys = []
        self.variant = variant
        self.ev = []

    def snapshot(self):
        cs = self.w.client_state(self.sid) if self.sid else {"exists": False, "flags": 0, "files": [], "key": "", "cfgd": "", "edb": ""}
        return cs

    def observe(self, before):
        w = self.w
        cs = self.snapshot()
        flags = cs["flags"] if cs["exists"] and cs["flags"] >= 0 else 0
        if cs["key"] and cs["key"] not in self.keys:
            self.keys.append(cs["key"])
        # a service directory is one that holds service files (a tmp/ or logs/ directory next to them is not a service)
        dirs = [d for d in w.client_dirs() if d != getattr(self, "decoy_sid", None)
                and any(f.startswith(("service_meta", "config.json", "key", "edb")) for f in os.listdir(os.path.join(w.cdir, d)))]
        ss = w.server_state(self.sid) if self.sid else {"st": 0}
        stray = [f for f in os.listdir(w.cdir) if not os.path.isdir(os.path.join(w.cdir, f))]
        o = {"exists": bool(cs["exists"] and cs["flags"] >= 0),
             "cc": bool(flags & 1), "cu": bool(flags & 2), "kc": bool(flags & 4), "de": bool(flags & 8), "du": bool(flags & 16),
             "keyVer": len(self.keys) if cs["key"] else 0,
             "sst": ss["st"], "ndirs": len(dirs), "live": False,
             "filesok": set(cs["files"]) <= OKFILES and not stray and cs["flags"] != -2,
             "changed": (before["key"], before["cfgd"], before["edb"], before["flags"]) != (cs["key"], cs["cfgd"], cs["edb"], cs["flags"])}
        return o

    async def step(self, sym):
        before = self.snapshot()
        sid = self.sid or NOSID
        if sym == "create":
            r = await self.w.client_op("create", self.sid or "", copy.deepcopy(self.fx["cfg"]))
            if r["out"] == "ok":
                self.sid = r["sid"]
        elif sym == "createsame":
            # create-service from scratch (no sid) with the stored configuration, which already carries its salt
            cfgd = copy.deepcopy(self.fx["cfg"])
            if self.sid:
                import json
                try:
                    with open(os.path.join(self.w.cdir, self.sid, "config.json")) as fh:
                        cfgd = json.load(fh)
                except Exception:
                    pass
            r = await self.w.client_op("create", "", cfgd)
            if r["out"] == "ok":
                self.sid = r["sid"]
        elif sym == "createbad":
            bad = self.fx["bad"][self.variant % len(self.fx["bad"])]
            r = await self.w.client_op("create", self.sid or "", copy.deepcopy(bad))
            if r["out"] == "ok":
                self.sid = self.sid or r["sid"]
        elif sym == "encrypt":
            r = await self.w.client_op("encrypt", sid, copy.deepcopy(self.fx["db"]))
        elif sym == "search":
            kw = sorted(self.fx["db"])[len(self.ev) % len(self.fx["db"])]
            r = await self.w.client_op("search", sid, kw)
            r["correct"] = r["out"] == "ok" and r["result"] == self.fx["db"][kw]
        else:
            r = await self.w.client_op(sym, sid)
        out = "ok" if r["out"] == "ok" else "refused"
        e = {"op": sym, "out": out, "correct": bool(r.get("correct", False)), "raw": r["out"] + ":" + r.get("err", "") + ":" + r.get("msg", "")[:120],
             "o": self.observe(before)}
        self.ev.append(e)

    async def run(self, hist):
        await self.w.start_server()
        for s in hist:
            await self.step(s)
        await self.w.shutdown()
        return self.ev


def replay(fx, hist, k):
    d = os.path.join(subdir("c11-data"), "h%d" % k)
    r = Run(fx, d, variant=k)
    loop = asyncio.new_event_loop()
    loop.set_exception_handler(lambda l, c: None)
    try:
        ev = loop.run_until_complete(asyncio.wait_for(r.run(hist), 120))
    finally:
        loop.close()
    shutil.rmtree(d, ignore_errors=True)
    return ev


def main(argv_tier=None, replay_path=None):
    t0 = time.time()
    tr = tier(argv_tier)
    fx = fixtures()
    if replay_path:
        import json
        with open(replay_path) as fh:
            rp = json.load(fh)
        ev = replay(fx, rp["history"], rp.get("k", 0))
        verdicts, _ = validate_traces("Trace_ClientSM", [{"tid": "replay", "ev": ev}])
        for e in ev:
            print(e)
        print(verdicts)
        return 0 if verdicts["replay"]["ok"] else 1

    D = 4 if tr == "quick" else 5
    cfg = ("CONSTANT D = %d\nSPECIFICATION MCSpec\nINVARIANT Emit\nINVARIANT Prereq\nINVARIANT Searchable\n"
           "INVARIANT SearchAlwaysCorrect\nPROPERTY KeyWriteOnce\nPROPERTY FlagsMonotone\nCHECK_DEADLOCK FALSE\n" % D)
    r = run_tlc("MC_ClientSM", cfg, workers=8)
    hists = sorted({tuple(tla_value(x)[1]) for x in parse_printed(r.out, "H")})
    if len(hists) != len(SYMS) ** D:
        raise MachineryError("expected %d histories, got %d" % (len(SYMS) ** D, len(hists)))
    rnd = random.Random(seed())
    nrand = 400 if tr == "quick" else 4000
    base = ["create", "genkey", "encrypt", "upconfig", "upindex", "search"]
    for _ in range(nrand):
        # a workflow with random insertions, deletions and repetitions: reaches the deep states
        h = []
        for s in base:
            while rnd.random() < 0.35:
                h.append(rnd.choice(SYMS))
            if rnd.random() < 0.85:
                h.append(s)
        while rnd.random() < 0.6:
            h.append(rnd.choice(SYMS))
        hists.append(tuple(h))
    evs = pmap(lambda a: replay(fx, list(a[1]), a[0]), list(enumerate(hists)))
    traces = [{"tid": "h%d" % k, "ev": ev, "history": list(h), "k": k} for (k, h), ev in zip(enumerate(hists), evs)]
    verdicts, agg = validate_traces("Trace_ClientSM", [{"tid": t["tid"], "ev": t["ev"]} for t in traces])
    rej = []
    for t in traces:
        v = verdicts[t["tid"]]
        if not v["ok"]:
            rej.append({"key": v["clause"], "trace": t, "verdict": v})
    viol, seen = classify(PROP, rej)
    vio_out = []
    for x in viol:
        p = ""
        if len(vio_out) < 20:
            p = write_replay(PROP, x["trace"]["tid"], {"history": x["trace"]["history"], "k": x["trace"]["k"],
                                                       "events": x["trace"]["ev"], "verdict": x["verdict"], "seed": seed()})
        vio_out.append(("step %d %s history=%s" % (x["verdict"]["step"], x["verdict"]["clause"], ",".join(x["trace"]["history"])), p))
    deep = len({tuple(t["history"]) for t in traces if any(e["op"] == "search" and e["out"] == "ok" for e in t["ev"])})
    import growth
    ga = growth.alias(tr)
    gl = growth.lost_echo(fx, tr)
    for o in ga["observations"] + gl["observations"]:
        print("OBSERVATION (outside the listed properties) %s" % o)
    from common import apalache_inductive, tlaps_prove
    apa = apalache_inductive("APA_ClientSM", "CInit", "CNext", "IndInit", "IndInv")
    tlaps = tlaps_prove("ClientSM_proofs")
    ga["tlaps_proof"] = tlaps_prove("AliasSM_proofs")
    cov = {
        "apalache_inductive_invariant": apa,
        "tlaps_proof": tlaps,
        "growth": {"alias_registry": ga, "client_impl_lost_echo": gl},
        "states": r.distinct, "transitions": r.generated,
        "traces_validated_against_impl": len(traces), "trace_validation_states": agg["distinct"],
        "evaluations": len(traces), "distinct_nontrivial": len({tuple(t["history"]) for t in traces if any(e["out"] == "ok" for e in t["ev"])}),
        "histories_reaching_search": deep,
        "rule": "every history over 7 operations (incl. create with an uninstantiable configuration) up to depth %d emitted by TLC from "
                "MC_ClientSM, plus %d perturbed workflows; each operation on a client object freshly loaded from disk; "
                "non-trivial = at least one accepted operation" % (D, nrand),
        "exhaustive": True,
        "samples": [{"history": t["history"], "events": t["ev"]} for t in traces[-2:]],
        "model": "spec/fe/ClientSM.tla via MC_ClientSM (D=%d), Trace_ClientSM" % D,
    }
    return finish(PROP, tr, t0, cov, vio_out, seen,
                  assumptions=["real client and server in one process over a loopback websocket; server cleanup delay shortened",
                               "PiBas default configuration; three kinds of uninstantiable configuration",
                               "operations before the service exists use a sid that does not exist on disk"])
