"""Call-trace helpers shared by the pure-function checks (C17, C18).

A *call* is one JSON record {op, <arguments>, out, res}.  Calls are packed into traces of `group`
records and validated by TLC against a Trace_* module that judges every record independently and lists
the failing ones in the verdict clause as "pos:op:why;..." (see spec/prim/Trace_BitVec.tla).
"""
import json
import os
import sys
import time

from common import MachineryError, validate_traces


class BadType(Exception):
    """the real code returned a value of a type the specification has no reading for"""


def run_call(table, spec):
    """Execute one call spec ({op, args...}) on the real code through `table[op](spec)`.

    Returns the full record: the spec plus out ("ok" | "raised" | "badtype") and res (only when ok)."""
    r = dict(spec)
    try:
        res = table[spec["op"]](spec)
    except BadType:
        r["out"] = "badtype"
    except Exception:                       # an exception of the code under test is an observation
        r["out"] = "raised"
    else:
        r["out"] = "ok"
        r["res"] = res
    return r


def want_bool(x):
    if x is True or x is False:
        return x
    if isinstance(x, int) and x in (0, 1):       # a bit delivered as 0 / 1 is the same answer (True == 1)
        return bool(x)
    raise BadType(type(x).__name__)


def want_int(x, limit=2 ** 31 - 1):
    if isinstance(x, bool) or not isinstance(x, int) or abs(x) > limit:
        raise BadType(type(x).__name__)
    return x


def validate_calls(trace_module, records, *, group=100, consts="", name=None, timeout=1800, shards=None):
    """Validate a flat list of independent call records.  Returns (failures, agg):
    failures = [{"index": position in records, "op": ..., "why": ...}], agg = TLC state counts."""
    if not records:
        return [], {"generated": 0, "distinct": 0}
    traces = []
    for k in range(0, len(records), group):
        traces.append({"tid": "g%d" % (k // group), "ev": records[k:k + group]})
    verdicts, agg = validate_traces(trace_module, traces, consts=consts, name=name, timeout=timeout, shards=shards)
    failures = []
    for t in traces:
        v = verdicts[t["tid"]]
        base = int(t["tid"][1:]) * group
        if v["ok"]:
            if v["step"] != len(t["ev"]) + 1:
                raise MachineryError("trace %s accepted at step %s of %d" % (t["tid"], v["step"], len(t["ev"])))
            continue
        items = [x for x in v["clause"].split(";") if x]
        if not items:
            raise MachineryError("trace %s rejected without a clause" % t["tid"])
        for it in items:
            pos, op, why = it.split(":", 2)
            idx = base + int(pos) - 1
            if records[idx]["op"] != op:
                raise MachineryError("clause %r does not match record %d (%s)" % (it, idx, records[idx]["op"]))
            failures.append({"index": idx, "op": op, "why": why})
    return failures, agg


def key_of(spec):
    """canonical key of a call (operation + arguments) for distinct counting"""
    return json.dumps({k: v for k, v in spec.items() if k not in ("out", "res")}, sort_keys=True)


def retry(fn, *args, attempts=2, **kw):
    """Run a TLC step again when the JVM died without a result (seen under memory pressure when many checks run at
    once); a genuine specification error fails every attempt and is raised unchanged."""
    for k in range(attempts):
        try:
            return fn(*args, **kw)
        except MachineryError as ex:
            if k + 1 == attempts:
                raise
            print("machinery: %s failed (%s); retrying" % (getattr(fn, "__name__", "step"), str(ex).splitlines()[0][:120]), file=sys.stderr)
            time.sleep(3)


def limit_jvm(heap="2g"):
    """Cap the heap of every JVM this check starts (TLC otherwise takes up to a quarter of the machine per JVM and
    16 trace-validation shards run at once).  Honoured through JAVA_TOOL_OPTIONS; an explicit setting wins."""
    os.environ.setdefault("JAVA_TOOL_OPTIONS", "-Xmx" + heap)
