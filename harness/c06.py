"""C06 — the index layout does not encode the order in which the database was supplied.

(i) LabelOrder (CJJ14.{PiBas,PiPack,PiPtr,Pi2Lev}, CT14.Pi, ANSS16.Scheme3).  Model: spec/sse/Order.tla builds every
label-addressed table as the code does (entries keyword by keyword in the supplied order, labels a function of (key,
keyword, counter), dummy keywords / padding labels from the replayed random stream, SortByLabel); MC_Order: TLC enumerates
all permutations of the keyword order of profiles (<= 4 keywords) of the bounded MC_Profiles instance and checks that the
label sequences are sorted and equal; without the sort, or with a sort on the value, the invariant must fail.
Binding: every emitted (configuration, profile, permutation) is built twice with the real EDBSetup under ONE key, with the
construction module's `os` / `random` replaced by a deterministic stream re-seeded identically (module-attribute proxies),
the label order is read from the unpickled EDB.serialize(), and TLC (Trace_Order) judges LabelOrder:sorted / :equal.

(ii) Moves (PiPtr, Pi2Lev, SSE1, DP17).  Model: MC_Place explores the placement of array-resident blocks as a sequence of
uniform choices exhaustively on small instances and checks that every complete placement has probability <= 1/prod(factors)
for the closed-form factors of Order.tla; FamilyOK picks, among candidate databases, those with >= 12 array blocks and
>= 1e8 equally likely placements.  Binding: two real setups per family (the second under a key of its own: the property allows a fresh key wherever
placement is key-derived, and whether it is, is the construction's business),
list-typed index members replaced by a recording list, every keyword searched, ordered slot tuples logged; for DP17 the
occupants of every bucket read are logged too.  TLC judges Moves (tuples differ) and Moves:inbucket (not in append order).
"""
import copy
import hashlib
import json
import pickle
import random
import time

from common import (REPO, MachineryError, classify, finish, parse_printed, pmap, run_tlc, seed, tier, tla_value,
                    validate_traces, write_replay)
import fe_server as fs
import sse_common as sc
import sse_engine as se

PROP = "C06"
LABEL_SCHEMES = ["CJJ14.PiBas", "CJJ14.PiPack", "CJJ14.PiPtr", "CJJ14.Pi2Lev", "CT14.Pi", "ANSS16.Scheme3"]
MOVE_SCHEMES = ["CJJ14.PiPtr", "CJJ14.Pi2Lev", "CGKO06.SSE1", "DP17.Pi"]
FRESH_KEY = {"CGKO06.SSE1"}            # placement is key-derived
NEED = 10 ** 8


# ----------------------------------------------------------------------------- deterministic randomness for (i)
class _Stream:
    def __init__(self, sd):
        self.sd = repr(sd).encode()
        self.ctr = 0
        self.buf = b""

    def urandom(self, n):
        while len(self.buf) < n:
            self.buf += hashlib.sha256(self.sd + b"/%d" % self.ctr).digest()
            self.ctr += 1
        out, self.buf = self.buf[:n], self.buf[n:]
        return out


class _OsProxy:
    """stands in for the name `os` inside ONE construction module: urandom from the stream, everything else real"""
    def __init__(self, real, stream):
        self._real = real
        self._stream = stream

    def urandom(self, n):
        return self._stream.urandom(n)

    def __getattr__(self, name):
        return getattr(self._real, name)


class _RandomProxy:
    """stands in for the name `random` inside ONE construction module: the module-level functions come from a seeded
    generator, everything else (SystemRandom, Random, constants ...) is the real module's"""
    def __init__(self, real, inst):
        self._real, self._inst = real, inst

    def __getattr__(self, name):
        v = getattr(self._real, name)
        if isinstance(v, type) or name.startswith("_") or not callable(v):
            return v
        return getattr(self._inst, name, v)


class det_random:
    """with det_random(construction_module, seed): the module's `os.urandom` and `random.*` are a fixed stream"""
    def __init__(self, cm, sd):
        self.cm, self.sd = cm, sd

    def __enter__(self):
        self.saved = {n: getattr(self.cm, n) for n in ("os", "random") if hasattr(self.cm, n)}
        if "os" in self.saved:
            self.cm.os = _OsProxy(self.saved["os"], _Stream(("os", self.sd)))
        if "random" in self.saved:
            self.cm.random = _RandomProxy(self.saved["random"], random.Random(repr(("random", self.sd))))
        # also the global entry points, so that a module that reaches them through `import os as _os`, `random.randint`
        # imported by name, etc. is still replayed (only `from os import urandom` at import time would escape)
        import os as _os
        self._g_urandom = _os.urandom
        self._g_state = random.getstate()
        gstream = _Stream(("os-global", self.sd))
        _os.urandom = gstream.urandom
        random.seed(repr(("random-global", self.sd)))
        return self

    def __exit__(self, *a):
        import os as _os
        _os.urandom = self._g_urandom
        random.setstate(self._g_state)
        for n, v in self.saved.items():
            setattr(self.cm, n, v)
        return False


def construction_module(ml):
    import sys
    return sys.modules[ml.SSEScheme.__module__]


def header_of(ml):
    import sys
    cfgmod = sys.modules[ml.SSEConfig.__module__]
    hs = [getattr(cfgmod, n) for n in dir(cfgmod) if n.endswith("_HEADER") and isinstance(getattr(cfgmod, n), bytes)]
    if len(hs) != 1:
        raise MachineryError("cannot identify the serialization header of %s" % cfgmod.__name__)
    return hs[0]


def label_tables(scheme, ml, edb):
    """[(name, [label, ...])] in the key order of the tables as they come out of the UNPICKLED serialized index"""
    raw = edb.serialize()
    hdr = header_of(ml)
    if raw[:len(hdr)] != hdr:
        raise MachineryError("serialized index of %s does not start with its header" % scheme)
    obj = pickle.loads(raw[len(hdr):])
    if scheme in ("CJJ14.PiBas", "CJJ14.PiPack"):
        tabs = [("D", obj)]
    elif scheme in ("CJJ14.PiPtr", "CJJ14.Pi2Lev"):
        tabs = [("D", obj[0])]
    elif scheme == "CT14.Pi":
        tabs = [("HT%d" % i, h) for i, h in enumerate(obj)]
    elif scheme == "ANSS16.Scheme3":
        tabs = [("HT_S", obj[0])] + [("HT%d" % i, h) for i, h in enumerate(obj[1])]
    else:
        raise ValueError(scheme)
    out = []
    for name, d in tabs:
        if not isinstance(d, dict):
            raise MachineryError("%s table %s is a %s" % (scheme, name, type(d).__name__))
        out.append((name, [bytes(k) for k in d.keys()]))
    return out


def make_db(scheme, cfg, profile, rnd):
    kwlen = None
    if "param_l" in cfg and scheme.startswith("CGKO06"):
        kwlen = rnd.randint(2, max(2, min(cfg["param_l"], 10)))
    return sc.make_db(profile, sc.id_size_of(cfg), rnd, kw_len=kwlen)


def run_labels(job):
    scheme, gi, cfg, profile, sigma, sd = job[:6]
    ranked = len(job) > 6 and job[6]
    rnd = random.Random(sd)
    db = make_db(scheme, cfg, profile, rnd)
    cfg = se.fit(scheme, cfg, profile, db)
    kws = list(db)
    db2 = {kws[i - 1]: db[kws[i - 1]] for i in sigma}          # the same database, keywords supplied in the order sigma
    rec = {"kind": "labels", "scheme": scheme, "p": list(profile), "sigma": list(sigma), "c": se.numbers(scheme, cfg),
           "setup": "raised", "tables": []}
    out = {"rec": rec, "meta": {"kind": "labels", "scheme": scheme, "gi": gi, "cfg": cfg, "p": list(profile), "sigma": list(sigma), "seed": sd}, "err": ""}
    ml = sc.load(scheme)
    cm = construction_module(ml)
    try:
        sch = ml.SSEScheme(cfg)
        key = sch.KeyGen()                                       # ONE key for both setups
        with det_random(cm, sd):
            e1 = sch.EDBSetup(key, db)
        with det_random(cm, sd):
            e2 = sch.EDBSetup(key, db2)
        rec["setup"] = "built"
    except MachineryError:
        raise
    except Exception as ex:
        out["err"] = "%s: %s" % (type(ex).__name__, str(ex)[:100])
        return out
    t1, t2 = label_tables(scheme, ml, e1), label_tables(scheme, ml, e2)
    if [n for n, _ in t1] != [n for n, _ in t2]:
        t2 = t2 + [(n, []) for n, _ in t1[len(t2):]]              # a missing table shows as foreign / missing labels
    for (name, a), (_n2, b) in zip(t1, t2):
        where = {lab: i + 1 for i, lab in enumerate(a)}
        if ranked:
            # large tables: every label is replaced by <<its rank among all labels of the two sequences>> - an order
            # isomorphism, so "sorted" and "same sequence" are what they were
            rank = {lab: i for i, lab in enumerate(sorted(set(map(bytes, a)) | set(map(bytes, b))))}
            ra, rb = [[rank[bytes(x)]] for x in a], [[rank[bytes(x)]] for x in b]
        else:
            ra, rb = [list(x) for x in a], [list(x) for x in b]
        rec["tables"].append({"name": name, "a": ra, "b": rb, "bpos": [where.get(x, 0) for x in b]})
        out["meta"]["foreign"] = out["meta"].get("foreign", 0) + sum(1 for x in b if x not in where)
    return out


# ----------------------------------------------------------------------------- recording list for (ii)
class RecList(list):
    """a list that logs the indices read through it while a log is attached"""
    log = None
    tag = 0

    def __getitem__(self, i):
        if self.log is not None:
            self.log.append([self.tag, i] if self.tag is not None else [i])
        return list.__getitem__(self, i)


def wrap_lists(scheme, edb):
    """replace the list-typed members of the index by recording lists; returns them"""
    recs = []
    if scheme == "DP17.Pi":
        for lev in list(edb.A_dict):
            r = RecList(edb.A_dict[lev])
            r.tag = int(lev)
            edb.A_dict[lev] = r
            recs.append(r)
    else:
        r = RecList(edb.A)
        r.tag = None
        edb.A = r
        recs.append(r)
    return recs


class SearchFailed(Exception):
    pass


def slots_per_keyword(scheme, sch, key, edb, db):
    recs = wrap_lists(scheme, edb)
    runs = []
    for kw in db:
        log = []
        for r in recs:
            r.log = log
        try:
            try:
                tok = sch.TokenGen(key, kw)
                sch.Search(edb, tok)
            except Exception as ex:       # the code under test refuses a valid search: an observation (NoRaiseOnValid)
                raise SearchFailed("Search %s: %s" % (type(ex).__name__, str(ex)[:100]))
        finally:
            for r in recs:
                r.log = None
        runs.append([[int(x) for x in s] for s in log])
    return runs


def dp_occupants(sch, key, edb, db, runs):
    """for every bucket some search read: who sits at each position (keyword number, identifier number) or (0, 0)"""
    clen = sch.config.param_identifier_cipher_len
    lam = sch.config.param_lambda
    toks = [(ki + 1, sch.TokenGen(key, kw).etag, {x: j + 1 for j, x in enumerate(db[kw])}) for ki, kw in enumerate(db)]
    seen, out = set(), []
    for lev, b in [x for run in runs for x in run]:
        if (lev, b) in seen:
            continue
        seen.add((lev, b))
        blob = list.__getitem__(edb.A_dict[lev], b)
        occ = []
        for off in range(0, len(blob), clen):
            e = blob[off:off + clen]
            who = [0, 0]
            for ki, etag, ids in toks:
                try:
                    pt = sch.config.rnd.Decrypt(etag, e)
                except Exception:         # not this keyword's entry (however the cipher says so)
                    continue
                if pt[-lam:] == b"\x00" * lam and pt[:-lam] in ids:
                    who = [ki, ids[pt[:-lam]]]
                    break
            occ.append(who)
        out.append({"lev": lev, "b": b, "occ": occ})
    return out


def run_moves(job):
    scheme, gi, cfg, profile, sd = job
    rnd = random.Random(sd)
    db = make_db(scheme, cfg, profile, rnd)
    cfg = se.fit(scheme, cfg, profile, db)
    rec = {"kind": "moves", "scheme": scheme, "p": list(profile), "c": se.numbers(scheme, cfg), "setup": "raised",
           "samekey": False, "run1": [], "run2": [], "inb1": [], "inb2": [], "partial": False}
    out = {"rec": rec, "meta": {"kind": "moves", "scheme": scheme, "gi": gi, "cfg": cfg, "p": list(profile), "seed": sd}, "err": ""}
    ml = sc.load(scheme)
    try:
        sch = ml.SSEScheme(cfg)
        k1 = sch.KeyGen()
        e1 = sch.EDBSetup(k1, db)
        # "with a fresh key where placement is key-derived": whether it is, is the construction's business, so the second
        # setup always gets a key of its own (random placement moves the blocks whatever the key)
        k2 = sch.KeyGen()
        e2 = sch.EDBSetup(k2, db)
        rec["setup"] = "built"
    except Exception as ex:
        rec["setup"] = "raised"
        out["err"] = "%s: %s" % (type(ex).__name__, str(ex)[:100])
        return out
    # from here on the harness looks INTO the index (list-typed members, bucket contents): a failure of that access is the
    # harness being out of date, not the scheme refusing a valid database
    try:
        # a large database: the searches of 48 keywords (the first and the last 24) are observed - that every one of them reads
        # the same slots in both indexes is no likelier for that - and the occupants of the buckets six of them read
        kws = list(db)
        dbs = db if len(kws) <= 100 else {w: db[w] for w in kws[:24] + kws[-24:]}
        rec["partial"] = dbs is not db
        rec["run1"] = slots_per_keyword(scheme, sch, k1, e1, dbs)
        rec["run2"] = slots_per_keyword(scheme, sch, k2, e2, dbs)
        if scheme == "DP17.Pi":
            lim = 6 if (dbs is not db or sum(profile) > 1000) else None
            rec["inb1"] = dp_occupants(sch, k1, e1, db, rec["run1"][:lim])
            rec["inb2"] = dp_occupants(sch, k2, e2, db, rec["run2"][:lim])
            for inb in (rec["inb1"], rec["inb2"]):
                if inb and not any(w[0] for bk in inb for w in bk["occ"]):
                    raise MachineryError("no entry of the buckets read could be attributed to a keyword: the harness does not understand the bucket format")
    except SearchFailed as ex:
        rec["setup"] = "raised"
        out["err"] = str(ex)
    except MachineryError:
        raise
    except Exception as ex:
        raise MachineryError("C06 cannot read the placement from the index of %s (%s: %s)" % (scheme, type(ex).__name__, str(ex)[:120]))
    return out


# ----------------------------------------------------------------------------- model side
def pick_profiles(profs, rnd, k):
    ok = [list(pr["p"]) for pr in profs if pr["valid"] and pr["outcome"] == "built" and 2 <= len(pr["p"]) <= 4]
    ok.sort(key=lambda p: (sum(p), len(p), p))
    if len(ok) <= k:
        return ok
    chosen = [ok[0], ok[-1]]
    rest = [p for p in ok if p not in chosen]
    rnd.shuffle(rest)
    # prefer four keywords (24 orders) and unequal lengths
    rest.sort(key=lambda p: (-len(p), -len(set(p))))
    half = (k - 2) // 2
    chosen += rest[:half]
    tail = rest[half:]
    rnd.shuffle(tail)
    chosen += tail[:k - len(chosen)]
    return chosen


def model_orders(cases):
    """cases: [(scheme, c, [profiles])] -> emitted (ci, pi, sigma), TLCResult"""
    lit = "<<" + ",\n ".join("[s |-> \"%s\", c |-> %s, ps |-> %s]" % (s, se.tla_literal(c), se.tla_literal(ps)) for s, c, ps in cases) + ">>"
    wrapper = "---- MODULE MCO ----\nEXTENDS MC_Order\nCasesDef == %s\n====\n" % lit
    cfgtxt = "CONSTANTS Cases <- CasesDef\nSPECIFICATION Spec\nINVARIANT LabelOrder\nINVARIANT Teeth\nINVARIANT Emit\nCHECK_DEADLOCK FALSE\n"
    r = run_tlc("MCO", cfgtxt, workers=4, extra_modules={"MCO": wrapper}, name="order", heap="2g", coverage=True)
    em = []
    for raw in parse_printed(r.out, "H"):
        v = tla_value(raw)
        em.append((v[1] - 1, v[2] - 1, v[3]))
    teeth = {}
    for raw in parse_printed(r.out, "T"):
        v = tla_value(raw)
        teeth.setdefault(v[2], set()).add(v[1])
    for s in {c[0] for c in cases}:
        if teeth.get(s) != {"none", "byvalue"}:
            raise MachineryError("MC_Order: LabelOrder does not fail for %s without the sort / with a sort on the value (%s)" % (s, teeth.get(s)))
    if not r.coverage.get("Next"):
        raise MachineryError("MC_Order: Next never fired")
    return em, r


SMALL_INSTANCES = [   # (scheme, overrides of the default configuration, profile): exhaustive placement exploration
    ("CJJ14.PiPtr", {"param_B": 2, "param_b": 2}, [3, 2, 2]), ("CJJ14.PiPtr", {"param_B": 2, "param_b": 2}, [4, 3, 2]),
    ("CJJ14.PiPtr", {"param_B": 1, "param_b": 1}, [2, 2, 1, 1]),
    ("CJJ14.Pi2Lev", {"param_B": 2, "param_b": 2, "param_B_prime": 2, "param_b_prime": 2}, [3, 4]),
    ("CJJ14.Pi2Lev", {"param_B": 2, "param_b": 2, "param_B_prime": 2, "param_b_prime": 2}, [5, 3]),
    ("CGKO06.SSE1", {"param_s": 8, "param_dictionary_size": 4}, [2, 1]), ("CGKO06.SSE1", {"param_s": 8, "param_dictionary_size": 4}, [2, 2]),
    ("DP17.Pi", {"param_actual_storage_level_ratio": 1, "param_L": 1}, [2, 2, 2, 2]),
    ("DP17.Pi", {"param_actual_storage_level_ratio": 1, "param_L": 2}, [3, 2, 1]),
    ("DP17.Pi", {"param_actual_storage_level_ratio": 0.5, "param_L": 1}, [1, 1, 1, 1, 1, 1]),
    ("DP17.Pi", {}, [2, 1, 1]),
    ("DP17.Pi", {"param_actual_storage_level_ratio": 1, "param_L": 1}, [4, 2, 1, 1]),
]


def cfg_of(scheme, g):
    c = sc.default_config(scheme)
    c.update(g)
    return c


def numbers_for(scheme, cfg, profile):
    probe = {b"k": [b"\x01" * sc.id_size_of(cfg)]}
    return se.numbers(scheme, se.fit(scheme, cfg, profile, probe))


def kwfixed_teeth():
    """The per-keyword clause Order!MovesKwFixed evaluated by TLC on hand-made observations (it must fire on a placement that is
    fixed for one level and must stay silent otherwise): -> dict for the evidence; MachineryError if an expectation fails."""
    p = [8] * 24 + [2000, 2000]
    c = numbers_for("DP17.Pi", sc.default_config("DP17.Pi"), p)
    lit = se.tla_literal

    def runs(small, big):
        return lit([[[3, b]] for b in small] + [[[13, b]] for b in big])
    same = list(range(24))
    other = [100 + 3 * i for i in range(24)]
    few = [i if i < 3 else 200 + i for i in range(24)]
    cases = [("fixed-level", runs(same, [0, 1]), runs(same, [1, 0]), "TRUE"),            # 24 short lists in identical buckets
             ("all-moved", runs(same, [0, 1]), runs(other, [1, 0]), "FALSE"),
             ("three-coincide", runs(same, [0, 1]), runs(few, [1, 0]), "FALSE"),            # 3 * 9 < 26 + 27
             ("only-the-one-bucket-level", runs(same, [0, 0]), runs(other, [0, 0]), "FALSE")]  # level 13 has a single bucket
    body = "\n".join('ASSUME PrintT(<<"T", "%s", MovesKwFixed("DP17.Pi", P0, C0, %s, %s)>>) /\\ (MovesKwFixed("DP17.Pi", P0, C0, %s, %s) = %s)'
                     % (n, a, b, a, b, exp) for n, a, b, exp in cases)
    wrapper = "---- MODULE MCKW ----\nEXTENDS Order, TLC\nVARIABLE x\nP0 == %s\nC0 == %s\n%s\nInit == x = 0\nNext == UNCHANGED x\n====\n" % (lit(p), lit(c), body)
    r = run_tlc("MCKW", "INIT Init\nNEXT Next\nCHECK_DEADLOCK FALSE\n", workers=1, extra_modules={"MCKW": wrapper}, name="kwfixed", heap="1g",
                allow_violation=True)
    if "Assumption" in r.out and "is false" in r.out:
        raise MachineryError("Order!MovesKwFixed does not behave as expected on the hand-made observations:\n" + r.out[-800:])
    got = {tla_value(raw)[1]: tla_value(raw)[2] for raw in parse_printed(r.out, "T")}
    if len(got) != len(cases):
        raise MachineryError("Order!MovesKwFixed teeth: %d of %d assumptions evaluated" % (len(got), len(cases)))
    return {"clause": "Moves:keywords-fixed (Order!MovesKwFixed)", "hand_made_observations": got}


def move_candidates(tr, rnd):
    """candidate (scheme, gi, cfg, profile): the model (FamilyOK) decides which of them are usable"""
    out = []
    per = 14 if tr == "quick" else 40
    for gi, cfg in enumerate(se.grid("CJJ14.PiPtr", tr)):
        B = cfg["param_B"]
        for _ in range(per):
            k = rnd.randint(3, 9)
            out.append(("CJJ14.PiPtr", gi, cfg, [rnd.randint(1, 4 * B) for _ in range(k)]))
    for gi, cfg in enumerate(se.grid("CJJ14.Pi2Lev", tr)):
        B, b, Bp, bp = cfg["param_B"], cfg["param_b"], cfg["param_B_prime"], cfg["param_b_prime"]
        top = min(B * Bp * bp - 1, 6 * B)
        for _ in range(per):
            k = rnd.randint(3, 10)
            out.append(("CJJ14.Pi2Lev", gi, cfg, [rnd.randint(1, top) for _ in range(k)]))
    for gi, cfg in enumerate(se.grid("CGKO06.SSE1", tr)):
        s, d = cfg["param_s"], cfg["param_dictionary_size"]
        if s < 16:
            continue
        for _ in range(per):
            n = rnd.randint(12, min(s - 1, 40))
            k = rnd.randint(1, min(d, n, 8))
            cuts = sorted(rnd.sample(range(1, n), k - 1))
            out.append(("CGKO06.SSE1", gi, cfg, [b - a for a, b in zip([0] + cuts, cuts + [n])]))
    for gi, cfg in enumerate(se.grid("DP17.Pi", tr)):
        for n, k in ((1, 16), (1, 24), (1, 64), (2, 12), (2, 16), (2, 24), (4, 12), (4, 16), (8, 12), (3, 16)):
            out.append(("DP17.Pi", gi, cfg, [n] * k))
        for _ in range(per):
            k = rnd.randint(12, 28)
            out.append(("DP17.Pi", gi, cfg, [rnd.randint(1, rnd.choice([2, 4, 6])) for _ in range(k)]))
    # large databases with the default configurations (a placement that turns deterministic above a size threshold)
    # N = 4192: levels 13, 8, 3; the 24 short lists go to level 3, which has 525 buckets (the two long lists only make N large)
    out.append(("DP17.Pi", -4, sc.default_config("DP17.Pi"), [8] * 24 + [2000, 2000]))
    if tr == "thorough":
        # every list short, N = 4160: ALL 520 chunks go to the 521 buckets of level 3 (the compact family above keeps two long
        # lists, whose random placement alone makes the two runs differ); MC_Place needs about two minutes for it
        out.append(("DP17.Pi", -5, sc.default_config("DP17.Pi"), [8] * 520))
    out.append(("CJJ14.PiPtr", -4, sc.default_config("CJJ14.PiPtr"), [100] * 170))
    out.append(("CJJ14.Pi2Lev", -4, sc.default_config("CJJ14.Pi2Lev"), [100] * 170))
    return out


def model_places(cands):
    insts = [(s, numbers_for(s, cfg_of(s, g), p), p) for s, g, p in SMALL_INSTANCES]

    def lit(xs):
        return "<<" + ",\n ".join("[s |-> \"%s\", c |-> %s, p |-> %s]" % (s, se.tla_literal(c), se.tla_literal(p)) for s, c, p in xs) + ">>"
    cl = [(s, numbers_for(s, cfg, p), p) for s, gi, cfg, p in cands]
    wrapper = "---- MODULE MCPL ----\nEXTENDS MC_Place\nInstDef == %s\nCandDef == %s\n====\n" % (lit(insts), lit(cl))
    cfgtxt = ("CONSTANTS Instances <- InstDef\nCandidates <- CandDef\nSPECIFICATION Spec\nINVARIANT BoundHolds\nINVARIANT ChoiceNeverEmpty\n"
              "INVARIANT InstanceValid\nINVARIANT EmitPlacement\nINVARIANT EmitFamily\nCHECK_DEADLOCK FALSE\n")
    r = run_tlc("MCPL", cfgtxt, workers=4, extra_modules={"MCPL": wrapper}, name="place", heap="2g", coverage=True,
                env={"JAVA_TOOL_OPTIONS": "-Xss64m"})          # deep (not infinite) recursion over 20-30 keywords in the worker threads
    counts = {}
    for raw in parse_printed(r.out, "P"):
        v = tla_value(raw)
        e = counts.setdefault(v[1] - 1, {"placements": 0, "min_weight": None, "bound": v[3]})
        e["placements"] += 1
        e["min_weight"] = v[2] if e["min_weight"] is None else min(e["min_weight"], v[2])
    inst_out = []
    for i, (s, g, p) in enumerate(SMALL_INSTANCES):
        e = counts.get(i)
        if not e:
            raise MachineryError("MC_Place: no complete placement for instance %d (%s %s)" % (i, s, p))
        if s != "DP17.Pi" and e["placements"] != e["bound"]:
            raise MachineryError("MC_Place: %s %s has %d placements, closed form says %d" % (s, p, e["placements"], e["bound"]))
        inst_out.append({"scheme": s, "p": p, "placements_enumerated": e["placements"], "min_choice_product": e["min_weight"], "closed_form_bound": e["bound"]})
    fam = {}
    for raw in parse_printed(r.out, "F"):
        v = tla_value(raw)
        fam[v[1] - 1] = {"ok": v[2], "blocks": v[3], "factors": v[4], "inbucket": v[5]}
    if len(fam) != len(cands):
        raise MachineryError("MC_Place judged %d of %d candidate families" % (len(fam), len(cands)))
    if not r.coverage.get("Place"):
        raise MachineryError("MC_Place: Place never fired")
    return fam, inst_out, r


def prod(xs):
    n = 1
    for x in xs:
        n *= x
    return n


def strip(i, o):
    return {"tid": "r%d" % i, "ev": [o["rec"]]}


def main(argv_tier=None, replay_path=None):
    t0 = time.time()
    tr = tier(argv_tier)
    fs.setup_env(REPO)
    if replay_path:
        with open(replay_path) as fh:
            m = json.load(fh)["meta"]
        if m["kind"] == "labels":
            o = run_labels((m["scheme"], m["gi"], m["cfg"], m["p"], m["sigma"], m["seed"], len(m["p"]) >= 100))
        else:
            o = run_moves((m["scheme"], m["gi"], m["cfg"], m["p"], m["seed"]))
        verdicts, _ = validate_traces("Trace_Order", [strip(0, o)])
        print(json.dumps(o, indent=1, default=str)[:5000])
        print(verdicts)
        return 0 if verdicts["r0"]["ok"] else 1
    rnd = random.Random(seed() + 6)
    sd = seed() * 1000003
    model = {"distinct": 0, "generated": 0, "runs": []}

    # ---- (i) model: profiles, all permutations
    kprof = 5 if tr == "quick" else 16
    cases = []            # (scheme, c, profiles) + bookkeeping
    book = []
    for s in LABEL_SCHEMES:
        for gi, cfg in enumerate(se.grid(s, tr)):
            profs, r, c = se.model_profiles(s, cfg, tr, extra_inv=False)
            model["distinct"] += r.distinct or 0
            model["generated"] += r.generated or 0
            ps = pick_profiles(profs, rnd, kprof)
            if not ps:
                raise MachineryError("no profile with 2..4 keywords for %s cfg %d" % (s, gi))
            cases.append((s, c, ps))
            book.append((s, gi, cfg))
            model["runs"].append({"scheme": s, "cfg": gi, "profiles": len(profs), "picked": len(ps)})
    emitted, ro = model_orders(cases)
    model["distinct"] += ro.distinct or 0
    model["generated"] += ro.generated or 0
    model["order_states"] = ro.distinct
    jobs = []
    for ci, pi, sg in emitted:
        s, gi, cfg = book[ci]
        jobs.append((s, gi, cfg, cases[ci][2][pi], sg, sd + len(jobs)))
    nperm = len(jobs)
    # random larger databases with the default configurations, random orders
    nbig = 4 if tr == "quick" else 30
    for s in LABEL_SCHEMES:
        d = sc.default_config(s)
        for gi, cfg in [(-1, d)] + list(enumerate(se.grid(s, tr)))[:2]:
            for _ in range(nbig):
                k = rnd.randint(5, 20)
                top = 6
                if s == "CJJ14.Pi2Lev":
                    top = min(6, cfg["param_B"] * cfg["param_B_prime"] * cfg["param_b_prime"] - 1)
                p = [rnd.randint(1, top) for _ in range(k)]
                sg = list(range(1, k + 1))
                rnd.shuffle(sg)
                jobs.append((s, gi, cfg, p, sg, sd + len(jobs)))
    # large databases (more than 2^14 keyword-identifier pairs: batching / chunked construction thresholds), keyword order
    # reversed; labels are passed to TLC as ranks
    big_schemes = LABEL_SCHEMES if tr == "thorough" else LABEL_SCHEMES[(sd % 2)::2] + ["CJJ14.PiBas"]
    for s in dict.fromkeys(big_schemes):
        # (PiBas: 70 000 pairs - setup is cheap there; the others: 20 000)
        k, lo, hi = (350, 190, 210) if s == "CJJ14.PiBas" else (170, 100, 140)
        p = [rnd.randint(lo, hi) for _ in range(k)]
        jobs.append((s, -4, sc.default_config(s), p, list(range(k, 0, -1)), sd + len(jobs), True))
    # ---- (ii) model: placement bounds, usable families
    cands = move_candidates(tr, rnd)
    fam, inst_out, rp = model_places([(s, gi, cfg, p) for s, gi, cfg, p in cands])
    model["distinct"] += rp.distinct or 0
    model["generated"] += rp.generated or 0
    per_cfg = 3 if tr == "quick" else 10
    taken, mjobs, bounds = {}, [], []
    # among the families the model accepts (>= 1e8 placements) prefer those with >= 1e12, so that the false-alarm probability
    # summed over all cases of a run stays far below 1e-8 as well
    def strength(i):
        f = fam[i]
        return min(prod(f["factors"]), prod(f["inbucket"]) if f["inbucket"] else 10 ** 30)
    order = [i for i in range(len(cands)) if fam[i]["ok"] and strength(i) >= 10 ** 12] + [i for i in range(len(cands)) if fam[i]["ok"] and strength(i) < 10 ** 12]
    for i in order:
        s, gi, cfg, p = cands[i]
        f = fam[i]
        if taken.get((s, gi), 0) >= per_cfg:
            continue
        taken[(s, gi)] = taken.get((s, gi), 0) + 1
        den = prod(f["factors"])
        if den < NEED:
            raise MachineryError("FamilyOK accepted %s %s with only %d placements" % (s, p, den))
        def inv(x):
            return "%.3e" % (1.0 / x) if x.bit_length() < 990 else "1e-298"

        def big(x):
            return str(x) if x.bit_length() < 190 else "> 2^%d" % (x.bit_length() - 1)
        b = {"scheme": s, "cfg": gi, "p": p if len(p) <= 40 else "%s x %d ..." % (p[0], len(p)), "array_blocks": f["blocks"],
             "equally_likely_placements_at_least": big(den), "p_identical_two_setups_at_most": inv(den)}
        if s == "DP17.Pi":
            den2 = prod(f["inbucket"])
            b["inbucket_arrangements_at_least"] = big(den2)
            b["p_append_order_at_most"] = inv(den2)
        bounds.append(b)
        mjobs.append((s, gi, cfg, p, sd + 500000 + len(mjobs)))
    for s in MOVE_SCHEMES:
        if not any(k[0] == s for k in taken):
            raise MachineryError("no usable database family for clause Moves of %s" % s)
    total_fa = sum(float(b["p_identical_two_setups_at_most"]) + 2 * float(b.get("p_append_order_at_most", "0")) for b in bounds)
    # ---- execute
    outs = pmap(run_labels, jobs) + pmap(run_moves, mjobs)
    traces = [strip(i, o) for i, o in enumerate(outs)]
    verdicts, agg = validate_traces("Trace_Order", traces, shards=12)
    rej, drift = [], []
    for i, o in enumerate(outs):
        v = verdicts["r%d" % i]
        m = o["meta"]
        if not v["ok"]:
            if v["clause"] in ("ValidDomain", "Family", "unknown-kind"):
                raise MachineryError("case %s is outside the property's domain (%s)" % (m, v["clause"]))
            rej.append({"key": "%s:%s" % (m["scheme"], v["clause"]), "out": o, "verdict": v})
        elif v["clause"] == "DRIFT":
            drift.append({"kind": m["kind"], "scheme": m["scheme"], "p": m["p"], "cfg": m["gi"]})
    viol, seen = classify(PROP, rej)
    vio_out, per_key = [], {}
    for x in viol:
        m = x["out"]["meta"]
        per_key[x["key"]] = per_key.get(x["key"], 0) + 1
        p = ""
        if per_key[x["key"]] <= 2 and len([1 for _d, pp in vio_out if pp]) < 40:
            p = write_replay(PROP, "%s-%s-%d" % (m["scheme"].replace(".", "_"), x["verdict"]["clause"].replace(":", "_"), per_key[x["key"]]),
                             {"meta": m, "verdict": x["verdict"], "err": x["out"]["err"], "record": x["out"]["rec"]})
        vio_out.append(("%s %s cfg=%s p=%s sigma=%s clause=%s %s" % (m["kind"], m["scheme"], m["gi"], m["p"], m.get("sigma", ""), x["verdict"]["clause"], x["out"]["err"]), p))
    vio_out.sort(key=lambda a: a[1] == "")
    for d in drift[:10]:
        print("DRIFT property=%s %s %s profile=%s: sizes differ from the layout model" % (PROP, d["kind"], d["scheme"], d["p"]))
    lab = [o for o in outs if o["meta"]["kind"] == "labels"]
    mov = [o for o in outs if o["meta"]["kind"] == "moves"]
    # clause Moves:inbucket:realsfirst applies where the partially filled buckets read make "real entries first everywhere" a
    # <= 1e-8 coincidence (same arithmetic as Order!LeadGuard; evidence only, TLC judges)
    def lead_guard(inb):
        den = 1
        for bk in inb:
            n, r = len(bk["occ"]), sum(1 for w in bk["occ"] if w[0])
            if 0 < r < n:
                den *= n if r in (1, n - 1) else n * (n - 1) // 2
        return den
    dp_guards = [min(lead_guard(o["rec"]["inb1"]), lead_guard(o["rec"]["inb2"])) for o in mov if o["meta"]["scheme"] == "DP17.Pi" and o["rec"]["setup"] == "built"]
    total_fa += sum((2.0 / g if g.bit_length() < 990 else 0.0) for g in dp_guards if g >= NEED)
    sample_lab = copy.deepcopy(lab[len(lab) // 3]["rec"])
    for t in sample_lab["tables"]:
        t["a"] = [bytes(x).hex() for x in t["a"]]
        t["b"] = [bytes(x).hex() for x in t["b"]]
    cov = {
        "states": model["distinct"], "transitions": model["generated"], "model_runs": model["runs"],
        "model": "Layer B spec/sse/Order.tla: MC_Order (%d states: all keyword permutations of %d profiles x 3 keys x dummy splits; LabelOrder; fails without sort / with sort on value), "
                 "MC_Place (placement as uniform choices, BoundHolds, ChoiceNeverEmpty; FamilyOK over %d candidate families); Layer A Trace_Order"
                 % (ro.distinct or 0, sum(len(c[2]) for c in cases), len(cands)),
        "placement_instances": inst_out,
        "per_keyword_clause": kwfixed_teeth(),
        "moves_bound": {"rule": "P(two independent setups place every block identically) <= max over placements of its probability = 1 / (product of the sizes of the choice "
                                "sets along the placement) <= 1 / prod(factors); PiPtr / Pi2Lev: m blocks on m usable slots, m! (m >= 12: 1/12! = 2.1e-9); SSE1 (fresh key, ideal "
                                "PRP on s addresses): s!/(s-N)!; DP17: k-th chunk of level i chooses among >= floor(N/2^i) + 1 - floor((k-1)/(2^i div cmax + 1)) buckets; "
                                "DP17 in-bucket: >= (bs!)^(E div bs) * bs!/(bs - E mod bs)! arrangements, one of which is the append order. Checked exhaustively on "
                                "placement_instances (BoundHolds), applied to the families below (FamilyOK: >= 12 blocks, product >= 1e8).",
                        "families": bounds, "false_alarm_probability_of_this_run_at_most": "%.3e" % total_fa},
        "traces_validated_against_impl": len(outs), "trace_validation_states": agg["distinct"],
        "label_cases": len(lab),
        "dp17_cases_where_realsfirst_clause_applies": "%d of %d" % (sum(1 for g in dp_guards if g >= NEED), len(dp_guards)),
        "label_cases_with_identical_label_sets": sum(1 for o in lab if o["rec"]["setup"] == "built" and not o["meta"].get("foreign", 0)),
        "label_cases_from_model_permutations": nperm, "moves_cases": len(mov),
        "evaluations": 2 * len(outs),
        "distinct_nontrivial": len({(o["meta"]["scheme"], o["meta"]["gi"], tuple(o["meta"]["p"]), tuple(o["meta"].get("sigma", ()))) for o in outs
                                    if o["meta"]["kind"] == "moves" or o["meta"]["sigma"] != sorted(o["meta"]["sigma"])}),
        "rule": "labels: one record per (scheme, configuration, profile, permutation of the keyword order) = two EDBSetup runs under one key with the construction module's "
                "os.urandom / random replayed from one stream; all permutations of the model's profiles (<= 4 keywords) plus random orders of larger databases; "
                "moves: one record per (scheme, configuration, database family accepted by FamilyOK) = two setups + a search for every keyword each; "
                "evaluations = EDBSetup runs; non-trivial = distinct cases with a non-identity permutation, or moves cases",
        "drift": drift[:20], "drift_count": len(drift),
        "samples": [sample_lab, mov[0]["rec"]],
    }
    return finish(PROP, tr, t0, cov, vio_out, seen,
                  assumptions=["(i) one fixed key per database; os.urandom and random as seen from the construction module replaced by a deterministic stream re-seeded identically for "
                               "both setups (dummy keywords / padding labels of CT14 and ANSS16 are then the same); the IVs of the symmetric encryption stay random. Where a "
                               "construction draws its padding from another source the two label sets differ and the clause speaks of the labels common to both plus the sortedness of each",
                               "(ii) Python's random and os.urandom are uniform; SSE-1's PRP behaves like a random permutation under a fresh key; "
                               "a two-run observation with the stated false-alarm bound, not a proof of uniformity",
                               "label order is the key order of the dicts obtained by unpickling EDB.serialize() after the header"])
