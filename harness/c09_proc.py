"""C09, process level: the documented workflow run through the REAL command line programs - `run_server.py start` as one
process and one `run_client.py <command>` process per step (so every step is, by construction, a client re-created from its
files; the alias registry, the JSON database with hex identifiers and the output formats are the real ones, nothing of the
in-process seams of fe_world is in force: real TCP loopback, the real one-second cleanup delay, the real 60 s echo limit).
Where the placement says so the server process is killed (SIGKILL) and started again on the same directory.

What a command DID is read from the files (alias registry, persisted flags), never from how its message is worded; the
result of a search is the list literal it prints.  The records have the format of c09_cli / c11 and are judged by
Trace_ClientSM like every other C09 run.

The only seam: the client's server address is the class attribute global_config.ClientConfig.SERVER_URI (the command line
has no option for it); the wrapper `c09_proc_client.py` assigns it before run_client.py is executed."""
import ast
import json
import os
import random
import shutil
import signal
import socket
import subprocess
import sys
import time
import types
import pathlib

from common import REPO, subdir, seed
import sse_common as sc
import c09_cli
import fe_world

HERE = os.path.dirname(os.path.abspath(__file__))
PY = sys.executable
OKFILES = None
STEP_LIMIT = 150      # seconds for one client process (a search that gets no echo gives up after 60 s by itself)


def free_port():
    s = socket.socket()
    s.bind(("127.0.0.1", 0))
    p = s.getsockname()[1]
    s.close()
    return p


class ProcRun:
    def __init__(self, scheme, base, k):
        self.scheme, self.base, self.k = scheme, base, k
        self.chome = os.path.join(base, "cli")
        self.shome = os.path.join(base, "srv")
        os.makedirs(self.chome, exist_ok=True)
        os.makedirs(self.shome, exist_ok=True)
        self.cdir = pathlib.Path(self.chome) / ".sse" / "client"
        self.sdir = pathlib.Path(self.shome) / ".sse"
        self.port = None
        self.server = None
        self.ev = []
        self.sid = ""
        self.keys = []
        self.slog = open(os.path.join(base, "server.log"), "ab")

    # ---------------------------------------------------------------- processes
    def env(self, home):
        e = dict(os.environ, HOME=home, PYTHONDONTWRITEBYTECODE="1", PYTHONHASHSEED="0")
        e.pop("PYTHONPATH", None)
        return e

    def owns_port(self):
        """is the socket listening on self.port one of OUR server process' descriptors?  (two runs may have been handed the
        same free port: the loser's server dies at bind, and a connection test alone would be answered by the winner's)"""
        want = "%04X" % self.port
        inodes = set()
        for table in ("/proc/net/tcp", "/proc/net/tcp6"):
            try:
                with open(table) as fh:
                    for line in fh.readlines()[1:]:
                        f = line.split()
                        if f[1].rsplit(":", 1)[1] == want and f[3] == "0A":
                            inodes.add(f[9])
            except OSError:
                pass
        try:
            for fd in os.listdir("/proc/%d/fd" % self.server.pid):
                try:
                    t = os.readlink("/proc/%d/fd/%s" % (self.server.pid, fd))
                except OSError:
                    continue
                if t.startswith("socket:[") and t[8:-1] in inodes:
                    return True
        except OSError:
            pass
        return False

    def start_server(self):
        for attempt in range(8):
            self.port = free_port()
            self.server = subprocess.Popen([PY, "-B", os.path.join(REPO, "run_server.py"), "start", "--host", "127.0.0.1", "--port", str(self.port)],
                                           cwd=REPO, env=self.env(self.shome), stdout=self.slog, stderr=self.slog, stdin=subprocess.DEVNULL)
            t0 = time.time()
            while time.time() - t0 < 90:
                if self.server.poll() is not None:
                    break
                if self.owns_port():
                    try:
                        socket.create_connection(("127.0.0.1", self.port), timeout=0.5).close()
                        return
                    except OSError:
                        pass
                time.sleep(0.1)
            self.kill_server()
        raise RuntimeError("the server process did not come up (see server.log)")

    def kill_server(self):
        if self.server is not None:
            try:
                self.server.send_signal(signal.SIGKILL)
            except Exception:
                pass
            try:
                self.server.wait(10)
            except Exception:
                pass
            self.server = None

    def client(self, *args):
        """one run_client.py process; -> (stdout text or None when it did not return)"""
        uri = "ws://127.0.0.1:%d" % self.port
        try:
            p = subprocess.run([PY, "-B", os.path.join(HERE, "c09_proc_client.py"), REPO, uri] + list(args), cwd=self.base, env=self.env(self.chome),
                               stdout=subprocess.PIPE, stderr=self.slog, stdin=subprocess.DEVNULL, timeout=STEP_LIMIT, text=True, errors="replace")
            return p.stdout       # log lines (stderr) are not part of what the command prints
        except subprocess.TimeoutExpired:
            return None

    # ---------------------------------------------------------------- observation (files only)
    def observe(self, op, out, correct=False, raw=""):
        import hashlib
        import c11
        w = types.SimpleNamespace(cdir=self.cdir, sdir=self.sdir)
        cs = fe_world.World.client_state(w, self.sid) if self.sid else {"exists": False, "flags": 0, "files": [], "key": "", "cfgd": "", "edb": ""}
        flags = cs["flags"] if cs["exists"] and cs["flags"] >= 0 else 0
        if cs["key"] and cs["key"] not in self.keys:
            self.keys.append(cs["key"])
        dirs = []
        if self.cdir.exists():
            for d in sorted(p.name for p in self.cdir.iterdir() if p.is_dir()):
                if any(f.startswith(("service_meta", "config.json", "key", "edb")) for f in os.listdir(self.cdir / d)):
                    dirs.append(d)
        ss = fe_world.World.server_state(w, self.sid) if self.sid else {"st": 0}
        o = {"exists": bool(cs["exists"] and cs["flags"] >= 0),
             "cc": bool(flags & 1), "cu": bool(flags & 2), "kc": bool(flags & 4), "de": bool(flags & 8), "du": bool(flags & 16),
             "keyVer": len(self.keys) if cs["key"] else 0,
             "sst": ss["st"], "ndirs": len(dirs), "live": False,
             "filesok": set(cs["files"]) <= c11.OKFILES and cs["flags"] != -2,
             "changed": False}
        self.ev.append({"op": op, "out": out, "correct": correct, "raw": (raw or "")[-300:], "o": o})

    def flag(self, name):
        return bool(self.ev and self.ev[-1]["o"].get(name))

    def alias(self, sname):
        try:
            with open(self.cdir / "service_mapping.json") as fh:
                return json.load(fh).get(sname) or ""
        except Exception:
            return ""

    # ---------------------------------------------------------------- the workflow
    def run(self):
        rnd = random.Random(seed() * 31 + self.k)
        self.start_server()
        cfgp = os.path.join(self.base, "cfg.json")
        out = self.client("generate-config", "--scheme", self.scheme, "--save-path", cfgp)
        if out is None or not os.path.exists(cfgp):
            self.ev.append({"op": "noreturn", "out": "none", "correct": False, "raw": "generate-config: " + str(out)[-300:], "o": {}})
            return self.ev
        with open(cfgp) as fh:
            cfg = json.load(fh)
        db = c09_cli.make_json_db(self.scheme, cfg, rnd)
        cfg = sc.fit_config(self.scheme, cfg, {w.encode(): v for w, v in db.items()})
        with open(cfgp, "w") as fh:
            json.dump(cfg, fh)
        dbp = os.path.join(self.base, "db.json")
        with open(dbp, "w") as fh:
            json.dump({w: [x.hex() for x in ids] for w, ids in db.items()}, fh)

        def step(op, fl, *args):
            before = self.flag(fl)
            out = self.client(*args)
            if out is None:
                self.ev.append({"op": "noreturn", "out": "none", "correct": False, "raw": op + ": the client process did not return", "o": {}})
                return False
            self.observe(op, "refused", raw=out)
            if self.flag(fl) and not before:
                self.ev[-1]["out"] = "ok"
            return True

        out = self.client("create-service", "--config", cfgp, "--sname", "svc")
        if out is None:
            self.ev.append({"op": "noreturn", "out": "none", "correct": False, "raw": "create-service did not return", "o": {}})
            return self.ev
        self.sid = self.alias("svc")
        ok = bool(self.sid) and (self.cdir / self.sid).is_dir()
        self.observe("create", "ok" if ok else "refused", raw=out)
        by_sid = self.k % 2 == 1
        who = ["--sid", self.sid] if by_sid and self.sid else ["--sname", "svc"]
        if not step("genkey", "kc", "generate-key", *who):
            return self.ev
        if not step("encrypt", "de", "encrypt-database", "--db-path", dbp, *who):
            return self.ev
        if not step("upconfig", "cu", "upload-config", *who):
            return self.ev
        if not step("upindex", "du", "upload-encrypted-database", *who):
            return self.ev
        restart_at = {0: (0,), 1: (), 2: (0, 2)}[self.k % 3]          # before which search the server is killed and restarted
        for i, fmt in enumerate(c09_cli.FORMATS):
            if i in restart_at:
                self.kill_server()
                self.start_server()
                self.observe("restart", "ok")
            kw = list(db)[i % len(db)] if i != 2 else "absentword"
            exp = c09_cli.expected(db.get(kw, []), fmt)
            sel = ["--sid", self.sid] if i % 2 else ["--sname", "svc"]
            out = self.client("search", "--keyword", kw, "--output-format", fmt, *sel)
            if out is None:
                self.ev.append({"op": "noreturn", "out": "none", "correct": False, "raw": "search did not return", "o": {}})
                return self.ev
            got, good = None, False
            a, b = out.find("["), out.rfind("]")
            if 0 <= a < b:
                try:
                    got = ast.literal_eval(out[a:b + 1])
                except Exception:
                    got = None
                if not isinstance(got, (list, tuple)):
                    got = None
                if got is not None:
                    good = (sorted(map(repr, got)) == sorted(map(repr, exp))) if self.scheme in sc.SET_RESULT else (list(got) == exp)
            self.observe("search", "ok" if got is not None else "refused", correct=good, raw="%s %s -> %s" % (fmt, kw, out))
        return self.ev


def run_proc(scheme, k, uniq=0):
    d = os.path.join(subdir("c09-proc"), "p%d_%d_%s" % (uniq, k, scheme.replace(".", "_")))
    os.makedirs(d, exist_ok=True)
    r = ProcRun(scheme, d, k)
    try:
        ev = r.run()
    finally:
        r.kill_server()
        r.slog.close()
    shutil.rmtree(d, ignore_errors=True)
    return ev
